#!/bin/sh
# Offline setup: build the extractor, regenerate facts from /repo, build the Lean project (models, driver, all
# proof modules) and the Go harness.  Everything comes from files on disk.
set -e
cd "$(dirname "$0")"
export GOFLAGS=-mod=mod GOPROXY=off GOSUMDB=off GOTOOLCHAIN=local CGO_ENABLED=0
mkdir -p .build evidence replays
(cd extract && go build -o ../.build/extract .)
./.build/extract /repo lean/PokerVerif/Generated/Facts.lean
(cd lean && lake build)
cp /repo/go.sum harness/go.sum
(cd harness && go build -tags verif -o ../.build/harness .)
echo setup-ok
