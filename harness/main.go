package main

import (
	"fmt"
	"os"
)

func main() {
	if len(os.Args) < 2 {
		fmt.Fprintln(os.Stderr, "usage: harness <mode> [flags]")
		os.Exit(2)
	}
	switch os.Args[1] {
	case "sm":
		runSM(os.Args[2:])
	case "table":
		runTable(os.Args[2:])
	case "hand":
		runHand(os.Args[2:])
	case "actor":
		runActor(os.Args[2:])
	case "conc":
		runConc(os.Args[2:])
	case "concchild":
		runConcChild(os.Args[2:])
	case "mgr":
		runMgr(os.Args[2:])
	case "mgrchild":
		runMgrChild(os.Args[2:])
	case "ogm":
		runOGM(os.Args[2:])
	case "ogmstress":
		runOGMStress(os.Args[2:])
	default:
		fmt.Fprintln(os.Stderr, "unknown mode", os.Args[1])
		os.Exit(2)
	}
}
