package main

import (
	"encoding/json"
	"errors"
	"fmt"
	"sort"
	"strings"
	"sync"
	"sync/atomic"
	"time"

	"github.com/weedbox/pokerface"
	"github.com/weedbox/pokerface/settlement"
	"github.com/weedbox/pokertable"
	"github.com/weedbox/pokertable/seat_manager"
)

// ---------------------------------------------------------------------------------------------
// Rig: one real table engine with cloning callbacks, hooks, and a pluggable recording backend
// ---------------------------------------------------------------------------------------------

type backendCall struct {
	Ord   int
	Kind  string
	Arg   int64
	InAt  int64 // UpdatedAt of the state handed in (0 for create)
	InCur int   // CurrentPlayer of the state handed in
	OutAt int64 // UpdatedAt of the state returned (0 on error)
	Err   string
	Opts  *pokerface.GameOptions // create only
	Out   *pokerface.GameState   // clone of what was returned
}

type Backend interface {
	pokertable.GameBackend
	Calls() []backendCall
	LastOutAt() int64
}

type recorder struct {
	mu    sync.Mutex
	calls []backendCall
	last  int64
}

func (r *recorder) rec(kind string, arg int64, in *pokerface.GameState, out *pokerface.GameState, err error, opts *pokerface.GameOptions) {
	r.mu.Lock()
	defer r.mu.Unlock()
	c := backendCall{Ord: len(r.calls), Kind: kind, Arg: arg}
	if in != nil {
		c.InAt = in.UpdatedAt
		c.InCur = in.Status.CurrentPlayer
	}
	if err != nil {
		c.Err = err.Error()
	} else if out != nil {
		c.OutAt = out.UpdatedAt
		c.Out = cloneGS(out)
		r.last = out.UpdatedAt
	}
	if opts != nil {
		b, _ := json.Marshal(opts)
		var o pokerface.GameOptions
		json.Unmarshal(b, &o)
		c.Opts = &o
	}
	r.calls = append(r.calls, c)
}

func (r *recorder) Calls() []backendCall {
	r.mu.Lock()
	defer r.mu.Unlock()
	out := make([]backendCall, len(r.calls))
	copy(out, r.calls)
	return out
}

func (r *recorder) LastOutAt() int64 {
	r.mu.Lock()
	defer r.mu.Unlock()
	return r.last
}

func cloneGS(gs *pokerface.GameState) *pokerface.GameState {
	if gs == nil {
		return nil
	}
	b, err := json.Marshal(gs)
	if err != nil {
		return nil
	}
	var s pokerface.GameState
	json.Unmarshal(b, &s)
	return &s
}

// ----- synthetic backend: minimal well-formed hands with an arbitrary chip-conserving result -----

var synthClock int64 = 1_000_000

type SynthBackend struct {
	recorder
	// ResultFn decides the outcome of the hand from the start state: changed[i] for game index i
	ResultFn func(gs *pokerface.GameState) []int64
	// BeforeClosed, when set, is called once the hand's last answer is in and before the closed hand state is returned
	BeforeClosed func()
	// FailCreate makes CreateGame fail (mimics the engine refusing a zero bankroll etc. is built in)
	gameN int64
}

var errSynthUnsupported = errors.New("synthetic backend: operation not part of a synthetic hand")

func (sb *SynthBackend) CreateGame(opts *pokerface.GameOptions) (*pokerface.GameState, error) {
	// the same acceptance checks as pokerface's Start()
	var err error
	hasDealer := false
	for _, p := range opts.Players {
		for _, pos := range p.Positions {
			if pos == "dealer" {
				hasDealer = true
			}
		}
	}
	switch {
	case len(opts.Players) < 2:
		err = pokerface.ErrInsufficientNumberOfPlayers
	case !hasDealer:
		err = pokerface.ErrNoDealer
	}
	if err == nil {
		for _, p := range opts.Players {
			if p.Bankroll <= 0 {
				err = pokerface.ErrNotEnoughBackroll
			}
		}
	}
	if err != nil {
		sb.rec("create", 0, nil, nil, err, opts)
		return nil, err
	}
	n := atomic.AddInt64(&sb.gameN, 1)
	now := atomic.AddInt64(&synthClock, 1000)
	gs := &pokerface.GameState{
		GameID:    fmt.Sprintf("synth-%d-%d", n, now),
		CreatedAt: now,
		UpdatedAt: now,
		Meta: pokerface.Meta{
			Ante: opts.Ante, Blind: opts.Blind, Limit: opts.Limit, HoleCardsCount: opts.HoleCardsCount,
			RequiredHoleCardsCount: opts.RequiredHoleCardsCount, Deck: []string{}, BurnCount: opts.BurnCount,
		},
		Status:  pokerface.Status{CurrentEvent: "ReadyRequested", CurrentPlayer: 0, CurrentRaiser: 0},
		Players: make([]*pokerface.PlayerState, 0),
	}
	for i, p := range opts.Players {
		gs.Players = append(gs.Players, &pokerface.PlayerState{
			Idx: i, Positions: append([]string{}, p.Positions...), Bankroll: p.Bankroll, InitialStackSize: p.Bankroll,
			StackSize: p.Bankroll, Combination: &pokerface.CombinationInfo{}, AllowedActions: []string{},
		})
	}
	out := cloneGS(gs)
	sb.rec("create", 0, nil, out, nil, opts)
	return out, nil
}

func (sb *SynthBackend) ReadyForAll(gs *pokerface.GameState) (*pokerface.GameState, error) {
	if gs.Status.CurrentEvent != "ReadyRequested" {
		sb.rec("readyforall", 0, gs, nil, pokerface.ErrInvalidAction, nil)
		return nil, pokerface.ErrInvalidAction
	}
	// whoever wants to act in the moment between the hand's last accepted answer and its settlement does it here: this
	// runs on the ready group's goroutine, the engine lock not held, before the closed state reaches the table
	if f := sb.BeforeClosed; f != nil {
		f()
	}
	out := cloneGS(gs)
	changed := sb.ResultFn(out)
	out.Status.CurrentEvent = "GameClosed"
	out.Status.Round = "river"
	out.UpdatedAt = atomic.AddInt64(&synthClock, 1000)
	res := &settlement.Result{Players: []*settlement.PlayerResult{}, Pots: []*settlement.PotResult{}}
	for i, p := range out.Players {
		p.AllowedActions = []string{}
		c := int64(0)
		if i < len(changed) {
			c = changed[i]
		}
		res.Players = append(res.Players, &settlement.PlayerResult{Idx: i, Final: p.Bankroll + c, Changed: c})
		// the losers "folded", the rest show down
		p.Fold = c < 0
		p.Combination = &pokerface.CombinationInfo{Power: 100 + int(c%50)}
	}
	out.Result = res
	sb.rec("readyforall", 0, gs, out, nil, nil)
	return out, nil
}

func (sb *SynthBackend) unsupported(kind string, gs *pokerface.GameState) (*pokerface.GameState, error) {
	sb.rec(kind, 0, gs, nil, errSynthUnsupported, nil)
	return nil, errSynthUnsupported
}

func (sb *SynthBackend) PayAnte(gs *pokerface.GameState) (*pokerface.GameState, error) {
	return sb.unsupported("payante", gs)
}
func (sb *SynthBackend) PayBlinds(gs *pokerface.GameState) (*pokerface.GameState, error) {
	return sb.unsupported("payblinds", gs)
}
func (sb *SynthBackend) Next(gs *pokerface.GameState) (*pokerface.GameState, error) {
	return sb.unsupported("next", gs)
}
func (sb *SynthBackend) Pay(gs *pokerface.GameState, chips int64) (*pokerface.GameState, error) {
	return sb.unsupported("pay", gs)
}
func (sb *SynthBackend) Fold(gs *pokerface.GameState) (*pokerface.GameState, error) {
	return sb.unsupported("fold", gs)
}
func (sb *SynthBackend) Check(gs *pokerface.GameState) (*pokerface.GameState, error) {
	return sb.unsupported("check", gs)
}
func (sb *SynthBackend) Call(gs *pokerface.GameState) (*pokerface.GameState, error) {
	return sb.unsupported("call", gs)
}
func (sb *SynthBackend) Allin(gs *pokerface.GameState) (*pokerface.GameState, error) {
	return sb.unsupported("allin", gs)
}
func (sb *SynthBackend) Bet(gs *pokerface.GameState, chips int64) (*pokerface.GameState, error) {
	return sb.unsupported("bet", gs)
}
func (sb *SynthBackend) Raise(gs *pokerface.GameState, chipLevel int64) (*pokerface.GameState, error) {
	return sb.unsupported("raise", gs)
}
func (sb *SynthBackend) Pass(gs *pokerface.GameState) (*pokerface.GameState, error) {
	// pokerface answers a pass that is not allowed with "ok, unchanged"
	out := cloneGS(gs)
	sb.rec("pass", 0, gs, out, nil, nil)
	return out, nil
}

// ----- recording native backend: real pokerface, stacked deck, fault injection -----

var errInjected = errors.New("injected backend fault")

type RecBackend struct {
	recorder
	native *pokertable.NativeGameBackend
	// DeckFn, when set, replaces the shuffled deck right after CreateGame (no card is dealt before the first ReadyForAll)
	DeckFn func(n int) []string
	// FailOrd: ordinals of backend calls that fail; FailKind: every call of this kind fails while FailKindLeft > 0
	muF          sync.Mutex
	FailOrd      map[int]bool
	FailKind     string
	FailKindLeft int
	ord          int
	// Dwell: time every player-action call spends inside the backend before it is applied (concurrency bursts: widens
	// the window between the engine's validation and its state update; harmless when the engine serialises the calls)
	Dwell time.Duration
}

func NewRecBackend() *RecBackend {
	return &RecBackend{native: pokertable.NewNativeGameBackend(), FailOrd: map[int]bool{}}
}

func (rb *RecBackend) shouldFail(kind string) bool {
	rb.muF.Lock()
	defer rb.muF.Unlock()
	o := rb.ord
	rb.ord++
	if rb.FailOrd[o] {
		return true
	}
	if rb.FailKind == kind && rb.FailKindLeft > 0 {
		rb.FailKindLeft--
		return true
	}
	return false
}

func (rb *RecBackend) wrap(kind string, arg int64, in *pokerface.GameState, f func() (*pokerface.GameState, error)) (*pokerface.GameState, error) {
	if rb.shouldFail(kind) {
		rb.rec(kind, arg, in, nil, errInjected, nil)
		return nil, errInjected
	}
	if rb.Dwell > 0 {
		switch kind {
		case "pass", "fold", "check", "call", "allin", "bet", "raise":
			time.Sleep(rb.Dwell)
		}
	}
	out, err := f()
	rb.rec(kind, arg, in, out, err, nil)
	return out, err
}

func (rb *RecBackend) CreateGame(opts *pokerface.GameOptions) (*pokerface.GameState, error) {
	if rb.shouldFail("create") {
		rb.rec("create", 0, nil, nil, errInjected, opts)
		return nil, errInjected
	}
	out, err := rb.native.CreateGame(opts)
	if err == nil && rb.DeckFn != nil {
		if d := rb.DeckFn(len(opts.Players)); d != nil {
			out.Meta.Deck = d
		}
	}
	rb.rec("create", 0, nil, out, err, opts)
	return out, err
}
func (rb *RecBackend) ReadyForAll(gs *pokerface.GameState) (*pokerface.GameState, error) {
	return rb.wrap("readyforall", 0, gs, func() (*pokerface.GameState, error) { return rb.native.ReadyForAll(gs) })
}
func (rb *RecBackend) PayAnte(gs *pokerface.GameState) (*pokerface.GameState, error) {
	return rb.wrap("payante", 0, gs, func() (*pokerface.GameState, error) { return rb.native.PayAnte(gs) })
}
func (rb *RecBackend) PayBlinds(gs *pokerface.GameState) (*pokerface.GameState, error) {
	return rb.wrap("payblinds", 0, gs, func() (*pokerface.GameState, error) { return rb.native.PayBlinds(gs) })
}
func (rb *RecBackend) Next(gs *pokerface.GameState) (*pokerface.GameState, error) {
	return rb.wrap("next", 0, gs, func() (*pokerface.GameState, error) { return rb.native.Next(gs) })
}
func (rb *RecBackend) Pay(gs *pokerface.GameState, chips int64) (*pokerface.GameState, error) {
	return rb.wrap("pay", chips, gs, func() (*pokerface.GameState, error) { return rb.native.Pay(gs, chips) })
}
func (rb *RecBackend) Fold(gs *pokerface.GameState) (*pokerface.GameState, error) {
	return rb.wrap("fold", 0, gs, func() (*pokerface.GameState, error) { return rb.native.Fold(gs) })
}
func (rb *RecBackend) Check(gs *pokerface.GameState) (*pokerface.GameState, error) {
	return rb.wrap("check", 0, gs, func() (*pokerface.GameState, error) { return rb.native.Check(gs) })
}
func (rb *RecBackend) Call(gs *pokerface.GameState) (*pokerface.GameState, error) {
	return rb.wrap("call", 0, gs, func() (*pokerface.GameState, error) { return rb.native.Call(gs) })
}
func (rb *RecBackend) Allin(gs *pokerface.GameState) (*pokerface.GameState, error) {
	return rb.wrap("allin", 0, gs, func() (*pokerface.GameState, error) { return rb.native.Allin(gs) })
}
func (rb *RecBackend) Bet(gs *pokerface.GameState, chips int64) (*pokerface.GameState, error) {
	return rb.wrap("bet", chips, gs, func() (*pokerface.GameState, error) { return rb.native.Bet(gs, chips) })
}
func (rb *RecBackend) Raise(gs *pokerface.GameState, chipLevel int64) (*pokerface.GameState, error) {
	return rb.wrap("raise", chipLevel, gs, func() (*pokerface.GameState, error) { return rb.native.Raise(gs, chipLevel) })
}
func (rb *RecBackend) Pass(gs *pokerface.GameState) (*pokerface.GameState, error) {
	return rb.wrap("pass", 0, gs, func() (*pokerface.GameState, error) { return rb.native.Pass(gs) })
}

// ---------------------------------------------------------------------------------------------

type Rig struct {
	te            pokertable.TableEngine
	hk            *pokertable.VerifHooks
	be            Backend
	settledDone   atomic.Int64                   // GameSettled notifications delivered (and their listener returned)
	onSettled     func(*pokertable.Table)        // called inside the GameSettled notification (set with setOnSettled)
	snapHook      func(*pokertable.Table) string // reacts to a snapshot inside the notification; returns a trace line
	inSnapHook    bool
	marks         map[int]string // trace lines noted by snapHook, by snapshot index
	listenerDwell time.Duration  // time the action listener takes (set before the hand starts)
	gone          atomic.Bool    // the history is over: the backend answers nothing any more (abandon)
	setting       pokertable.TableSetting

	mu          sync.Mutex
	snaps       []*pokertable.Table // clones taken inside OnTableUpdated, in emission order
	errs        []string            // OnTableErrorUpdated
	actions     []pokertable.TablePlayerGameAction
	stateEvents []string
	firstGame   int // OnReadyOpenFirstTableGame invocations
	autoEnd     int
	autoSetup   bool // answer OnReadyOpenFirstTableGame with SetUpTableGame like the test suite does
	setups      []string
}

// ----- guard: a history that is over takes its backend away -----
//
// The engine of a finished (or abandoned) history lives on in the child process with its timers: the open-game gate fires
// by itself after 2 s, a hand's ready group completes by itself after its timeout.  If the harness had to abandon the
// history in a state the generator never produces on purpose (a starved harness, the gate opening a hand under a
// between-hands departure — D7), the hand that settles seconds later panics inside the engine's goroutine and takes the
// process, and some unrelated history, with it.  Once a history is over nothing its engine does is judged, so its backend
// answers every call with an error from then on: no hand is created, moved on or closed any more.

var errAbandoned = errors.New("history over: backend withdrawn")

type guardBackend struct {
	Backend
	gone *atomic.Bool
}

func (g guardBackend) CreateGame(opts *pokerface.GameOptions) (*pokerface.GameState, error) {
	if g.gone.Load() {
		return nil, errAbandoned
	}
	return g.Backend.CreateGame(opts)
}
func (g guardBackend) ReadyForAll(gs *pokerface.GameState) (*pokerface.GameState, error) {
	if g.gone.Load() {
		return nil, errAbandoned
	}
	return g.Backend.ReadyForAll(gs)
}
func (g guardBackend) PayAnte(gs *pokerface.GameState) (*pokerface.GameState, error) {
	if g.gone.Load() {
		return nil, errAbandoned
	}
	return g.Backend.PayAnte(gs)
}
func (g guardBackend) PayBlinds(gs *pokerface.GameState) (*pokerface.GameState, error) {
	if g.gone.Load() {
		return nil, errAbandoned
	}
	return g.Backend.PayBlinds(gs)
}
func (g guardBackend) Next(gs *pokerface.GameState) (*pokerface.GameState, error) {
	if g.gone.Load() {
		return nil, errAbandoned
	}
	return g.Backend.Next(gs)
}
func (g guardBackend) Pay(gs *pokerface.GameState, chips int64) (*pokerface.GameState, error) {
	if g.gone.Load() {
		return nil, errAbandoned
	}
	return g.Backend.Pay(gs, chips)
}
func (g guardBackend) Fold(gs *pokerface.GameState) (*pokerface.GameState, error) {
	if g.gone.Load() {
		return nil, errAbandoned
	}
	return g.Backend.Fold(gs)
}
func (g guardBackend) Check(gs *pokerface.GameState) (*pokerface.GameState, error) {
	if g.gone.Load() {
		return nil, errAbandoned
	}
	return g.Backend.Check(gs)
}
func (g guardBackend) Call(gs *pokerface.GameState) (*pokerface.GameState, error) {
	if g.gone.Load() {
		return nil, errAbandoned
	}
	return g.Backend.Call(gs)
}
func (g guardBackend) Allin(gs *pokerface.GameState) (*pokerface.GameState, error) {
	if g.gone.Load() {
		return nil, errAbandoned
	}
	return g.Backend.Allin(gs)
}
func (g guardBackend) Bet(gs *pokerface.GameState, chips int64) (*pokerface.GameState, error) {
	if g.gone.Load() {
		return nil, errAbandoned
	}
	return g.Backend.Bet(gs, chips)
}
func (g guardBackend) Raise(gs *pokerface.GameState, chipLevel int64) (*pokerface.GameState, error) {
	if g.gone.Load() {
		return nil, errAbandoned
	}
	return g.Backend.Raise(gs, chipLevel)
}
func (g guardBackend) Pass(gs *pokerface.GameState) (*pokerface.GameState, error) {
	if g.gone.Load() {
		return nil, errAbandoned
	}
	return g.Backend.Pass(gs)
}

func (r *Rig) markAt(i int) string {
	r.mu.Lock()
	defer r.mu.Unlock()
	return r.marks[i]
}

func (r *Rig) setOnSettled(f func(*pokertable.Table)) {
	r.mu.Lock()
	r.onSettled = f
	r.mu.Unlock()
}

// abandon withdraws the backend: called when the history is over (completed, dropped or hung)
func (r *Rig) abandon() { r.gone.Store(true) }

func NewRig(setting pokertable.TableSetting, be Backend, interval int) (*Rig, error) {
	r := &Rig{be: be, setting: setting}
	opts := pokertable.NewTableEngineOptions()
	opts.GameContinueInterval = interval
	r.te = pokertable.NewTableEngine(opts, pokertable.WithGameBackend(guardBackend{be, &r.gone}))
	r.hk = pokertable.VerifHooksOf(r.te)
	r.te.OnTableUpdated(func(t *pokertable.Table) {
		// the engine hands out its live table; another goroutine may be mutating it while we marshal
		c := safeClone(t)
		if c == nil {
			return
		}
		r.mu.Lock()
		r.snaps = append(r.snaps, c)
		idx := len(r.snaps) - 1
		hook := r.snapHook
		if r.inSnapHook {
			hook = nil // a publication caused by the hook itself
		}
		if hook != nil {
			r.inSnapHook = true
		}
		r.mu.Unlock()
		// a listener that acts on a snapshot before it returns (on the engine's goroutine, the engine lock not held by
		// the hand's updater): whatever it did is noted next to the snapshot it reacted to
		if hook != nil {
			note := hook(c)
			r.mu.Lock()
			r.inSnapHook = false
			if note != "" {
				if r.marks == nil {
					r.marks = map[int]string{}
				}
				r.marks[idx] = note
			}
			r.mu.Unlock()
		}
	})
	r.te.OnTableErrorUpdated(func(t *pokertable.Table, err error) {
		r.mu.Lock()
		r.errs = append(r.errs, err.Error())
		r.mu.Unlock()
	})
	r.te.OnTableStateUpdated(func(ev string, t *pokertable.Table) {
		r.mu.Lock()
		r.stateEvents = append(r.stateEvents, ev+":"+string(t.State.Status))
		f := r.onSettled
		r.mu.Unlock()
		// a listener that reacts to the settlement notification at once (a competition layer re-buying a busted player):
		// the engine is between settleGame and continueGame, on the hand's updater goroutine, the engine lock not held
		if ev == pokertable.TableStateEvent_GameSettled {
			if f != nil {
				f(t)
			}
			r.settledDone.Add(1)
		}
	})
	r.te.OnGamePlayerActionUpdated(func(a pokertable.TablePlayerGameAction) {
		r.mu.Lock()
		r.actions = append(r.actions, a)
		r.mu.Unlock()
		// a listener that takes a moment: whatever the engine reads from the live hand after publishing the action is read
		// from a hand that may have moved on by itself (D28: the fold round)
		if r.listenerDwell > 0 {
			time.Sleep(r.listenerDwell)
		}
	})
	r.te.OnAutoGameOpenEnd(func(c, t string) {
		r.mu.Lock()
		r.autoEnd++
		r.mu.Unlock()
	})
	r.te.OnReadyOpenFirstTableGame(func(c, t string, gc int, ps []*pokertable.TablePlayerState) {
		r.mu.Lock()
		r.firstGame++
		auto := r.autoSetup
		r.mu.Unlock()
		if auto {
			parts := map[string]int{}
			for i, p := range ps {
				parts[p.PlayerID] = i
			}
			r.te.SetUpTableGame(gc, parts)
		}
	})
	if _, err := r.te.CreateTable(setting); err != nil {
		return r, err
	}
	if viaMgr != nil {
		// mgr mode: from here on everything the manager forwards is called through the shared manager
		r.te = wrapForManager(viaMgr, r.te, setting.TableID)
	}
	return r, nil
}

func safeClone(t *pokertable.Table) (c *pokertable.Table) {
	for try := 0; try < 4; try++ {
		func() {
			defer func() {
				if e := recover(); e != nil {
					c = nil
				}
			}()
			cl, err := t.Clone()
			if err == nil {
				c = cl
			}
		}()
		if c != nil {
			return c
		}
		time.Sleep(100 * time.Microsecond)
	}
	return nil
}

func (r *Rig) snapCount() int {
	r.mu.Lock()
	defer r.mu.Unlock()
	return len(r.snaps)
}

func (r *Rig) snapsFrom(i int) []*pokertable.Table {
	r.mu.Lock()
	defer r.mu.Unlock()
	out := make([]*pokertable.Table, len(r.snaps)-i)
	copy(out, r.snaps[i:])
	return out
}

func (r *Rig) errCount() int {
	r.mu.Lock()
	defer r.mu.Unlock()
	return len(r.errs)
}

// live reads the engine's table (racy by nature; used only for polling)
func (r *Rig) live() *pokertable.Table { return r.te.GetTable() }

func (r *Rig) liveStatus() string { return string(r.live().State.Status) }

// waitFor polls cond every ~1ms until it holds or the timeout expires
func waitFor(timeout time.Duration, cond func() bool) bool {
	deadline := time.Now().Add(timeout)
	for {
		if cond() {
			return true
		}
		if time.Now().After(deadline) {
			return false
		}
		time.Sleep(300 * time.Microsecond)
	}
}

// autoJoinQuiet: the engine's auto-join ready group has no unanswered participant and the engine lock is free
func (r *Rig) autoJoinQuiet() bool {
	for _, ready := range r.hk.AutoJoinStates() {
		if !ready {
			return false
		}
	}
	return true
}

// gateCount: the gate's game count only. The open-game manager has no lock of its own; polling loops must not iterate its
// participant map while the engine's continue handler may be inside Setup (Go aborts the process on a concurrent map
// iteration and write) — they look at the count, and the map is read once the count has settled.
func (r *Rig) gateCount() int { return r.hk.OpenGameManager().GetState().GameCount }

func (r *Rig) gateState() (int, map[string]bool, map[string]int) {
	st := r.hk.OpenGameManager().GetState()
	ready := map[string]bool{}
	idx := map[string]int{}
	for id, p := range st.Participants {
		ready[id] = p.IsReady
		idx[id] = p.Index
	}
	return st.GameCount, ready, idx
}

// ----- canonical observation line -----

func statusShort(s pokertable.TableStateStatus) string {
	switch s {
	case pokertable.TableStateStatus_TableCreated:
		return "created"
	case pokertable.TableStateStatus_TablePausing:
		return "pausing"
	case pokertable.TableStateStatus_TableRestoring:
		return "restoring"
	case pokertable.TableStateStatus_TableBalancing:
		return "balancing"
	case pokertable.TableStateStatus_TableClosed:
		return "closed"
	case pokertable.TableStateStatus_TableGameOpened:
		return "opened"
	case pokertable.TableStateStatus_TableGamePlaying:
		return "playing"
	case pokertable.TableStateStatus_TableGameSettled:
		return "settled"
	case pokertable.TableStateStatus_TableGameStandby:
		return "standby"
	}
	return "unknown:" + string(s)
}

func blindStr(b *pokertable.TableBlindState) string {
	if b == nil {
		return "-"
	}
	return fmt.Sprintf("%d,%d,%d,%d,%d", b.Level, b.Ante, b.Dealer, b.SB, b.BB)
}

func intsStr(xs []int) string {
	if len(xs) == 0 {
		return "-"
	}
	s := make([]string, len(xs))
	for i, x := range xs {
		s[i] = fmt.Sprintf("%d", x)
	}
	return strings.Join(s, ",")
}

// tableObs renders the table part of an observation (no seat manager / gate part)
func tableObs(t *pokertable.Table) string {
	st := t.State
	ps := make([]string, 0)
	for _, p := range st.PlayerStates {
		pos := "-"
		if len(p.Positions) > 0 {
			pos = strings.Join(p.Positions, "+")
		}
		ps = append(ps, fmt.Sprintf("%d:%d:%s:%s:%d:%s", idNum(p.PlayerID), p.Seat, b01(p.IsIn), b01(p.IsParticipated), p.Bankroll, pos))
	}
	pss := "-"
	if len(ps) > 0 {
		pss = strings.Join(ps, ";")
	}
	nb := make([]int, 0)
	for _, id := range st.NextBBOrderPlayerIDs {
		nb = append(nb, idNum(id))
	}
	started := "0"
	if st.StartAt != -1 {
		started = "1"
	}
	return fmt.Sprintf("st=%s started=%s gc=%d D=%d SB=%d BB=%d seatmap=%s players=%s gidx=%s nextbb=%s blind=%s gblind=%s hasgame=%s endat=%s last=%s",
		statusShort(st.Status), started, st.GameCount, st.CurrentDealerSeat, st.CurrentSBSeat, st.CurrentBBSeat, intsStr(st.SeatMap), pss,
		intsStr(st.GamePlayerIndexes), intsStr(nb), blindStr(st.BlindState), blindStr(st.GameBlindState), b01(st.GameState != nil),
		b01(st.CurrentActionEndAt != 0), b01(st.LastPlayerGameAction != nil))
}

func smObsOf(sm seat_manager.SeatManager, maxSeat int) string {
	s := smObs(sm, maxSeat)
	return strings.ReplaceAll(strings.TrimPrefix(s, "sm obs "), " ", "/")
}

func (r *Rig) gateObs() string {
	gc, ready, idx := r.gateState()
	ids := make([]string, 0)
	for id := range ready {
		ids = append(ids, id)
	}
	sort.Slice(ids, func(i, j int) bool {
		return idx[ids[i]] < idx[ids[j]] || (idx[ids[i]] == idx[ids[j]] && ids[i] < ids[j])
	})
	parts := make([]string, 0)
	for _, id := range ids {
		parts = append(parts, fmt.Sprintf("%d:%d:%s", idNum(id), idx[id], b01(ready[id])))
	}
	p := "-"
	if len(parts) > 0 {
		p = strings.Join(parts, ",")
	}
	return fmt.Sprintf("%d/%s", gc, p)
}

// fullObs = table (given snapshot or live) + seat manager + gate + released flag, read now
func (r *Rig) fullObs(t *pokertable.Table) string {
	if t == nil {
		c := safeClone(r.live())
		if c == nil {
			return "tb obs error=clone"
		}
		t = c
	}
	return fmt.Sprintf("tb obs %s sm=%s gate=%s rel=%s", tableObs(t), smObsOf(r.hk.SeatManager(), t.Meta.TableMaxSeatCount), r.gateObs(), b01(r.hk.IsReleased()))
}

func tbErrName(err error) string {
	switch {
	case err == nil:
		return "ok"
	case errors.Is(err, pokertable.ErrTableNoEmptySeats):
		return "err noEmptySeats"
	case errors.Is(err, pokertable.ErrTablePlayerNotFound):
		return "err playerNotFound"
	case errors.Is(err, pokertable.ErrTablePlayerInvalidAction):
		return "err invalidAction"
	case errors.Is(err, pokertable.ErrTablePlayerInvalidGameAction):
		return "err invalidGameAction"
	case errors.Is(err, pokertable.ErrGamePlayerNotFound):
		return "err gamePlayerNotFound"
	case errors.Is(err, pokertable.ErrGameInvalidAction):
		return "err gameInvalidAction"
	case errors.Is(err, pokertable.ErrGameUnknownEvent):
		return "err gameUnknownEvent"
	case errors.Is(err, pokerface.ErrInvalidAction):
		return "err pfInvalidAction"
	case errors.Is(err, pokerface.ErrIllegalRaise):
		return "err pfIllegalRaise"
	case errors.Is(err, errInjected):
		return "err injected"
	}
	s := smErrName(err)
	if !strings.HasPrefix(s, "err other:") {
		return "err sm." + strings.TrimPrefix(s, "err ")
	}
	return s
}
