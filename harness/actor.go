package main

import (
	"bufio"
	"encoding/json"
	"errors"
	"flag"
	"fmt"
	"math/rand"
	"os"
	"strings"
	"sync"
	"time"

	"github.com/weedbox/pokerface"
	"github.com/weedbox/pokertable"
	"github.com/weedbox/pokertable/actor"
)

// ---------------------------------------------------------------------------------------------
// actor package: real bot runners on real tables, real player runners and observer runners fed with real snapshots
// ---------------------------------------------------------------------------------------------

type acStats struct {
	BotTables   int            `json:"bot_tables"`
	BotHands    int            `json:"bot_hands_settled"`
	BotMoves    int            `json:"bot_moves"`
	BotMix      map[string]int `json:"bot_move_mix"`
	BotRejected int            `json:"bot_moves_rejected"`
	BotCases    int            `json:"bot_runner_edge_cases"`
	PlayerCases int            `json:"player_runner_cases"`
	PlayerMix   map[string]int `json:"player_runner_outcomes"`
	ObsCases    int            `json:"observer_cases"`
	ObsStatuses map[string]int `json:"observer_statuses"`
	Snapshots   int            `json:"snapshots_collected"`
	Histories   int            `json:"histories"`
	Distinct    int            `json:"distinct_histories"`
	Samples     []string       `json:"samples"`
}

type adapterCall struct {
	player string
	kind   string
	arg    int64
	err    error
	at     time.Time
}

// recAdapter records every call an actor makes; it forwards to the real table-engine adapter when there is one
type recAdapter struct {
	inner actor.Adapter // real tableEngineAdapter, or nil (stand-alone: calls are recorded and accepted)
	act   actor.Actor
	table *pokertable.Table
	mu    sync.Mutex
	calls []adapterCall
	// refuse: kinds the "table" refuses (stand-alone only): the call is recorded and answered with an error
	refuse map[string]bool
}

var errRefused = errors.New("player: invalid action")

func (ra *recAdapter) SetActor(a actor.Actor) {
	ra.act = a
	if ra.inner != nil {
		ra.inner.SetActor(a)
	}
}
func (ra *recAdapter) UpdateTableState(t *pokertable.Table) error {
	if ra.inner != nil {
		return ra.inner.UpdateTableState(t)
	}
	ra.table = t
	return ra.act.UpdateTableState(t)
}
func (ra *recAdapter) GetGamePlayerIndex(playerID string) int {
	if ra.inner != nil {
		return ra.inner.GetGamePlayerIndex(playerID)
	}
	return ra.table.GamePlayerIndex(playerID)
}
func (ra *recAdapter) GetGameState() *pokerface.GameState {
	if ra.inner != nil {
		return ra.inner.GetGameState()
	}
	return ra.table.State.GameState
}
func (ra *recAdapter) rec(player, kind string, arg int64, f func() error) error {
	var err error
	if f != nil {
		err = f()
	}
	ra.mu.Lock()
	if ra.refuse[kind] {
		err = errRefused
	}
	ra.calls = append(ra.calls, adapterCall{player, kind, arg, err, time.Now()})
	ra.mu.Unlock()
	return err
}
func (ra *recAdapter) fw(f func(actor.Adapter) error) func() error {
	if ra.inner == nil {
		return nil
	}
	return func() error { return f(ra.inner) }
}
func (ra *recAdapter) Pass(p string) error {
	return ra.rec(p, "pass", 0, ra.fw(func(a actor.Adapter) error { return a.Pass(p) }))
}
func (ra *recAdapter) Ready(p string) error {
	return ra.rec(p, "ready", 0, ra.fw(func(a actor.Adapter) error { return a.Ready(p) }))
}
func (ra *recAdapter) Pay(p string, c int64) error {
	return ra.rec(p, "pay", c, ra.fw(func(a actor.Adapter) error { return a.Pay(p, c) }))
}
func (ra *recAdapter) Check(p string) error {
	return ra.rec(p, "check", 0, ra.fw(func(a actor.Adapter) error { return a.Check(p) }))
}
func (ra *recAdapter) Bet(p string, c int64) error {
	return ra.rec(p, "bet", c, ra.fw(func(a actor.Adapter) error { return a.Bet(p, c) }))
}
func (ra *recAdapter) Call(p string) error {
	return ra.rec(p, "call", 0, ra.fw(func(a actor.Adapter) error { return a.Call(p) }))
}
func (ra *recAdapter) Fold(p string) error {
	return ra.rec(p, "fold", 0, ra.fw(func(a actor.Adapter) error { return a.Fold(p) }))
}
func (ra *recAdapter) Allin(p string) error {
	return ra.rec(p, "allin", 0, ra.fw(func(a actor.Adapter) error { return a.Allin(p) }))
}
func (ra *recAdapter) Raise(p string, c int64) error {
	return ra.rec(p, "raise", c, ra.fw(func(a actor.Adapter) error { return a.Raise(p, c) }))
}
func (ra *recAdapter) ExtendTime(p string, d time.Duration) error { return nil }

func (ra *recAdapter) take() []adapterCall {
	ra.mu.Lock()
	defer ra.mu.Unlock()
	out := ra.calls
	ra.calls = nil
	return out
}

// ----- (1) all-bot tables -----

type botSeat struct {
	id  int
	act actor.Actor
	ad  *recAdapter
}

func botTable(r *rand.Rand, st *acStats, hid int, hands int, snapsOut *[]*pokertable.Table, snapMu *sync.Mutex) string {
	var w strings.Builder
	line := func(format string, a ...interface{}) { fmt.Fprintf(&w, format+"\n", a...) }
	n := 2 + r.Intn(6)
	blind := pokertable.TableBlindState{Level: 1, Ante: 0, Dealer: 0, SB: 10, BB: 20}
	switch r.Intn(6) {
	case 0:
		blind.Ante = 3
	case 1:
		blind.Dealer = 20
	case 2:
		blind.SB = 0
		blind.Dealer = 10
	}
	setting := pokertable.TableSetting{
		TableID: fmt.Sprintf("b%d", hid),
		Meta: pokertable.TableMeta{CompetitionID: "c", Rule: pokertable.CompetitionRule_Default, Mode: pokertable.CompetitionMode_CT, MaxDuration: 1000000,
			TableMaxSeatCount: 9, TableMinPlayerCount: 2, MinChipUnit: 10, ActionTime: 7},
		Blind: blind,
	}
	be := NewRecBackend()
	opts := pokertable.NewTableEngineOptions()
	opts.GameContinueInterval = 0
	te := pokertable.NewTableEngine(opts, pokertable.WithGameBackend(be))
	hk := pokertable.VerifHooksOf(te)
	bots := []*botSeat{}
	var outMu, joinMu sync.Mutex
	var dispatchMu sync.Mutex
	te.OnTableUpdated(func(t *pokertable.Table) {
		// the engine's own goroutines publish concurrently; the bots (like the test suite's) are fed one state at a time
		dispatchMu.Lock()
		defer dispatchMu.Unlock()
		snap := safeClone(t)
		if snap == nil {
			return
		}
		if snap.State.GameState != nil && snapsOut != nil {
			snapMu.Lock()
			if len(*snapsOut) < 4000 {
				*snapsOut = append(*snapsOut, snap)
			}
			snapMu.Unlock()
		}
		for _, b := range bots {
			b.ad.take()
			gi := snap.GamePlayerIndex(pid(b.id))
			// the bots are shown the snapshot that is recorded (the adapter copies what it is handed anyway); handing them
			// the engine's live table would let its status flip between our reading and theirs
			b.act.GetTable().UpdateTableState(snap)
			calls := b.ad.take()
			isIn, atTable := false, false
			for _, ps := range snap.State.PlayerStates {
				if ps.PlayerID == pid(b.id) {
					atTable = true
					isIn = ps.IsIn
				}
			}
			v := "-"
			if snap.State.GameState != nil {
				v = viewStr(snap.State.GameState)
			}
			mv := "none"
			res := "-"
			if len(calls) > 0 {
				c := calls[0]
				mv = fmt.Sprintf("%s:%d", c.kind, c.arg)
				res = tbErrName(c.err)
				if len(calls) > 1 {
					mv += fmt.Sprintf("+%d-more", len(calls)-1)
				}
			}
			outMu.Lock()
			line("ac bot id=%d seated=%s in=%s st=%s gi=%d %s | move=%s res=%s", b.id, b01(atTable), b01(isIn), statusShort(snap.State.Status), gi, v, mv, strings.ReplaceAll(res, " ", ":"))
			if len(calls) > 0 {
				st.BotMoves++
				st.BotMix[calls[0].kind]++
				if calls[0].err != nil {
					st.BotRejected++
				}
			}
			outMu.Unlock()
		}
	})
	te.OnReadyOpenFirstTableGame(func(c, t string, gc int, ps []*pokertable.TablePlayerState) {
		parts := map[string]int{}
		for i, p := range ps {
			parts[p.PlayerID] = i
		}
		te.SetUpTableGame(gc, parts)
	})
	if _, err := te.CreateTable(setting); err != nil {
		return ""
	}
	st.BotTables++
	line("ac new h=%d kind=bots players=%d", hid, n)
	for i := 0; i < n; i++ {
		id := i + 1
		a := actor.NewActor()
		ad := &recAdapter{inner: actor.NewTableEngineAdapter(te, te.GetTable())}
		a.SetAdapter(ad)
		bot := actor.NewBotRunner(pid(id))
		// the bots ask to sit in 100 ms after their first view, all at about the same moment; PlayerJoin takes no lock
		// (its concurrent use is finding D31's family, probed under C01/C03/C12), so the harness hands the requests to the
		// engine one at a time — under load two of them once ran into each other inside the engine and killed the process
		bot.OnTableAutoJoinActionRequested(func(c, t, p string) { joinMu.Lock(); defer joinMu.Unlock(); te.PlayerJoin(p) })
		a.SetRunner(bot)
		bots = append(bots, &botSeat{id, a, ad})
	}
	seats := r.Perm(9)
	for i := 0; i < n; i++ {
		chips := int64(1 + r.Intn(60))
		if r.Intn(3) != 0 {
			chips = int64(40 + r.Intn(1500))
		}
		te.PlayerReserve(pokertable.JoinPlayer{PlayerID: pid(i + 1), RedeemChips: chips, Seat: seats[i]})
		time.Sleep(300 * time.Microsecond)
	}
	// the bots ask to be seated 100 ms after they see themselves at the table
	waitFor(2*time.Second, func() bool {
		for _, p := range te.GetTable().State.PlayerStates {
			if !p.IsIn {
				return false
			}
		}
		return true
	})
	time.Sleep(2 * time.Millisecond)
	te.StartTableGame()
	settled := 0
	deadline := time.Now().Add(45 * time.Second)
	for g := 0; g < hands && time.Now().Before(deadline); g++ {
		gc := te.GetTable().State.GameCount
		// everybody awaited signals that the settlement has been watched (after the gate was set up)
		ok := waitFor(3*time.Second, func() bool {
			gg := hk.OpenGameManager().GetState()
			return gg.GameCount == gc+1 || (g == 0 && len(gg.Participants) > 0)
		})
		if !ok {
			break
		}
		time.Sleep(2 * time.Millisecond)
		for id := range hk.OpenGameManager().GetState().Participants {
			te.PlayerSettlementFinish(id)
		}
		opened := waitFor(2600*time.Millisecond, func() bool { return te.GetTable().State.GameCount == gc+1 })
		if !opened {
			break
		}
		// the bots play; a first state published under status `opened` leaves them silent until the 17 s auto-ready
		done := waitFor(24*time.Second, func() bool {
			t := te.GetTable()
			return t.State.GameState == nil && t.State.GameCount == gc+1 &&
				(t.State.Status == pokertable.TableStateStatus_TableGameStandby || t.State.Status == pokertable.TableStateStatus_TablePausing)
		})
		outMu.Lock()
		if done {
			settled++
			st.BotHands++
			line("ac bothand gc=%d settled=1", gc+1)
		} else {
			line("ac bothand gc=%d settled=0", gc+1)
		}
		outMu.Unlock()
		if !done || te.GetTable().State.Status == pokertable.TableStateStatus_TablePausing {
			break
		}
	}
	te.CloseTable()
	time.Sleep(2 * time.Millisecond)
	outMu.Lock()
	line("ac end")
	s := w.String()
	outMu.Unlock()
	return s
}

// ----- (2) player runner: auto-play -----

func playerCase(snap *pokertable.Table, playerID string, status int, actionTime int, wait bool, levelUp bool) string {
	return playerCaseLate(snap, nil, playerID, status, actionTime, wait, levelUp, "")
}

// statusPaths: what the application may have told the runner before the request — idle reports (I), a suspension (S), a
// come-back (R) in some order; where the path leaves the player is for the model's status machine to say
var statusPaths = []string{"SI", "IS", "II", "III", "SR", "SIR", "SII", "RI", "ISI", "IIR", "SIS", "IRI"}

// playerCaseLate: as playerCase; when late is given, that snapshot — of an *earlier* hand in which the same player was
// asked something — is delivered right after the current one (updates reach an actor from several goroutines): it is
// stale and must change nothing about what the runner does for the current hand
func playerCaseLate(snap, late *pokertable.Table, playerID string, status int, actionTime int, wait bool, levelUp bool, path string) string {
	t := safeClone(snap)
	if t == nil {
		return ""
	}
	var lt *pokertable.Table
	if late != nil {
		lt = safeClone(late)
		if lt == nil {
			return ""
		}
		lt.Meta.ActionTime = actionTime
	}
	t.Meta.ActionTime = actionTime
	if levelUp && t.State.BlindState != nil {
		// the competition's blind clock has ticked while this hand runs: the table's level is the next one, the hand's
		// posted sizes (GameState.Meta) are still those it opened with
		b := *t.State.BlindState
		b.Level++
		b.Ante = b.Ante*2 + 5
		b.Dealer = b.Dealer*2 + 5
		b.SB = b.SB*2 + 5
		b.BB = b.BB*2 + 5
		t.State.BlindState = &b
	}
	gi := t.GamePlayerIndex(playerID)
	v := viewStr(t.State.GameState)
	a := actor.NewActor()
	ad := &recAdapter{}
	a.SetAdapter(ad)
	pr := actor.NewPlayerRunner(playerID)
	a.SetRunner(pr)
	if path != "" {
		for _, c := range path {
			switch c {
			case 'I':
				pr.Idle()
			case 'S':
				pr.Suspend()
			case 'R':
				pr.Resume()
			}
		}
	} else {
		switch status {
		case 1:
			pr.Idle()
		case 2:
			pr.Suspend()
		}
	}
	t0 := time.Now()
	ad.UpdateTableState(t)
	if lt != nil {
		time.Sleep(20 * time.Millisecond)
		ad.UpdateTableState(lt)
	}
	immediate := ad.take()
	res := "none"
	delay := int64(0)
	if len(immediate) > 0 {
		res = fmt.Sprintf("%s:%d", immediate[0].kind, immediate[0].arg)
		if len(immediate) > 1 {
			res += "+more"
		}
	} else if wait && actionTime > 0 {
		// nothing before the thinking time has elapsed …
		time.Sleep(time.Duration(actionTime)*time.Second - 150*time.Millisecond)
		early := ad.take()
		if len(early) > 0 {
			res = fmt.Sprintf("early:%s:%d", early[0].kind, early[0].arg)
		} else {
			time.Sleep(400 * time.Millisecond)
			late := ad.take()
			if len(late) > 0 {
				res = fmt.Sprintf("%s:%d", late[0].kind, late[0].arg)
				delay = late[0].at.Sub(t0).Milliseconds()
			}
		}
	}
	statusName := []string{"running", "idle", "suspend"}[status]
	if path != "" {
		statusName = "path pre=" + path
	}
	return fmt.Sprintf("ac player status=%s atime=%d waited=%s lvlup=%s late=%s st=%s gi=%d %s | call=%s delay_ms=%d\n", statusName, actionTime, b01(wait), b01(levelUp), b01(lt != nil), statusShort(t.State.Status), gi, v, res, delay)
}

// playerNoStateCase: the player runner is shown a table that says playing, lists him among the hand's players and carries
// no hand state yet (D34): it has nothing to act on and must stay quiet
func playerNoStateCase(snap *pokertable.Table, playerID string, status int) string {
	t := safeClone(snap)
	if t == nil || t.GamePlayerIndex(playerID) < 0 {
		return ""
	}
	t.State.Status = pokertable.TableStateStatus_TableGamePlaying
	t.State.GameState = nil
	t.Meta.ActionTime = 1
	a := actor.NewActor()
	ad := &recAdapter{}
	a.SetAdapter(ad)
	pr := actor.NewPlayerRunner(playerID)
	a.SetRunner(pr)
	switch status {
	case 1:
		pr.Idle()
	case 2:
		pr.Suspend()
	}
	res := "none"
	func() {
		defer func() {
			if e := recover(); e != nil {
				res = "panic"
			}
		}()
		ad.UpdateTableState(t)
	}()
	if calls := ad.take(); len(calls) > 0 && res == "none" {
		res = fmt.Sprintf("%s:%d", calls[0].kind, calls[0].arg)
	}
	return fmt.Sprintf("ac player-nostate status=%s | call=%s\n", []string{"running", "idle", "suspend"}[status], res)
}

// playerComeBack: a suspended player — the runner has just acted for him on an earlier request — presses Fold himself; the
// table refuses it (too late). He is back all the same: at the next request the runner waits his thinking time out.
func playerComeBack(first, snap *pokertable.Table, playerID string) string {
	t := safeClone(snap)
	f := safeClone(first)
	if t == nil || f == nil {
		return ""
	}
	t.Meta.ActionTime = 1
	f.Meta.ActionTime = 1
	gi := t.GamePlayerIndex(playerID)
	v := viewStr(t.State.GameState)
	a := actor.NewActor()
	ad := &recAdapter{refuse: map[string]bool{}}
	a.SetAdapter(ad)
	pr := actor.NewPlayerRunner(playerID)
	a.SetRunner(pr)
	pr.Suspend()
	ad.UpdateTableState(f) // suspended: answered at once
	ad.take()
	ad.mu.Lock()
	ad.refuse["fold"] = true
	ad.mu.Unlock()
	pr.Fold() // his own, late fold: refused by the table
	ad.mu.Lock()
	ad.refuse["fold"] = false
	ad.mu.Unlock()
	ad.take()
	t0 := time.Now()
	ad.UpdateTableState(t)
	immediate := ad.take()
	res := "none"
	delay := int64(0)
	if len(immediate) > 0 {
		res = fmt.Sprintf("%s:%d", immediate[0].kind, immediate[0].arg)
		if len(immediate) > 1 {
			res += "+more"
		}
	} else {
		time.Sleep(time.Second - 150*time.Millisecond)
		early := ad.take()
		if len(early) > 0 {
			res = fmt.Sprintf("early:%s:%d", early[0].kind, early[0].arg)
		} else {
			time.Sleep(400 * time.Millisecond)
			late := ad.take()
			if len(late) > 0 {
				res = fmt.Sprintf("%s:%d", late[0].kind, late[0].arg)
				delay = late[0].at.Sub(t0).Milliseconds()
			}
		}
	}
	return fmt.Sprintf("ac player status=running atime=1 waited=1 lvlup=0 late=0 back=1 st=%s gi=%d %s | call=%s delay_ms=%d\n", statusShort(t.State.Status), gi, v, res, delay)
}

// ----- (3) observer runner and the real adapter -----

func privStr(gs *pokerface.GameState) string {
	hs := []string{}
	for _, p := range gs.Players {
		hs = append(hs, fmt.Sprintf("%d:%d:%s:%s", p.Idx, len(p.HoleCards), b01(p.Fold), b01(p.Combination != nil)))
	}
	return fmt.Sprintf("ev=%s deck=%d burned=%d holes=%s", gs.Status.CurrentEvent, len(gs.Meta.Deck), len(gs.Status.Burned), strings.Join(hs, ","))
}

var allStatuses = []pokertable.TableStateStatus{
	pokertable.TableStateStatus_TableCreated, pokertable.TableStateStatus_TablePausing, pokertable.TableStateStatus_TableRestoring,
	pokertable.TableStateStatus_TableBalancing, pokertable.TableStateStatus_TableClosed, pokertable.TableStateStatus_TableGameOpened,
	pokertable.TableStateStatus_TableGamePlaying, pokertable.TableStateStatus_TableGameSettled, pokertable.TableStateStatus_TableGameStandby,
}

func observerCase(r *rand.Rand, snap *pokertable.Table, status pokertable.TableStateStatus, system bool, nActors int, obsPos int) string {
	// the "engine's" table: what the adapters are handed; it must come out untouched
	engineTable := safeClone(snap)
	if engineTable == nil {
		return ""
	}
	engineTable.State.Status = status
	before, _ := engineTable.GetJSON()
	inPriv := privStr(engineTable.State.GameState)
	type seen struct {
		t    *pokertable.Table
		json string
	}
	views := make([]*seen, nActors)
	var observed *pokertable.Table
	actors := []actor.Actor{}
	for i := 0; i < nActors; i++ {
		a := actor.NewActor()
		idx := i
		if i == obsPos {
			ob := actor.NewObserverRunner()
			ob.EnabledSystemMode(system)
			ob.OnTableStateUpdated(func(t *pokertable.Table) { observed = t; j, _ := t.GetJSON(); views[idx] = &seen{t, j} })
			// wired adapter-first (as the suite does) or runner-first (a spectator attached in the middle of a hand to an
			// adapter built from the engine's table): attaching must not hand the runner the engine's own table
			if r.Intn(2) == 0 {
				a.SetRunner(ob)
				a.SetAdapter(actor.NewTableEngineAdapter(nil, engineTable))
			} else {
				a.SetAdapter(actor.NewTableEngineAdapter(nil, engineTable))
				a.SetRunner(ob)
			}
		} else {
			a.SetAdapter(actor.NewTableEngineAdapter(nil, engineTable))
			// another observer in system mode stands for "any other actor": it keeps what it was given
			ob := actor.NewObserverRunner()
			ob.EnabledSystemMode(true)
			ob.OnTableStateUpdated(func(t *pokertable.Table) { j, _ := t.GetJSON(); views[idx] = &seen{t, j} })
			a.SetRunner(ob)
		}
		actors = append(actors, a)
	}
	for _, a := range actors {
		a.GetTable().UpdateTableState(engineTable)
	}
	after, _ := engineTable.GetJSON()
	othersSame, distinct := true, true
	for i, v := range views {
		if v == nil {
			continue
		}
		if v.t == engineTable || v.t.State == engineTable.State || (v.t.State.GameState != nil && v.t.State.GameState == engineTable.State.GameState) {
			distinct = false
		}
		if i != obsPos {
			now, _ := v.t.GetJSON()
			if now != v.json || now != before {
				othersSame = false
			}
		}
		for j, u := range views {
			if j != i && u != nil && (u.t == v.t || u.t.State == v.t.State) {
				distinct = false
			}
		}
	}
	// a write through the observer's copy must not reach anybody
	if observed != nil && observed.State.GameState != nil {
		observed.State.GameState.Status.CurrentEvent = "TAMPERED"
		observed.State.PlayerStates = nil
		final, _ := engineTable.GetJSON()
		if final != before {
			after = final
		}
		for i, v := range views {
			if i != obsPos && v != nil {
				now, _ := v.t.GetJSON()
				if now != before {
					othersSame = false
				}
			}
		}
	}
	out := "-"
	if views[obsPos] != nil {
		var shown pokertable.Table
		json.Unmarshal([]byte(views[obsPos].json), &shown)
		if shown.State.GameState != nil {
			out = privStr(shown.State.GameState)
		} else {
			out = "nogame"
		}
	}
	line := fmt.Sprintf("ac observe sys=%s st=%s actors=%d %s | %s engine_same=%s others_same=%s distinct=%s\n", b01(system), statusShort(status), nActors,
		inPriv, out, b01(before == after), b01(othersSame), b01(distinct))
	// an observer that was in system mode when the snapshot came, is downgraded, and only then gets a listener: whatever
	// that listener is handed (nothing, on today's code) is what a non-system observer sees
	if r.Intn(3) == 0 {
		et := safeClone(snap)
		if et != nil {
			et.State.Status = status
			a := actor.NewActor()
			a.SetAdapter(actor.NewTableEngineAdapter(nil, et))
			ob := actor.NewObserverRunner()
			ob.EnabledSystemMode(true)
			a.SetRunner(ob)
			a.GetTable().UpdateTableState(et)
			ob.EnabledSystemMode(false)
			shown := "none"
			ob.OnTableStateUpdated(func(t *pokertable.Table) {
				if t != nil && t.State.GameState != nil {
					shown = privStr(t.State.GameState)
				} else {
					shown = "nogame"
				}
			})
			line += fmt.Sprintf("ac observe-late st=%s %s | %s\n", statusShort(status), inPriv, shown)
		}
	}
	return line
}

// earlierAsk: a snapshot of an earlier hand (another game id, older state) in which the same player is asked something
func earlierAsk(snaps []*pokertable.Table, cur *pokertable.Table, playerID string) *pokertable.Table {
	if cur.State.GameState == nil {
		return nil
	}
	var best *pokertable.Table
	for _, sn := range snaps {
		g := sn.State.GameState
		if g == nil || g.GameID == cur.State.GameState.GameID || g.UpdatedAt >= cur.State.GameState.UpdatedAt ||
			sn.State.Status != pokertable.TableStateStatus_TableGamePlaying {
			continue
		}
		gi := sn.GamePlayerIndex(playerID)
		if gi < 0 || gi >= len(g.Players) || len(g.Players[gi].AllowedActions) == 0 {
			continue
		}
		best = sn // the latest such
	}
	return best
}

// ----- (5) the actor itself: deliveries to a busy actor are queued, one at a time, none dropped -----

type slowRunner struct {
	mu      sync.Mutex
	in      int
	maxIn   int
	handled int
	dwell   time.Duration
}

func (s *slowRunner) SetActor(a actor.Actor) {}
func (s *slowRunner) UpdateTableState(t *pokertable.Table) error {
	s.mu.Lock()
	s.in++
	if s.in > s.maxIn {
		s.maxIn = s.in
	}
	s.mu.Unlock()
	time.Sleep(s.dwell)
	s.mu.Lock()
	s.in--
	s.handled++
	s.mu.Unlock()
	return nil
}

// observerOverlapCase: several table events reach one adapter at the same moment (the engine emits some of them without
// its lock; an application may fan OnTableUpdated out from several goroutines) while the non-system observer's listener
// takes a moment. Whatever snapshot the listener is handed must have been filtered — that one, not some other.
func observerOverlapCase(r *rand.Rand, snap *pokertable.Table, status pokertable.TableStateStatus) string {
	et := safeClone(snap)
	if et == nil || et.State.GameState == nil {
		return ""
	}
	et.State.Status = status
	inPriv := privStr(et.State.GameState)
	k := 2 + r.Intn(3)
	dwell := time.Duration(1+r.Intn(4)) * time.Millisecond
	a := actor.NewActor()
	ad := actor.NewTableEngineAdapter(nil, et)
	a.SetAdapter(ad)
	ob := actor.NewObserverRunner()
	a.SetRunner(ob)
	var mu sync.Mutex
	shown := []string{}
	ob.OnTableStateUpdated(func(t *pokertable.Table) {
		sh := "nogame"
		if t != nil && t.State.GameState != nil {
			sh = privStr(t.State.GameState)
		}
		time.Sleep(dwell)
		mu.Lock()
		shown = append(shown, sh)
		mu.Unlock()
	})
	var wg sync.WaitGroup
	for i := 0; i < k; i++ {
		c := safeClone(et)
		if c == nil {
			continue
		}
		wg.Add(1)
		go func(i int, c *pokertable.Table) {
			defer wg.Done()
			defer func() { recover() }()
			time.Sleep(time.Duration(i) * 300 * time.Microsecond)
			a.GetTable().UpdateTableState(c)
		}(i, c)
	}
	wg.Wait()
	out := ""
	for _, sh := range shown {
		out += fmt.Sprintf("ac observe-overlap st=%s k=%d %s | %s\n", statusShort(status), k, inPriv, sh)
	}
	return out
}

func deliveryCase(r *rand.Rand, snap *pokertable.Table) string {
	k := 2 + r.Intn(4)
	a := actor.NewActor()
	sr := &slowRunner{dwell: time.Duration(2+r.Intn(6)) * time.Millisecond}
	a.SetRunner(sr)
	var wg sync.WaitGroup
	for i := 0; i < k; i++ {
		wg.Add(1)
		go func() {
			defer wg.Done()
			a.UpdateTableState(snap)
		}()
	}
	wg.Wait()
	return fmt.Sprintf("ac deliver k=%d | handled=%d overlap=%d\n", k, sr.handled, sr.maxIn)
}

// pickPlayer: a participant of the snapshot's hand, preferably one the hand is asking something of
// botCase: a fresh (non-humanised) bot runner is shown one hand state in which it is asked for a wager action, with its
// stack put on an edge of the bot's amount logic (exactly the minimum bet, one above; exactly the minimum raise level,
// one above) or left as it was. The bot acts inside UpdateTableState, so a panic of its own is caught here.
func botCase(r *rand.Rand, snap *pokertable.Table) string {
	t := safeClone(snap)
	if t == nil || t.State.GameState == nil || t.State.Status != pokertable.TableStateStatus_TableGamePlaying {
		return ""
	}
	gs := t.State.GameState
	if gs.Status.CurrentEvent != "RoundStarted" {
		return ""
	}
	cur := gs.Status.CurrentPlayer
	p := gs.GetPlayer(cur)
	if p == nil || cur >= len(t.State.GamePlayerIndexes) {
		return ""
	}
	has := func(a string) bool {
		for _, x := range p.AllowedActions {
			if x == a {
				return true
			}
		}
		return false
	}
	edge := "asis"
	switch {
	case has("bet") && r.Intn(4) != 0:
		d := int64(r.Intn(2))
		edge = fmt.Sprintf("bet+%d", d)
		p.InitialStackSize = gs.Status.MiniBet + d
		p.StackSize = p.InitialStackSize - p.Wager
	case has("raise") && r.Intn(4) != 0:
		d := int64(r.Intn(2))
		edge = fmt.Sprintf("raise+%d", d)
		p.InitialStackSize = gs.Status.CurrentWager + gs.Status.PreviousRaiseSize + d
		p.StackSize = p.InitialStackSize - p.Wager
	}
	if !has("bet") && !has("raise") && r.Intn(3) != 0 {
		return ""
	}
	playerID := t.State.PlayerStates[t.State.GamePlayerIndexes[cur]].PlayerID
	v := viewStr(gs)
	var sb strings.Builder
	for rep := 0; rep < 10; rep++ {
		a := actor.NewActor()
		ad := &recAdapter{}
		a.SetAdapter(ad)
		a.SetRunner(actor.NewBotRunner(playerID))
		mv := "none"
		func() {
			defer func() {
				if e := recover(); e != nil {
					mv = "panic:" + strings.ReplaceAll(fmt.Sprint(e), " ", "_")
				}
			}()
			ad.UpdateTableState(safeClone(t))
		}()
		if !strings.HasPrefix(mv, "panic") {
			if calls := ad.take(); len(calls) > 0 {
				mv = fmt.Sprintf("%s:%d", calls[0].kind, calls[0].arg)
				if len(calls) > 1 {
					mv += fmt.Sprintf("+%d-more", len(calls)-1)
				}
			}
		}
		fmt.Fprintf(&sb, "ac botcase edge=%s gi=%d %s | move=%s\n", edge, cur, v, mv)
	}
	return sb.String()
}

// botRepeatCase: one bot is shown a hand state in which it is asked, then the very same state again (a table event that
// does not change the hand re-publishes it), then an older state of the same hand: it acts once, on the first
func botRepeatCase(r *rand.Rand, snap *pokertable.Table, caseNo int) string {
	t := safeClone(snap)
	if t == nil || t.State.GameState == nil || t.State.Status != pokertable.TableStateStatus_TableGamePlaying {
		return ""
	}
	gs := t.State.GameState
	asked := []int{}
	for k, p := range gs.Players {
		if len(p.AllowedActions) > 0 && k < len(t.State.GamePlayerIndexes) {
			asked = append(asked, k)
		}
	}
	if len(asked) == 0 {
		return ""
	}
	gi := asked[r.Intn(len(asked))]
	playerID := t.State.PlayerStates[t.State.GamePlayerIndexes[gi]].PlayerID
	a := actor.NewActor()
	ad := &recAdapter{}
	a.SetAdapter(ad)
	a.SetRunner(actor.NewBotRunner(playerID))
	var sb strings.Builder
	fmt.Fprintf(&sb, "ac new h=%d kind=botrepeat\n", 910000+caseNo)
	show := func(tt *pokertable.Table) {
		mv := "none"
		func() {
			defer func() {
				if e := recover(); e != nil {
					mv = "panic:0"
				}
			}()
			ad.UpdateTableState(tt)
		}()
		if calls := ad.take(); len(calls) > 0 {
			mv = fmt.Sprintf("%s:%d", calls[0].kind, calls[0].arg)
			if len(calls) > 1 {
				mv += fmt.Sprintf("+%d-more", len(calls)-1)
			}
		}
		vs := "-"
		if tt.State.GameState != nil {
			vs = viewStr(tt.State.GameState)
		}
		fmt.Fprintf(&sb, "ac bot id=%d seated=1 in=1 st=playing gi=%d %s | move=%s res=ok\n", idNum(playerID), gi, vs, mv)
	}
	// the hand is about to start: startGame has set the status to playing, the first hand state has not reached the table
	// yet, and a call that emits without the engine lock (a sit-in, a top-up, a level change) publishes that table (D34)
	early := safeClone(t)
	early.State.GameState = nil
	show(early)
	first := safeClone(t)
	first.State.GameState.UpdatedAt -= 2000
	show(first)        // an earlier state of the same hand (the bot may act on it)
	show(safeClone(t)) // acts
	again := safeClone(t)
	again.UpdateSerial++ // e.g. a deadline extension or a reservation re-published the table; the hand state is the same
	show(again)
	older := safeClone(t)
	older.State.GameState.UpdatedAt -= 1000
	show(older)
	sb.WriteString("ac end\n")
	return sb.String()
}

// botHumanCase: a humanised bot (it thinks for a random number of whole seconds below the action time before it moves) is
// asked for a wager action, and while its move is still pending the table is published again with the same hand state
// (somebody reserved a seat, say). The bot still makes its one move.
func botHumanCase(r *rand.Rand, snap *pokertable.Table, caseNo int) string {
	t := safeClone(snap)
	if t == nil || t.State.GameState == nil || t.State.Status != pokertable.TableStateStatus_TableGamePlaying {
		return ""
	}
	gs := t.State.GameState
	if gs.Status.CurrentEvent != "RoundStarted" {
		return ""
	}
	gi := gs.Status.CurrentPlayer
	if p := gs.GetPlayer(gi); p == nil || len(p.AllowedActions) == 0 || gi >= len(t.State.GamePlayerIndexes) {
		return ""
	}
	t.Meta.ActionTime = 2 // thinks 0 or 1 s
	playerID := t.State.PlayerStates[t.State.GamePlayerIndexes[gi]].PlayerID
	a := actor.NewActor()
	ad := &recAdapter{}
	a.SetAdapter(ad)
	br := actor.NewBotRunner(playerID)
	br.Humanized(true)
	a.SetRunner(br)
	ad.UpdateTableState(safeClone(t))
	time.Sleep(time.Duration(100+r.Intn(200)) * time.Millisecond)
	again := safeClone(t)
	again.UpdateSerial++
	if caseNo%2 == 1 && again.State.GameState.UpdatedAt > 1 {
		// … or an *older* view of the same hand overtakes (updates fanned out per actor or asynchronously): somebody else is
		// to act in it. The bot's filter discards it as outdated; the move it is thinking about is the one for the state it
		// was asked on
		g := again.State.GameState
		g.UpdatedAt--
		for _, p := range g.Players {
			p.AllowedActions = []string{}
		}
		g.Status.CurrentPlayer = (gi + 1) % len(g.Players)
	}
	ad.UpdateTableState(again)
	// the move is due at most one second after the first publication
	waitFor(1800*time.Millisecond, func() bool {
		ad.mu.Lock()
		defer ad.mu.Unlock()
		return len(ad.calls) > 0
	})
	time.Sleep(150 * time.Millisecond) // a second move, if any, is made at about the same moment
	mv := "none"
	if calls := ad.take(); len(calls) > 0 {
		mv = fmt.Sprintf("%s:%d", calls[0].kind, calls[0].arg)
		if len(calls) > 1 {
			mv += fmt.Sprintf("+%d-more", len(calls)-1)
		}
	}
	var sb strings.Builder
	fmt.Fprintf(&sb, "ac new h=%d kind=bothuman\n", 920000+caseNo)
	fmt.Fprintf(&sb, "ac bot id=%d seated=1 in=1 st=playing gi=%d %s | move=%s res=ok\n", idNum(playerID), gi, viewStr(gs), mv)
	fmt.Fprintf(&sb, "ac bot id=%d seated=1 in=1 st=playing gi=%d %s | move=none res=ok\n", idNum(playerID), gi, viewStr(gs))
	sb.WriteString("ac end\n")
	return sb.String()
}

func pickPlayer(r *rand.Rand, s *pokertable.Table) string {
	gi := s.State.GamePlayerIndexes
	if len(gi) == 0 {
		return ""
	}
	if s.State.GameState != nil && r.Intn(5) != 0 {
		asked := []int{}
		for k, p := range s.State.GameState.Players {
			if len(p.AllowedActions) > 0 && k < len(gi) {
				asked = append(asked, k)
			}
		}
		if len(asked) > 0 {
			return s.State.PlayerStates[gi[asked[r.Intn(len(asked))]]].PlayerID
		}
	}
	return s.State.PlayerStates[gi[r.Intn(len(gi))]].PlayerID
}

func runActor(args []string) {
	fs := flag.NewFlagSet("actor", flag.ExitOnError)
	seed := fs.Int64("seed", 1, "PRNG seed")
	n := fs.Int("n", 12, "bot tables")
	hands := fs.Int("hands", 4, "hands per bot table")
	out := fs.String("out", "ac.trace", "trace file")
	statsFile := fs.String("stats", "", "stats json")
	workers := fs.Int("workers", 12, "parallel tables")
	pcases := fs.Int("playercases", 1500, "player-runner cases (immediate)")
	ptimed := fs.Int("playertimed", 24, "player-runner cases that wait for the thinking time (1 s each, in parallel)")
	ocases := fs.Int("observercases", 1500, "observer cases")
	bcases := fs.Int("botcases", 300, "bot-runner edge cases (stack on the edges of the bot's amount logic), 10 draws each")
	fs.Parse(args)
	devnull, _ := os.OpenFile(os.DevNull, os.O_WRONLY, 0)
	os.Stdout = devnull
	f, err := os.Create(*out)
	if err != nil {
		fmt.Fprintln(os.Stderr, err)
		os.Exit(2)
	}
	w := bufio.NewWriterSize(f, 1<<20)
	st := &acStats{BotMix: map[string]int{}, PlayerMix: map[string]int{}, ObsStatuses: map[string]int{}}
	var mu sync.Mutex
	snaps := []*pokertable.Table{}
	var snapMu sync.Mutex
	seen := map[uint64]bool{}

	var wg sync.WaitGroup
	per := (*n + *workers - 1) / *workers
	for wk := 0; wk < *workers; wk++ {
		wg.Add(1)
		go func(wk int) {
			defer wg.Done()
			r := rand.New(rand.NewSource(*seed*4099 + int64(wk)*17))
			for i := 0; i < per && wk*per+i < *n; i++ {
				sub := &acStats{BotMix: map[string]int{}, PlayerMix: map[string]int{}, ObsStatuses: map[string]int{}}
				s := botTable(r, sub, wk*per+i, *hands, &snaps, &snapMu)
				mu.Lock()
				w.WriteString(s)
				seen[fnv64(stripHistID(s))] = true
				st.Histories++
				st.BotTables += sub.BotTables
				st.BotHands += sub.BotHands
				st.BotMoves += sub.BotMoves
				st.BotRejected += sub.BotRejected
				for k, v := range sub.BotMix {
					st.BotMix[k] += v
				}
				if len(st.Samples) < 1 && len(s) < 30000 {
					st.Samples = append(st.Samples, s)
				}
				mu.Unlock()
			}
		}(wk)
	}
	wg.Wait()
	st.Snapshots = len(snaps)
	r := rand.New(rand.NewSource(*seed))
	if len(snaps) > 0 {
		w.WriteString("ac new h=900003 kind=botcases\n")
		betSnaps := []*pokertable.Table{}
		for _, sn := range snaps {
			if g := sn.State.GameState; g != nil && g.Status.CurrentEvent == "RoundStarted" && sn.State.Status == pokertable.TableStateStatus_TableGamePlaying {
				if cp := g.GetPlayer(g.Status.CurrentPlayer); cp != nil {
					for _, a := range cp.AllowedActions {
						if a == "bet" {
							betSnaps = append(betSnaps, sn)
						}
					}
				}
			}
		}
		for k, tries := 0, 0; k < *bcases && tries < *bcases*40; tries++ {
			pick := snaps[r.Intn(len(snaps))]
			if len(betSnaps) > 0 && r.Intn(2) == 0 {
				pick = betSnaps[r.Intn(len(betSnaps))] // states in which nobody has bet yet are rare among all states
			}
			l := botCase(r, pick)
			if l != "" {
				w.WriteString(l)
				k++
				st.BotCases++
			}
		}
		w.WriteString("ac end\n")
		for k, tries := 0, 0; k < *bcases/3 && tries < *bcases*20; tries++ {
			l := botRepeatCase(r, snaps[r.Intn(len(snaps))], k)
			if l != "" {
				w.WriteString(l)
				k++
				st.BotCases++
			}
		}
		// humanised bots with a pending move and an unrelated publication, in parallel (each takes up to two seconds)
		{
			roundSnaps := []*pokertable.Table{}
			for _, sn := range snaps {
				if g := sn.State.GameState; g != nil && g.Status.CurrentEvent == "RoundStarted" && sn.State.Status == pokertable.TableStateStatus_TableGamePlaying {
					roundSnaps = append(roundSnaps, sn)
				}
			}
			nh := *bcases / 12
			if nh > 48 {
				nh = 48
			}
			hum := make([]string, nh)
			var wgh sync.WaitGroup
			for k := 0; k < nh && len(roundSnaps) > 0; k++ {
				wgh.Add(1)
				go func(k int, sn *pokertable.Table, rr *rand.Rand) {
					defer wgh.Done()
					hum[k] = botHumanCase(rr, sn, k)
				}(k, roundSnaps[r.Intn(len(roundSnaps))], rand.New(rand.NewSource(r.Int63())))
			}
			wgh.Wait()
			for _, l := range hum {
				if l != "" {
					w.WriteString(l)
					st.BotCases++
				}
			}
		}
		w.WriteString("ac new h=900001 kind=player\n")
		// player runner, immediate outcomes: every status, action time 0 (acts at once) and 1 (arms the time bank)
		for k := 0; k < *pcases; k++ {
			s := snaps[r.Intn(len(snaps))]
			if len(s.State.GamePlayerIndexes) == 0 {
				continue
			}
			pl := pickPlayer(r, s)
			line := playerCase(s, pl, r.Intn(3), r.Intn(2), false, r.Intn(2) == 0)
			if k%4 == 3 {
				line = playerCaseLate(s, nil, pl, 0, r.Intn(2), false, r.Intn(2) == 0, statusPaths[r.Intn(len(statusPaths))])
			}
			w.WriteString(line)
			st.PlayerCases++
			if k%20 == 0 {
				w.WriteString(playerNoStateCase(s, pl, r.Intn(3)))
			}
		}
		// timed cases in parallel
		timed := make([]string, *ptimed)
		var wg2 sync.WaitGroup
		for k := 0; k < *ptimed; k++ {
			s := snaps[r.Intn(len(snaps))]
			if len(s.State.GamePlayerIndexes) == 0 {
				continue
			}
			pl := pickPlayer(r, s)
			status := r.Intn(3)
			wg2.Add(1)
			var late *pokertable.Table
			if k%3 == 0 {
				late = earlierAsk(snaps, s, pl)
			}
			path := ""
			if k%3 == 1 {
				path = statusPaths[r.Intn(len(statusPaths))]
			}
			go func(k int, s, late *pokertable.Table, pl string, status int, path string) {
				defer wg2.Done()
				timed[k] = playerCaseLate(s, late, pl, status, 1, true, k%2 == 0, path)
			}(k, s, late, pl, status, path)
		}
		wg2.Wait()
		back := make([]string, 6)
		var wg3 sync.WaitGroup
		for k := 0; k < len(back); k++ {
			s := snaps[r.Intn(len(snaps))]
			if len(s.State.GamePlayerIndexes) == 0 {
				continue
			}
			pl := pickPlayer(r, s)
			first := earlierAsk(snaps, s, pl)
			if first == nil {
				continue
			}
			wg3.Add(1)
			go func(k int, first, s *pokertable.Table, pl string) {
				defer wg3.Done()
				back[k] = playerComeBack(first, s, pl)
			}(k, first, s, pl)
		}
		wg3.Wait()
		timed = append(timed, back...)
		for _, l := range timed {
			w.WriteString(l)
			st.PlayerCases++
		}
		for k := 0; k < 40; k++ {
			w.WriteString(deliveryCase(r, snaps[r.Intn(len(snaps))]))
		}
		w.WriteString("ac end\nac new h=900002 kind=observer\n")
		for k := 0; k < *ocases; k++ {
			s := snaps[r.Intn(len(snaps))]
			status := allStatuses[r.Intn(len(allStatuses))]
			if r.Intn(3) == 0 {
				status = s.State.Status
			}
			na := 1 + r.Intn(5)
			w.WriteString(observerCase(r, s, status, r.Intn(4) == 0, na, r.Intn(na)))
			st.ObsCases++
			st.ObsStatuses[statusShort(status)]++
			if k%10 == 0 {
				w.WriteString(observerOverlapCase(r, s, status))
			}
		}
		w.WriteString("ac end\n")
		st.Histories += 2
	}
	w.Flush()
	f.Close()
	st.Distinct = len(seen) + st.PlayerCases + st.ObsCases
	if *statsFile != "" {
		b, _ := json.MarshalIndent(st, "", " ")
		os.WriteFile(*statsFile, b, 0644)
	}
}
