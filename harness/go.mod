module verifharness

go 1.18

require (
	github.com/weedbox/pokerface v0.1.10
	github.com/weedbox/pokertable v0.0.0
)

require (
	github.com/google/uuid v1.3.1 // indirect
	github.com/thoas/go-funk v0.9.3 // indirect
	github.com/weedbox/syncsaga v0.0.0-20230821071725-a634f0872340 // indirect
	github.com/weedbox/timebank v0.0.0-20230713013837-bd7a6f808e3e // indirect
)

replace github.com/weedbox/pokertable => /repo
