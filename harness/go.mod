module verifharness

go 1.18

require github.com/weedbox/pokertable v0.0.0

require github.com/thoas/go-funk v0.9.3 // indirect

replace github.com/weedbox/pokertable => /repo
