package main

import (
	"bufio"
	"encoding/json"
	"flag"
	"fmt"
	"math/rand"
	"os"
	"runtime"
	"runtime/debug"
	"sort"
	"strconv"
	"strings"
	"sync"
	"time"

	"github.com/weedbox/pokerface"
	"github.com/weedbox/pokertable"
)

// ---------------------------------------------------------------------------------------------
// table-level histories on the synthetic backend: membership, open, settle, continue, many hands
// ---------------------------------------------------------------------------------------------

type tbStats struct {
	Histories  int            `json:"histories"`
	Ops        int            `json:"ops"`
	OpMix      map[string]int `json:"op_mix"`
	ErrKinds   map[string]int `json:"err_kinds"`
	SeatCounts map[string]int `json:"seat_counts"`
	Modes      map[string]int `json:"modes"`
	Hands      int            `json:"hands"`
	Busts      int            `json:"busts"`
	Refused    int            `json:"refused_opens"`
	Hung       int            `json:"hung_histories"`
	Aborted    int            `json:"dropped_because_the_gate_timer_fired_on_a_starved_harness"`
	Crashed    int            `json:"crashed_histories"`
	Distinct   int            `json:"distinct_histories"`
	Samples    []string       `json:"samples"`
}

func newTBStats() *tbStats {
	return &tbStats{OpMix: map[string]int{}, ErrKinds: map[string]int{}, SeatCounts: map[string]int{}, Modes: map[string]int{}}
}

func mergeTBStats(dst, src *tbStats) {
	dst.Histories += src.Histories
	dst.Ops += src.Ops
	dst.Hands += src.Hands
	dst.Busts += src.Busts
	dst.Refused += src.Refused
	dst.Hung += src.Hung
	dst.Aborted += src.Aborted
	for k, v := range src.OpMix {
		dst.OpMix[k] += v
	}
	for k, v := range src.ErrKinds {
		dst.ErrKinds[k] += v
	}
	for k, v := range src.SeatCounts {
		dst.SeatCounts[k] += v
	}
	for k, v := range src.Modes {
		dst.Modes[k] += v
	}
}

type tbHist struct {
	w                             *strings.Builder
	rig                           *Rig
	r                             *rand.Rand
	st                            *tbStats
	maxSeat                       int
	nextID                        int
	interval                      int  // GameContinueInterval of this table (seconds): > 0 leaves a window between settlement and the continue handler
	expectHand                    bool // the harness is inside tryOpen … playHand: a hand may be open
	lastSB, lastDealer, lastDealt int  // small blind / dealer of the hand just played, and how many were dealt in
	forceBust                     bool // the hand being played leaves one survivor
	dead                          bool // engine abandoned (refused open holds the lock for 30 s, hang, panic)
	synth                         *SynthBackend
	planned                       []int64 // result planned for the running hand (by game index)
}

func (h *tbHist) line(format string, a ...interface{}) {
	s := fmt.Sprintf(format+"\n", a...)
	h.w.WriteString(s)
	streamLine(s)
}

func (h *tbHist) rec(op string, err error) {
	h.st.Ops++
	h.st.OpMix[op]++
	if err != nil {
		h.st.ErrKinds[tbErrName(err)]++
	}
}

func (h *tbHist) obs() {
	s := h.stableObs()
	if h.unexpectedHand() {
		h.abort()
		return
	}
	h.line("%s", s)
}

// unexpectedHand: the open-game gate's own 2 s timer (not modelled as a clock) has opened a hand while the harness
// believed the table to be between hands — only possible when the harness is starved of CPU for seconds. The order
// of the last operations relative to that open is unknown, so the history is dropped (counted), never judged.
func (h *tbHist) unexpectedHand() bool {
	if h.expectHand || h.dead {
		return false
	}
	switch h.rig.live().State.Status {
	case pokertable.TableStateStatus_TableGameOpened, pokertable.TableStateStatus_TableGamePlaying, pokertable.TableStateStatus_TableGameSettled:
		return true
	}
	return false
}

func (h *tbHist) abort() { h.drop("gate-timer-opened-a-hand-while-the-harness-was-between-hands") }

// drop: the harness cannot tell what the engine did (or drove it somewhere the generator never goes on purpose): the
// history ends here and nothing is judged on it
func (h *tbHist) drop(why string) {
	if h.dead {
		return
	}
	h.line("tb abort %s", why)
	h.dead = true
	h.st.Aborted++
}

func (h *tbHist) fresh() int { h.nextID++; return h.nextID }

func (h *tbHist) table() *pokertable.Table { return h.rig.live() }

func (h *tbHist) playerIDs() []int {
	out := []int{}
	for _, p := range h.table().State.PlayerStates {
		out = append(out, idNum(p.PlayerID))
	}
	return out
}

// schedBarrier lets goroutines that were made runnable before this call get their turn: a few rounds of freshly spawned
// goroutines that yield and report back (Go runs runnable goroutines roughly in FIFO order per processor)
func schedBarrier(rounds int) {
	for i := 0; i < rounds; i++ {
		done := make(chan struct{})
		go func() {
			runtime.Gosched()
			close(done)
		}()
		<-done
		runtime.Gosched()
	}
}

// stableObs reads the full observation until two consecutive reads, a moment apart, agree (quiescent point)
func (h *tbHist) stableObs() string {
	prev := h.rig.fullObs(nil)
	for i := 0; i < 40; i++ {
		schedBarrier(2)
		time.Sleep(700 * time.Microsecond)
		cur := h.rig.fullObs(nil)
		if cur == prev {
			return cur
		}
		prev = cur
	}
	return prev
}

// settle the auto-join ready group after a membership call (D21/D22): all answered, then its callbacks get their turn
func (h *tbHist) quiesce() {
	waitFor(200*time.Millisecond, h.rig.autoJoinQuiet)
	schedBarrier(4)
	time.Sleep(1200 * time.Microsecond)
}

func (h *tbHist) seatOfID(id int) int {
	for _, p := range h.table().State.PlayerStates {
		if p.PlayerID == pid(id) {
			return p.Seat
		}
	}
	return -1
}

func (h *tbHist) opReserve(id int, chips int64, seat int) error {
	known := h.seatOfID(id) != -1
	err := h.rig.te.PlayerReserve(pokertable.JoinPlayer{PlayerID: pid(id), RedeemChips: chips, Seat: seat})
	ch := "-"
	if err == nil && !known && seat == -1 {
		ch = strconv.Itoa(h.seatOfID(id))
	}
	h.line("tb reserve id=%d chips=%d seat=%d ch=%s | %s", id, chips, seat, ch, tbErrName(err))
	h.rec("reserve", err)
	h.quiesce()
	if err == nil && !known {
		h.staleAutoJoin([]int{id})
	}
	h.obs()
	return err
}

// staleAutoJoin: a player who was just given a seat is already seated-in although nobody joined him — the completion
// callback of an earlier auto-join group ran late and walked the current player list (D22); recorded as an event
func (h *tbHist) staleAutoJoin(newIDs []int) {
	for _, p := range h.table().State.PlayerStates {
		for _, id := range newIDs {
			if p.PlayerID == pid(id) && p.IsIn {
				h.line("tb autojoin")
				h.st.OpMix["autojoin-stale"]++
				return
			}
		}
	}
}

func (h *tbHist) opJoin(id int) error {
	err := h.rig.te.PlayerJoin(pid(id))
	h.line("tb join id=%d | %s", id, tbErrName(err))
	h.rec("join", err)
	h.quiesce()
	h.obs()
	return err
}

func (h *tbHist) opRedeem(id int, chips int64) error {
	err := h.rig.te.PlayerRedeemChips(pokertable.JoinPlayer{PlayerID: pid(id), RedeemChips: chips})
	h.line("tb redeem id=%d chips=%d | %s", id, chips, tbErrName(err))
	h.rec("redeem", err)
	h.obs()
	return err
}

func (h *tbHist) opLeave(ids []int) error {
	s := make([]string, len(ids))
	for i, id := range ids {
		s[i] = pid(id)
	}
	if h.unexpectedHand() {
		h.abort()
		return nil
	}
	err := h.rig.te.PlayersLeave(s)
	h.line("tb leave ids=%s | %s", joinInts(ids), tbErrName(err))
	h.rec("leave", err)
	h.obs()
	return err
}

type joinSpec struct {
	id    int
	chips int64
	seat  int
}

func (h *tbHist) opUpdate(joins []joinSpec, leaves []int) error {
	js := make([]pokertable.JoinPlayer, 0)
	parts := make([]string, 0)
	known := map[int]bool{}
	for _, id := range h.playerIDs() {
		known[id] = true
	}
	for _, j := range joins {
		js = append(js, pokertable.JoinPlayer{PlayerID: pid(j.id), RedeemChips: j.chips, Seat: j.seat})
		parts = append(parts, fmt.Sprintf("%d:%d:%d", j.id, j.chips, j.seat))
	}
	ls := make([]string, len(leaves))
	for i, id := range leaves {
		ls[i] = pid(id)
	}
	if h.unexpectedHand() {
		h.abort()
		return nil
	}
	_, err := h.rig.te.UpdateTablePlayers(js, ls)
	ch := []int{}
	if err == nil {
		for _, j := range joins {
			if j.seat == -1 {
				ch = append(ch, h.seatOfID(j.id))
			}
		}
	}
	jp := "-"
	if len(parts) > 0 {
		jp = strings.Join(parts, ";")
	}
	h.line("tb update joins=%s leaves=%s ch=%s | %s", jp, joinInts(leaves), joinInts(ch), tbErrName(err))
	h.rec("update", err)
	h.quiesce()
	if err == nil {
		ids := []int{}
		for _, j := range joins {
			ids = append(ids, j.id)
		}
		h.staleAutoJoin(ids)
	}
	h.obs()
	return err
}

func (h *tbHist) opBlind(level int, ante, dealer, sb, bb int64) {
	h.rig.te.UpdateBlind(level, ante, dealer, sb, bb)
	h.line("tb blind %d,%d,%d,%d,%d", level, ante, dealer, sb, bb)
	h.rec("blind", nil)
	h.obs()
}

func (h *tbHist) opSimple(name string) {
	switch name {
	case "pause":
		h.rig.te.PauseTable()
	case "close":
		h.rig.te.CloseTable()
	case "release":
		h.rig.te.ReleaseTable()
	case "start":
		h.rig.te.StartTableGame()
	}
	h.line("tb %s", name)
	h.rec(name, nil)
	h.obs()
}

func (h *tbHist) opSetup(gc int, ids []int) {
	parts := map[string]int{}
	ps := make([]string, 0)
	for i, id := range ids {
		parts[pid(id)] = i
		ps = append(ps, fmt.Sprintf("%d:%d", id, i))
	}
	h.rig.te.SetUpTableGame(gc, parts)
	p := "-"
	if len(ps) > 0 {
		p = strings.Join(ps, ",")
	}
	h.line("tb setup gc=%d parts=%s", gc, p)
	h.rec("setup", nil)
	time.Sleep(300 * time.Microsecond)
	h.obs()
}

func (h *tbHist) opFinish(id int) error {
	err := h.rig.te.PlayerSettlementFinish(pid(id))
	h.line("tb finish id=%d | %s", id, tbErrName(err))
	h.rec("finish", err)
	return err
}

// gateParticipants as the open-game manager has them now
func (h *tbHist) gateParticipants() ([]int, int) {
	gc, ready, _ := h.rig.gateState()
	ids := []int{}
	for id := range ready {
		ids = append(ids, idNum(id))
	}
	sort.Ints(ids)
	return ids, gc
}

// planResult: an arbitrary chip-conserving outcome for the hand that is about to be played
func (h *tbHist) planResult(gs *pokerface.GameState) []int64 {
	n := len(gs.Players)
	changed := make([]int64, n)
	stacks := make([]int64, n)
	for i, p := range gs.Players {
		stacks[i] = p.Bankroll
	}
	mode := h.r.Intn(10)
	if h.forceBust {
		h.forceBust = false
		mode = 3 // everybody but the winner busts
	}
	winner := h.r.Intn(n)
	pot := int64(0)
	for i := 0; i < n; i++ {
		if i == winner {
			continue
		}
		var loss int64
		switch {
		case mode < 3: // somebody busts
			if h.r.Intn(2) == 0 {
				loss = stacks[i]
			} else {
				loss = h.r.Int63n(stacks[i] + 1)
			}
		case mode < 5: // everybody but the winner busts
			loss = stacks[i]
		case mode < 9:
			loss = h.r.Int63n(stacks[i]/4 + 2)
			if loss > stacks[i] {
				loss = stacks[i]
			}
		default: // nothing moves
			loss = 0
		}
		changed[i] = -loss
		pot += loss
	}
	// split pot between the winner and sometimes a second one
	if n > 2 && h.r.Intn(4) == 0 {
		second := (winner + 1 + h.r.Intn(n-1)) % n
		half := pot / 2
		changed[second] += half
		changed[winner] += pot - half
	} else {
		changed[winner] += pot
	}
	h.planned = changed
	return changed
}

// tryOpen: make the gate fire (all awaited participants signal) and wait for the outcome
func (h *tbHist) tryOpen() string {
	if h.unexpectedHand() {
		h.abort()
		return "aborted"
	}
	h.expectHand = true
	out := h.tryOpen1()
	if out != "opened" {
		h.expectHand = false
	}
	return out
}

// waitLocked polls the engine lock until it is found taken; free is the last moment it was seen free (the caller saw it
// free before it made the gate fire), so the moment it
// was taken lies in (free, now].  ok is false when it never was taken, or when the harness was not scheduled for so long
// that the moment is not known to within 300 ms.
func (h *tbHist) waitLocked(free time.Time, max time.Duration) (time.Time, bool) {
	deadline := time.Now().Add(max)
	for time.Now().Before(deadline) {
		if h.rig.hk.TryLock() {
			free = time.Now()
		} else {
			return free, time.Since(free) < 300*time.Millisecond
		}
		time.Sleep(2 * time.Millisecond)
	}
	return free, false
}

// refusedOpenThenRecover: the blind structure "has not been delivered yet" (level 0) when the gate fires, so the first
// attempt of tableGameOpen is refused and the engine waits 3 s — holding its lock — before it tries again.  Meanwhile the
// cause goes away through a lock-free call (the level arrives; now and then it is a break), and sometimes a call that
// needs the lock (a re-buy) queues up behind the open.  The retry is its own event in the trace (`tb retry`).
func (h *tbHist) refusedOpenThenRecover() string {
	if h.unexpectedHand() {
		h.abort()
		return "aborted"
	}
	ids, _ := h.gateParticipants()
	t := h.table()
	if len(ids) < 2 || t.State.BlindState == nil || t.State.BlindState.Level <= 0 || t.State.GameState != nil ||
		t.State.Status == pokertable.TableStateStatus_TableClosed || t.State.Status == pokertable.TableStateStatus_TablePausing || h.rig.hk.IsReleased() {
		return h.tryOpen()
	}
	for _, id := range ids { // everybody awaited must be able to signal, else the gate waits for its own 2 s timer
		ok := false
		for _, p := range t.State.PlayerStates {
			if p.PlayerID == pid(id) && p.IsIn {
				ok = true
			}
		}
		if !ok {
			return h.tryOpen()
		}
	}
	cur := *t.State.BlindState
	h.opBlind(0, 0, 0, 0, 0)
	if h.dead {
		return "aborted"
	}
	h.expectHand = true
	pre := h.table().State.GameCount
	preSnaps := h.rig.snapCount()
	wasInit := h.rig.hk.SeatManager().IsInitPositions()
	if !h.rig.hk.TryLock() {
		h.drop("refused-open-scenario-did-not-take-place")
		return "aborted"
	}
	free := time.Now()
	for _, k := range h.r.Perm(len(ids)) {
		h.opFinish(ids[k])
	}
	// everybody signalled: the callback runs at once, the attempt is refused, the engine sleeps with its lock held
	free, locked := h.waitLocked(free, time.Second)
	if locked {
		// the attempt itself runs for a moment with the lock held (it works on a clone of the table and replaces the table
		// with it: a lock-free call landing in that moment is lost — finding D31): act only once it is over and the engine
		// sits in its 3 s wait
		time.Sleep(150 * time.Millisecond)
		locked = !h.rig.hk.TryLock()
	}
	if !locked || h.table().State.GameCount != pre {
		// not what was set up (the gate did not fire, or it opened): nothing to compare
		h.drop("refused-open-scenario-did-not-take-place")
		return "aborted"
	}
	h.line("tb fire ch=-1 create=1 | refused")
	h.rec("fire", nil)
	h.line("%s", h.rig.fullObsNoLock())
	h.st.Refused++
	h.st.OpMix["refused-open-then-retry"]++
	// during the wait: the level arrives
	toBreak := h.r.Intn(4) == 0
	if toBreak {
		h.rig.te.UpdateBlind(-1, 0, 0, 0, 0)
		h.line("tb blind %d,%d,%d,%d,%d", -1, 0, 0, 0, 0)
	} else {
		h.rig.te.UpdateBlind(cur.Level, cur.Ante, cur.Dealer, cur.SB, cur.BB)
		h.line("tb blind %d,%d,%d,%d,%d", cur.Level, cur.Ante, cur.Dealer, cur.SB, cur.BB)
	}
	h.rec("blind", nil)
	h.line("%s", h.rig.fullObsNoLock())
	// … now and then the table is closed or released during the wait: the retry must not deal a hand (D32)
	if h.r.Intn(5) == 0 {
		what := []string{"close", "release"}[h.r.Intn(2)]
		if what == "close" {
			h.rig.te.CloseTable()
		} else {
			h.rig.te.ReleaseTable()
		}
		h.line("tb %s", what)
		h.rec(what, nil)
		h.line("%s", h.rig.fullObsNoLock())
		h.st.OpMix[what+"-while-an-open-is-being-retried"]++
	}
	// … and a re-buy of somebody seated queues up behind the open
	type queued struct {
		id    int
		chips int64
		err   error
	}
	var q *queued
	qDone := make(chan struct{})
	if h.r.Intn(2) == 0 {
		who := ids[h.r.Intn(len(ids))]
		q = &queued{id: who, chips: int64(100 + h.r.Intn(400))}
		go func() {
			q.err = h.rig.te.PlayerReserve(pokertable.JoinPlayer{PlayerID: pid(q.id), RedeemChips: q.chips, Seat: -1})
			close(qDone)
		}()
	}
	if time.Since(free) > 2500*time.Millisecond {
		h.drop("harness-too-slow-inside-the-retry-wait")
		return "aborted"
	}
	// the retry: 3 s after the first attempt
	opened := waitFor(3600*time.Millisecond, func() bool {
		t := h.table()
		if t.State.GameCount == pre+1 && t.State.Status == pokertable.TableStateStatus_TableGamePlaying && t.State.GameState != nil {
			return true
		}
		return q == nil && h.rig.hk.TryLock() // tableGameOpen returned without opening
	})
	outcome := "nothing"
	ch := -1
	if lt := h.table(); lt.State.GameCount == pre+1 && lt.State.Status == pokertable.TableStateStatus_TableGamePlaying {
		// the first hand state reaches the table on the hand's own goroutine, a moment after tableGameOpen has returned
		waitFor(time.Second, func() bool { return h.table().State.GameState != nil })
	}
	tt := h.table()
	switch {
	case opened && tt.State.GameCount == pre+1 && tt.State.Status == pokertable.TableStateStatus_TableGamePlaying && tt.State.GameState != nil:
		waitFor(500*time.Millisecond, func() bool {
			for _, s := range h.rig.snapsFrom(preSnaps) {
				if s.State.GameState != nil && s.State.GameCount == pre+1 {
					return true
				}
			}
			return false
		})
		time.Sleep(300 * time.Microsecond)
		outcome = "opened"
		if !wasInit {
			sm := h.rig.hk.SeatManager()
			if tt.Meta.Rule == pokertable.CompetitionRule_ShortDeck {
				ch = sm.CurrentDealerSeatID()
			} else {
				ch = sm.CurrentBBSeatID()
			}
		}
	case tt.State.GameCount == pre+1 && tt.State.Status == pokertable.TableStateStatus_TableGameOpened:
		outcome = "startfailed"
		if !wasInit {
			ch = h.rig.hk.SeatManager().CurrentBBSeatID()
		}
	default:
		if q != nil {
			// with a call queued the lock never looks free: tell "gave up" from "still retrying" by the queued call coming back
			select {
			case <-qDone:
			case <-time.After(600 * time.Millisecond):
				outcome = "refused"
			}
		} else if !h.rig.hk.TryLock() {
			outcome = "refused"
		}
	}
	h.line("tb retry ch=%d create=%s | %s", ch, b01(outcome != "startfailed"), outcome)
	h.rec("retry", nil)
	for _, s := range h.rig.snapsFrom(preSnaps) {
		if s.State.Status == pokertable.TableStateStatus_TableGameOpened && s.State.GameCount == pre+1 {
			h.line("tb snap-opened %s", tableObs(s))
			break
		}
	}
	if outcome == "refused" {
		h.dead = true
		h.line("%s", h.rig.fullObsNoLock())
		return outcome
	}
	// what the backend received (before anything queued behind the open landed)
	if outcome == "opened" {
		calls := h.rig.be.Calls()
		for i := len(calls) - 1; i >= 0; i-- {
			if calls[i].Kind == "create" && calls[i].Opts != nil {
				o := calls[i].Opts
				ps := []string{}
				for _, p := range o.Players {
					ps = append(ps, fmt.Sprintf("%d:%s", p.Bankroll, strings.Join(p.Positions, "+")))
				}
				h.line("tb opts ante=%d blind=%d,%d,%d players=%s", o.Ante, o.Blind.Dealer, o.Blind.SB, o.Blind.BB, strings.Join(ps, ";"))
				break
			}
		}
		h.st.Hands++
	} else {
		h.expectHand = false
	}
	if q != nil {
		// the queued re-buy lands once tableGameOpen has let go of the lock: after the hand was opened and started
		select {
		case <-qDone:
		case <-time.After(2 * time.Second):
			h.drop("queued-call-did-not-come-back")
			return "aborted"
		}
		h.line("tb reserve id=%d chips=%d seat=-1 ch=- | %s", q.id, q.chips, tbErrName(q.err))
		h.rec("reserve", q.err)
		h.st.OpMix["re-buy-queued-behind-a-retrying-open"]++
		h.quiesce()
	}
	h.line("%s", h.stableObs())
	if outcome == "startfailed" {
		h.dead = true // the table stays in `opened` with a hand that does not exist
	}
	return outcome
}

// refusedByPositionsThenRecover (first hand): only one of the players named to the gate has sat in, so the gate fires on
// its own 2 s timer and the seat manager refuses to place the buttons (one active seat): tableGameOpen waits 3 s — holding
// the engine lock — and tries again.  Meanwhile the others sit in (PlayerJoin takes no lock); now and then a break is
// announced as well.  The retry is its own event in the trace.
func (h *tbHist) refusedByPositionsThenRecover() string {
	if h.unexpectedHand() {
		h.abort()
		return "aborted"
	}
	ids, _ := h.gateParticipants()
	t := h.table()
	in, out := []int{}, []int{}
	for _, p := range t.State.PlayerStates {
		named := false
		for _, id := range ids {
			if pid(id) == p.PlayerID {
				named = true
			}
		}
		switch {
		case p.IsIn && p.Bankroll > 0:
			in = append(in, idNum(p.PlayerID))
		case named && !p.IsIn && p.Bankroll > 0:
			out = append(out, idNum(p.PlayerID))
		}
	}
	if len(in) != 1 || len(out) == 0 || len(ids) < 2 || h.rig.hk.SeatManager().IsInitPositions() || t.State.BlindState == nil || t.State.BlindState.Level <= 0 ||
		t.State.Status == pokertable.TableStateStatus_TableClosed || t.State.Status == pokertable.TableStateStatus_TablePausing || h.rig.hk.IsReleased() {
		return h.tryOpen()
	}
	h.expectHand = true
	pre := t.State.GameCount
	preSnaps := h.rig.snapCount()
	if !h.rig.hk.TryLock() {
		h.drop("refused-open-scenario-did-not-take-place")
		return "aborted"
	}
	free := time.Now()
	for _, k := range h.r.Perm(len(ids)) {
		h.opFinish(ids[k]) // refused for whoever has not sat in: he stays awaited
	}
	free, locked := h.waitLocked(free, 2800*time.Millisecond)
	if locked {
		time.Sleep(150 * time.Millisecond) // see refusedOpenThenRecover
		locked = !h.rig.hk.TryLock()
	}
	if !locked || h.table().State.GameCount != pre {
		h.drop("refused-open-scenario-did-not-take-place")
		return "aborted"
	}
	h.line("# engine lock found taken %d ms after it was last seen free", time.Since(free).Milliseconds())
	h.line("tb fire ch=-1 create=1 | refused")
	h.rec("fire", nil)
	h.line("%s", h.rig.fullObsNoLock())
	h.st.Refused++
	h.st.OpMix["open-refused-by-the-seat-manager-then-retry"]++
	if h.r.Intn(4) == 0 {
		h.rig.te.UpdateBlind(-1, 0, 0, 0, 0)
		h.line("tb blind %d,%d,%d,%d,%d", -1, 0, 0, 0, 0)
		h.rec("blind", nil)
		h.line("%s", h.rig.fullObsNoLock())
	}
	for _, id := range out {
		err := h.rig.te.PlayerJoin(pid(id))
		h.line("# %d ms into the retry wait", time.Since(free).Milliseconds())
		h.line("tb join id=%d | %s", id, tbErrName(err))
		h.rec("join", err)
		h.quiesce()
		h.line("%s", h.stableObs())
	}
	if h.r.Intn(5) == 0 {
		what := []string{"close", "release"}[h.r.Intn(2)]
		if what == "close" {
			h.rig.te.CloseTable()
		} else {
			h.rig.te.ReleaseTable()
		}
		h.line("tb %s", what)
		h.rec(what, nil)
		h.line("%s", h.rig.fullObsNoLock())
		h.st.OpMix[what+"-while-an-open-is-being-retried"]++
	}
	if time.Since(free) > 2500*time.Millisecond {
		h.drop("harness-too-slow-inside-the-retry-wait")
		return "aborted"
	}
	opened := waitFor(3600*time.Millisecond, func() bool {
		t := h.table()
		if t.State.GameCount == pre+1 && t.State.Status == pokertable.TableStateStatus_TableGamePlaying && t.State.GameState != nil {
			return true
		}
		return h.rig.hk.TryLock()
	})
	outcome := "nothing"
	ch := -1
	if lt := h.table(); lt.State.GameCount == pre+1 && lt.State.Status == pokertable.TableStateStatus_TableGamePlaying {
		// the first hand state reaches the table on the hand's own goroutine, a moment after tableGameOpen has returned
		waitFor(time.Second, func() bool { return h.table().State.GameState != nil })
	}
	tt := h.table()
	switch {
	case opened && tt.State.GameCount == pre+1 && tt.State.Status == pokertable.TableStateStatus_TableGamePlaying && tt.State.GameState != nil:
		waitFor(500*time.Millisecond, func() bool {
			for _, s := range h.rig.snapsFrom(preSnaps) {
				if s.State.GameState != nil && s.State.GameCount == pre+1 {
					return true
				}
			}
			return false
		})
		time.Sleep(300 * time.Microsecond)
		outcome = "opened"
		sm := h.rig.hk.SeatManager()
		if tt.Meta.Rule == pokertable.CompetitionRule_ShortDeck {
			ch = sm.CurrentDealerSeatID()
		} else {
			ch = sm.CurrentBBSeatID()
		}
	case tt.State.GameCount == pre+1 && tt.State.Status == pokertable.TableStateStatus_TableGameOpened:
		outcome = "startfailed"
		ch = h.rig.hk.SeatManager().CurrentBBSeatID()
	case !h.rig.hk.TryLock():
		outcome = "refused"
	}
	h.line("# retry seen %d ms after the lock was last seen free", time.Since(free).Milliseconds())
	h.line("tb retry ch=%d create=%s | %s", ch, b01(outcome != "startfailed"), outcome)
	h.rec("retry", nil)
	for _, s := range h.rig.snapsFrom(preSnaps) {
		if s.State.Status == pokertable.TableStateStatus_TableGameOpened && s.State.GameCount == pre+1 {
			h.line("tb snap-opened %s", tableObs(s))
			break
		}
	}
	if outcome == "refused" || outcome == "startfailed" {
		h.dead = true
		h.line("%s", h.rig.fullObsNoLock())
		return outcome
	}
	h.line("%s", h.stableObs())
	if outcome == "opened" {
		calls := h.rig.be.Calls()
		for i := len(calls) - 1; i >= 0; i-- {
			if calls[i].Kind == "create" && calls[i].Opts != nil {
				o := calls[i].Opts
				ps := []string{}
				for _, p := range o.Players {
					ps = append(ps, fmt.Sprintf("%d:%s", p.Bankroll, strings.Join(p.Positions, "+")))
				}
				h.line("tb opts ante=%d blind=%d,%d,%d players=%s", o.Ante, o.Blind.Dealer, o.Blind.SB, o.Blind.BB, strings.Join(ps, ";"))
				break
			}
		}
		h.st.Hands++
	} else {
		h.expectHand = false
	}
	return outcome
}

func (h *tbHist) tryOpen1() string {
	ids, _ := h.gateParticipants()
	pre := h.table().State.GameCount
	preSnaps := h.rig.snapCount()
	wasInit := h.rig.hk.SeatManager().IsInitPositions()
	// signals in random order; unknown ones / not seated-in ones are refused by the engine and stay awaited → 2 s timeout
	perm := h.r.Perm(len(ids))
	for _, k := range perm {
		h.opFinish(ids[k])
	}
	// outcome
	opened := waitFor(2600*time.Millisecond, func() bool {
		t := h.table()
		return t.State.GameCount == pre+1 && t.State.Status == pokertable.TableStateStatus_TableGamePlaying && t.State.GameState != nil
	})
	outcome := "nothing"
	ch := -1
	if opened {
		// the first hand state has been published (the updater goroutine is done with it)
		waitFor(500*time.Millisecond, func() bool {
			for _, s := range h.rig.snapsFrom(preSnaps) {
				if s.State.GameState != nil && s.State.GameCount == pre+1 {
					return true
				}
			}
			return false
		})
		time.Sleep(300 * time.Microsecond)
		outcome = "opened"
		sm := h.rig.hk.SeatManager()
		if !wasInit {
			if h.table().Meta.Rule == pokertable.CompetitionRule_ShortDeck {
				ch = sm.CurrentDealerSeatID()
			} else {
				ch = sm.CurrentBBSeatID()
			}
		}
	} else {
		t := h.table()
		switch {
		case t.State.GameCount == pre+1 && t.State.Status == pokertable.TableStateStatus_TableGameOpened:
			outcome = "startfailed"
			if !wasInit {
				ch = h.rig.hk.SeatManager().CurrentBBSeatID()
			}
		case !h.rig.hk.TryLock():
			outcome = "refused" // tableGameOpen is sleeping in its retry loop with the engine lock held
		}
	}
	h.line("tb fire ch=%d create=%s | %s", ch, b01(outcome != "startfailed"), outcome)
	h.rec("fire", nil)
	// the `opened` snapshot (emitted inside the lock before the backend is asked) for the monitors
	for _, s := range h.rig.snapsFrom(preSnaps) {
		if s.State.Status == pokertable.TableStateStatus_TableGameOpened && s.State.GameCount == pre+1 {
			h.line("tb snap-opened %s", tableObs(s))
			break
		}
	}
	if outcome == "refused" || outcome == "startfailed" {
		h.st.Refused++
		h.dead = true
		h.line("%s", h.rig.fullObsNoLock())
		return outcome
	}
	h.obs()
	if outcome == "opened" {
		// what the backend received
		calls := h.rig.be.Calls()
		for i := len(calls) - 1; i >= 0; i-- {
			if calls[i].Kind == "create" && calls[i].Opts != nil {
				o := calls[i].Opts
				ps := []string{}
				for _, p := range o.Players {
					ps = append(ps, fmt.Sprintf("%d:%s", p.Bankroll, strings.Join(p.Positions, "+")))
				}
				h.line("tb opts ante=%d blind=%d,%d,%d players=%s", o.Ante, o.Blind.Dealer, o.Blind.SB, o.Blind.BB, strings.Join(ps, ";"))
				break
			}
		}
		h.st.Hands++
	}
	return outcome
}

// fullObsNoLock: same as fullObs (nothing here takes the engine lock; named for the call site's intent)
func (r *Rig) fullObsNoLock() string { return r.fullObs(nil) }

// playHand: everybody asked answers ready → the synthetic backend closes the hand → settle → continue
func (h *tbHist) playHand() bool {
	ok := h.playHand1()
	h.expectHand = false
	return ok
}

func (h *tbHist) playHand1() bool {
	t := h.table()
	gidx := append([]int{}, t.State.GamePlayerIndexes...)
	ids := []int{}
	for _, pi := range gidx {
		if pi >= 0 && pi < len(t.State.PlayerStates) {
			ids = append(ids, idNum(t.State.PlayerStates[pi].PlayerID))
		}
	}
	preSnaps := h.rig.snapCount()
	gc := t.State.GameCount
	// the gate as it stands while the hand runs (nobody touches it until the continue step): an open attempt during the
	// hand may have left it set up under the very count the continue step will use
	gateBefore := h.rig.gateObs()
	settledPre := h.rig.settledDone.Load()
	// now and then somebody reacts to the settlement notification at once: a player busted by this hand is re-bought from
	// inside the GameSettled callback, i.e. between settleGame and the continue step
	type cbRebuy struct {
		id    int
		chips int64
		err   error
	}
	var cbMu sync.Mutex
	cbOps := []cbRebuy{}
	// … or the table is closed / released just then, or a moment earlier: after the hand's last answer was accepted and
	// before it is settled. The hand is settled all the same and nothing opens afterwards.
	stopped := "" // "close" / "release", where: "before-settlement" / "in-notification"
	stoppedWhere := ""
	stopPlanned := true
	switch h.r.Intn(14) {
	case 0, 1:
		what := []string{"close", "release"}[h.r.Intn(2)]
		h.synth.BeforeClosed = func() {
			h.synth.BeforeClosed = nil
			if what == "close" {
				h.rig.te.CloseTable()
			} else {
				h.rig.te.ReleaseTable()
			}
			cbMu.Lock()
			stopped, stoppedWhere = what, "before-settlement"
			cbMu.Unlock()
		}
		defer func() { h.synth.BeforeClosed = nil }()
	case 2, 3:
		what := []string{"close", "release"}[h.r.Intn(2)]
		h.rig.setOnSettled(func(t *pokertable.Table) {
			if what == "close" {
				h.rig.te.CloseTable()
			} else {
				h.rig.te.ReleaseTable()
			}
			cbMu.Lock()
			stopped, stoppedWhere = what, "in-notification"
			cbMu.Unlock()
		})
		defer h.rig.setOnSettled(nil)
	default:
		stopPlanned = false
	}
	if !stopPlanned && h.r.Intn(3) == 0 {
		chips := int64(100 + h.r.Intn(500))
		h.rig.setOnSettled(func(t *pokertable.Table) {
			for _, p := range t.State.PlayerStates {
				if p.IsParticipated && p.Bankroll == 0 {
					err := h.rig.te.PlayerReserve(pokertable.JoinPlayer{PlayerID: p.PlayerID, RedeemChips: chips, Seat: -1})
					cbMu.Lock()
					cbOps = append(cbOps, cbRebuy{idNum(p.PlayerID), chips, err})
					cbMu.Unlock()
					return
				}
			}
		})
		defer h.rig.setOnSettled(nil)
	}
	for _, k := range h.r.Perm(len(ids)) {
		err := h.rig.te.PlayerReady(pid(ids[k]))
		if err != nil {
			h.line("# ready %d refused: %s", ids[k], tbErrName(err))
		}
	}
	// settled snapshot
	var settled *pokertable.Table
	ok := waitFor(3*time.Second, func() bool {
		for _, s := range h.rig.snapsFrom(preSnaps) {
			if s.State.Status == pokertable.TableStateStatus_TableGameSettled && s.State.GameCount == gc {
				settled = s
				return true
			}
		}
		return false
	})
	if !ok {
		h.line("# hand did not settle within 3 s (status %s)", h.rig.liveStatus())
		cbMu.Lock()
		w, where := stopped, stoppedWhere
		cbMu.Unlock()
		if where == "before-settlement" {
			// everybody had answered (the backend was asked for the closed state): the hand is over, its result must be booked
			h.line("tb %s", w)
			h.line("tb unsettled gc=%d after=%s", gc, w)
		}
		h.dead = true
		h.st.Hung++
		return false
	}
	// who held which button in this hand (for departures that leave a dead button on an empty seat)
	h.lastSB, h.lastDealer, h.lastDealt = 0, 0, 0
	for _, p := range settled.State.PlayerStates {
		if !p.IsParticipated {
			continue
		}
		h.lastDealt++
		for _, pos := range p.Positions {
			if pos == "sb" {
				h.lastSB = idNum(p.PlayerID)
			}
			if pos == "dealer" {
				h.lastDealer = idNum(p.PlayerID)
			}
		}
	}
	res := []string{}
	if settled.State.GameState != nil && settled.State.GameState.Result != nil {
		for _, p := range settled.State.GameState.Result.Players {
			res = append(res, fmt.Sprintf("%d:%d", p.Idx, p.Changed))
			if p.Final == 0 {
				h.st.Busts++
			}
		}
	}
	cbMu.Lock()
	if stoppedWhere == "before-settlement" {
		h.line("tb %s", stopped)
		h.rec(stopped, nil)
		h.st.OpMix[stopped+"-between-the-last-answer-and-settlement"]++
	}
	cbMu.Unlock()
	h.line("tb settle res=%s | ok", strings.Join(res, ","))
	h.rec("settle", nil)
	h.line("tb obs %s sm=? gate=? rel=?", tableObs(settled))
	// the settlement notification follows the settled snapshot: let its listener finish before looking at what it did
	waitFor(time.Second, func() bool { return h.rig.settledDone.Load() > settledPre })
	h.rig.setOnSettled(nil)
	cbMu.Lock()
	if stoppedWhere == "in-notification" {
		h.line("tb %s", stopped)
		h.rec(stopped, nil)
		h.st.OpMix[stopped+"-from-inside-the-settlement-notification"]++
	}
	for _, o := range cbOps {
		h.line("tb reserve id=%d chips=%d seat=-1 ch=- | %s", o.id, o.chips, tbErrName(o.err))
		h.rec("reserve", o.err)
		h.st.OpMix["re-buy-from-inside-the-settlement-notification"]++
	}
	cbMu.Unlock()
	if h.interval > 0 && h.r.Intn(2) == 0 {
		// in the window between settlement and the delayed continue handler: the level changes (a break begins or ends,
		// or another level) — the handler decides on the level in force when it runs
		cur := h.table().State.BlindState
		if cur != nil && cur.Level == -1 {
			h.rig.te.UpdateBlind(2, 0, 0, 20, 40)
			h.line("tb blind %d,%d,%d,%d,%d", 2, 0, 0, 20, 40)
		} else if h.r.Intn(3) != 0 {
			h.rig.te.UpdateBlind(-1, 0, 0, 0, 0)
			h.line("tb blind %d,%d,%d,%d,%d", -1, 0, 0, 0, 0)
		} else {
			h.rig.te.UpdateBlind(3, 0, 0, 30, 60)
			h.line("tb blind %d,%d,%d,%d,%d", 3, 0, 0, 30, 60)
		}
		h.rec("blind", nil)
		h.st.OpMix["blind-change-between-settlement-and-continue"]++
	}
	cbMu.Lock()
	alreadyStopped := stopped != ""
	cbMu.Unlock()
	if h.interval > 0 && !alreadyStopped && h.r.Intn(3) == 0 {
		// continueGame has put the table back to standby and armed its timer; the table is closed (or released) before the
		// timer fires: the delayed handler then leaves the table alone — it neither pauses it nor sets the next hand up
		if waitFor(500*time.Millisecond, func() bool {
			lt := h.table()
			return lt.State.Status == pokertable.TableStateStatus_TableGameStandby && lt.State.GameState == nil
		}) {
			time.Sleep(2 * time.Millisecond)
			h.line("tb contreset")
			h.rec("contreset", nil)
			h.obs()
			what := []string{"close", "release"}[h.r.Intn(2)]
			gateAt := h.rig.gateObs()
			h.opSimple(what)
			time.Sleep(time.Duration(h.interval)*time.Second + 300*time.Millisecond)
			lt := h.table()
			out := "nothing"
			switch {
			case lt.State.Status == pokertable.TableStateStatus_TablePausing:
				out = "paused"
			case h.rig.gateObs() != gateAt:
				out = "setup"
			}
			h.line("tb tick expired=0 | %s", out)
			h.rec("tick", nil)
			h.obs()
			h.st.OpMix[what+"-inside-the-continue-interval"]++
			return true
		}
	}
	// continue (interval 0: synchronous in the hand's updater goroutine; interval 1: a second later)
	preset := strings.HasPrefix(gateBefore, fmt.Sprintf("%d/", gc+1))
	if preset {
		// the count tells nothing (an open attempt during the hand left the gate set up under it): let the handler run —
		// well inside the 2 s after which a set-up gate fires by itself — then compare the whole gate
		time.Sleep(time.Duration(h.interval)*time.Second + 300*time.Millisecond)
	}
	done := preset || waitFor(time.Duration(2+h.interval)*time.Second, func() bool {
		lt := h.table()
		if lt.State.GameState != nil {
			return false
		}
		if lt.State.Status == pokertable.TableStateStatus_TablePausing {
			return true
		}
		return lt.State.Status == pokertable.TableStateStatus_TableGameStandby && h.rig.gateCount() == gc+1
	})
	if !done {
		// closed / released tables and unhandled situations end here: give the handler a moment, then look
		time.Sleep(3 * time.Millisecond)
	} else {
		time.Sleep(1500 * time.Microsecond) // Setup writes the game count first and the participants after
	}
	lt := h.table()
	out := "nothing"
	g := h.rig.gateCount()
	switch {
	case lt.State.Status == pokertable.TableStateStatus_TablePausing:
		out = "paused"
	case lt.State.Status == pokertable.TableStateStatus_TableGameStandby && g == gc+1:
		gateAfter := h.rig.gateObs()
		switch {
		case gateAfter != gateBefore:
			out = "setup"
		case strings.HasPrefix(gateBefore, fmt.Sprintf("%d/", gc+1)) && !strings.Contains(gateBefore, ":1,") && !strings.HasSuffix(gateBefore, ":1"):
			// set up under this count before, nobody had signalled: a fresh set-up would look the same
			h.drop("cannot-tell-whether-the-continue-step-set-the-gate-up")
			return false
		}
	}
	h.line("tb continue expired=0 | %s", out)
	h.rec("continue", nil)
	h.obs()
	return true
}

// openAttemptDuringHand: while a hand runs, (sometimes pause the table and) set the gate up for the next game count and
// let everybody signal — the resume path of a paused table. The gate fires; the open must be refused because a hand is
// unsettled (C07). The gate is set up again by the continue step after the hand.
func (h *tbHist) openAttemptDuringHand() {
	t := h.table()
	if t.State.GameState == nil || t.State.Status != pokertable.TableStateStatus_TableGamePlaying {
		return
	}
	pre := t.State.GameCount
	if h.r.Intn(2) == 0 {
		h.opSimple("pause")
	}
	ids := []int{}
	for _, p := range h.table().State.PlayerStates {
		if p.IsIn && p.Bankroll > 0 {
			ids = append(ids, idNum(p.PlayerID))
		}
	}
	if len(ids) < 2 {
		return
	}
	h.opSetup(pre+1, ids)
	allOK := true
	for _, k := range h.r.Perm(len(ids)) {
		if h.opFinish(ids[k]) != nil {
			allOK = false
		}
	}
	if !allOK {
		return // somebody stays awaited: the gate would only fire on its 2 s timer, which the model does not have
	}
	// everybody signalled: the gate's callback runs at once
	time.Sleep(3 * time.Millisecond)
	schedBarrier(3)
	outcome := "nothing"
	if h.table().State.GameCount != pre {
		outcome = "opened"
	}
	h.line("tb fire ch=-1 create=1 | %s", outcome)
	h.rec("fire", nil)
	h.obs()
	if outcome == "opened" {
		h.dead = true // a second hand on top of an unsettled one: nothing after this is comparable
	}
	h.st.OpMix["open-attempt-during-hand"]++
}

// stopMidHandThenLeaves: the hand is stopped by a pause or a close (the status is no longer a hand status, the hand's
// entries stay until it is settled), then players who were not dealt in leave one by one — the entries must go on
// denoting the same players (D30: they were only re-mapped while the status was a hand status)
func (h *tbHist) stopMidHandThenLeaves() {
	t := h.table()
	if t.State.GameState == nil || t.State.Status != pokertable.TableStateStatus_TableGamePlaying {
		return
	}
	out := []int{}
	for _, p := range t.State.PlayerStates {
		if !p.IsParticipated {
			out = append(out, idNum(p.PlayerID))
		}
	}
	if len(out) == 0 {
		return
	}
	if h.r.Intn(2) == 0 {
		h.opSimple("pause")
	} else {
		h.opSimple("close")
	}
	for i, k := range h.r.Perm(len(out)) {
		if i >= 2 || h.dead {
			break
		}
		h.opLeave([]int{out[k]})
	}
	h.st.OpMix["departures-after-the-hand-was-stopped-by-pause-or-close"]++
}

// refusedUpdateDuringHand: while a hand runs, one UpdateTablePlayers call carries the departure of somebody who is not in
// the hand but is listed before somebody who is, and a join the seat manager refuses (a taken seat): the departure is
// applied (finding D20) and the hand's list must go on denoting the same players
func (h *tbHist) refusedUpdateDuringHand() {
	t := h.table()
	victim, other := 0, 0
	lastPart := -1
	for i, p := range t.State.PlayerStates {
		if p.IsParticipated {
			lastPart = i
		}
	}
	for i, p := range t.State.PlayerStates {
		if !p.IsParticipated && i < lastPart && victim == 0 {
			victim = idNum(p.PlayerID)
		}
		if p.IsParticipated && other == 0 {
			other = idNum(p.PlayerID)
		}
	}
	if victim == 0 || other == 0 {
		return
	}
	h.opUpdate([]joinSpec{{h.fresh(), 200, h.seatOfID(other)}}, []int{victim})
	h.st.OpMix["refused-update-with-a-departure-during-a-hand"]++
}

// newcomerBetweenButtonsThenBusts: during a hand somebody sits down (and joins) on a seat between the dealer
// and the big blind, and the hand leaves a single survivor: the next hand is the survivor against the newcomer
func (h *tbHist) newcomerBetweenButtonsThenBusts() {
	sm := h.rig.hk.SeatManager()
	d, bb := sm.CurrentDealerSeatID(), sm.CurrentBBSeatID()
	if d < 0 || bb < 0 || h.maxSeat < 3 {
		return
	}
	empty := map[int]bool{}
	for _, e := range h.emptySeats() {
		empty[e] = true
	}
	cands := []int{}
	for s := (d + 1) % h.maxSeat; s != bb && len(cands) < h.maxSeat; s = (s + 1) % h.maxSeat {
		if empty[s] {
			cands = append(cands, s)
		}
	}
	if len(cands) == 0 {
		return
	}
	id := h.fresh()
	if h.opReserve(id, int64(100+h.r.Intn(500)), cands[h.r.Intn(len(cands))]) != nil {
		return
	}
	h.opJoin(id)
	h.forceBust = true
	h.st.OpMix["newcomer-between-buttons-then-one-survivor"]++
}

func (h *tbHist) emptySeats() []int {
	out := []int{}
	for s, pi := range h.table().State.SeatMap {
		if pi == -1 {
			out = append(out, s)
		}
	}
	return out
}

func (h *tbHist) arrive(joinProb float64) {
	id := h.fresh()
	chips := int64(50 + h.r.Intn(950))
	if h.r.Intn(20) == 0 {
		chips = 0 // a seat taken with no chips yet (they come later, by PlayerRedeemChips): the seat manager counts him as having chips
		h.st.OpMix["arrival-with-no-chips"]++
	}
	seat := -1
	if e := h.emptySeats(); len(e) > 0 && h.r.Intn(2) == 0 {
		seat = e[h.r.Intn(len(e))]
	}
	if h.opReserve(id, chips, seat) == nil && h.r.Float64() < joinProb {
		h.opJoin(id)
	}
}

func (h *tbHist) malformed(inHand bool) {
	ids := h.playerIDs()
	switch h.r.Intn(10) {
	case 0: // taken seat
		if len(ids) > 0 {
			h.opReserve(h.fresh(), 300, h.seatOfID(ids[h.r.Intn(len(ids))]))
		}
	case 1: // out-of-range seat
		h.opReserve(h.fresh(), 300, h.maxSeat+h.r.Intn(2))
	case 2: // unknown leaver mixed with a known one
		l := []int{900 + h.r.Intn(5)}
		if len(ids) > 0 && h.r.Intn(2) == 0 && !inHand {
			l = append([]int{ids[h.r.Intn(len(ids))]}, l...)
		}
		h.opLeave(l)
	case 3: // join / redeem / finish of a stranger
		h.opJoin(900 + h.r.Intn(5))
		h.opRedeem(900+h.r.Intn(5), 100)
		h.opFinish(900 + h.r.Intn(5))
	case 4: // batch: already seated id with a random seat
		if len(ids) > 0 {
			h.opUpdate([]joinSpec{{ids[h.r.Intn(len(ids))], 200, -1}}, nil)
		}
	case 5: // batch: good fixed seat + too many random seats
		e := h.emptySeats()
		if len(e) >= 1 {
			js := []joinSpec{{h.fresh(), 200, e[0]}}
			for i := 0; i < len(e)+1; i++ {
				js = append(js, joinSpec{h.fresh(), 200, -1})
			}
			h.opUpdate(js, nil)
		}
	case 6: // batch: two ids one seat
		if e := h.emptySeats(); len(e) > 0 {
			h.opUpdate([]joinSpec{{h.fresh(), 200, e[0]}, {h.fresh(), 200, e[0]}}, nil)
		}
	case 7: // batch: leave ok, join fails
		if len(ids) > 0 && !inHand {
			victim := ids[h.r.Intn(len(ids))]
			other := ids[h.r.Intn(len(ids))]
			if other != victim {
				h.opUpdate([]joinSpec{{h.fresh(), 200, h.seatOfID(other)}}, []int{victim})
			}
		} else if inHand {
			h.refusedUpdateDuringHand()
		}
	case 8: // full table
		if len(h.emptySeats()) == 0 {
			h.opReserve(h.fresh(), 100, -1)
		}
	case 9: // the same new id twice in one batch
		if e := h.emptySeats(); len(e) >= 2 {
			id := h.fresh()
			h.opUpdate([]joinSpec{{id, 200, e[0]}, {id, 300, e[1]}}, nil)
		}
	}
}

func (h *tbHist) betweenHands(inHand bool) {
	n := h.r.Intn(4)
	for e := 0; e < n && !h.dead; e++ {
		ids := h.playerIDs()
		x := h.r.Intn(100)
		switch {
		case x < 22:
			if len(h.emptySeats()) > 0 {
				h.arrive(0.85)
			}
		case x < 34: // re-buy / add-on
			if len(ids) > 0 {
				id := ids[h.r.Intn(len(ids))]
				if h.r.Intn(2) == 0 {
					h.opReserve(id, int64(50+h.r.Intn(400)), -1)
				} else {
					h.opRedeem(id, int64(50+h.r.Intn(400)))
				}
			}
		case x < 48: // departure (never a dealt-in player while a hand runs: finding D7 has its own generator)
			cands := []int{}
			for _, p := range h.table().State.PlayerStates {
				if !(inHand && p.IsParticipated) {
					cands = append(cands, idNum(p.PlayerID))
				}
			}
			if len(cands) > 0 {
				k := 1
				if len(cands) > 1 && h.r.Intn(3) == 0 {
					k = 2
				}
				perm := h.r.Perm(len(cands))
				l := []int{}
				for i := 0; i < k; i++ {
					l = append(l, cands[perm[i]])
				}
				h.opLeave(l)
			}
		case x < 58: // late join
			for _, p := range h.table().State.PlayerStates {
				if !p.IsIn {
					h.opJoin(idNum(p.PlayerID))
					break
				}
			}
		case x < 66: // batch update
			js := []joinSpec{}
			e := h.emptySeats()
			for i := 0; i < 1+h.r.Intn(2) && i < len(e); i++ {
				seat := -1
				if h.r.Intn(2) == 0 {
					seat = e[i]
				}
				js = append(js, joinSpec{h.fresh(), int64(100 + h.r.Intn(500)), seat})
			}
			lv := []int{}
			if !inHand && len(ids) > 2 && h.r.Intn(2) == 0 {
				lv = append(lv, ids[h.r.Intn(len(ids))])
			}
			if len(js)+len(lv) > 0 {
				if h.opUpdate(js, lv) == nil {
					for _, j := range js {
						if h.r.Intn(5) != 0 {
							h.opJoin(j.id)
						}
					}
				}
			}
		case x < 74:
			lv := 1 + h.r.Intn(5)
			bb := int64(10 * (1 + h.r.Intn(6)))
			ante := int64(0)
			if h.r.Intn(4) == 0 {
				ante = bb / 10
			}
			cur := h.table().State.BlindState
			switch {
			case cur != nil && cur.Level == -1:
				h.opBlind(lv, ante, 0, bb/2, bb) // the break is over
			case h.r.Intn(4) == 0:
				// a break begins (between hands or during one): level -1, amounts 0 (set) or -1 (unset)
				if h.r.Intn(2) == 0 {
					h.opBlind(-1, 0, 0, 0, 0)
				} else {
					h.opBlind(-1, -1, -1, -1, -1)
				}
			default:
				h.opBlind(lv, ante, 0, bb/2, bb)
			}
		case x < 88:
			h.malformed(inHand)
		case x < 90: // lifecycle calls: pause, close, release (later opens must be refused; the hand in progress is settled)
			switch h.r.Intn(4) {
			case 0, 1:
				h.opSimple("pause")
			case 2:
				h.opSimple("close")
			default:
				h.opSimple("release")
			}
		case x < 92:
			h.opFinish(900)
		case x < 96:
			if inHand {
				h.openAttemptDuringHand()
			}
		default:
			if len(ids) > 0 {
				h.opJoin(ids[h.r.Intn(len(ids))]) // already in
			}
		}
	}
}

func genTBHistory(r *rand.Rand, st *tbStats, hid int, maxHands int) (out string) {
	h := &tbHist{w: &strings.Builder{}, r: r, st: st}
	// a panic inside a synchronous engine call (the harness goroutine is the caller): the engine crashed on this very
	// history — reported like a crash of one of the engine's own goroutines; a panic in harness code is passed on
	defer func() {
		if e := recover(); e != nil {
			where := panicSite(string(debug.Stack()))
			if !strings.Contains(where, "github.com/weedbox/pokertable") {
				panic(e)
			}
			h.line("# panic inside a synchronous engine call: %v at %s", e, where)
			h.line("tb crash h=%d | %s at %s", hid, strings.ReplaceAll(fmt.Sprint(e), "\n", " "), where)
			h.line("tb end")
			st.Crashed++
			out = h.w.String()
		}
	}()
	h.maxSeat = 2 + r.Intn(9)
	minP := 2
	if r.Intn(6) == 0 {
		minP = 3
	}
	mode := pokertable.CompetitionMode_CT
	switch r.Intn(6) {
	case 0:
		mode = pokertable.CompetitionMode_Cash
	case 1:
		mode = pokertable.CompetitionMode_MTT
	}
	blind := pokertable.TableBlindState{Level: 1, Ante: 0, Dealer: 0, SB: 10, BB: 20}
	setting := pokertable.TableSetting{
		TableID: fmt.Sprintf("t%d", hid),
		Meta: pokertable.TableMeta{CompetitionID: "c", Rule: pokertable.CompetitionRule_Default, Mode: mode, MaxDuration: 1000000,
			TableMaxSeatCount: h.maxSeat, TableMinPlayerCount: minP, MinChipUnit: 10, ActionTime: 10},
		Blind: blind,
	}
	// now and then the table is created on a break (it starts paused), and / or with players (TableSetting.JoinPlayers)
	createdOnBreak := r.Intn(8) == 0
	if createdOnBreak {
		blind = pokertable.TableBlindState{Level: -1, Ante: 0, Dealer: 0, SB: 0, BB: 0}
		setting.Blind = blind
	}
	if createdOnBreak && r.Intn(2) == 0 {
		mode = pokertable.CompetitionMode_MTT // a table of a running tournament, opened during its break
		setting.Meta.Mode = mode
	}
	createJoins := []joinSpec{}
	if r.Intn(5) == 0 || (createdOnBreak && r.Intn(2) == 0) {
		nj := 1 + r.Intn(h.maxSeat)
		free := r.Perm(h.maxSeat)
		for i := 0; i < nj; i++ {
			seat := -1
			if r.Intn(2) == 0 {
				seat = free[i]
			}
			j := joinSpec{id: h.fresh(), chips: int64(50 + r.Intn(950)), seat: seat}
			createJoins = append(createJoins, j)
			setting.JoinPlayers = append(setting.JoinPlayers, pokertable.JoinPlayer{PlayerID: pid(j.id), RedeemChips: j.chips, Seat: j.seat})
		}
		// fixed seats first would collide with drawn ones only by the engine's own doing: the draw is among the seats left
	}
	h.synth = &SynthBackend{}
	h.synth.ResultFn = h.planResult
	if r.Intn(5) == 0 {
		// the continue handler runs one second after settlement: blind updates can land in between
		h.interval = 1
		if maxHands > 3 {
			maxHands = 3
		}
	}
	rig, err := NewRig(setting, h.synth, h.interval)
	if err != nil {
		return ""
	}
	h.rig = rig
	defer rig.abandon()
	st.Histories++
	if h.interval > 0 {
		st.OpMix["histories-with-a-continue-interval"]++
	}
	st.SeatCounts[strconv.Itoa(h.maxSeat)]++
	st.Modes[mode]++
	h.line("tb new seats=%d min=%d rule=default mode=%s blind=%s h=%d", h.maxSeat, minP, mode, blindStr(&blind), hid)
	if createdOnBreak {
		st.OpMix["created-on-a-break"]++
	}
	if len(createJoins) > 0 {
		// what CreateTable did with the players it was given
		parts := []string{}
		ch := []int{}
		ids := []int{}
		for _, j := range createJoins {
			parts = append(parts, fmt.Sprintf("%d:%d:%d", j.id, j.chips, j.seat))
			if j.seat == -1 {
				ch = append(ch, h.seatOfID(j.id))
			}
			ids = append(ids, j.id)
		}
		h.line("tb createjoin joins=%s ch=%s | ok", strings.Join(parts, ";"), joinInts(ch))
		h.rec("createjoin", nil)
		st.OpMix["created-with-players"]++
		h.quiesce()
		h.staleAutoJoin(ids)
	}
	h.obs()

	// arrivals
	k := 2 + r.Intn(h.maxSeat)
	if k > h.maxSeat {
		k = h.maxSeat
	}
	lateSitters := r.Intn(9) == 0 // only the first arrival sits in before the first hand is set up
	for i := 0; i < k; i++ {
		switch {
		case lateSitters && i == 0:
			h.arrive(1)
		case lateSitters:
			h.arrive(0)
		default:
			h.arrive(0.92)
		}
	}
	if r.Intn(5) == 0 && !lateSitters {
		h.malformed(false)
	}
	if createdOnBreak && r.Intn(3) != 0 {
		h.opBlind(1, 0, 0, 10, 20) // the break ends before the table is started
	}
	// first hand: start, set up the gate with the players that are there
	h.opSimple("start")
	time.Sleep(300 * time.Microsecond)
	h.opSetup(h.table().State.GameCount, h.playerIDs())
	hands := 1 + r.Intn(maxHands)
	t0 := time.Now()
	recovered := false
	for g := 0; g < hands && !h.dead; g++ {
		if time.Since(t0) > 11*time.Second {
			break // stay clear of the 17 s auto-join timer, which the model does not have
		}
		if r.Intn(3) == 0 {
			h.betweenHands(false)
		}
		if h.dead {
			break
		}
		var out string
		if g == 0 && lateSitters && !recovered {
			recovered = true
			out = h.refusedByPositionsThenRecover()
		} else if !recovered && r.Intn(7) == 0 {
			recovered = true // once per history (3 s of waiting)
			out = h.refusedOpenThenRecover()
		} else {
			out = h.tryOpen()
		}
		if out != "opened" {
			// nothing happened (one participant, break, closed…): try to get going again a few times, else stop
			if out == "nothing" && g+1 < hands {
				h.betweenHands(false)
				if !h.dead {
					ids := []int{}
					for _, p := range h.table().State.PlayerStates {
						if p.IsIn && p.Bankroll > 0 {
							ids = append(ids, idNum(p.PlayerID))
						}
					}
					h.opSetup(h.table().State.GameCount+1, ids)
				}
				continue
			}
			break
		}
		if r.Intn(2) == 0 {
			h.betweenHands(true)
		}
		if !h.dead && r.Intn(5) == 0 {
			h.refusedUpdateDuringHand()
		}
		if !h.dead && r.Intn(4) == 0 {
			h.newcomerBetweenButtonsThenBusts()
		}
		if !h.dead && r.Intn(6) == 0 {
			h.openAttemptDuringHand() // the gate is made to fire while this hand runs (now and then on a paused table)
		}
		if !h.dead && r.Intn(8) == 0 {
			h.stopMidHandThenLeaves()
		}
		if h.dead || !h.playHand() {
			break
		}
		// somebody busted by the hand just played buys back in at once (re-buy through PlayerReserve or add-on through
		// PlayerRedeemChips): he is a player with chips again from that moment
		if !h.dead && h.table().State.Status != pokertable.TableStateStatus_TableClosed {
			for _, p := range h.table().State.PlayerStates {
				if p.Bankroll == 0 && p.IsParticipated == false && r.Intn(3) == 0 {
					if r.Intn(2) == 0 {
						h.opReserve(idNum(p.PlayerID), int64(100+r.Intn(400)), -1)
					} else {
						h.opRedeem(idNum(p.PlayerID), int64(100+r.Intn(400)))
					}
					h.st.OpMix["busted-player-buys-back-in-right-after-the-hand"]++
					break
				}
			}
		}
		// a button holder of the hand just played gets up before the next one: the button (or the small blind) lands on an
		// empty seat, not merely on a busted player's
		if !h.dead && h.lastDealt >= 4 && r.Intn(5) == 0 {
			who := h.lastSB
			if r.Intn(3) == 0 {
				who = h.lastDealer
			}
			if who != 0 && h.seatOfID(who) != -1 {
				h.opLeave([]int{who})
				h.st.OpMix["button-holder-left-between-hands"]++
			}
		}
		if h.table().State.Status == pokertable.TableStateStatus_TablePausing {
			// paused: sometimes top people up and set the next hand up by hand
			if r.Intn(2) == 0 {
				for _, p := range h.table().State.PlayerStates {
					if p.Bankroll == 0 && r.Intn(2) == 0 {
						h.opReserve(idNum(p.PlayerID), int64(100+r.Intn(300)), -1)
					}
				}
				ids := []int{}
				for _, p := range h.table().State.PlayerStates {
					if p.IsIn && p.Bankroll > 0 {
						ids = append(ids, idNum(p.PlayerID))
					}
				}
				h.opSetup(h.table().State.GameCount+1, ids)
			} else {
				break
			}
		}
	}
	if viaMgr != nil && !h.dead && r.Intn(2) == 0 {
		// mgr mode: close or release through the manager (which then forgets the table), then keep calling
		if r.Intn(2) == 0 {
			h.opSimple("close")
		} else {
			h.opSimple("release")
		}
		for i := 0; i < 3 && !h.dead; i++ {
			h.betweenHands(false)
		}
	}
	h.line("tb end")
	return h.w.String()
}

func runTable(args []string) {
	fs := flag.NewFlagSet("table", flag.ExitOnError)
	seed := fs.Int64("seed", 1, "PRNG seed")
	n := fs.Int("n", 100, "number of histories")
	out := fs.String("out", "tb.trace", "trace file")
	statsFile := fs.String("stats", "", "stats json")
	workers := fs.Int("workers", 12, "parallel tables")
	maxHands := fs.Int("hands", 8, "max hands per history")
	child := fs.Bool("child", false, "child process: histories [from,to), one table at a time")
	inproc := fs.Bool("inproc", false, "generate in this process (mgr mode: all tables share one manager)")
	from := fs.Int("from", 0, "first history (child)")
	to := fs.Int("to", -1, "one past the last history (child)")
	stream := fs.String("stream", "", "append every line to this file at once (single-history child)")
	fs.Parse(args)

	devnull, _ := os.OpenFile(os.DevNull, os.O_WRONLY, 0)
	os.Stdout = devnull

	// one history, with its own PRNG stream, never taking the process down with a harness panic or a hang
	one := func(hid int) (string, *tbStats) {
		r := rand.New(rand.NewSource(*seed*7919 + int64(hid)*104729 + 1))
		sub := newTBStats()
		var s string
		done := make(chan struct{})
		go func() {
			defer func() {
				if e := recover(); e != nil {
					s = fmt.Sprintf("# harness goroutine panic: %v\n", e)
				}
				close(done)
			}()
			s = genTBHistory(r, sub, hid, *maxHands)
		}()
		select {
		case <-done:
		case <-time.After(60 * time.Second):
			s = fmt.Sprintf("tb hang h=%d\n", hid)
			sub.Hung++
		}
		return s, sub
	}

	if *child {
		f, err := os.Create(*out)
		if err != nil {
			fmt.Fprintln(os.Stderr, err)
			os.Exit(2)
		}
		if *stream != "" {
			streamTo, _ = os.Create(*stream)
		}
		for hid := *from; hid < *to; hid++ {
			s, sub := one(hid)
			b, _ := json.Marshal(sub)
			f.WriteString(s)
			if !strings.HasSuffix(s, "\n") {
				f.WriteString("\n")
			}
			fmt.Fprintf(f, "#stats %d %s\n", hid, b)
		}
		f.Close()
		return
	}

	st := newTBStats()
	seen := map[uint64]bool{}
	add := func(s string, sub *tbStats) {
		seen[fnv64(stripHistID(s))] = true
		if len(st.Samples) < 2 && len(s) < 6000 {
			st.Samples = append(st.Samples, s)
		}
		if sub != nil {
			mergeTBStats(st, sub)
		}
	}
	f, err := os.Create(*out)
	if err != nil {
		fmt.Fprintln(os.Stderr, err)
		os.Exit(2)
	}
	w := bufio.NewWriterSize(f, 1<<20)
	if *inproc {
		var mu sync.Mutex
		var wg sync.WaitGroup
		next := 0
		for wk := 0; wk < *workers; wk++ {
			wg.Add(1)
			go func() {
				defer wg.Done()
				for {
					mu.Lock()
					hid := next
					next++
					mu.Unlock()
					if hid >= *n {
						return
					}
					s, sub := one(hid)
					mu.Lock()
					w.WriteString(s)
					add(s, sub)
					mu.Unlock()
				}
			}()
		}
		wg.Wait()
	} else {
		pass := []string{"-seed", fmt.Sprint(*seed), "-hands", fmt.Sprint(*maxHands)}
		recs, crashes, unattributed := superviseRun("table", "tb", pass, *n, *workers, *out)
		for _, rc := range recs {
			w.WriteString(rc.text)
			var sub *tbStats
			if rc.stats != nil {
				sub = newTBStats()
				json.Unmarshal(rc.stats, sub)
			}
			add(rc.text, sub)
		}
		st.Crashed = crashes
		for i := 0; i < unattributed; i++ {
			w.WriteString("cc anomaly CRASH.unattributed-engine-panic\n")
		}
	}
	w.Flush()
	f.Close()
	st.Distinct = len(seen)
	if *statsFile != "" {
		b, _ := json.MarshalIndent(st, "", " ")
		os.WriteFile(*statsFile, b, 0644)
	}
}
