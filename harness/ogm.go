package main

import (
	"bufio"
	"encoding/json"
	"flag"
	"fmt"
	"math/rand"
	"os"
	"os/exec"
	"sort"
	"strconv"
	"strings"
	"sync"
	"time"

	"github.com/weedbox/pokertable/open_game_manager"
)

// ---------------------------------------------------------------------------------------------
// open-game gate differential: the real OpenGameManager driven in the quiescent regime (a short pause after every call
// lets the ReadyGroup's goroutines drain), plus a concurrent stress regime that only feeds the monitors.
// ---------------------------------------------------------------------------------------------

type ogmStats struct {
	Histories int            `json:"histories"`
	Ops       int            `json:"ops"`
	OpMix     map[string]int `json:"op_mix"`
	Sizes     map[string]int `json:"participant_counts"`
	Fires     int            `json:"fires"`
	Timeouts  int            `json:"timeouts_waited"`
	Stress    int            `json:"stress_trials"`
	StressBad int            `json:"stress_anomalies"`
	Distinct  int            `json:"distinct_histories"`
	Samples   []string       `json:"samples"`
}

type ogmFire struct {
	gc    int
	parts string
}

type ogmHist struct {
	w      *strings.Builder
	m      open_game_manager.OpenGameManager
	mu     sync.Mutex
	fires  []ogmFire
	st     *ogmStats
	tmo    int
	lastGC int
	gen    int
	since  int // fires recorded since the last set-up / rebuild
	slow   time.Duration // the completion callback dwells this long after recording its fire (overlap regime)
}

func partsStr(st open_game_manager.OpenGameState) string {
	ids := make([]string, 0)
	for id := range st.Participants {
		ids = append(ids, id)
	}
	sort.Slice(ids, func(i, j int) bool { return idNum(ids[i]) < idNum(ids[j]) })
	out := make([]string, 0)
	for _, id := range ids {
		p := st.Participants[id]
		out = append(out, fmt.Sprintf("%d:%d:%s", idNum(id), p.Index, b01(p.IsReady)))
	}
	if len(out) == 0 {
		return "-"
	}
	return strings.Join(out, ",")
}

func (h *ogmHist) newManager(fromState *open_game_manager.OpenGameState) {
	h.mu.Lock()
	h.gen++
	gen := h.gen
	h.since = 0
	h.mu.Unlock()
	cb := func(state open_game_manager.OpenGameState) {
		h.mu.Lock()
		if gen == h.gen { // a manager object that was replaced by fromstate is out of the picture
			h.fires = append(h.fires, ogmFire{state.GameCount, partsStr(state)})
			h.since++
		}
		d := h.slow
		h.mu.Unlock()
		if d > 0 {
			time.Sleep(d) // like tableGameOpen, which can hold on for seconds
		}
	}
	if fromState == nil {
		h.m = open_game_manager.NewOpenGameManager(open_game_manager.OpenGameOption{Timeout: h.tmo, OnOpenGameReady: cb})
	} else {
		h.m = open_game_manager.NewOpenGameManagerFromState(*fromState, open_game_manager.OpenGameOption{Timeout: h.tmo, OnOpenGameReady: cb})
	}
}

func (h *ogmHist) line(format string, a ...interface{}) { fmt.Fprintf(h.w, format+"\n", a...) }

func (h *ogmHist) obs() {
	time.Sleep(2500 * time.Microsecond) // quiescent regime: let the group's goroutines drain
	// everybody of the current set-up shows ready but its completion has not been seen yet: it is on its way (the callback
	// runs in a goroutine of its own); on a loaded machine that takes longer than the pause above
	if cur := h.m.GetState(); len(cur.Participants) > 0 {
		all := true
		for _, p := range cur.Participants {
			all = all && p.IsReady
		}
		if all {
			waitFor(250*time.Millisecond, func() bool {
				h.mu.Lock()
				defer h.mu.Unlock()
				return h.since > 0
			})
			schedBarrier(2)
		}
	}
	h.mu.Lock()
	fs := h.fires
	h.fires = nil
	h.mu.Unlock()
	f := make([]string, 0)
	for _, x := range fs {
		f = append(f, fmt.Sprintf("%d/%s", x.gc, x.parts))
		h.st.Fires++
	}
	fstr := "-"
	if len(f) > 0 {
		fstr = strings.Join(f, ";")
	}
	st := h.m.GetState()
	h.line("ogm obs gc=%d parts=%s fired=%s", st.GameCount, partsStr(st), fstr)
}

func genOGMHistory(r *rand.Rand, st *ogmStats, hid int, allowTimeout bool) string {
	h := &ogmHist{w: &strings.Builder{}, st: st, tmo: 0}
	if allowTimeout {
		h.tmo = 1
	}
	h.newManager(nil)
	st.Histories++
	h.line("ogm new timeout=%d h=%d", h.tmo, hid)
	h.obs()
	gc := 0
	current := []int{}
	nOps := 3 + r.Intn(14)
	waited := 0
	sharedNow := false
	for k := 0; k < nOps; k++ {
		x := r.Intn(100)
		switch {
		case x < 22 || len(current) == 0 && x < 60:
			// the same count again now and then: a hand that could not be opened is announced once more
			gc += r.Intn(3)
			n := r.Intn(8)
			if r.Intn(10) == 0 {
				n = 0
			}
			parts := map[string]int{}
			ps := []string{}
			current = current[:0]
			base := r.Intn(50) * 10
			shared := r.Intn(25) == 0 // D13: two ids on one index
			sharedNow = shared && n >= 2
			for i := 0; i < n; i++ {
				id := base + i + 1
				idx := i
				if shared && i == 1 {
					idx = 0
				}
				parts[pid(id)] = idx
				ps = append(ps, fmt.Sprintf("%d:%d", id, idx))
				current = append(current, id)
			}
			h.mu.Lock()
			h.since = 0
			h.mu.Unlock()
			h.m.Setup(gc, parts)
			p := "-"
			if len(ps) > 0 {
				p = strings.Join(ps, ",")
			}
			h.line("ogm setup gc=%d parts=%s", gc, p)
			st.OpMix["setup"]++
			st.Sizes[strconv.Itoa(n)]++
		case x < 80:
			id := 9999
			if len(current) > 0 && r.Intn(8) != 0 {
				id = current[r.Intn(len(current))]
			}
			err := h.m.Ready(pid(id))
			res := "ok"
			if err != nil {
				res = "err notfound"
			}
			h.line("ogm ready id=%d | %s", id, res)
			st.OpMix["ready"]++
		case x < 86 && allowTimeout && waited < 2 && len(current) > 0:
			time.Sleep(1250 * time.Millisecond)
			waited++
			st.Timeouts++
			h.line("ogm timeout")
			st.OpMix["timeout"]++
		case x >= 93 && x < 96 && h.tmo == 0:
			// overlap: the next set-up arrives while the previous set-up's completion callback is still running (the engine's
			// callback is tableGameOpen, which can take seconds); the new set-up must work like any other
			setup := func(n int) []int {
				gc++
				parts := map[string]int{}
				ps := []string{}
				ids := []int{}
				base := r.Intn(50) * 10
				for i := 0; i < n; i++ {
					id := base + i + 1
					parts[pid(id)] = i
					ps = append(ps, fmt.Sprintf("%d:%d", id, i))
					ids = append(ids, id)
				}
				h.mu.Lock()
				h.since = 0
				h.mu.Unlock()
				h.m.Setup(gc, parts)
				h.line("ogm setup gc=%d parts=%s", gc, strings.Join(ps, ","))
				st.OpMix["setup"]++
				st.Ops++
				h.obs()
				return ids
			}
			readyAll := func(ids []int) {
				for _, i := range r.Perm(len(ids)) {
					err := h.m.Ready(pid(ids[i]))
					res := "ok"
					if err != nil {
						res = "err notfound"
					}
					h.line("ogm ready id=%d | %s", ids[i], res)
					st.OpMix["ready"]++
					st.Ops++
					h.obs()
				}
			}
			a := setup(1 + r.Intn(3))
			h.mu.Lock()
			h.slow = 60 * time.Millisecond
			h.mu.Unlock()
			readyAll(a) // the last signal starts the callback, which records its fire and dwells
			b := setup(1 + r.Intn(3))
			h.mu.Lock()
			h.slow = 0
			h.mu.Unlock()
			time.Sleep(70 * time.Millisecond) // the first callback has returned
			readyAll(b)
			current = append(current[:0], b...)
			sharedNow = false
			st.OpMix["setup-during-callback"]++
			continue
		case x < 93 && !sharedNow: // (a saved state with two ids on one index is rebuilt in map order: not replayable)
			s := h.m.GetState()
			h.newManager(&s)
			h.line("ogm fromstate gc=%d parts=%s", s.GameCount, partsStr(s))
			st.OpMix["fromstate"]++
		default:
			// everybody still awaited signals, in random order
			perm := r.Perm(len(current))
			for _, i := range perm {
				err := h.m.Ready(pid(current[i]))
				res := "ok"
				if err != nil {
					res = "err notfound"
				}
				h.line("ogm ready id=%d | %s", current[i], res)
				st.OpMix["ready"]++
				st.Ops++
				h.obs()
			}
			continue
		}
		st.Ops++
		h.obs()
	}
	h.line("ogm end")
	return h.w.String()
}

// stress: Ready(last) racing a new Setup — what the quiescence hypothesis of the theorems excludes
func ogmStress(r *rand.Rand, st *ogmStats, trials int, w *strings.Builder) {
	for t := 0; t < trials; t++ {
		var mu sync.Mutex
		fires := []ogmFire{}
		m := open_game_manager.NewOpenGameManager(open_game_manager.OpenGameOption{Timeout: 0, OnOpenGameReady: func(s open_game_manager.OpenGameState) {
			mu.Lock()
			fires = append(fires, ogmFire{s.GameCount, partsStr(s)})
			mu.Unlock()
		}})
		m.Setup(1, map[string]int{"p10": 0, "p11": 1})
		m.Ready("p10")
		var wg sync.WaitGroup
		wg.Add(2)
		go func() { defer wg.Done(); m.Ready("p11") }()
		go func() { defer wg.Done(); m.Setup(2, map[string]int{"p20": 0, "p21": 1}) }()
		wg.Wait()
		time.Sleep(2 * time.Millisecond)
		mu.Lock()
		fs := fires
		mu.Unlock()
		st.Stress++
		for _, f := range fs {
			if f.gc == 2 {
				// nobody of set-up 2 has signalled
				st.StressBad++
				fmt.Fprintf(w, "ogm anomaly C09.stale-completion-reports-the-next-setup trial=%d fired=%d/%s\n", t, f.gc, f.parts)
			}
		}
	}
}

func runOGMStress(args []string) {
	fs := flag.NewFlagSet("ogmstress", flag.ExitOnError)
	seed := fs.Int64("seed", 1, "PRNG seed")
	n := fs.Int("n", 100, "trials")
	out := fs.String("out", "ogmstress.trace", "trace file")
	fs.Parse(args)
	devnull, _ := os.OpenFile(os.DevNull, os.O_WRONLY, 0)
	os.Stdout = devnull
	st := &ogmStats{OpMix: map[string]int{}, Sizes: map[string]int{}}
	// write as we go, so that what was seen before a crash survives
	f, err := os.Create(*out)
	if err != nil {
		os.Exit(2)
	}
	defer f.Close()
	r := rand.New(rand.NewSource(*seed))
	for done := 0; done < *n; done += 50 {
		var sb strings.Builder
		k := 50
		if *n-done < k {
			k = *n - done
		}
		ogmStress(r, st, k, &sb)
		f.WriteString(sb.String())
		f.Sync()
	}
}

func runOGM(args []string) {
	fs := flag.NewFlagSet("ogm", flag.ExitOnError)
	seed := fs.Int64("seed", 1, "PRNG seed")
	n := fs.Int("n", 200, "histories")
	out := fs.String("out", "ogm.trace", "trace file")
	statsFile := fs.String("stats", "", "stats json")
	workers := fs.Int("workers", 16, "parallel histories")
	tfrac := fs.Int("timeoutevery", 6, "one history in N runs with a 1 s timeout and may wait for it")
	stress := fs.Int("stress", 0, "stress trials (Ready racing Setup)")
	fs.Parse(args)
	devnull, _ := os.OpenFile(os.DevNull, os.O_WRONLY, 0)
	os.Stdout = devnull

	f, err := os.Create(*out)
	if err != nil {
		fmt.Fprintln(os.Stderr, err)
		os.Exit(2)
	}
	w := bufio.NewWriterSize(f, 1<<20)
	st := &ogmStats{OpMix: map[string]int{}, Sizes: map[string]int{}}
	seen := map[uint64]bool{}
	var mu sync.Mutex
	var wg sync.WaitGroup
	per := (*n + *workers - 1) / *workers
	for wk := 0; wk < *workers; wk++ {
		wg.Add(1)
		go func(wk int) {
			defer wg.Done()
			r := rand.New(rand.NewSource(*seed*6151 + int64(wk)*7))
			for i := 0; i < per && wk*per+i < *n; i++ {
				sub := &ogmStats{OpMix: map[string]int{}, Sizes: map[string]int{}}
				hid := wk*per + i
				s := genOGMHistory(r, sub, hid, hid%*tfrac == 0)
				mu.Lock()
				w.WriteString(s)
				seen[fnv64(stripHistID(s))] = true
				if len(st.Samples) < 2 {
					st.Samples = append(st.Samples, s)
				}
				st.Histories += sub.Histories
				st.Ops += sub.Ops
				st.Fires += sub.Fires
				st.Timeouts += sub.Timeouts
				for k, v := range sub.OpMix {
					st.OpMix[k] += v
				}
				for k, v := range sub.Sizes {
					st.Sizes[k] += v
				}
				mu.Unlock()
			}
		}(wk)
	}
	wg.Wait()
	if *stress > 0 {
		// the stress regime can kill the process (syncsaga replaces a map without its lock, closes a channel a sender may
		// be using): run it in a child and treat a crash as an observation
		tmp := *out + ".stress"
		cmd := exec.Command(os.Args[0], "ogmstress", "-seed", strconv.FormatInt(*seed, 10), "-n", strconv.Itoa(*stress), "-out", tmp)
		var errb strings.Builder
		cmd.Stderr = &errb
		err := cmd.Run()
		if b, e := os.ReadFile(tmp); e == nil {
			w.Write(b)
			st.StressBad += strings.Count(string(b), "ogm anomaly")
		}
		os.Remove(tmp)
		st.Stress += *stress
		if err != nil {
			first := strings.SplitN(errb.String(), "\n", 2)[0]
			fmt.Fprintf(w, "ogm anomaly C09.concurrent-ready-and-setup-crashed-the-process detail=%s\n", strings.ReplaceAll(first, " ", "_"))
			st.StressBad++
		}
	}
	w.Flush()
	f.Close()
	st.Distinct = len(seen)
	if *statsFile != "" {
		b, _ := json.MarshalIndent(st, "", " ")
		os.WriteFile(*statsFile, b, 0644)
	}
}
