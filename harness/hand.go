package main

import (
	"bufio"
	"encoding/json"
	"flag"
	"fmt"
	"math/rand"
	"os"
	"runtime/debug"
	"strconv"
	"strings"
	"sync"
	"time"

	"github.com/weedbox/pokerface"
	"github.com/weedbox/pokertable"
)

// ---------------------------------------------------------------------------------------------
// hand-level histories on the native backend (real pokerface behind a recording / fault-injecting wrapper):
// every request is answered, every decision point is probed with illegal submissions, backend faults are injected
// ---------------------------------------------------------------------------------------------

type hdStats struct {
	Histories     int            `json:"histories"`
	Hands         int            `json:"hands"`
	Settled       int            `json:"hands_settled"`
	States        int            `json:"states_delivered"`
	Actions       int            `json:"actions_submitted"`
	Accepted      int            `json:"actions_accepted"`
	Probes        int            `json:"illegal_probes"`
	ProbeKinds    map[string]int `json:"probe_kinds"`
	ActMix        map[string]int `json:"accepted_action_mix"`
	Faults        int            `json:"faults_injected"`
	Events        map[string]int `json:"events_seen"`
	Players       map[string]int `json:"participants_per_hand"`
	Structures    map[string]int `json:"blind_structures"`
	Stuck         int            `json:"stuck_hands"`
	Withheld      int            `json:"withheld_responses_waited_out"`
	LateExtends   int            `json:"extensions_asked_after_the_deadline_passed"`
	Crashed       int            `json:"crashed_histories"`
	SlowListener  int            `json:"histories_with_a_slow_action_listener"`
	FailedStarts  int            `json:"hands_the_backend_refused_to_create"`
	ByLeaves      int            `json:"bystander_listed_first_left_mid_hand"`
	ClosedExtends int            `json:"extensions_asked_right_after_a_round_closed"`
	SlowAnswers   int            `json:"requests_answered_after_a_pause"`
	MaxSteps      int            `json:"max_backend_calls_per_hand"`
	Distinct      int            `json:"distinct_histories"`
	Samples       []string       `json:"samples"`
}

func newHDStats() *hdStats {
	return &hdStats{ProbeKinds: map[string]int{}, ActMix: map[string]int{}, Events: map[string]int{}, Players: map[string]int{}, Structures: map[string]int{}}
}

func mergeHD(d, s *hdStats) {
	d.Histories += s.Histories
	d.Hands += s.Hands
	d.Settled += s.Settled
	d.States += s.States
	d.Actions += s.Actions
	d.Accepted += s.Accepted
	d.Probes += s.Probes
	d.Faults += s.Faults
	d.Stuck += s.Stuck
	d.SlowListener += s.SlowListener
	d.FailedStarts += s.FailedStarts
	d.ByLeaves += s.ByLeaves
	d.ClosedExtends += s.ClosedExtends
	d.SlowAnswers += s.SlowAnswers
	d.Withheld += s.Withheld
	d.LateExtends += s.LateExtends
	if s.MaxSteps > d.MaxSteps {
		d.MaxSteps = s.MaxSteps
	}
	for k, v := range s.ProbeKinds {
		d.ProbeKinds[k] += v
	}
	for k, v := range s.ActMix {
		d.ActMix[k] += v
	}
	for k, v := range s.Events {
		d.Events[k] += v
	}
	for k, v := range s.Players {
		d.Players[k] += v
	}
	for k, v := range s.Structures {
		d.Structures[k] += v
	}
}

type hdHist struct {
	w           *strings.Builder
	rig         *Rig
	be          *RecBackend
	r           *rand.Rand
	st          *hdStats
	ids         []int // all player ids at the table
	snapPos     int   // snapshots already written
	actPos      int   // action events already consumed
	faultPct    int
	bystander   bool // a never-seated-in player listed first is still at the table
	probePct    int
	internalPct int
	t0          int64 // wall-clock second before the call that may have caused the states being written
	written     int64 // UpdatedAt of the last hand state written to the trace
	answered    int64 // UpdatedAt of the request state whose answers have been sent
	actionTime  int
	lateDone    bool   // the one late extension of this history has been made
	stoppedMid  bool   // the table was paused / closed in the middle of a hand (the history ends there)
	withholdAt  string // at the first request of this kind one asked player stays silent and the 17 s time-out is waited out
	withheld    bool
}

func (h *hdHist) line(format string, a ...interface{}) {
	s := fmt.Sprintf(format+"\n", a...)
	h.w.WriteString(s)
	streamLine(s)
}

func joinStr(xs []string, sep string) string {
	if len(xs) == 0 {
		return "-"
	}
	return strings.Join(xs, sep)
}

func viewStr(gs *pokerface.GameState) string {
	ps := make([]string, 0)
	for _, p := range gs.Players {
		did := p.DidAction
		if did == "" {
			did = "-"
		}
		ps = append(ps, fmt.Sprintf("%d;%s;%s;%s;%s;%s;%d;%d;%d;%d;%d", p.Idx, joinStr(p.Positions, "+"), b01(p.Acted), did, b01(p.Fold),
			joinStr(p.AllowedActions, "+"), p.Bankroll, p.InitialStackSize, p.StackSize, p.Wager, p.Pot))
	}
	round := gs.Status.Round
	if round == "" {
		round = "-"
	}
	return fmt.Sprintf("at=%d gid=%d ev=%s round=%s cur=%d raiser=%d wager=%d mini=%d prev=%d ante=%d blind=%d,%d,%d res=%s players=%s",
		gs.UpdatedAt, fnv64(gs.GameID)%1000000007, gs.Status.CurrentEvent, round, gs.Status.CurrentPlayer, gs.Status.CurrentRaiser, gs.Status.CurrentWager,
		gs.Status.MiniBet, gs.Status.PreviousRaiseSize, gs.Meta.Ante, gs.Meta.Blind.Dealer, gs.Meta.Blind.SB, gs.Meta.Blind.BB, b01(gs.Result != nil), strings.Join(ps, "|"))
}

func statsStr(t *pokertable.Table) string {
	out := make([]string, 0)
	for _, p := range t.State.PlayerStates {
		g := p.GameStatistics
		fr := g.FoldRound
		if fr == "" {
			fr = "-"
		}
		flags := []bool{g.IsVPIPChance, g.IsVPIP, g.IsPFRChance, g.IsPFR, g.IsATSChance, g.IsATS, g.Is3BChance, g.Is3B, g.IsFt3BChance, g.IsFt3B,
			g.IsCheckRaiseChance, g.IsCheckRaise, g.IsCBetChance, g.IsCBet, g.IsFtCBChance, g.IsFtCB, g.ShowdownWinningChance, g.IsShowdownWinning}
		fs := ""
		for _, b := range flags {
			fs += b01(b)
		}
		out = append(out, fmt.Sprintf("%d:%d:%d:%d:%d:%s:%s:%s", idNum(p.PlayerID), g.ActionTimes, g.RaiseTimes, g.CallTimes, g.CheckTimes, b01(g.IsFold), fr, fs))
	}
	return joinStr(out, ";")
}

func lastStr(a *pokertable.TablePlayerGameAction) string {
	if a == nil {
		return "-"
	}
	round := a.Round
	if round == "" {
		round = "-"
	}
	return fmt.Sprintf("%d:%d:%s:%s:%d:%d:%d", idNum(a.PlayerID), a.Seat, a.Action, round, a.Chips, a.GameCount, fnv64(a.GameID)%1000000007)
}

// flush writes every snapshot emitted since the last call that carries a hand state (one line per delivered state)
func (h *hdHist) flush() *pokertable.Table {
	t1 := time.Now().Unix()
	var last *pokertable.Table
	snaps := h.rig.snapsFrom(h.snapPos)
	base := h.snapPos
	h.snapPos += len(snaps)
	for k, s := range snaps {
		if base+k > 0 {
			if m := h.rig.markAt(base + k - 1); m != "" {
				h.line("%s", m) // what the listener did when it saw the previous snapshot
			}
		}
		if s.State.GameState == nil {
			continue
		}
		gs := s.State.GameState
		h.st.States++
		h.st.Events[gs.Status.CurrentEvent]++
		h.line("hd state st=%s gc=%d %s t0=%d t1=%d | endat=%d last=%s stats=%s", statusShort(s.State.Status), s.State.GameCount, viewStr(gs), h.t0, t1,
			s.State.CurrentActionEndAt, lastStr(s.State.LastPlayerGameAction), statsStr(s))
		last = s
		h.written = gs.UpdatedAt
	}
	return last
}

// settleDown waits until the table has caught up with the last state the backend returned and nothing moves any more
func (h *hdHist) settleDown() {
	waitFor(500*time.Millisecond, func() bool {
		gs := h.rig.live().State.GameState
		if gs == nil {
			return true
		}
		return gs.UpdatedAt == h.be.LastOutAt()
	})
	// … and has published it (the snapshot is emitted a moment after the state is stored)
	waitFor(200*time.Millisecond, func() bool {
		last := h.be.LastOutAt()
		if h.rig.live().State.GameState == nil {
			return true
		}
		h.rig.mu.Lock()
		defer h.rig.mu.Unlock()
		for i := len(h.rig.snaps) - 1; i >= 0 && i >= len(h.rig.snaps)-6; i-- {
			if g := h.rig.snaps[i].State.GameState; g != nil && g.UpdatedAt == last {
				return true
			}
		}
		return false
	})
	n := len(h.be.Calls())
	for i := 0; i < 30; i++ {
		schedBarrier(3)
		time.Sleep(500 * time.Microsecond)
		m := len(h.be.Calls())
		sc := h.rig.snapCount()
		if m == n {
			schedBarrier(2)
			if h.rig.snapCount() == sc {
				return
			}
		}
		n = m
	}
}

func (h *hdHist) gameIDs() []int {
	t := h.rig.live()
	out := []int{}
	for _, pi := range t.State.GamePlayerIndexes {
		if pi >= 0 && pi < len(t.State.PlayerStates) {
			out = append(out, idNum(t.State.PlayerStates[pi].PlayerID))
		}
	}
	return out
}

type actSpec struct {
	id   int
	kind string
	arg  int64
}

func (h *hdHist) call(a actSpec) error {
	te := h.rig.te
	p := pid(a.id)
	switch a.kind {
	case "ready":
		return te.PlayerReady(p)
	case "pay":
		return te.PlayerPay(p, a.arg)
	case "pass":
		return te.PlayerPass(p)
	case "fold":
		return te.PlayerFold(p)
	case "check":
		return te.PlayerCheck(p)
	case "call":
		return te.PlayerCall(p)
	case "allin":
		return te.PlayerAllin(p)
	case "bet":
		return te.PlayerBet(p, a.arg)
	case "raise":
		return te.PlayerRaise(p, a.arg)
	}
	return fmt.Errorf("unknown kind")
}

// submit one action, record: legality as the property defines it, the backend call it caused (if any), whether the
// table's JSON is byte-equal before/after, the action event emitted during the call, the result
func (h *hdHist) submit(a actSpec, isProbe bool, fault bool) error {
	t := h.rig.live()
	legal := false
	if t.State.Status == pokertable.TableStateStatus_TableGamePlaying && t.State.GameState != nil {
		gi := t.FindGamePlayerIdx(pid(a.id))
		if gi >= 0 && t.State.GameState.HasAction(gi, a.kind) {
			legal = true
		}
	}
	before, _ := t.GetJSON()
	stAt := statusShort(t.State.Status) // the status the call meets (t is the engine's live table: read it now, not after the call)
	nCalls := len(h.be.Calls())
	h.rig.mu.Lock()
	nEv := len(h.rig.actions)
	h.rig.mu.Unlock()
	if fault {
		h.be.muF.Lock()
		h.be.FailKind = a.kind
		h.be.FailKindLeft = 1
		h.be.muF.Unlock()
		h.st.Faults++
	}
	h.t0 = time.Now().Unix()
	err := h.call(a)
	if fault {
		h.be.muF.Lock()
		h.be.FailKindLeft = 0
		h.be.muF.Unlock()
	}
	bk := "none"
	nr := -9
	calls := h.be.Calls()
	if len(calls) > nCalls {
		c := calls[nCalls]
		if c.Err == "" {
			bk = c.Kind + ":ok"
			if c.Out != nil {
				nr = c.Out.Status.CurrentRaiser
			}
		} else {
			bk = c.Kind + ":err"
		}
	}
	same := "?"
	if err != nil {
		after, _ := h.rig.live().GetJSON()
		same = b01(before == after)
	}
	ev := "-"
	h.rig.mu.Lock()
	// the event this call published: events of the engine's own steps (antes collected for everybody, …) may still be
	// trickling in through a slow listener, so pick this player's event of this kind among the new ones — else this
	// player's last new event (a wrong kind must show), else none
	if len(h.rig.actions) > nEv {
		pick := -1
		for i := nEv; i < len(h.rig.actions); i++ {
			if h.rig.actions[i].PlayerID == pid(a.id) && h.rig.actions[i].Action == a.kind {
				pick = i
			}
		}
		if pick < 0 {
			for i := nEv; i < len(h.rig.actions); i++ {
				if h.rig.actions[i].PlayerID == pid(a.id) {
					pick = i
				}
			}
		}
		if pick >= 0 {
			x := h.rig.actions[pick]
			ev = lastStr(&x)
		}
	}
	h.rig.mu.Unlock()
	h.line("hd act st=%s id=%d kind=%s arg=%d legal=%s probe=%s bk=%s nr=%d same=%s ev=%s | %s", stAt, a.id, a.kind, a.arg, b01(legal), b01(isProbe), bk, nr, same, ev, tbErrName(err))
	h.st.Actions++
	if err == nil {
		h.st.Accepted++
		h.st.ActMix[a.kind]++
	}
	return err
}

var allKinds = []string{"ready", "pay", "pass", "fold", "check", "call", "allin", "bet", "raise"}

// probes: illegal submissions at the current point of the hand
func (h *hdHist) probes(gs *pokerface.GameState, gameIDs []int) {
	if h.r.Intn(100) >= h.probePct {
		return
	}
	n := 1 + h.r.Intn(3)
	for k := 0; k < n; k++ {
		kind := allKinds[h.r.Intn(len(allKinds))]
		var id int
		what := ""
		switch h.r.Intn(5) {
		case 0: // stranger
			id = 900 + h.r.Intn(3)
			what = "stranger"
		case 1: // at the table but not dealt in
			id = -1
			inHand := map[int]bool{}
			for _, g := range gameIDs {
				inHand[g] = true
			}
			for _, x := range h.ids {
				if !inHand[x] {
					id = x
				}
			}
			what = "not-dealt-in"
			if id == -1 {
				continue
			}
		default: // somebody in the hand, a kind the hand does not allow him now
			gi := h.r.Intn(len(gameIDs))
			id = gameIDs[gi]
			if gs.HasAction(gi, kind) {
				continue
			}
			if gi == gs.Status.CurrentPlayer {
				what = "current-player-disallowed-kind"
			} else {
				what = "out-of-turn"
			}
		}
		arg := int64(0)
		if kind == "bet" || kind == "raise" || kind == "pay" {
			arg = int64(10 + h.r.Intn(200))
		}
		h.st.Probes++
		h.st.ProbeKinds[what+"/"+kind]++
		h.submit(actSpec{id, kind, arg}, true, false)
	}
}

// chooseMove: a random legal move for the current player (amounts as the rules allow)
func chooseMove(r *rand.Rand, gs *pokerface.GameState, p *pokerface.PlayerState) (string, int64) {
	acts := []string{}
	for _, a := range p.AllowedActions {
		switch a {
		case "fold", "check", "call", "allin", "bet", "raise":
			acts = append(acts, a)
		}
	}
	if len(acts) == 0 {
		return "", 0
	}
	// bias: fewer folds and all-ins so that hands go deeper
	kind := acts[r.Intn(len(acts))]
	if (kind == "fold" || kind == "allin") && r.Intn(3) != 0 {
		kind = acts[r.Intn(len(acts))]
	}
	switch kind {
	case "bet":
		lo := gs.Status.MiniBet
		hi := p.InitialStackSize
		if hi <= lo {
			return kind, hi
		}
		return kind, lo + r.Int63n(hi-lo+1)
	case "raise":
		lo := gs.Status.CurrentWager + gs.Status.PreviousRaiseSize
		hi := p.InitialStackSize
		if hi <= lo {
			return kind, hi
		}
		return kind, lo + r.Int63n(hi-lo+1)
	}
	return kind, 0
}

// playHand drives one hand to settlement (or gives up); returns false when the table is no longer usable
// internalFault: make one of the engine's own backend steps fail once and see whether it is reported
func (h *hdHist) internalFault() bool {
	kinds := []string{"readyforall", "payblinds", "next"}
	kind := kinds[h.r.Intn(len(kinds))]
	savedFaults := h.faultPct
	h.faultPct = 0 // no player-action faults meanwhile: they share the backend's one-shot failure slot
	defer func() { h.faultPct = savedFaults }()
	h.be.muF.Lock()
	h.be.FailKind = kind
	h.be.FailKindLeft = 1
	h.be.muF.Unlock()
	errsBefore := h.rig.errCount()
	// play on until the injected failure has been consumed (or the hand ends without needing that step)
	for step := 0; step < 60; step++ {
		h.be.muF.Lock()
		left := h.be.FailKindLeft
		h.be.muF.Unlock()
		if left == 0 {
			break
		}
		if !h.playHandSteps(1) {
			break
		}
	}
	h.be.muF.Lock()
	left := h.be.FailKindLeft
	h.be.FailKindLeft = 0
	h.be.muF.Unlock()
	if h.stoppedMid {
		return false // the table was paused / closed in the middle of this hand: the history ends here
	}
	if left != 0 {
		return true // not consumed: nothing to judge
	}
	reported := waitFor(300*time.Millisecond, func() bool { return h.rig.errCount() > errsBefore })
	h.settleDown()
	h.flush()
	h.line("hd internal-fault kind=%s reported=%s", kind, b01(reported))
	h.st.Faults++
	return false // the hand is stuck by design after a failed internal step (no retry in the code): end of this history
}

func (h *hdHist) playHand(maxSteps int) bool {
	if h.internalPct > 0 && h.r.Intn(100) < h.internalPct {
		return h.internalFault()
	}
	return h.playHandSteps(maxSteps)
}

// playHandSteps: up to maxSteps decision points; true = the hand settled (or, for a bounded call, may go on)
func (h *hdHist) playHandSteps(maxSteps int) bool {
	gc := h.rig.live().State.GameCount
	startCalls := len(h.be.Calls())
	for step := 0; step < maxSteps; step++ {
		h.settleDown()
		h.flush()
		t := h.rig.live()
		if t.State.GameCount != gc || t.State.GameState == nil {
			// settled and continued
			if n := len(h.be.Calls()) - startCalls; n > h.st.MaxSteps {
				h.st.MaxSteps = n
			}
			h.st.Settled++
			return true
		}
		if t.State.Status != pokertable.TableStateStatus_TableGamePlaying {
			waitFor(50*time.Millisecond, func() bool {
				return h.rig.live().State.Status != pokertable.TableStateStatus_TableGameOpened
			})
			continue
		}
		gs := cloneGS(t.State.GameState)
		if gs == nil {
			continue
		}
		if gs.UpdatedAt != h.written {
			continue // a newer state is on its way into the trace: look again
		}
		gameIDs := h.gameIDs()
		if len(gameIDs) != len(gs.Players) {
			h.line("# hand list and engine players differ")
			return false
		}
		if h.answered != gs.UpdatedAt {
			h.probes(gs, gameIDs)
		}
		switch gs.Status.CurrentEvent {
		case "ReadyRequested", "AnteRequested", "BlindsRequested":
			if h.answered == gs.UpdatedAt {
				time.Sleep(300 * time.Microsecond) // everybody answered already: the group call is on its way
				continue
			}
			h.answered = gs.UpdatedAt
			if h.r.Intn(4) == 0 {
				// the players take a moment to answer: whatever the engine still does on its own after publishing the request
				// (notifications of the previous step, clean-up) has run by then
				time.Sleep(time.Duration(5+h.r.Intn(20)) * time.Millisecond)
				h.st.SlowAnswers++
			}
			kind := "ready"
			if gs.Status.CurrentEvent != "ReadyRequested" {
				kind = "pay"
			}
			asked := []int{}
			for gi, p := range gs.Players {
				for _, a := range p.AllowedActions {
					if a == kind {
						asked = append(asked, gi)
					}
				}
			}
			if len(asked) == 0 {
				h.line("hd stuck reason=nobody-asked-at-%s", gs.Status.CurrentEvent)
				h.st.Stuck++
				return false
			}
			perm := h.r.Perm(len(asked))
			silent := -1
			if h.withholdAt == gs.Status.CurrentEvent && !h.withheld {
				h.withheld = true
				silent = asked[h.r.Intn(len(asked))]
				if gs.Status.CurrentEvent == "BlindsRequested" && (len(gs.Players) >= 3 || h.r.Intn(2) == 0) {
					silent = asked[len(asked)-1] // the highest game index asked (the big blind in a ring hand)
				}
			}
			for _, k := range perm {
				gi := asked[k]
				if gi == silent {
					continue
				}
				arg := int64(0)
				if kind == "pay" {
					switch {
					case gs.Status.CurrentEvent == "AnteRequested":
						arg = gs.Meta.Ante
					case gs.HasPosition(gi, "sb"):
						arg = gs.Meta.Blind.SB
					case gs.HasPosition(gi, "bb"):
						arg = gs.Meta.Blind.BB
					default:
						arg = gs.Meta.Blind.Dealer
					}
				}
				h.submit(actSpec{gameIDs[gi], kind, arg}, false, false)
				if h.r.Intn(6) == 0 && k != perm[len(perm)-1] { // a repeated answer (not by the last one: the group completes asynchronously)
					h.submit(actSpec{gameIDs[gi], kind, arg}, false, false)
				}
			}
			if silent >= 0 {
				// everybody else has answered; the hand must move on by itself when the response time-out (17 s) passes
				t0 := time.Now()
				moved := waitFor(21*time.Second, func() bool {
					t := h.rig.live()
					g := t.State.GameState
					return g == nil || t.State.GameCount != gc || g.UpdatedAt != gs.UpdatedAt
				})
				ms := time.Since(t0).Milliseconds()
				h.line("hd withheld gi=%d ev=%s asked=%d | advanced=%s ms=%d", silent, gs.Status.CurrentEvent, len(asked), b01(moved), ms)
				h.st.Withheld++
				if !moved {
					h.st.Stuck++
					return false
				}
			}
		case "RoundStarted":
			cur := gs.Status.CurrentPlayer
			p := gs.GetPlayer(cur)
			if p == nil {
				return false
			}
			if gs.HasAction(cur, "pass") {
				// the pass of a folded / all-in player is a backend call like any other: it can fail and be sent again
				fault := h.r.Intn(100) < h.faultPct
				err := h.submit(actSpec{gameIDs[cur], "pass", 0}, false, fault)
				if fault && err != nil {
					h.submit(actSpec{gameIDs[cur], "pass", 0}, false, false)
				}
				break
			}
			if h.actionTime == 1 && !h.lateDone && h.r.Intn(3) == 0 {
				// let the clock run out (the published deadline is request time + 1 s), then ask for more time
				h.lateDone = true
				time.Sleep(2200 * time.Millisecond)
				d := 1 + h.r.Intn(9)
				ret, _ := h.rig.te.PlayerExtendActionDeadline(pid(gameIDs[cur]), d)
				h.line("hd extend d=%d late=1 | ret=%d", d, ret)
				schedBarrier(2)
				h.flush()
				h.st.LateExtends++
			}
			if h.r.Intn(7) == 0 {
				d := 1 + h.r.Intn(30)
				ret, _ := h.rig.te.PlayerExtendActionDeadline(pid(gameIDs[cur]), d)
				h.line("hd extend d=%d | ret=%d", d, ret)
				schedBarrier(2)
				h.flush() // the extension re-publishes the table (same hand state, new deadline)
			}
			if h.bystander && h.r.Intn(4) == 0 {
				h.bystander = false
				err := h.rig.te.PlayersLeave([]string{pid(90)})
				h.line("# the bystander (listed first, never dealt in) leaves: %s", tbErrName(err))
				h.st.ByLeaves++
				schedBarrier(2)
				h.flush() // the departure re-publishes the table (same hand state)
			}
			if !h.stoppedMid && h.r.Intn(40) == 0 {
				// the table is paused (or closed) in the middle of the hand: from now on no hand is being played as far as the
				// table is concerned, and the legal move of the player whose turn it is must be refused without a trace. The hand
				// cannot go on after that: the history ends here.
				h.stoppedMid = true
				what := "pause"
				if h.r.Intn(2) == 0 {
					what = "close"
					h.rig.te.CloseTable()
				} else {
					h.rig.te.PauseTable()
				}
				schedBarrier(2)
				h.line("# the table was %sd in the middle of the hand", what)
				if k, a := chooseMove(h.r, gs, p); k != "" {
					h.st.Probes++
					h.st.ProbeKinds["stopped-mid-hand/legal-move-of-the-current-player"]++
					h.submit(actSpec{gameIDs[cur], k, a}, true, false)
				}
				return false
			}
			kind, arg := chooseMove(h.r, gs, p)
			if kind == "" {
				h.line("hd stuck reason=current-player-has-no-action")
				h.st.Stuck++
				return false
			}
			fault := h.r.Intn(100) < h.faultPct
			err := h.submit(actSpec{gameIDs[cur], kind, arg}, false, fault)
			if fault && err != nil {
				// the same action can be submitted again
				h.submit(actSpec{gameIDs[cur], kind, arg}, false, false)
			}
		default:
			// RoundClosed / GameClosed are handled by the engine itself; wait for what follows
			time.Sleep(300 * time.Microsecond)
		}
	}
	if maxSteps < 10 {
		return true // bounded call (internal-fault driver): the hand simply is not over yet
	}
	h.line("hd stuck reason=not-settled-after-%d-steps", maxSteps)
	h.st.Stuck++
	return false
}

func genHDHistory(r *rand.Rand, st *hdStats, hid int, hands int, faultPct, probePct, internalPct int, withholdAt string) (out string) {
	h := &hdHist{w: &strings.Builder{}, r: r, st: st, faultPct: faultPct, probePct: probePct, internalPct: internalPct, withholdAt: withholdAt}
	// a panic inside a synchronous engine call: the engine crashed on this very history (see genTBHistory)
	defer func() {
		if e := recover(); e != nil {
			where := panicSite(string(debug.Stack()))
			if !strings.Contains(where, "github.com/weedbox/pokertable") {
				panic(e)
			}
			h.line("# panic inside a synchronous engine call: %v at %s", e, where)
			h.line("hd crash h=%d | %s at %s", hid, strings.ReplaceAll(fmt.Sprint(e), "\n", " "), where)
			h.line("hd end errors=-")
			st.Crashed++
			out = h.w.String()
		}
	}()
	maxSeat := 9
	n := 2 + r.Intn(6)
	blind := pokertable.TableBlindState{Level: 1, Ante: 0, Dealer: 0, SB: 10, BB: 20}
	structure := "sb-bb"
	switch r.Intn(8) {
	case 0:
		blind.Ante = 2
		structure = "ante+sb-bb"
	case 1:
		blind.Dealer = 20
		structure = "dealer+sb-bb"
	case 2:
		blind.SB = 0
		blind.Dealer = 10
		structure = "dealer+bb"
	case 3:
		blind.Ante = 5
		blind.Dealer = 5
		structure = "ante+dealer+sb-bb"
	}
	if withholdAt == "AnteRequested" && blind.Ante == 0 {
		blind.Ante = 2
		structure = "ante+" + structure
	}
	if withholdAt != "" {
		h.faultPct, h.internalPct = 0, 0
		if n < 3 && r.Intn(3) != 0 {
			n = 3 + r.Intn(4) // mostly ring hands: the blind positions are not game indexes 0..k-1 there
		}
	}
	st.Structures[structure]++
	actionTime := 7
	if r.Intn(6) == 0 {
		actionTime = 1 // short clock: some extensions are asked for after the published deadline has passed
	}
	h.actionTime = actionTime
	setting := pokertable.TableSetting{
		TableID: fmt.Sprintf("h%d", hid),
		Meta: pokertable.TableMeta{CompetitionID: "c", Rule: pokertable.CompetitionRule_Default, Mode: pokertable.CompetitionMode_CT, MaxDuration: 1000000,
			TableMaxSeatCount: maxSeat, TableMinPlayerCount: 2, MinChipUnit: 10, ActionTime: actionTime},
		Blind: blind,
	}
	h.be = NewRecBackend()
	rig, err := NewRig(setting, h.be, 0)
	if err != nil {
		return ""
	}
	h.rig = rig
	defer rig.abandon()
	if r.Intn(3) == 0 {
		rig.listenerDwell = 2 * time.Millisecond
		st.SlowListener++
	}
	if withholdAt == "" && r.Intn(3) == 0 {
		// somebody asks for more time the moment a betting round has closed — nobody is asked to act then; if it was the
		// hand's last round, the settlement and the continue step follow at once
		rig.snapHook = func(t *pokertable.Table) string {
			g := t.State.GameState
			if g == nil || g.Status.CurrentEvent != "RoundClosed" || t.State.Status != pokertable.TableStateStatus_TableGamePlaying || r.Intn(2) != 0 {
				return ""
			}
			if len(t.State.GamePlayerIndexes) == 0 {
				return ""
			}
			who := t.State.PlayerStates[t.State.GamePlayerIndexes[0]].PlayerID
			d := 1 + r.Intn(20)
			ret, _ := rig.te.PlayerExtendActionDeadline(who, d)
			st.ClosedExtends++
			return fmt.Sprintf("hd extend d=%d closed=1 | ret=%d", d, ret)
		}
	}
	st.Histories++
	seats := r.Perm(maxSeat)
	ps := []string{}
	// a bystander who took his seat before everybody else and never sits in: he stands first in the player list, and gets
	// up in the middle of a hand — everybody's index in the list shifts under the hand's own list
	if withholdAt == "" && n+2 <= maxSeat && r.Intn(3) == 0 {
		if rig.te.PlayerReserve(pokertable.JoinPlayer{PlayerID: pid(90), RedeemChips: 500, Seat: seats[maxSeat-1]}) == nil {
			h.bystander = true
			schedBarrier(3)
			time.Sleep(500 * time.Microsecond)
		}
	}
	for i := 0; i < n; i++ {
		id := i + 1
		chips := int64(15 + r.Intn(400))
		if r.Intn(4) == 0 {
			chips = int64(500 + r.Intn(3000))
		}
		if err := rig.te.PlayerReserve(pokertable.JoinPlayer{PlayerID: pid(id), RedeemChips: chips, Seat: seats[i]}); err != nil {
			return ""
		}
		time.Sleep(200 * time.Microsecond)
		rig.te.PlayerJoin(pid(id))
		waitFor(100*time.Millisecond, rig.autoJoinQuiet)
		schedBarrier(3)
		time.Sleep(500 * time.Microsecond)
		h.ids = append(h.ids, id)
		ps = append(ps, fmt.Sprintf("%d:%d:%d", id, seats[i], chips))
	}
	// one more player who sits out (reserved, never joins): not dealt in
	if n < 8 && r.Intn(2) == 0 {
		id := n + 1
		if rig.te.PlayerReserve(pokertable.JoinPlayer{PlayerID: pid(id), RedeemChips: 300, Seat: seats[n]}) == nil {
			h.ids = append(h.ids, id)
			ps = append(ps, fmt.Sprintf("%d:%d:%d", id, seats[n], 300))
			schedBarrier(3)
			time.Sleep(500 * time.Microsecond)
		}
	}
	h.line("hd new h=%d seats=%d actiontime=%d blind=%s players=%s", hid, maxSeat, actionTime, blindStr(&blind), strings.Join(ps, ";"))
	rig.te.StartTableGame()
	parts := map[string]int{}
	for i := 0; i < n; i++ {
		parts[pid(i+1)] = i
	}
	rig.te.SetUpTableGame(0, parts)
	time.Sleep(300 * time.Microsecond)
	for g := 0; g < hands; g++ {
		gcPre := rig.live().State.GameCount
		// the continue handler has set the gate up for the next hand (count first, participants after); only then is the
		// participant map read
		if g > 0 {
			waitFor(200*time.Millisecond, func() bool { return rig.gateCount() == gcPre+1 })
			time.Sleep(1500 * time.Microsecond)
		}
		// now and then the backend refuses to create the hand (a remote hand engine that is down; with the native one, a
		// dealt-in player without chips): the table has opened a hand that does not exist — nobody can act in it
		failStart := r.Intn(14) == 0
		nCallsPre := len(h.be.Calls())
		if failStart {
			h.be.muF.Lock()
			h.be.FailKind = "create"
			h.be.FailKindLeft = 1
			h.be.muF.Unlock()
		}
		// everybody awaited signals
		_, ready, _ := rig.gateState()
		for id := range ready {
			rig.te.PlayerSettlementFinish(id)
		}
		h.t0 = time.Now().Unix()
		if failStart {
			// the fault stays armed until the backend has been asked to create the hand (and has refused)
			refusedCreate := func() bool {
				cs := h.be.Calls()
				for i := nCallsPre; i < len(cs); i++ {
					if cs[i].Kind == "create" {
						return cs[i].Err != ""
					}
				}
				return false
			}
			got := waitFor(2*time.Second, refusedCreate)
			time.Sleep(3 * time.Millisecond)
			schedBarrier(3)
			h.be.muF.Lock()
			h.be.FailKindLeft = 0
			h.be.muF.Unlock()
			if !got {
				break // the hand was not even tried (or the refusal went elsewhere): nothing to compare
			}
			t := rig.live()
			h.line("hd failedstart gc=%d st=%s hasgame=%s", t.State.GameCount, statusShort(t.State.Status), b01(t.State.GameState != nil))
			st.FailedStarts++
			for i := 0; i < 5; i++ {
				h.st.Probes++
				h.st.ProbeKinds["failed-start/any"]++
				h.submit(actSpec{h.ids[r.Intn(len(h.ids))], allKinds[r.Intn(len(allKinds))], 20}, true, false)
			}
			break
		}
		ok := waitFor(2600*time.Millisecond, func() bool {
			t := rig.live()
			return t.State.GameCount == gcPre+1 && t.State.Status == pokertable.TableStateStatus_TableGamePlaying && t.State.GameState != nil
		})
		if !ok {
			break
		}
		t := rig.live()
		gi := []string{}
		for _, pi := range t.State.GamePlayerIndexes {
			pl := t.State.PlayerStates[pi]
			gi = append(gi, fmt.Sprintf("%d:%d:%d", idNum(pl.PlayerID), pl.Seat, pl.Bankroll))
		}
		h.line("hd open gc=%d hand=%s", t.State.GameCount, strings.Join(gi, ";"))
		st.Hands++
		st.Players[strconv.Itoa(len(gi))]++
		// probes before anything was answered: wager actions at the readiness point, strangers, …
		if !h.playHand(400) || h.stoppedMid {
			break
		}
		tt := rig.live()
		h.line("hd between st=%s gc=%d stats=%s endat=%d last=%s", statusShort(tt.State.Status), tt.State.GameCount, statsStr(tt), tt.State.CurrentActionEndAt, lastStr(tt.State.LastPlayerGameAction))
		// between hands: an action while no hand is being played
		if r.Intn(2) == 0 {
			h.st.Probes++
			h.st.ProbeKinds["no-hand/any"]++
			h.submit(actSpec{h.ids[r.Intn(len(h.ids))], allKinds[r.Intn(len(allKinds))], 20}, true, false)
		}
		if tt.State.Status == pokertable.TableStateStatus_TablePausing {
			break
		}
	}
	errs := []string{}
	rig.mu.Lock()
	for _, e := range rig.errs {
		errs = append(errs, strings.ReplaceAll(e, " ", "_"))
	}
	rig.mu.Unlock()
	h.line("hd end errors=%s", joinStr(errs, ","))
	return h.w.String()
}

func runHand(args []string) {
	fs := flag.NewFlagSet("hand", flag.ExitOnError)
	seed := fs.Int64("seed", 1, "PRNG seed")
	n := fs.Int("n", 40, "histories")
	out := fs.String("out", "hd.trace", "trace file")
	statsFile := fs.String("stats", "", "stats json")
	workers := fs.Int("workers", 8, "parallel tables")
	hands := fs.Int("hands", 3, "hands per history")
	faultPct := fs.Int("faults", 8, "percentage of player actions whose backend call is made to fail once")
	probePct := fs.Int("probes", 60, "percentage of decision points at which illegal submissions are tried")
	internalPct := fs.Int("internal", 6, "percentage of hands in which one of the engine's own backend steps is made to fail")
	withhold := fs.Int("withhold", 0, "extra histories (numbered after the first n) in which one asked player stays silent at a request and the 17 s time-out is waited out")
	child := fs.Bool("child", false, "child process: histories [from,to), one table at a time")
	inproc := fs.Bool("inproc", false, "generate in this process (mgr mode: all tables share one manager)")
	from := fs.Int("from", 0, "first history (child)")
	to := fs.Int("to", -1, "one past the last history (child)")
	stream := fs.String("stream", "", "append every line to this file at once (single-history child)")
	fs.Parse(args)
	devnull, _ := os.OpenFile(os.DevNull, os.O_WRONLY, 0)
	os.Stdout = devnull

	one := func(hid int) (string, *hdStats) {
		r := rand.New(rand.NewSource(*seed*9973 + int64(hid)*131071 + 3))
		sub := newHDStats()
		wh := ""
		hh := *hands
		if hid >= *n {
			wh = []string{"BlindsRequested", "ReadyRequested", "AnteRequested", "BlindsRequested"}[(hid-*n)%4]
			hh = 1
		}
		return genHDHistory(r, sub, hid, hh, *faultPct, *probePct, *internalPct, wh), sub
	}

	if *child {
		f, err := os.Create(*out)
		if err != nil {
			fmt.Fprintln(os.Stderr, err)
			os.Exit(2)
		}
		if *stream != "" {
			streamTo, _ = os.Create(*stream)
		}
		for hid := *from; hid < *to; hid++ {
			s, sub := one(hid)
			b, _ := json.Marshal(sub)
			f.WriteString(s)
			if !strings.HasSuffix(s, "\n") {
				f.WriteString("\n")
			}
			fmt.Fprintf(f, "#stats %d %s\n", hid, b)
		}
		f.Close()
		return
	}

	f, err := os.Create(*out)
	if err != nil {
		fmt.Fprintln(os.Stderr, err)
		os.Exit(2)
	}
	w := bufio.NewWriterSize(f, 1<<20)
	st := newHDStats()
	seen := map[uint64]bool{}
	add := func(s string, sub *hdStats) {
		seen[fnv64(stripHistID(s))] = true
		if len(st.Samples) < 1 && len(s) < 20000 {
			st.Samples = append(st.Samples, s)
		}
		if sub != nil {
			mergeHD(st, sub)
		}
	}
	if *inproc {
		var mu sync.Mutex
		var wg sync.WaitGroup
		next := 0
		for wk := 0; wk < *workers; wk++ {
			wg.Add(1)
			go func() {
				defer wg.Done()
				for {
					mu.Lock()
					hid := next
					next++
					mu.Unlock()
					if hid >= *n+*withhold {
						return
					}
					s, sub := one(hid)
					mu.Lock()
					w.WriteString(s)
					add(s, sub)
					mu.Unlock()
				}
			}()
		}
		wg.Wait()
	} else {
		pass := []string{"-seed", fmt.Sprint(*seed), "-n", fmt.Sprint(*n), "-hands", fmt.Sprint(*hands), "-faults", fmt.Sprint(*faultPct), "-probes", fmt.Sprint(*probePct), "-internal", fmt.Sprint(*internalPct)}
		recs, crashes, unattributed := superviseRun("hand", "hd", pass, *n, *workers, *out)
		if *withhold > 0 {
			// the waited-out time-outs: one child per history, all at once (each sleeps 17 s)
			r2, c2, u2 := superviseRunRange("hand", "hd", pass, *n, *n+*withhold, *withhold, *out+".wh")
			recs = append(recs, r2...)
			crashes += c2
			unattributed += u2
		}
		for _, rc := range recs {
			w.WriteString(rc.text)
			var sub *hdStats
			if rc.stats != nil {
				sub = newHDStats()
				json.Unmarshal(rc.stats, sub)
			}
			add(rc.text, sub)
		}
		st.Crashed = crashes
		for i := 0; i < unattributed; i++ {
			w.WriteString("cc anomaly CRASH.unattributed-engine-panic\n")
		}
	}
	w.Flush()
	f.Close()
	st.Distinct = len(seen)
	if *statsFile != "" {
		b, _ := json.MarshalIndent(st, "", " ")
		os.WriteFile(*statsFile, b, 0644)
	}
}
