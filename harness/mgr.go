package main

// mgr mode (C17): the table-level and hand-level histories of the other modes, but with every one of the 22
// forwarding methods of pokertable.Manager called *through one shared manager* instead of on the engine. All tables
// of all workers are registered with the same manager at the same time; next to them sits an idle "twin" table,
// created by the manager's own CreateTable, whose JSON must stay byte-identical across every call addressed to any
// other table. The per-table `tb` / `hd` histories are replayed through the TB / HD models as usual (a manager that
// forwards to the wrong method, swaps arguments, or drops a result shows up as a mismatch there); the `mg` lines are
// replayed through the MG registry model (table-not-found exactly for unknown / closed / released ids).

import (
	"bytes"
	"encoding/json"
	"errors"
	"flag"
	"fmt"
	"math/rand"
	"os"
	"os/exec"
	"regexp"
	"sort"
	"strings"
	"sync"
	"sync/atomic"
	"time"

	"github.com/weedbox/pokertable"
)

type mgrCtx struct {
	m      pokertable.Manager
	mu     sync.Mutex
	lines  []string
	twin   pokertable.TableEngine
	twinID string
	r      *rand.Rand
	calls  map[string]int
	ghosts int
	nf     int
}

var viaMgr *mgrCtx

func (c *mgrCtx) twinJSON() string {
	if c.twin == nil {
		return ""
	}
	t := safeClone(c.twin.GetTable())
	if t == nil {
		return "?"
	}
	s, _ := t.GetJSON()
	return s
}

func (c *mgrCtx) log(format string, a ...interface{}) {
	c.lines = append(c.lines, fmt.Sprintf(format, a...))
}

func resClass(err error) string {
	if err == nil {
		return "ok"
	}
	if errors.Is(err, pokertable.ErrManagerTableNotFound) {
		return "notfound"
	}
	return "err"
}

// ghost: a call addressed to an id that was never registered
func (c *mgrCtx) ghost() {
	c.mu.Lock()
	k := c.r.Intn(22)
	n := c.ghosts
	c.ghosts++
	c.mu.Unlock()
	id := fmt.Sprintf("ghost%d", n%5)
	name, err := callByIndex(c.m, k, id)
	c.mu.Lock()
	c.log("mg call t=%s name=%s | res=%s twin=1", id, name, resClass(err))
	c.calls["ghost."+name]++
	c.mu.Unlock()
}

func callByIndex(m pokertable.Manager, k int, id string) (string, error) {
	jp := pokertable.JoinPlayer{PlayerID: "p1", RedeemChips: 100, Seat: 0}
	switch k {
	case 0:
		return "ReleaseTable", m.ReleaseTable(id)
	case 1:
		return "PauseTable", m.PauseTable(id)
	case 2:
		return "CloseTable", m.CloseTable(id)
	case 3:
		return "StartTableGame", m.StartTableGame(id)
	case 4:
		return "SetUpTableGame", m.SetUpTableGame(id, 1, map[string]int{"p1": 0})
	case 5:
		return "UpdateBlind", m.UpdateBlind(id, 1, 0, 0, 10, 20)
	case 6:
		_, err := m.UpdateTablePlayers(id, []pokertable.JoinPlayer{jp}, nil)
		return "UpdateTablePlayers", err
	case 7:
		return "PlayerReserve", m.PlayerReserve(id, jp)
	case 8:
		return "PlayerJoin", m.PlayerJoin(id, "p1")
	case 9:
		return "PlayerSettlementFinish", m.PlayerSettlementFinish(id, "p1")
	case 10:
		return "PlayerRedeemChips", m.PlayerRedeemChips(id, jp)
	case 11:
		return "PlayersLeave", m.PlayersLeave(id, []string{"p1"})
	case 12:
		_, err := m.PlayerExtendActionDeadline(id, "p1", 5)
		return "PlayerExtendActionDeadline", err
	case 13:
		return "PlayerReady", m.PlayerReady(id, "p1")
	case 14:
		return "PlayerPay", m.PlayerPay(id, "p1", 10)
	case 15:
		return "PlayerBet", m.PlayerBet(id, "p1", 10)
	case 16:
		return "PlayerRaise", m.PlayerRaise(id, "p1", 10)
	case 17:
		return "PlayerCall", m.PlayerCall(id, "p1")
	case 18:
		return "PlayerAllin", m.PlayerAllin(id, "p1")
	case 19:
		return "PlayerCheck", m.PlayerCheck(id, "p1")
	case 20:
		return "PlayerFold", m.PlayerFold(id, "p1")
	default:
		return "PlayerPass", m.PlayerPass(id, "p1")
	}
}

var mgrSeq atomic.Int64 // orders the calls made through the managers of a run

// mgrProxy is the engine as the harness sees it in mgr mode: everything the manager forwards goes through the manager
type mgrProxy struct {
	pokertable.TableEngine // the real engine: callbacks, GetTable, GetGame, CreateTable
	c                      *mgrCtx
	id                     string
	// calls of this table that are in flight, and the lines of calls that finished while another one still was: the
	// registry model judges a call by whether the table was registered when the call *began* (the manager's lookup comes
	// first), so a call made from inside another call's notification (a release from a listener, say) is written after it;
	// a successful close / release takes effect on the registry when it *ends* (the entry is deleted last), so a call that
	// began while it ran — from another goroutine — is written before it
	pmu      sync.Mutex
	depth    int
	deferred []string
}

func wrapForManager(c *mgrCtx, engine pokertable.TableEngine, tableID string) pokertable.TableEngine {
	if !pokertable.VerifManagerStore(c.m, tableID, engine) {
		panic("VerifManagerStore: not the package's manager")
	}
	c.mu.Lock()
	c.log("mg store t=%s", tableID)
	c.mu.Unlock()
	return &mgrProxy{TableEngine: engine, c: c, id: tableID}
}

// fwd: call through the manager; bracket with twin snapshots; when the manager no longer knows the table (after a
// successful close / release) ask the engine directly so that the table-level trace stays comparable with the model
func (p *mgrProxy) fwd(name string, via func() error, direct func() error) error {
	c := p.c
	c.mu.Lock()
	doGhost := c.r.Intn(9) == 0
	c.mu.Unlock()
	if doGhost {
		c.ghost()
	}
	pre := c.twinJSON()
	p.pmu.Lock()
	p.depth++
	p.pmu.Unlock()
	key := mgrSeq.Add(1) // an ordinary call is judged by the registry as it was when the call began (the lookup comes first) …
	err := via()
	if (name == "CloseTable" || name == "ReleaseTable") && err == nil {
		key = mgrSeq.Add(1) // … a close / release forgets the table at its very end: calls that began meanwhile are still served
	}
	post := c.twinJSON()
	same := 1
	if pre != post {
		same = 0
	}
	line := fmt.Sprintf("mg call t=%s name=%s | res=%s twin=%d", p.id, name, resClass(err), same)
	p.pmu.Lock()
	p.depth--
	p.deferred = append(p.deferred, fmt.Sprintf("%020d %s", key, line))
	var out []string
	if p.depth == 0 {
		// every call of this table that overlapped has finished: write them in the order the registry saw them
		sort.Strings(p.deferred)
		for _, l := range p.deferred {
			out = append(out, l[21:])
		}
		p.deferred = nil
	}
	p.pmu.Unlock()
	c.mu.Lock()
	for _, l := range out {
		c.log("%s", l)
	}
	c.calls[name]++
	c.mu.Unlock()
	if errors.Is(err, pokertable.ErrManagerTableNotFound) {
		c.mu.Lock()
		c.nf++
		c.mu.Unlock()
		return direct()
	}
	return err
}

func (p *mgrProxy) ReleaseTable() error {
	return p.fwd("ReleaseTable", func() error { return p.c.m.ReleaseTable(p.id) }, p.TableEngine.ReleaseTable)
}
func (p *mgrProxy) PauseTable() error {
	return p.fwd("PauseTable", func() error { return p.c.m.PauseTable(p.id) }, p.TableEngine.PauseTable)
}
func (p *mgrProxy) CloseTable() error {
	return p.fwd("CloseTable", func() error { return p.c.m.CloseTable(p.id) }, p.TableEngine.CloseTable)
}
func (p *mgrProxy) StartTableGame() error {
	return p.fwd("StartTableGame", func() error { return p.c.m.StartTableGame(p.id) }, p.TableEngine.StartTableGame)
}
func (p *mgrProxy) UpdateBlind(level int, ante, dealer, sb, bb int64) {
	p.fwd("UpdateBlind", func() error { return p.c.m.UpdateBlind(p.id, level, ante, dealer, sb, bb) },
		func() error { p.TableEngine.UpdateBlind(level, ante, dealer, sb, bb); return nil })
}
func (p *mgrProxy) SetUpTableGame(gameCount int, participants map[string]int) {
	p.fwd("SetUpTableGame", func() error { return p.c.m.SetUpTableGame(p.id, gameCount, participants) },
		func() error { p.TableEngine.SetUpTableGame(gameCount, participants); return nil })
}
func (p *mgrProxy) UpdateTablePlayers(joinPlayers []pokertable.JoinPlayer, leavePlayerIDs []string) (map[string]int, error) {
	var res map[string]int
	err := p.fwd("UpdateTablePlayers", func() error {
		var e error
		res, e = p.c.m.UpdateTablePlayers(p.id, joinPlayers, leavePlayerIDs)
		return e
	}, func() error {
		var e error
		res, e = p.TableEngine.UpdateTablePlayers(joinPlayers, leavePlayerIDs)
		return e
	})
	return res, err
}
func (p *mgrProxy) PlayerReserve(j pokertable.JoinPlayer) error {
	return p.fwd("PlayerReserve", func() error { return p.c.m.PlayerReserve(p.id, j) }, func() error { return p.TableEngine.PlayerReserve(j) })
}
func (p *mgrProxy) PlayerJoin(id string) error {
	return p.fwd("PlayerJoin", func() error { return p.c.m.PlayerJoin(p.id, id) }, func() error { return p.TableEngine.PlayerJoin(id) })
}
func (p *mgrProxy) PlayerSettlementFinish(id string) error {
	return p.fwd("PlayerSettlementFinish", func() error { return p.c.m.PlayerSettlementFinish(p.id, id) }, func() error { return p.TableEngine.PlayerSettlementFinish(id) })
}
func (p *mgrProxy) PlayerRedeemChips(j pokertable.JoinPlayer) error {
	return p.fwd("PlayerRedeemChips", func() error { return p.c.m.PlayerRedeemChips(p.id, j) }, func() error { return p.TableEngine.PlayerRedeemChips(j) })
}
func (p *mgrProxy) PlayersLeave(ids []string) error {
	return p.fwd("PlayersLeave", func() error { return p.c.m.PlayersLeave(p.id, ids) }, func() error { return p.TableEngine.PlayersLeave(ids) })
}
func (p *mgrProxy) PlayerExtendActionDeadline(id string, duration int) (int64, error) {
	var res int64
	err := p.fwd("PlayerExtendActionDeadline", func() error {
		var e error
		res, e = p.c.m.PlayerExtendActionDeadline(p.id, id, duration)
		return e
	}, func() error {
		var e error
		res, e = p.TableEngine.PlayerExtendActionDeadline(id, duration)
		return e
	})
	return res, err
}
func (p *mgrProxy) PlayerReady(id string) error {
	return p.fwd("PlayerReady", func() error { return p.c.m.PlayerReady(p.id, id) }, func() error { return p.TableEngine.PlayerReady(id) })
}
func (p *mgrProxy) PlayerPay(id string, chips int64) error {
	return p.fwd("PlayerPay", func() error { return p.c.m.PlayerPay(p.id, id, chips) }, func() error { return p.TableEngine.PlayerPay(id, chips) })
}
func (p *mgrProxy) PlayerBet(id string, chips int64) error {
	return p.fwd("PlayerBet", func() error { return p.c.m.PlayerBet(p.id, id, chips) }, func() error { return p.TableEngine.PlayerBet(id, chips) })
}
func (p *mgrProxy) PlayerRaise(id string, level int64) error {
	return p.fwd("PlayerRaise", func() error { return p.c.m.PlayerRaise(p.id, id, level) }, func() error { return p.TableEngine.PlayerRaise(id, level) })
}
func (p *mgrProxy) PlayerCall(id string) error {
	return p.fwd("PlayerCall", func() error { return p.c.m.PlayerCall(p.id, id) }, func() error { return p.TableEngine.PlayerCall(id) })
}
func (p *mgrProxy) PlayerAllin(id string) error {
	return p.fwd("PlayerAllin", func() error { return p.c.m.PlayerAllin(p.id, id) }, func() error { return p.TableEngine.PlayerAllin(id) })
}
func (p *mgrProxy) PlayerCheck(id string) error {
	return p.fwd("PlayerCheck", func() error { return p.c.m.PlayerCheck(p.id, id) }, func() error { return p.TableEngine.PlayerCheck(id) })
}
func (p *mgrProxy) PlayerFold(id string) error {
	return p.fwd("PlayerFold", func() error { return p.c.m.PlayerFold(p.id, id) }, func() error { return p.TableEngine.PlayerFold(id) })
}
func (p *mgrProxy) PlayerPass(id string) error {
	return p.fwd("PlayerPass", func() error { return p.c.m.PlayerPass(p.id, id) }, func() error { return p.TableEngine.PlayerPass(id) })
}

// the twin: created by the manager's own CreateTable (native backend), two players seated, never started
func (c *mgrCtx) makeTwin() error {
	setting := pokertable.TableSetting{
		TableID: "twin",
		Meta: pokertable.TableMeta{CompetitionID: "c", Rule: pokertable.CompetitionRule_Default, Mode: pokertable.CompetitionMode_CT, MaxDuration: 1000000,
			TableMaxSeatCount: 6, TableMinPlayerCount: 2, MinChipUnit: 10, ActionTime: 10},
		Blind: pokertable.TableBlindState{Level: 1, Ante: 0, Dealer: 0, SB: 10, BB: 20},
	}
	t, err := c.m.CreateTable(nil, nil, setting)
	if err != nil {
		return err
	}
	c.twinID = t.ID
	c.log("mg store t=%s", t.ID)
	for i, id := range []string{"tw1", "tw2"} {
		err := c.m.PlayerReserve(t.ID, pokertable.JoinPlayer{PlayerID: id, RedeemChips: 500, Seat: i * 2})
		c.log("mg call t=%s name=PlayerReserve | res=%s twin=1", t.ID, resClass(err))
		err = c.m.PlayerJoin(t.ID, id)
		c.log("mg call t=%s name=PlayerJoin | res=%s twin=1", t.ID, resClass(err))
	}
	te, err := c.m.GetTableEngine(t.ID)
	if err != nil {
		return err
	}
	// let the auto-join group of the two reservations complete before the twin is used as a reference
	time.Sleep(30 * time.Millisecond)
	c.twin = te
	return nil
}

func runMgrChild(args []string) {
	fs := flag.NewFlagSet("mgrchild", flag.ExitOnError)
	seed := fs.Int64("seed", 1, "PRNG seed")
	nt := fs.Int("ntable", 40, "table-level histories")
	nh := fs.Int("nhand", 24, "hand-level histories")
	hands := fs.Int("hands", 5, "max hands per table-level history")
	out := fs.String("out", "mg.trace", "trace file")
	statsFile := fs.String("stats", "", "stats json")
	workers := fs.Int("workers", 8, "parallel tables")
	fs.Parse(args)

	devnull, _ := os.OpenFile(os.DevNull, os.O_WRONLY, 0)
	os.Stdout = devnull
	c := &mgrCtx{m: pokertable.NewManager(), r: rand.New(rand.NewSource(*seed*31 + 7)), calls: map[string]int{}}
	if err := c.makeTwin(); err != nil {
		fmt.Fprintln(os.Stderr, "twin:", err)
		os.Exit(2)
	}
	viaMgr = c
	tbOut := *out + ".part-tb.trace"
	hdOut := *out + ".part-hd.trace"
	tbStats := *out + ".part-tb.json"
	hdStats := *out + ".part-hd.json"
	runTable([]string{"-inproc", "-seed", fmt.Sprint(*seed), "-n", fmt.Sprint(*nt), "-hands", fmt.Sprint(*hands), "-out", tbOut, "-stats", tbStats, "-workers", fmt.Sprint(*workers)})
	runHand([]string{"-inproc", "-seed", fmt.Sprint(*seed), "-n", fmt.Sprint(*nh), "-hands", "2", "-out", hdOut, "-stats", hdStats, "-workers", fmt.Sprint(*workers)})
	viaMgr = nil

	// afterwards: the twin itself is closed through the manager and must be forgotten; Reset forgets everything
	c.mu.Lock()
	for _, step := range []int{2, 1, 7, 0} {
		name, err := callByIndex(c.m, step, c.twinID)
		c.log("mg call t=%s name=%s | res=%s twin=1", c.twinID, name, resClass(err))
	}
	c.m.Reset()
	c.log("mg reset")
	c.mu.Unlock()
	for i := 0; i < 6; i++ {
		c.ghost()
	}

	var sb strings.Builder
	for _, f := range []string{tbOut, hdOut} {
		b, _ := os.ReadFile(f)
		sb.Write(b)
		os.Remove(f)
	}
	sb.WriteString("mg new\n")
	for _, l := range c.lines {
		sb.WriteString(l)
		sb.WriteString("\n")
	}
	sb.WriteString("mg end\n")
	os.WriteFile(*out, []byte(sb.String()), 0644)
	if *statsFile != "" {
		tb, _ := os.ReadFile(tbStats)
		hd, _ := os.ReadFile(hdStats)
		methods := []string{}
		for k, v := range c.calls {
			methods = append(methods, fmt.Sprintf("%q:%d", k, v))
		}
		hist, dist := 0, 0
		for _, raw := range [][]byte{tb, hd} {
			var m map[string]interface{}
			if json.Unmarshal(raw, &m) == nil {
				if v, ok := m["histories"].(float64); ok {
					hist += int(v)
				}
				if v, ok := m["distinct_histories"].(float64); ok {
					dist += int(v)
				}
			}
		}
		s := fmt.Sprintf("{\"histories\":%d,\"distinct_histories\":%d,\"mg_lines\":%d,\"after_delete_calls\":%d,\"ghost_calls\":%d,\"methods\":{%s},\"tb\":%s,\"hd\":%s}", hist, dist, len(c.lines), c.nf, c.ghosts, strings.Join(methods, ","), orNull(tb), orNull(hd))
		os.WriteFile(*statsFile, []byte(s), 0644)
	}
	os.Remove(tbStats)
	os.Remove(hdStats)
}

func orNull(b []byte) string {
	if len(b) == 0 {
		return "null"
	}
	return string(b)
}

var hidRe = regexp.MustCompile(` h=\d+`)

// runMgr: the supervisor — several child processes, each with its own shared manager, twin table and set of tables
// (a panic in one of the engine's goroutines cannot be recovered and must not take the other children's traces along)
func runMgr(args []string) {
	fs := flag.NewFlagSet("mgr", flag.ExitOnError)
	seed := fs.Int64("seed", 1, "PRNG seed")
	nt := fs.Int("ntable", 40, "table-level histories")
	nh := fs.Int("nhand", 24, "hand-level histories")
	hands := fs.Int("hands", 5, "max hands per table-level history")
	out := fs.String("out", "mg.trace", "trace file")
	statsFile := fs.String("stats", "", "stats json")
	workers := fs.Int("workers", 8, "parallel tables (all children together)")
	procs := fs.Int("procs", 4, "child processes")
	fs.Parse(args)
	exe, _ := os.Executable()
	if *procs < 1 {
		*procs = 1
	}
	w := *workers / *procs
	if w < 2 {
		w = 2
	}
	type res struct {
		trace, stats []byte
		err          error
		stderr       string
	}
	rs := make([]res, *procs)
	var wg sync.WaitGroup
	for k := 0; k < *procs; k++ {
		wg.Add(1)
		go func(k int) {
			defer wg.Done()
			o := fmt.Sprintf("%s.child%d", *out, k)
			st := o + ".json"
			cmd := exec.Command(exe, "mgrchild", "-seed", fmt.Sprint(*seed*100+int64(k)), "-ntable", fmt.Sprint((*nt+*procs-1) / *procs),
				"-nhand", fmt.Sprint((*nh+*procs-1) / *procs), "-hands", fmt.Sprint(*hands), "-workers", fmt.Sprint(w), "-out", o, "-stats", st)
			var eb bytes.Buffer
			cmd.Stderr = &eb
			rs[k].err = cmd.Run()
			rs[k].trace, _ = os.ReadFile(o)
			rs[k].stats, _ = os.ReadFile(st)
			e := eb.String()
			if len(e) > 8000 {
				e = e[:8000]
			}
			rs[k].stderr = e
			os.Remove(o)
			os.Remove(st)
			for _, sfx := range []string{".part-tb.trace", ".part-hd.trace", ".part-tb.json", ".part-hd.json"} {
				os.Remove(o + sfx)
			}
		}(k)
	}
	wg.Wait()
	var sb strings.Builder
	hist, dist := 0, 0
	kids := []string{}
	for k, r := range rs {
		// history numbers are per child: make them unique in the merged trace
		sb.WriteString(hidRe.ReplaceAllStringFunc(string(r.trace), func(m string) string {
			var n int
			fmt.Sscanf(m[len(" h="):], "%d", &n)
			return fmt.Sprintf(" h=%d", k*100000+n)
		}))
		if r.err != nil && harnessRace(r.stderr) {
			sb.WriteString("# a child's harness read raced with the engine's unlocked open-game state; its histories are not in this trace\n")
		} else if r.err != nil {
			os.WriteFile(fmt.Sprintf("%s.crash-unattributed-h%d.txt", *out, k), []byte(r.stderr), 0644)
			sb.WriteString("cc anomaly CRASH.unattributed-engine-panic\n")
		}
		var m map[string]interface{}
		if json.Unmarshal(r.stats, &m) == nil {
			if v, ok := m["histories"].(float64); ok {
				hist += int(v)
			}
			if v, ok := m["distinct_histories"].(float64); ok {
				dist += int(v)
			}
			kids = append(kids, string(r.stats))
		}
	}
	os.WriteFile(*out, []byte(sb.String()), 0644)
	if *statsFile != "" {
		os.WriteFile(*statsFile, []byte(fmt.Sprintf("{\"histories\":%d,\"distinct_histories\":%d,\"children\":[%s]}", hist, dist, strings.Join(kids, ","))), 0644)
	}
}
