package main

import (
	"bufio"
	"encoding/json"
	"flag"
	"fmt"
	"math/rand"
	"os"
	"os/exec"
	"sort"
	"strconv"
	"strings"
	"sync"
	"sync/atomic"
	"time"

	"github.com/weedbox/pokertable"
	"github.com/weedbox/pokertable/seat_manager"
)

// ---------------------------------------------------------------------------------------------
// concurrency (C16): bursts of simultaneous membership calls, simultaneous game actions, simultaneous seat-manager
// mutators.  A membership burst is linearised from the snapshots the engine emits inside its lock and written as an
// ordinary `tb` history, so that the TB model replays it; direct anomalies are written as `cc anomaly` lines.
// ---------------------------------------------------------------------------------------------

type ccStats struct {
	Bursts           int            `json:"membership_bursts"`
	Calls            int            `json:"concurrent_calls"`
	Succeeded        int            `json:"calls_succeeded"`
	ErrKinds         map[string]int `json:"err_kinds"`
	Goroutines       map[string]int `json:"goroutines_per_burst"`
	ActBursts        int            `json:"action_bursts"`
	ActAccepted      int            `json:"actions_accepted_in_bursts"`
	SMBursts         int            `json:"seat_manager_bursts"`
	ByLeaves         int            `json:"bystander_departures_during_action_bursts"`
	TopupBursts      int            `json:"top_up_bursts_racing_an_open"`
	OpenVsMembership int            `json:"membership_calls_queued_around_an_open"`
	Windows          int            `json:"lock_free_calls_placed_inside_an_open"`
	WindowsHit       int            `json:"lock_free_calls_placed_inside_an_open_that_landed"`
	Anomalies        int            `json:"anomalies"`
	Crashes          int            `json:"child_crashes"`
	Histories        int            `json:"histories"`
	Distinct         int            `json:"distinct_histories"`
	Samples          []string       `json:"samples"`
}

type ccOp struct {
	kind   string // reserve | leave | update
	id     int
	chips  int64
	seat   int
	rebuy  bool // a PlayerReserve of somebody who is at the table and stays: a top-up
	leaves []int
	joins  []joinSpec
	err    error
	done   bool
}

func playersKey(t *pokertable.Table) string {
	ids := []string{}
	for _, p := range t.State.PlayerStates {
		ids = append(ids, fmt.Sprintf("%s@%d", p.PlayerID, p.Seat))
	}
	return strings.Join(ids, ",")
}

func idSet(t *pokertable.Table) map[int]int {
	m := map[int]int{}
	for _, p := range t.State.PlayerStates {
		m[idNum(p.PlayerID)] = p.Seat
	}
	return m
}

// membershipBurst: one table, a sequential prefix, then G goroutines firing membership calls at once
func membershipBurst(r *rand.Rand, st *ccStats, hid int) string {
	h := &tbHist{w: &strings.Builder{}, r: r, st: newTBStats()}
	h.maxSeat = 2 + r.Intn(9)
	blind := pokertable.TableBlindState{Level: 1, Ante: 0, Dealer: 0, SB: 10, BB: 20}
	setting := pokertable.TableSetting{
		TableID: fmt.Sprintf("c%d", hid),
		Meta: pokertable.TableMeta{CompetitionID: "c", Rule: pokertable.CompetitionRule_Default, Mode: pokertable.CompetitionMode_CT, MaxDuration: 1000000,
			TableMaxSeatCount: h.maxSeat, TableMinPlayerCount: 2, MinChipUnit: 10, ActionTime: 10},
		Blind: blind,
	}
	h.synth = &SynthBackend{}
	h.synth.ResultFn = h.planResult
	rig, err := NewRig(setting, h.synth, 0)
	if err != nil {
		return ""
	}
	h.rig = rig
	defer rig.abandon()
	st.Bursts++
	st.Histories++
	h.line("tb new seats=%d min=2 rule=default mode=ct blind=%s h=%d", h.maxSeat, blindStr(&blind), hid)
	h.obs()
	// sequential prefix: a few players already there (joined, so that the auto-join group is quiet)
	pre := r.Intn(h.maxSeat)
	for i := 0; i < pre; i++ {
		h.arrive(1.0)
	}
	// the burst
	g := 2 + r.Intn(15)
	if r.Intn(4) == 0 {
		g = 16 + r.Intn(48)
	}
	st.Goroutines[strconv.Itoa(g)]++
	ops := make([]*ccOp, g)
	present := h.playerIDs()
	leavable := append([]int{}, present...)
	r.Shuffle(len(leavable), func(i, j int) { leavable[i], leavable[j] = leavable[j], leavable[i] })
	// some of the players present stay for the whole burst and top up during it (re-buy / add-on by PlayerReserve)
	stayers := []int{}
	if len(leavable) >= 2 {
		k := 1 + r.Intn(len(leavable)/2)
		stayers = append(stayers, leavable[len(leavable)-k:]...)
		leavable = leavable[:len(leavable)-k]
	}
	for k := 0; k < g; k++ {
		x := r.Intn(100)
		switch {
		case len(stayers) > 0 && x < 18:
			ops[k] = &ccOp{kind: "reserve", rebuy: true, id: stayers[r.Intn(len(stayers))], chips: int64(50 + r.Intn(500)), seat: -1}
		case x < 55 || len(leavable) == 0 && x < 80:
			seat := -1
			if r.Intn(2) == 0 {
				seat = r.Intn(h.maxSeat) // may collide with another goroutine's choice or a taken seat
			}
			ops[k] = &ccOp{kind: "reserve", id: h.fresh(), chips: int64(50 + r.Intn(500)), seat: seat}
		case x < 80:
			n := 1
			if len(leavable) > 1 && r.Intn(3) == 0 {
				n = 2
			}
			ops[k] = &ccOp{kind: "leave", leaves: append([]int{}, leavable[:n]...)}
			leavable = leavable[n:]
		default:
			js := []joinSpec{}
			for i := 0; i < 1+r.Intn(2); i++ {
				seat := -1
				if r.Intn(2) == 0 {
					seat = r.Intn(h.maxSeat)
				}
				js = append(js, joinSpec{h.fresh(), int64(50 + r.Intn(500)), seat})
			}
			lv := []int{}
			if len(leavable) > 0 && r.Intn(2) == 0 {
				lv = append(lv, leavable[0])
				leavable = leavable[1:]
			}
			ops[k] = &ccOp{kind: "update", joins: js, leaves: lv}
		}
	}
	preSnaps := rig.snapCount()
	before := safeClone(rig.live())
	var wg sync.WaitGroup
	start := make(chan struct{})
	for k := range ops {
		wg.Add(1)
		go func(op *ccOp) {
			defer wg.Done()
			<-start
			switch op.kind {
			case "reserve":
				op.err = rig.te.PlayerReserve(pokertable.JoinPlayer{PlayerID: pid(op.id), RedeemChips: op.chips, Seat: op.seat})
			case "leave":
				s := []string{}
				for _, id := range op.leaves {
					s = append(s, pid(id))
				}
				op.err = rig.te.PlayersLeave(s)
			case "update":
				js := []pokertable.JoinPlayer{}
				for _, j := range op.joins {
					js = append(js, pokertable.JoinPlayer{PlayerID: pid(j.id), RedeemChips: j.chips, Seat: j.seat})
				}
				ls := []string{}
				for _, id := range op.leaves {
					ls = append(ls, pid(id))
				}
				_, op.err = rig.te.UpdateTablePlayers(js, ls)
			}
			op.done = true
		}(ops[k])
	}
	close(start)
	finished := make(chan struct{})
	go func() { wg.Wait(); close(finished) }()
	select {
	case <-finished:
	case <-time.After(20 * time.Second):
		h.line("cc anomaly C16.concurrent-membership-calls-did-not-return goroutines=%d", g)
		st.Anomalies++
		h.line("tb end")
		return h.w.String()
	}
	waitFor(300*time.Millisecond, rig.autoJoinQuiet)
	schedBarrier(4)
	time.Sleep(2 * time.Millisecond)
	st.Calls += g
	// linearise: the snapshots emitted inside the lock, in order; each step is explained by exactly one successful call
	snaps := rig.snapsFrom(preSnaps)
	used := map[*ccOp]bool{}
	prev := before
	// topUp: the bankroll changes between two snapshots are exactly one successful, unused top-up call (0 = no change at
	// all, 1 = explained and emitted, -1 = not explained)
	topUp := func(prev, s *pokertable.Table) int {
		pb := map[string]int64{}
		for _, p := range prev.State.PlayerStates {
			pb[p.PlayerID] = p.Bankroll
		}
		changed := []*pokertable.TablePlayerState{}
		for _, p := range s.State.PlayerStates {
			if b, ok := pb[p.PlayerID]; ok && p.Bankroll != b {
				changed = append(changed, p)
			}
		}
		if len(changed) == 0 {
			return 0
		}
		var top *ccOp
		if len(changed) == 1 {
			for _, op := range ops {
				if !used[op] && op.err == nil && op.rebuy && pid(op.id) == changed[0].PlayerID && changed[0].Bankroll-pb[changed[0].PlayerID] == op.chips {
					top = op
					break
				}
			}
		}
		if top == nil {
			desc := []string{}
			for _, p := range changed {
				desc = append(desc, fmt.Sprintf("%s:%d->%d", p.PlayerID, pb[p.PlayerID], p.Bankroll))
			}
			h.line("cc anomaly C16.bankroll-step-not-explained-by-one-successful-top-up changed=%s", strings.Join(desc, ","))
			st.Anomalies++
			return -1
		}
		used[top] = true
		h.line("tb reserve id=%d chips=%d seat=-1 ch=- | ok", top.id, top.chips)
		h.line("tb obs %s sm=? gate=? rel=?", tableObs(s))
		return 1
	}
	h.line("tb burst-begin")
	for _, s := range snaps {
		if playersKey(s) == playersKey(prev) {
			// no membership change: a top-up, or a notification without effect (e.g. the stale auto-join completion's PlayerJoin)
			r := topUp(prev, s)
			if r < 0 {
				break
			}
			if r > 0 {
				prev = s
			}
			continue
		}
		pm, sm := idSet(prev), idSet(s)
		came, gone := []int{}, []int{}
		for id := range sm {
			if _, ok := pm[id]; !ok {
				came = append(came, id)
			}
		}
		for id := range pm {
			if _, ok := sm[id]; !ok {
				gone = append(gone, id)
			}
		}
		sort.Ints(came)
		sort.Ints(gone)
		// D20: a batch update whose join half failed has applied its departures without any notification; such calls
		// explain players that vanished on the way to this snapshot
		emitFailedUpdates := func(goneNow []int) []int {
			rest := append([]int{}, goneNow...)
			for _, op := range ops {
				if used[op] || op.err == nil || op.kind != "update" || len(op.leaves) == 0 {
					continue
				}
				all := true
				for _, l := range op.leaves {
					found := false
					for _, gId := range rest {
						if gId == l {
							found = true
						}
					}
					if !found {
						all = false
					}
				}
				if !all {
					continue
				}
				used[op] = true
				parts := []string{}
				for _, j := range op.joins {
					parts = append(parts, fmt.Sprintf("%d:%d:%d", j.id, j.chips, j.seat))
				}
				h.line("tb update joins=%s leaves=%s ch=- | %s", strings.Join(parts, ";"), joinInts(op.leaves), tbErrName(op.err))
				nr := []int{}
				for _, gId := range rest {
					keep := true
					for _, l := range op.leaves {
						if l == gId {
							keep = false
						}
					}
					if keep {
						nr = append(nr, gId)
					}
				}
				rest = nr
			}
			return rest
		}
		var match *ccOp
		tryMatch := func(came, gone []int) *ccOp {
			for _, op := range ops {
				if used[op] || op.err != nil {
					continue
				}
				switch op.kind {
				case "reserve":
					if !op.rebuy && len(came) == 1 && came[0] == op.id && len(gone) == 0 {
						return op
					}
				case "leave":
					if len(came) == 0 && sameInts(gone, op.leaves) {
						return op
					}
				case "update":
					ids := []int{}
					for _, j := range op.joins {
						ids = append(ids, j.id)
					}
					if sameInts(came, ids) && sameInts(gone, op.leaves) {
						return op
					}
				}
			}
			return nil
		}
		match = tryMatch(came, gone)
		if match == nil {
			// which departures does a single successful call account for? the rest must come from failed updates
			for _, op := range ops {
				if used[op] || op.err != nil {
					continue
				}
				goneRest := []int{}
				for _, gId := range gone {
					mine := false
					for _, l := range op.leaves {
						if l == gId {
							mine = true
						}
					}
					if !mine {
						goneRest = append(goneRest, gId)
					}
				}
				if len(goneRest) == len(gone) && len(op.leaves) > 0 {
					continue
				}
				goneMine := []int{}
				for _, l := range op.leaves {
					goneMine = append(goneMine, l)
				}
				if tryMatch(came, goneMine) == op && len(goneRest)+len(goneMine) == len(gone) {
					left := emitFailedUpdates(goneRest)
					if len(left) == 0 {
						match = op
					}
					break
				}
			}
		}
		if match == nil && len(came) == 0 {
			// only departures, and no successful call accounts for them: failed batch updates (D20, no notification of their
			// own) followed by a notification that did not change membership — a top-up or an idle one
			if left := emitFailedUpdates(gone); len(left) == 0 {
				if topUp(prev, s) < 0 {
					break
				}
				prev = s
				continue
			}
		}
		if match == nil {
			desc := []string{}
			for _, op := range ops {
				if !used[op] {
					js := []int{}
					for _, j := range op.joins {
						js = append(js, j.id)
					}
					desc = append(desc, fmt.Sprintf("%s:id%d:j%s:l%s:%s", op.kind, op.id, joinInts(js), joinInts(op.leaves), strings.ReplaceAll(tbErrName(op.err), " ", "_")))
				}
			}
			h.line("cc anomaly C16.membership-step-not-explained-by-one-successful-call came=%s gone=%s pending=%s", joinInts(came), joinInts(gone), strings.Join(desc, "|"))
			st.Anomalies++
			break
		}
		used[match] = true
		switch match.kind {
		case "reserve":
			ch := "-"
			if match.seat == -1 {
				ch = strconv.Itoa(sm[match.id])
			}
			h.line("tb reserve id=%d chips=%d seat=%d ch=%s | ok", match.id, match.chips, match.seat, ch)
		case "leave":
			h.line("tb leave ids=%s | ok", joinInts(match.leaves))
		case "update":
			parts, ch := []string{}, []int{}
			for _, j := range match.joins {
				parts = append(parts, fmt.Sprintf("%d:%d:%d", j.id, j.chips, j.seat))
				if j.seat == -1 {
					ch = append(ch, sm[j.id])
				}
			}
			h.line("tb update joins=%s leaves=%s ch=%s | ok", strings.Join(parts, ";"), joinInts(match.leaves), joinInts(ch))
		}
		h.line("tb obs %s sm=? gate=? rel=?", tableObs(s))
		prev = s
	}
	// departures applied by failed updates after the last notification
	{
		fin0 := safeClone(rig.live())
		pm, fm := idSet(prev), idSet(fin0)
		gone := []int{}
		for id := range pm {
			if _, ok := fm[id]; !ok {
				gone = append(gone, id)
			}
		}
		sort.Ints(gone)
		if len(gone) > 0 {
			for _, op := range ops {
				if used[op] || op.err == nil || op.kind != "update" || len(op.leaves) == 0 {
					continue
				}
				ok := true
				for _, l := range op.leaves {
					f := false
					for _, gId := range gone {
						if gId == l {
							f = true
						}
					}
					ok = ok && f
				}
				if ok {
					used[op] = true
					parts := []string{}
					for _, j := range op.joins {
						parts = append(parts, fmt.Sprintf("%d:%d:%d", j.id, j.chips, j.seat))
					}
					h.line("tb update joins=%s leaves=%s ch=- | %s", strings.Join(parts, ";"), joinInts(op.leaves), tbErrName(op.err))
				}
			}
		}
	}
	// every successful call must have shown up; failures must have a membership error and nothing else happens
	for _, op := range ops {
		if op.err == nil {
			st.Succeeded++
			if !used[op] {
				h.line("cc anomaly C16.successful-call-left-no-trace kind=%s id=%d", op.kind, op.id)
				st.Anomalies++
			}
		} else {
			st.ErrKinds[tbErrName(op.err)]++
		}
	}
	// direct checks on the final state
	fin := safeClone(rig.live())
	seats := map[int]string{}
	idsSeen := map[string]bool{}
	for _, p := range fin.State.PlayerStates {
		if other, dup := seats[p.Seat]; dup {
			h.line("cc anomaly C16.one-seat-given-to-two-players seat=%d a=%s b=%s", p.Seat, other, p.PlayerID)
			st.Anomalies++
		}
		seats[p.Seat] = p.PlayerID
		if idsSeen[p.PlayerID] {
			h.line("cc anomaly C16.player-duplicated id=%s", p.PlayerID)
			st.Anomalies++
		}
		idsSeen[p.PlayerID] = true
	}
	if len(fin.State.PlayerStates) > h.maxSeat {
		h.line("cc anomaly C16.capacity-exceeded players=%d seats=%d", len(fin.State.PlayerStates), h.maxSeat)
		st.Anomalies++
	}
	// the same final state read live with the seat manager: the TB model's state after the linearised steps must equal it
	h.line("tb burst-end")
	h.obs()
	h.line("tb end")
	return h.w.String()
}

func sameInts(a, b []int) bool {
	if len(a) != len(b) {
		return false
	}
	x := append([]int{}, a...)
	y := append([]int{}, b...)
	sort.Ints(x)
	sort.Ints(y)
	for i := range x {
		if x[i] != y[i] {
			return false
		}
	}
	return true
}

// actionBurst: at a betting decision point every participant submits every kind of action at once
func actionBurst(r *rand.Rand, st *ccStats, hid int) string {
	var w strings.Builder
	line := func(format string, a ...interface{}) { fmt.Fprintf(&w, format+"\n", a...) }
	h := &hdHist{w: &strings.Builder{}, r: r, st: newHDStats(), probePct: 0, faultPct: 0}
	n := 2 + r.Intn(5)
	blind := pokertable.TableBlindState{Level: 1, Ante: 0, Dealer: 0, SB: 10, BB: 20}
	setting := pokertable.TableSetting{
		TableID: fmt.Sprintf("a%d", hid),
		Meta: pokertable.TableMeta{CompetitionID: "c", Rule: pokertable.CompetitionRule_Default, Mode: pokertable.CompetitionMode_CT, MaxDuration: 1000000,
			TableMaxSeatCount: 9, TableMinPlayerCount: 2, MinChipUnit: 10, ActionTime: 7},
		Blind: blind,
	}
	h.be = NewRecBackend()
	rig, err := NewRig(setting, h.be, 0)
	if err != nil {
		return ""
	}
	h.rig = rig
	defer rig.abandon()
	st.ActBursts++
	st.Histories++
	seats := r.Perm(9)
	total := int64(0)
	// bystanders: seats taken before anybody else's and never sat in — they stand *earlier* in the player list than every
	// participant, and get up in the middle of a burst (a departure re-packs the list under whoever is acting)
	bystanders := []int{}
	for i := 0; i < r.Intn(3) && n+i < 9; i++ {
		chips := int64(100 + r.Intn(400))
		if rig.te.PlayerReserve(pokertable.JoinPlayer{PlayerID: pid(50 + i), RedeemChips: chips, Seat: seats[n+i]}) == nil {
			total += chips
			bystanders = append(bystanders, 50+i)
		}
		time.Sleep(200 * time.Microsecond)
	}
	if r.Intn(2) == 0 {
		rig.listenerDwell = time.Millisecond // the action listener takes a moment
	}
	for i := 0; i < n; i++ {
		chips := int64(100 + r.Intn(900))
		total += chips
		rig.te.PlayerReserve(pokertable.JoinPlayer{PlayerID: pid(i + 1), RedeemChips: chips, Seat: seats[i]})
		time.Sleep(200 * time.Microsecond)
		rig.te.PlayerJoin(pid(i + 1))
		waitFor(100*time.Millisecond, rig.autoJoinQuiet)
		schedBarrier(3)
		time.Sleep(400 * time.Microsecond)
		h.ids = append(h.ids, i+1)
	}
	rig.te.StartTableGame()
	parts := map[string]int{}
	for i := 0; i < n; i++ {
		parts[pid(i+1)] = i
	}
	rig.te.SetUpTableGame(0, parts)
	time.Sleep(300 * time.Microsecond)
	for i := 0; i < n; i++ {
		rig.te.PlayerSettlementFinish(pid(i + 1))
	}
	if !waitFor(2600*time.Millisecond, func() bool {
		t := rig.live()
		return t.State.GameCount == 1 && t.State.Status == pokertable.TableStateStatus_TableGamePlaying && t.State.GameState != nil
	}) {
		return ""
	}
	line("cc new h=%d kind=actions players=%d", hid, n)
	accepted, byCurrent, bursts := 0, 0, 0
	// drive the hand; at every betting decision point: a simultaneous burst instead of a single submission
	for step := 0; step < 300; step++ {
		h.settleDown()
		h.flush()
		t := rig.live()
		if t.State.GameState == nil || t.State.GameCount != 1 {
			break
		}
		gs := cloneGS(t.State.GameState)
		if gs == nil || gs.UpdatedAt != h.written {
			continue
		}
		gameIDs := h.gameIDs()
		switch gs.Status.CurrentEvent {
		case "ReadyRequested", "AnteRequested", "BlindsRequested":
			if h.answered == gs.UpdatedAt {
				time.Sleep(300 * time.Microsecond)
				continue
			}
			h.answered = gs.UpdatedAt
			// everybody answers at the same moment
			var wg sync.WaitGroup
			for gi, p := range gs.Players {
				for _, a := range p.AllowedActions {
					if a == "ready" || a == "pay" {
						wg.Add(1)
						go func(gi int, a string) {
							defer wg.Done()
							arg := int64(0)
							if a == "pay" {
								arg = 20
							}
							h.call(actSpec{gameIDs[gi], a, arg})
						}(gi, a)
					}
				}
			}
			wg.Wait()
		case "RoundStarted":
			bursts++
			nCalls := len(h.be.Calls())
			rig.mu.Lock()
			nEv := len(rig.actions)
			rig.mu.Unlock()
			var wg sync.WaitGroup
			kinds := []string{"pass", "fold", "check", "call", "allin"}
			if r.Intn(3) != 0 {
				kinds = []string{"pass", "check", "call", "fold"} // hands go deeper without the all-ins
			}
			// every participant submits every kind, twice, at once; the backend dwells on each call
			h.be.Dwell = time.Duration(50+r.Intn(250)) * time.Microsecond
			// what the statistics say before the burst
			actsBefore := map[string]int{}
			for _, p := range t.State.PlayerStates {
				actsBefore[p.PlayerID] = p.GameStatistics.ActionTimes
			}
			if len(bystanders) > 0 && r.Intn(2) == 0 {
				who := bystanders[0]
				bystanders = bystanders[1:]
				wg.Add(1)
				go func() {
					defer wg.Done()
					time.Sleep(time.Duration(r.Intn(600)) * time.Microsecond)
					for _, p := range rig.live().State.PlayerStates {
						if p.PlayerID == pid(who) {
							total -= p.Bankroll
						}
					}
					if rig.te.PlayersLeave([]string{pid(who)}) != nil {
						total = -1 // cannot happen: a seated bystander leaves
					}
					st.ByLeaves++
				}()
			}
			for gi := range gs.Players {
				for _, k := range kinds {
					for rep := 0; rep < 2; rep++ {
						wg.Add(1)
						go func(gi int, k string) {
							defer wg.Done()
							h.call(actSpec{gameIDs[gi], k, 0})
						}(gi, k)
					}
				}
			}
			wg.Wait()
			h.be.Dwell = 0
			h.settleDown()
			// every accepted action was submitted by the player whose turn it was when the hand engine applied it
			calls := h.be.Calls()[nCalls:]
			okCalls := []backendCall{}
			for _, c := range calls {
				if c.Err == "" && (c.Kind == "fold" || c.Kind == "check" || c.Kind == "call" || c.Kind == "allin" || c.Kind == "pass") {
					okCalls = append(okCalls, c)
				}
			}
			rig.mu.Lock()
			evs := append([]pokertable.TablePlayerGameAction{}, rig.actions[nEv:]...)
			rig.mu.Unlock()
			accepted += len(evs)
			// every accepted wager action is booked on the player who made it, and on nobody else (while the hand still runs:
			// the statistics are cleared when it ends)
			if now := rig.live(); now.State.GameState != nil && now.State.GameCount == 1 && now.State.Status == pokertable.TableStateStatus_TableGamePlaying {
				made := map[string]int{}
				for _, e := range evs {
					switch e.Action {
					case "fold", "check", "call", "allin", "bet", "raise":
						made[e.PlayerID]++
					}
				}
				for _, p := range now.State.PlayerStates {
					before, known := actsBefore[p.PlayerID]
					if known && p.GameStatistics.ActionTimes-before != made[p.PlayerID] {
						line("cc anomaly C16.action-booked-on-a-player-who-did-not-make-it player=%s booked=%d made=%d", p.PlayerID, p.GameStatistics.ActionTimes-before, made[p.PlayerID])
						st.Anomalies++
					}
				}
			}
			// one action per turn: no two applied calls were made against the same hand state
			seenIn := map[int64]bool{}
			for _, c := range okCalls {
				if seenIn[c.InAt] {
					line("cc anomaly C16.two-actions-applied-against-the-same-hand-state kind=%s current=%d", c.Kind, c.InCur)
					st.Anomalies++
				}
				seenIn[c.InAt] = true
			}
			if len(evs) != len(okCalls) {
				line("cc anomaly C16.accepted-actions-and-applied-backend-calls-differ events=%d calls=%d", len(evs), len(okCalls))
				st.Anomalies++
			} else {
				for i, e := range evs {
					gi := -1
					for k, id := range gameIDs {
						if pid(id) == e.PlayerID {
							gi = k
						}
					}
					if okCalls[i].InCur == gi && okCalls[i].Kind == e.Action {
						byCurrent++
					} else {
						line("cc anomaly C16.action-accepted-from-a-player-whose-turn-it-was-not player=%s action=%s current=%d", e.PlayerID, e.Action, okCalls[i].InCur)
						st.Anomalies++
					}
				}
			}
		default:
			time.Sleep(300 * time.Microsecond)
		}
	}
	h.settleDown()
	t := rig.live()
	settled := t.State.GameState == nil && t.State.GameCount == 1
	sum := int64(0)
	for _, p := range t.State.PlayerStates {
		sum += p.Bankroll
	}
	st.ActAccepted += accepted
	ev := "-"
	if g := t.State.GameState; g != nil {
		ev = g.Status.CurrentEvent + "/" + g.Status.Round
	}
	line("cc actions bursts=%d accepted=%d by_current=%d settled=%s conserved=%s status=%s ev=%s written=%d", bursts, accepted, byCurrent, b01(settled), b01(sum == total), statusShort(t.State.Status), ev, h.written)
	line("cc end")
	return w.String()
}

// topupBurst (finding D31): PlayerRedeemChips takes no engine lock, while openGame works on a clone of the table and
// tableGameOpen replaces the table with that clone. One player is topped up one chip at a time, as fast as the calls go,
// while the gate is made to fire: every accepted top-up must be in his bankroll afterwards.
func topupBurst(r *rand.Rand, st *ccStats, hid int) string {
	var w strings.Builder
	line := func(format string, a ...interface{}) { fmt.Fprintf(&w, format+"\n", a...) }
	n := 2 + r.Intn(6)
	setting := pokertable.TableSetting{
		TableID: fmt.Sprintf("u%d", hid),
		Meta: pokertable.TableMeta{CompetitionID: "c", Rule: pokertable.CompetitionRule_Default, Mode: pokertable.CompetitionMode_CT, MaxDuration: 1000000,
			TableMaxSeatCount: 9, TableMinPlayerCount: 2, MinChipUnit: 10, ActionTime: 7},
		Blind: pokertable.TableBlindState{Level: 1, Ante: 0, Dealer: 0, SB: 10, BB: 20},
	}
	rig, err := NewRig(setting, NewRecBackend(), 0)
	if err != nil {
		return ""
	}
	defer rig.abandon()
	st.Histories++
	st.TopupBursts++
	seats := r.Perm(9)
	parts := map[string]int{}
	for i := 0; i < n; i++ {
		rig.te.PlayerReserve(pokertable.JoinPlayer{PlayerID: pid(i + 1), RedeemChips: 1000, Seat: seats[i]})
		time.Sleep(200 * time.Microsecond)
		rig.te.PlayerJoin(pid(i + 1))
		waitFor(100*time.Millisecond, rig.autoJoinQuiet)
		schedBarrier(3)
		time.Sleep(400 * time.Microsecond)
		parts[pid(i+1)] = i
	}
	rig.te.StartTableGame()
	rig.te.SetUpTableGame(0, parts)
	time.Sleep(300 * time.Microsecond)
	who := pid(1 + r.Intn(n))
	var given atomic.Int64
	stop := make(chan struct{})
	done := make(chan struct{})
	go func() {
		defer close(done)
		for {
			select {
			case <-stop:
				return
			default:
			}
			if rig.te.PlayerRedeemChips(pokertable.JoinPlayer{PlayerID: who, RedeemChips: 1}) == nil {
				given.Add(1)
			}
		}
	}()
	for i := 0; i < n; i++ {
		rig.te.PlayerSettlementFinish(pid(i + 1))
	}
	waitFor(2600*time.Millisecond, func() bool { return rig.live().State.GameCount == 1 })
	time.Sleep(3 * time.Millisecond)
	close(stop)
	<-done
	bank := int64(-1)
	for _, p := range rig.live().State.PlayerStates {
		if p.PlayerID == who {
			bank = p.Bankroll
		}
	}
	line("cc new h=%d kind=topups players=%d", hid, n)
	line("cc topups given=%d bankroll=%d opened=%s", given.Load(), bank, b01(rig.live().State.GameCount == 1))
	if bank != 1000+given.Load() {
		line("cc anomaly C01.top-up-accepted-while-a-hand-is-being-opened-is-lost lost=%d given=%d", 1000+given.Load()-bank, given.Load())
		st.Anomalies++
	}
	line("cc end")
	return w.String()
}

// openVsMembership: a membership call is queued on the engine lock behind another one when the open-game gate fires, so
// that the hand is opened with calls waiting in front of it and behind it. Whatever the order in which they get the lock,
// the outcome is that of a one-at-a-time order: a reservation that returned nil is on the table afterwards (and only
// once), a departure that returned nil is not, and table and seat manager agree on who sits where.
// The listener of the first call (notified with the engine lock held) starts the second call, lets it queue, makes the
// gate fire, and only then returns.
func openVsMembership(r *rand.Rand, st *ccStats, hid int) string {
	var w strings.Builder
	line := func(format string, a ...interface{}) { fmt.Fprintf(&w, format+"\n", a...) }
	n := 2 + r.Intn(3)
	setting := pokertable.TableSetting{
		TableID: fmt.Sprintf("v%d", hid),
		Meta: pokertable.TableMeta{CompetitionID: "c", Rule: pokertable.CompetitionRule_Default, Mode: pokertable.CompetitionMode_CT, MaxDuration: 1000000,
			TableMaxSeatCount: 9, TableMinPlayerCount: 2, MinChipUnit: 10, ActionTime: 7},
		Blind: pokertable.TableBlindState{Level: 1, Ante: 0, Dealer: 0, SB: 10, BB: 20},
	}
	rig, err := NewRig(setting, NewRecBackend(), 0)
	if err != nil {
		return ""
	}
	defer rig.abandon()
	st.Histories++
	st.OpenVsMembership++
	seats := r.Perm(9)
	parts := map[string]int{}
	for i := 0; i < n; i++ {
		rig.te.PlayerReserve(pokertable.JoinPlayer{PlayerID: pid(i + 1), RedeemChips: 1000, Seat: seats[i]})
		time.Sleep(200 * time.Microsecond)
		rig.te.PlayerJoin(pid(i + 1))
		waitFor(100*time.Millisecond, rig.autoJoinQuiet)
		schedBarrier(3)
		time.Sleep(400 * time.Microsecond)
		parts[pid(i+1)] = i
	}
	rig.te.StartTableGame()
	rig.te.SetUpTableGame(0, parts)
	time.Sleep(300 * time.Microsecond)
	first, second := n+1, n+2
	secondLeaves := r.Intn(2) == 0 // the queued call is the first caller's departure, or a further arrival
	var secondErr error
	secondDone := make(chan struct{})
	fired := false
	rig.mu.Lock()
	rig.snapHook = func(t *pokertable.Table) string {
		if fired {
			return ""
		}
		fired = true
		go func() {
			defer close(secondDone)
			if secondLeaves {
				secondErr = rig.te.PlayersLeave([]string{pid(first)})
			} else {
				secondErr = rig.te.PlayerReserve(pokertable.JoinPlayer{PlayerID: pid(second), RedeemChips: 700, Seat: seats[n+1]})
			}
		}()
		time.Sleep(time.Duration(60+r.Intn(120)) * time.Millisecond) // the second call queues on the lock
		for i := 0; i < n; i++ {
			rig.te.PlayerSettlementFinish(pid(i + 1))
		}
		time.Sleep(time.Duration(200+r.Intn(250)) * time.Millisecond) // the gate fires and the open queues as well
		return ""
	}
	rig.mu.Unlock()
	firstErr := rig.te.PlayerReserve(pokertable.JoinPlayer{PlayerID: pid(first), RedeemChips: 900, Seat: seats[n]})
	rig.mu.Lock()
	rig.snapHook = nil
	rig.mu.Unlock()
	select {
	case <-secondDone:
	case <-time.After(5 * time.Second):
		line("cc new h=%d kind=open-vs-membership players=%d", hid, n)
		line("cc anomaly C16.concurrent-membership-calls-did-not-return")
		st.Anomalies++
		line("cc end")
		return w.String()
	}
	opened := waitFor(3*time.Second, func() bool { return rig.live().State.GameCount == 1 })
	time.Sleep(5 * time.Millisecond)
	line("cc new h=%d kind=open-vs-membership players=%d", hid, n)
	what := "reserve"
	if secondLeaves {
		what = "leave"
	}
	line("cc openvs first=%s second=%s:%s opened=%s", tbErrName(firstErr), what, strings.ReplaceAll(tbErrName(secondErr), " ", "_"), b01(opened))
	if opened && firstErr == nil {
		t := safeClone(rig.live())
		listed := func(id int) int {
			c := 0
			for _, p := range t.State.PlayerStates {
				if p.PlayerID == pid(id) {
					c++
				}
			}
			return c
		}
		bad := []string{}
		if secondErr == nil {
			if secondLeaves && listed(first) != 0 {
				bad = append(bad, "C16.successful-call-left-no-trace")
			}
			if !secondLeaves && listed(second) != 1 {
				bad = append(bad, "C16.successful-call-left-no-trace")
			}
			if !secondLeaves && listed(first) != 1 {
				bad = append(bad, "C16.successful-call-left-no-trace")
			}
		}
		// table and seat manager agree on who sits where
		smSeats := rig.hk.SeatManager().Seats()
		for seat := 0; seat < 9; seat++ {
			onTable := ""
			if idx := t.State.SeatMap[seat]; idx >= 0 && idx < len(t.State.PlayerStates) {
				onTable = t.State.PlayerStates[idx].PlayerID
			}
			inSM := ""
			if sp := smSeats[seat]; sp != nil {
				inSM = sp.ID
			}
			if onTable != inSM {
				bad = append(bad, "C16.table-and-seat-manager-disagree-after-concurrent-calls")
				break
			}
		}
		for _, b := range bad {
			line("cc anomaly %s table=%s sm=%s", b, strings.ReplaceAll(tableObs(t), " ", "/"), smObsOf(rig.hk.SeatManager(), 9))
			st.Anomalies++
		}
	}
	line("cc end")
	return w.String()
}

// windowSM is a pass-through seat manager (installed with the verif hook WrapSeatManager): the harness learns that the
// engine is at a given seat-manager call of openGame, i.e. after the table was cloned and before the clone replaces it,
// and makes a call that takes no engine lock at exactly that point.
type windowSM struct {
	seat_manager.SeatManager
	mu    sync.Mutex
	armed bool
	count int
	at    int    // the call (counted from arming) before which the action runs
	where string // the method that was about to be called
	act   func()
}

func (w *windowSM) hit(method string) {
	w.mu.Lock()
	if !w.armed {
		w.mu.Unlock()
		return
	}
	w.count++
	if w.count != w.at {
		w.mu.Unlock()
		return
	}
	w.armed = false
	w.where = method
	f := w.act
	w.mu.Unlock()
	f()
}
func (w *windowSM) IsInitPositions() bool {
	w.hit("IsInitPositions")
	return w.SeatManager.IsInitPositions()
}
func (w *windowSM) InitPositions(isRandom bool) error {
	w.hit("InitPositions")
	return w.SeatManager.InitPositions(isRandom)
}
func (w *windowSM) RotatePositions() error {
	w.hit("RotatePositions")
	return w.SeatManager.RotatePositions()
}
func (w *windowSM) IsPlayerActive(id string) (bool, error) {
	w.hit("IsPlayerActive")
	return w.SeatManager.IsPlayerActive(id)
}
func (w *windowSM) CurrentDealerSeatID() int {
	w.hit("CurrentDealerSeatID")
	return w.SeatManager.CurrentDealerSeatID()
}
func (w *windowSM) CurrentSBSeatID() int {
	w.hit("CurrentSBSeatID")
	return w.SeatManager.CurrentSBSeatID()
}
func (w *windowSM) CurrentBBSeatID() int {
	w.hit("CurrentBBSeatID")
	return w.SeatManager.CurrentBBSeatID()
}
func (w *windowSM) UpdatePlayerHasChips(id string, has bool) error {
	w.hit("UpdatePlayerHasChips")
	return w.SeatManager.UpdatePlayerHasChips(id, has)
}
func (w *windowSM) Seats() map[int]*seat_manager.SeatPlayer {
	w.hit("Seats")
	return w.SeatManager.Seats()
}

// addonWindowCase: PlayerRedeemChips takes no engine lock and talks to the seat manager in the middle; a second top-up of
// the same player (a re-buy through PlayerReserve, or another add-on) is made at exactly that point. Both return nil:
// both amounts are in the bankroll afterwards.
func addonWindowCase(r *rand.Rand, st *ccStats, hid int) string {
	var w strings.Builder
	line := func(format string, a ...interface{}) { fmt.Fprintf(&w, format+"\n", a...) }
	n := 2 + r.Intn(4)
	setting := pokertable.TableSetting{
		TableID: fmt.Sprintf("a%d", hid),
		Meta: pokertable.TableMeta{CompetitionID: "c", Rule: pokertable.CompetitionRule_Default, Mode: pokertable.CompetitionMode_CT, MaxDuration: 1000000,
			TableMaxSeatCount: 9, TableMinPlayerCount: 2, MinChipUnit: 10, ActionTime: 7},
		Blind: pokertable.TableBlindState{Level: 1, Ante: 0, Dealer: 0, SB: 10, BB: 20},
	}
	for i := 0; i < n; i++ {
		setting.JoinPlayers = append(setting.JoinPlayers, pokertable.JoinPlayer{PlayerID: pid(i + 1), RedeemChips: 1000, Seat: i})
	}
	rig, err := NewRig(setting, NewRecBackend(), 0)
	if err != nil {
		return ""
	}
	defer rig.abandon()
	st.Histories++
	st.Windows++
	who := 1 + r.Intn(n)
	c1 := int64(10 * (1 + r.Intn(50)))
	c2 := int64(10 * (1 + r.Intn(50)))
	second := []string{"rebuy", "addon"}[r.Intn(2)]
	var secondErr error
	wsm := &windowSM{at: 1}
	wsm.act = func() {
		if second == "rebuy" {
			secondErr = rig.te.PlayerReserve(pokertable.JoinPlayer{PlayerID: pid(who), RedeemChips: c2, Seat: -1})
		} else {
			secondErr = rig.te.PlayerRedeemChips(pokertable.JoinPlayer{PlayerID: pid(who), RedeemChips: c2})
		}
	}
	rig.hk.WrapSeatManager(func(inner seat_manager.SeatManager) seat_manager.SeatManager {
		wsm.SeatManager = inner
		return wsm
	})
	wsm.mu.Lock()
	wsm.armed = true
	wsm.mu.Unlock()
	firstErr := rig.te.PlayerRedeemChips(pokertable.JoinPlayer{PlayerID: pid(who), RedeemChips: c1})
	wsm.mu.Lock()
	wsm.armed = false
	where := wsm.where
	wsm.mu.Unlock()
	bank := int64(-1)
	for _, p := range rig.live().State.PlayerStates {
		if p.PlayerID == pid(who) {
			bank = p.Bankroll
		}
	}
	line("cc new h=%d kind=addon-window players=%d", hid, n)
	line("cc addonwindow first=%s:%d second=%s:%d:%s at=%s bankroll=%d", strings.ReplaceAll(tbErrName(firstErr), " ", "_"), c1, second, c2,
		strings.ReplaceAll(tbErrName(secondErr), " ", "_"), where, bank)
	if where != "" {
		st.WindowsHit++
		want := int64(1000)
		if firstErr == nil {
			want += c1
		}
		if secondErr == nil {
			want += c2
		}
		if bank != want {
			line("cc anomaly C01.chips-brought-in-by-overlapping-top-ups-are-missing want=%d bankroll=%d", want, bank)
			st.Anomalies++
		}
	}
	line("cc end")
	return w.String()
}

// windowCase: a call that takes no engine lock (a reserved player sits in, a top-up, a blind update) is made at a chosen
// seat-manager call inside openGame. Whatever the moment, the hand that opens deals in exactly the players its list names
// with the stacks they had, and a call that was accepted is not forgotten (the last is finding D31 in the unchanged code).
func windowCase(r *rand.Rand, st *ccStats, hid int) string {
	var w strings.Builder
	line := func(format string, a ...interface{}) { fmt.Fprintf(&w, format+"\n", a...) }
	n := 2 + r.Intn(4)
	setting := pokertable.TableSetting{
		TableID: fmt.Sprintf("w%d", hid),
		Meta: pokertable.TableMeta{CompetitionID: "c", Rule: pokertable.CompetitionRule_Default, Mode: pokertable.CompetitionMode_CT, MaxDuration: 1000000,
			TableMaxSeatCount: 9, TableMinPlayerCount: 2, MinChipUnit: 10, ActionTime: 7},
		Blind: pokertable.TableBlindState{Level: 1, Ante: 0, Dealer: 0, SB: 10, BB: 20},
	}
	rig, err := NewRig(setting, NewRecBackend(), 0)
	if err != nil {
		return ""
	}
	defer rig.abandon()
	st.Histories++
	st.Windows++
	seats := r.Perm(9)
	parts := map[string]int{}
	for i := 0; i < n; i++ {
		rig.te.PlayerReserve(pokertable.JoinPlayer{PlayerID: pid(i + 1), RedeemChips: 1000, Seat: seats[i]})
		time.Sleep(200 * time.Microsecond)
		rig.te.PlayerJoin(pid(i + 1))
		waitFor(100*time.Millisecond, rig.autoJoinQuiet)
		schedBarrier(3)
		time.Sleep(400 * time.Microsecond)
		parts[pid(i+1)] = i
	}
	// one more has a seat but has not sat in yet
	late := n + 1
	rig.te.PlayerReserve(pokertable.JoinPlayer{PlayerID: pid(late), RedeemChips: 800, Seat: seats[n]})
	time.Sleep(300 * time.Microsecond)
	op := []string{"join", "redeem", "blind"}[r.Intn(3)]
	var opErr error
	who := 1 + r.Intn(n)
	chips := int64(10 * (1 + r.Intn(50)))
	wsm := &windowSM{at: 1 + r.Intn(n+9)}
	wsm.act = func() {
		switch op {
		case "join":
			opErr = rig.te.PlayerJoin(pid(late))
		case "redeem":
			opErr = rig.te.PlayerRedeemChips(pokertable.JoinPlayer{PlayerID: pid(who), RedeemChips: chips})
		case "blind":
			rig.te.UpdateBlind(2, 0, 0, 20, 40)
		}
	}
	rig.hk.WrapSeatManager(func(inner seat_manager.SeatManager) seat_manager.SeatManager {
		wsm.SeatManager = inner
		return wsm
	})
	rig.te.StartTableGame()
	rig.te.SetUpTableGame(0, parts)
	time.Sleep(300 * time.Microsecond)
	pre := rig.snapCount()
	wsm.mu.Lock()
	wsm.armed = true
	wsm.mu.Unlock()
	for i := 0; i < n; i++ {
		rig.te.PlayerSettlementFinish(pid(i + 1))
	}
	opened := waitFor(2600*time.Millisecond, func() bool {
		t := rig.live()
		return t.State.GameCount == 1 && t.State.GameState != nil
	})
	time.Sleep(2 * time.Millisecond)
	wsm.mu.Lock()
	wsm.armed = false
	where, cnt := wsm.where, wsm.count
	wsm.mu.Unlock()
	line("cc new h=%d kind=window players=%d", hid, n)
	line("cc window op=%s at=%d:%s calls=%d opened=%s res=%s", op, wsm.at, where, cnt, b01(opened), strings.ReplaceAll(tbErrName(opErr), " ", "_"))
	if !opened || where == "" {
		line("cc end")
		return w.String()
	}
	st.WindowsHit++
	var o *pokertable.Table
	for _, sn := range rig.snapsFrom(pre) {
		if sn.State.Status == pokertable.TableStateStatus_TableGameOpened && sn.State.GameCount == 1 {
			o = sn
			break
		}
	}
	live := safeClone(rig.live())
	bad := []string{}
	if o != nil && live != nil {
		// the hand's list is the dealt-in set, each once
		seen := map[int]bool{}
		okList := true
		for _, pi := range o.State.GamePlayerIndexes {
			if pi < 0 || pi >= len(o.State.PlayerStates) || seen[pi] || !o.State.PlayerStates[pi].IsParticipated {
				okList = false
				break
			}
			seen[pi] = true
		}
		for pi, p := range o.State.PlayerStates {
			if p.IsParticipated && !seen[pi] {
				okList = false
			}
		}
		if !okList {
			bad = append(bad, "C02.hand-list-is-not-the-dealt-in-set")
		}
		if gs := live.State.GameState; gs != nil && okList {
			if len(gs.Players) != len(o.State.GamePlayerIndexes) {
				bad = append(bad, "C02.hand-list-is-not-the-dealt-in-set")
			} else {
				for i, pi := range o.State.GamePlayerIndexes {
					if gs.Players[i].Bankroll != o.State.PlayerStates[pi].Bankroll {
						bad = append(bad, "C02.hand-stack-differs-from-bankroll-at-open")
						break
					}
				}
			}
		}
		switch op {
		case "redeem":
			if opErr == nil {
				for _, p := range live.State.PlayerStates {
					if p.PlayerID == pid(who) && p.Bankroll != 1000+chips && !p.IsParticipated {
						bad = append(bad, "C01.top-up-accepted-while-a-hand-is-being-opened-is-lost")
					}
					if p.PlayerID == pid(who) && p.IsParticipated {
						// dealt in: the blinds may have been posted already; what he brought in is bankroll + nothing the table knows of yet
						if gs := live.State.GameState; gs != nil {
							gi := -1
							for k, pi := range live.State.GamePlayerIndexes {
								if pi >= 0 && pi < len(live.State.PlayerStates) && live.State.PlayerStates[pi].PlayerID == pid(who) {
									gi = k
								}
							}
							if gi >= 0 && gi < len(gs.Players) && p.Bankroll != 1000+chips {
								bad = append(bad, "C01.top-up-accepted-while-a-hand-is-being-opened-is-lost")
							}
						}
					}
				}
			}
		case "blind":
			if b := live.State.BlindState; b == nil || b.Level != 2 || b.SB != 20 || b.BB != 40 {
				bad = append(bad, "C12.blind-update-made-while-a-hand-is-being-opened-is-lost")
			}
			// the hand itself is played at one level, the one published for it
			if gb, gs := live.State.GameBlindState, live.State.GameState; gb != nil && gs != nil {
				if gs.Meta.Blind.SB != gb.SB || gs.Meta.Blind.BB != gb.BB || gs.Meta.Ante != gb.Ante {
					bad = append(bad, "C12.hand-options-differ-from-published-hand-blinds")
				}
			}
		case "join":
			if opErr == nil {
				for _, p := range live.State.PlayerStates {
					if p.PlayerID == pid(late) && !p.IsIn {
						bad = append(bad, "C03.join-accepted-while-a-hand-is-being-opened-is-lost")
					}
				}
			}
		}
	}
	for _, b := range bad {
		line("cc anomaly %s op=%s at=%d:%s opened=%s live=%s", b, op, wsm.at, where, strings.ReplaceAll(tableObs(o), " ", "/"), strings.ReplaceAll(tableObs(live), " ", "/"))
		st.Anomalies++
	}
	line("cc end")
	return w.String()
}

// smBurst: concurrent seat-manager mutators on a bare seat manager
func smBurst(r *rand.Rand, st *ccStats, hid int) string {
	var w strings.Builder
	line := func(format string, a ...interface{}) { fmt.Fprintf(&w, format+"\n", a...) }
	maxSeat := 2 + r.Intn(9)
	sm := seat_manager.NewSeatManager(maxSeat, seat_manager.Rule_Default)
	st.SMBursts++
	st.Histories++
	g := 2 + r.Intn(30)
	type res struct {
		ids []int
		err error
	}
	out := make([]res, g)
	var wg sync.WaitGroup
	start := make(chan struct{})
	next := 0
	for k := 0; k < g; k++ {
		ids := []int{}
		for i := 0; i < 1+r.Intn(2); i++ {
			next++
			ids = append(ids, next)
		}
		fixed := r.Intn(2) == 0
		seat := r.Intn(maxSeat)
		out[k].ids = ids
		wg.Add(1)
		go func(k int, ids []int, fixed bool, seat int) {
			defer wg.Done()
			<-start
			if fixed {
				m := map[string]int{}
				for i, id := range ids {
					m[pid(id)] = (seat + i) % maxSeat
				}
				out[k].err = sm.AssignSeats(m)
			} else {
				s := []string{}
				for _, id := range ids {
					s = append(s, pid(id))
				}
				out[k].err = sm.RandomAssignSeats(s)
			}
		}(k, ids, fixed, seat)
	}
	close(start)
	wg.Wait()
	seen := map[string]int{}
	occupied := 0
	for s, sp := range sm.Seats() {
		if sp == nil {
			continue
		}
		occupied++
		if prev, dup := seen[sp.ID]; dup {
			line("cc anomaly C16.seat-manager-double-booked player=%s seats=%d,%d", sp.ID, prev, s)
			st.Anomalies++
		}
		seen[sp.ID] = s
	}
	want := 0
	for _, o := range out {
		if o.err == nil {
			want += len(o.ids)
			for _, id := range o.ids {
				if _, ok := seen[pid(id)]; !ok {
					line("cc anomaly C16.seat-manager-lost-an-assigned-player player=%d", id)
					st.Anomalies++
				}
			}
		} else {
			for _, id := range o.ids {
				if _, ok := seen[pid(id)]; ok {
					line("cc anomaly C16.seat-manager-failed-assignment-left-a-player player=%d", id)
					st.Anomalies++
				}
			}
		}
	}
	if occupied != want || occupied > maxSeat {
		line("cc anomaly C16.seat-manager-occupancy-differs-from-successful-assignments occupied=%d want=%d seats=%d", occupied, want, maxSeat)
		st.Anomalies++
	}
	line("cc sm h=%d seats=%d goroutines=%d occupied=%d", hid, maxSeat, g, occupied)
	return w.String()
}

func runConcChild(args []string) {
	fs := flag.NewFlagSet("concchild", flag.ExitOnError)
	seed := fs.Int64("seed", 1, "PRNG seed")
	n := fs.Int("n", 20, "membership bursts")
	na := fs.Int("actions", 4, "action bursts")
	ns := fs.Int("sm", 20, "seat-manager bursts")
	nt := fs.Int("topups", 0, "top-up bursts racing an open")
	nov := fs.Int("openvs", 0, "membership calls queued on the engine lock around an open")
	nw := fs.Int("windows", 0, "lock-free calls placed at a chosen seat-manager call inside an open")
	base := fs.Int("base", 0, "first history id")
	out := fs.String("out", "cc.trace", "trace file")
	statsFile := fs.String("stats", "", "stats json")
	fs.Parse(args)
	devnull, _ := os.OpenFile(os.DevNull, os.O_WRONLY, 0)
	os.Stdout = devnull
	f, err := os.Create(*out)
	if err != nil {
		os.Exit(2)
	}
	defer f.Close()
	st := &ccStats{ErrKinds: map[string]int{}, Goroutines: map[string]int{}}
	r := rand.New(rand.NewSource(*seed))
	hid := *base
	write := func(s string) {
		f.WriteString(s)
		f.Sync()
		if len(st.Samples) < 1 && len(s) > 0 && len(s) < 8000 {
			st.Samples = append(st.Samples, s)
		}
	}
	for i := 0; i < *n; i++ {
		hid++
		write(membershipBurst(r, st, hid))
	}
	for i := 0; i < *ns; i++ {
		hid++
		write(smBurst(r, st, hid))
	}
	for i := 0; i < *na; i++ {
		hid++
		write(actionBurst(r, st, hid))
	}
	for i := 0; i < *nt; i++ {
		hid++
		write(topupBurst(r, st, hid))
	}
	for i := 0; i < *nov; i++ {
		hid++
		write(openVsMembership(r, st, hid))
	}
	for i := 0; i < *nw; i++ {
		hid++
		if i%4 == 3 {
			write(addonWindowCase(r, st, hid))
		} else {
			write(windowCase(r, st, hid))
		}
	}
	if *statsFile != "" {
		b, _ := json.Marshal(st)
		os.WriteFile(*statsFile, b, 0644)
	}
}

func runConc(args []string) {
	fs := flag.NewFlagSet("conc", flag.ExitOnError)
	seed := fs.Int64("seed", 1, "PRNG seed")
	n := fs.Int("n", 120, "membership bursts")
	na := fs.Int("actions", 12, "action bursts")
	ns := fs.Int("sm", 200, "seat-manager bursts")
	nt := fs.Int("topups", 0, "top-up bursts racing an open")
	nov := fs.Int("openvs", 0, "membership calls queued on the engine lock around an open")
	nw := fs.Int("windows", 0, "lock-free calls placed at a chosen seat-manager call inside an open")
	out := fs.String("out", "cc.trace", "trace file")
	statsFile := fs.String("stats", "", "stats json")
	workers := fs.Int("workers", 6, "child processes")
	fs.Parse(args)
	f, err := os.Create(*out)
	if err != nil {
		fmt.Fprintln(os.Stderr, err)
		os.Exit(2)
	}
	w := bufio.NewWriter(f)
	st := &ccStats{ErrKinds: map[string]int{}, Goroutines: map[string]int{}}
	var mu sync.Mutex
	var wg sync.WaitGroup
	seen := map[uint64]bool{}
	for wk := 0; wk < *workers; wk++ {
		wg.Add(1)
		go func(wk int) {
			defer wg.Done()
			tmp := fmt.Sprintf("%s.%d", *out, wk)
			stf := tmp + ".json"
			cmd := exec.Command(os.Args[0], "concchild", "-seed", strconv.FormatInt(*seed*100+int64(wk), 10), "-n", strconv.Itoa((*n+*workers-1) / *workers),
				"-actions", strconv.Itoa((*na+*workers-1) / *workers), "-sm", strconv.Itoa((*ns+*workers-1) / *workers), "-topups", strconv.Itoa((*nt+*workers-1) / *workers), "-openvs", strconv.Itoa((*nov+*workers-1) / *workers), "-windows", strconv.Itoa((*nw+*workers-1) / *workers), "-base", strconv.Itoa(wk*100000), "-out", tmp, "-stats", stf)
			var errb strings.Builder
			cmd.Stderr = &errb
			cmd.Env = append(os.Environ(), "GOMEMLIMIT=2GiB")
			runErr := cmd.Run()
			mu.Lock()
			defer mu.Unlock()
			if b, e := os.ReadFile(tmp); e == nil {
				w.Write(b)
				for _, blk := range strings.Split(string(b), "\ntb end\n") {
					seen[fnv64(stripHistID(blk))] = true
				}
			}
			if runErr != nil {
				first := strings.SplitN(errb.String(), "\n", 2)[0]
				fmt.Fprintf(w, "cc anomaly C16.process-crashed-during-concurrent-calls detail=%s\n", strings.ReplaceAll(first, " ", "_"))
				st.Crashes++
				st.Anomalies++
			}
			if b, e := os.ReadFile(stf); e == nil {
				var sub ccStats
				if json.Unmarshal(b, &sub) == nil {
					st.Bursts += sub.Bursts
					st.Calls += sub.Calls
					st.Succeeded += sub.Succeeded
					st.ActBursts += sub.ActBursts
					st.ActAccepted += sub.ActAccepted
					st.SMBursts += sub.SMBursts
					st.Anomalies += sub.Anomalies
					st.ByLeaves += sub.ByLeaves
					st.TopupBursts += sub.TopupBursts
					st.OpenVsMembership += sub.OpenVsMembership
					st.Windows += sub.Windows
					st.WindowsHit += sub.WindowsHit
					st.Histories += sub.Histories
					for k, v := range sub.ErrKinds {
						st.ErrKinds[k] += v
					}
					for k, v := range sub.Goroutines {
						st.Goroutines[k] += v
					}
					if len(st.Samples) < 2 {
						st.Samples = append(st.Samples, sub.Samples...)
					}
				}
			}
			os.Remove(tmp)
			os.Remove(stf)
		}(wk)
	}
	wg.Wait()
	w.Flush()
	f.Close()
	st.Distinct = len(seen)
	if *statsFile != "" {
		b, _ := json.MarshalIndent(st, "", " ")
		os.WriteFile(*statsFile, b, 0644)
	}
}
