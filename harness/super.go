package main

// Process supervision for the modes that drive the real engine (table, hand): the histories are generated in child
// processes, one table at a time per child, because a panic in one of the engine's own goroutines cannot be recovered
// and would otherwise take the whole run — and every history already produced — with it. Every history has its own
// PRNG stream (seed, history number), so a history that crashed its child is re-run alone with its lines streamed to
// disk; if it crashes again, the streamed prefix plus a `<layer> crash` line is the history's entry in the trace (the
// driver reports it as monitor class CRASH.engine-panic: a concrete history on which the engine panics).

import (
	"bytes"
	"fmt"
	"os"
	"os/exec"
	"path/filepath"
	"sort"
	"strconv"
	"strings"
	"sync"
)

// streamTo: when set (single-history child), every trace line is also appended to this file at once
var streamTo *os.File

func streamLine(s string) {
	if streamTo != nil {
		streamTo.WriteString(s)
	}
}

type histRec struct {
	hid   int
	text  string
	stats []byte
}

// parsePart splits a child's part file into finished histories (each followed by its `#stats` line)
func parsePart(path string) []histRec {
	b, err := os.ReadFile(path)
	if err != nil {
		return nil
	}
	recs := []histRec{}
	var cur strings.Builder
	for _, ln := range strings.SplitAfter(string(b), "\n") {
		if strings.HasPrefix(ln, "#stats ") {
			f := strings.SplitN(strings.TrimSpace(ln), " ", 3)
			if len(f) == 3 {
				hid, _ := strconv.Atoi(f[1])
				recs = append(recs, histRec{hid: hid, text: cur.String(), stats: []byte(f[2])})
			}
			cur.Reset()
			continue
		}
		cur.WriteString(ln)
	}
	return recs
}

// harnessRace: the child died of Go's "concurrent map iteration and map write" with the harness's own reader on the stack
func harnessRace(stderr string) bool {
	if !strings.Contains(stderr, "fatal error: concurrent map") {
		return false
	}
	i := strings.Index(stderr, "[running]")
	if i < 0 {
		return false
	}
	rest := stderr[i:]
	if j := strings.Index(rest, "\n\n"); j > 0 {
		rest = rest[:j]
	}
	return strings.Contains(rest, "main.(*Rig).gateState") || strings.Contains(rest, "main.(*Rig).gateObs")
}

func panicHead(stderr string) string {
	for _, ln := range strings.Split(stderr, "\n") {
		if strings.HasPrefix(ln, "panic:") || strings.HasPrefix(ln, "fatal error:") {
			return strings.ReplaceAll(strings.TrimSpace(ln), " ", "_")
		}
	}
	return "child-exited-abnormally"
}

// superviseRun runs `harness <mode> -child …` over the histories [0,n) and returns them in order
func superviseRun(mode, layer string, pass []string, n, workers int, out string) (recs []histRec, crashes int, unattributed int) {
	return superviseRunRange(mode, layer, pass, 0, n, workers, out)
}

// superviseRunRange: the histories [lo,hi)
func superviseRunRange(mode, layer string, pass []string, lo, hi, workers int, out string) (recs []histRec, crashes int, unattributed int) {
	n := hi - lo
	exe, _ := os.Executable()
	parts := out + ".parts"
	os.RemoveAll(parts)
	os.MkdirAll(parts, 0755)
	defer os.RemoveAll(parts)
	if workers < 1 {
		workers = 1
	}
	per := (n + workers - 1) / workers
	var mu sync.Mutex
	var wg sync.WaitGroup
	runChild := func(from, to int, part string, stream string) (string, error) {
		args := append([]string{mode, "-child", "-from", strconv.Itoa(from), "-to", strconv.Itoa(to), "-out", part}, pass...)
		if stream != "" {
			args = append(args, "-stream", stream)
		}
		cmd := exec.Command(exe, args...)
		var eb bytes.Buffer
		cmd.Stderr = &eb
		err := cmd.Run()
		s := eb.String()
		if len(s) > 6000 {
			s = s[:6000]
		}
		return s, err
	}
	for k := 0; k < workers; k++ {
		a, b := lo+k*per, lo+(k+1)*per
		if b > hi {
			b = hi
		}
		if a >= b {
			continue
		}
		wg.Add(1)
		go func(k, a, b int) {
			defer wg.Done()
			from := a
			for from < b {
				part := filepath.Join(parts, fmt.Sprintf("p%d-%d.trace", k, from))
				stderr1, err := runChild(from, b, part, "")
				got := parsePart(part)
				mu.Lock()
				recs = append(recs, got...)
				mu.Unlock()
				if err == nil {
					break
				}
				// the child died: one table at a time, so the history in flight is the first one missing
				hid := from + len(got)
				if hid >= b {
					break
				}
				single := filepath.Join(parts, fmt.Sprintf("s%d.trace", hid))
				stream := filepath.Join(parts, fmt.Sprintf("s%d.stream", hid))
				if harnessRace(stderr1) {
					// the harness itself read the engine's unlocked open-game state while the engine wrote it (Go aborts on a
					// concurrent map iteration and write): not an engine panic; the history in flight is dropped
					mu.Lock()
					recs = append(recs, histRec{hid: hid, text: fmt.Sprintf("%s new seats=2 min=2 rule=default mode=ct blind=1,0,0,10,20 h=%d\n%s abort harness-read-raced-with-the-engine\n%s end\n", layer, hid, layer, layer)})
					mu.Unlock()
					from = hid + 1
					continue
				}
				stderr2, err2 := runChild(hid, hid+1, single, stream)
				if err2 == nil {
					got2 := parsePart(single)
					mu.Lock()
					recs = append(recs, got2...)
					unattributed++
					mu.Unlock()
					// the history in flight did not panic when run alone: keep the first dump, say which history it was
					os.WriteFile(fmt.Sprintf("%s.crash-unattributed-h%d.txt", out, hid), []byte(stderr1), 0644)
				} else {
					sb, _ := os.ReadFile(stream)
					text := string(sb)
					if !strings.HasSuffix(text, "\n") && text != "" {
						text += "\n"
					}
					text += fmt.Sprintf("%s crash h=%d | %s\n%s end\n", layer, hid, panicHead(stderr2), layer)
					os.WriteFile(fmt.Sprintf("%s.crash-h%d.txt", out, hid), []byte(stderr2), 0644)
					mu.Lock()
					recs = append(recs, histRec{hid: hid, text: text})
					crashes++
					mu.Unlock()
				}
				from = hid + 1
			}
		}(k, a, b)
	}
	wg.Wait()
	sort.Slice(recs, func(i, j int) bool { return recs[i].hid < recs[j].hid })
	return recs, crashes, unattributed
}

// panicSite: the first frame below the panic machinery in a stack trace taken inside a deferred recover — "function (file:line)"
func panicSite(stack string) string {
	lines := strings.Split(stack, "\n")
	seenPanic := false
	for i := 0; i+1 < len(lines); i++ {
		l := lines[i]
		if strings.HasPrefix(l, "panic(") || strings.HasPrefix(l, "runtime.gopanic") {
			seenPanic = true
			continue
		}
		if !seenPanic || strings.HasPrefix(l, "\t") || strings.HasPrefix(l, "runtime.") {
			continue
		}
		fn := l
		if k := strings.LastIndex(fn, "("); k > 0 {
			fn = fn[:k]
		}
		loc := strings.TrimSpace(lines[i+1])
		if k := strings.Index(loc, " +0x"); k > 0 {
			loc = loc[:k]
		}
		if k := strings.LastIndex(loc, "/"); k >= 0 {
			loc = loc[k+1:]
		}
		return fn + " (" + loc + ")"
	}
	return "?"
}
