package main

import (
	"bufio"
	"encoding/json"
	"errors"
	"flag"
	"fmt"
	"math/rand"
	"os"
	"sort"
	"strconv"
	"strings"
	"sync"

	"github.com/weedbox/pokertable/seat_manager"
)

// ---------------------------------------------------------------------------------------------
// seat-manager differential harness: drives the real seat_manager through random / enumerated
// histories and writes one trace line per operation plus the observed state after it.
// ---------------------------------------------------------------------------------------------

func pid(n int) string { return "p" + strconv.Itoa(n) }

func smErrName(err error) string {
	switch {
	case err == nil:
		return "ok"
	case errors.Is(err, seat_manager.ErrNotEnoughSeats):
		return "err notEnoughSeats"
	case errors.Is(err, seat_manager.ErrPlayerNotFound):
		return "err playerNotFound"
	case errors.Is(err, seat_manager.ErrUnavailableSeat):
		return "err unavailableSeat"
	case errors.Is(err, seat_manager.ErrDuplicatePlayers):
		return "err dupPlayers"
	case errors.Is(err, seat_manager.ErrDuplicateSeats):
		return "err dupSeats"
	case errors.Is(err, seat_manager.ErrSeatAlreadyIsTaken):
		return "err seatTaken"
	case errors.Is(err, seat_manager.ErrUnableToInitPositions):
		return "err unableInit"
	case errors.Is(err, seat_manager.ErrAlreadyInitPositions):
		return "err alreadyInit"
	case errors.Is(err, seat_manager.ErrUnableToRotatePositions):
		return "err unableRotate"
	}
	return "err other:" + strings.ReplaceAll(err.Error(), " ", "_")
}

func idNum(id string) int {
	n, err := strconv.Atoi(strings.TrimPrefix(id, "p"))
	if err != nil {
		return 999999
	}
	return n
}

func b01(b bool) string {
	if b {
		return "1"
	}
	return "0"
}

func smObs(sm seat_manager.SeatManager, maxSeat int) string {
	seats := sm.Seats()
	cells := make([]string, maxSeat)
	for i := 0; i < maxSeat; i++ {
		sp := seats[i]
		if sp == nil {
			cells[i] = "-"
		} else {
			cells[i] = fmt.Sprintf("%d:%s:%s:%s", idNum(sp.ID), b01(sp.IsIn), b01(sp.IsBetweenDealerBB), b01(sp.HasChips))
		}
	}
	extra := ""
	if len(seats) != maxSeat {
		// keys outside 0..maxSeat-1 exist: make the observation unparsable on purpose (fails closed)
		keys := make([]int, 0)
		for k := range seats {
			if k < 0 || k >= maxSeat {
				keys = append(keys, k)
			}
		}
		sort.Ints(keys)
		extra = fmt.Sprintf(" extra-keys=%v", keys)
	}
	return fmt.Sprintf("sm obs %d %d %d %s %s%s", sm.CurrentDealerSeatID(), sm.CurrentSBSeatID(), sm.CurrentBBSeatID(), b01(sm.IsInitPositions()), strings.Join(cells, ","), extra)
}

type smStats struct {
	Histories  int            `json:"histories"`
	Ops        int            `json:"ops"`
	OpMix      map[string]int `json:"op_mix"`
	ErrKinds   map[string]int `json:"err_kinds"`
	SeatCounts map[string]int `json:"seat_counts"`
	Rules      map[string]int `json:"rules"`
	Rotations  int            `json:"rotations"`
	Distinct   int            `json:"distinct_histories"`
	Samples    []string       `json:"samples"`
}

func newSMStats() *smStats {
	return &smStats{OpMix: map[string]int{}, ErrKinds: map[string]int{}, SeatCounts: map[string]int{}, Rules: map[string]int{}}
}

type smHist struct {
	w        *strings.Builder
	sm       seat_manager.SeatManager
	maxSeat  int
	rule     string
	st       *smStats
	present  []int // ids currently seated (harness bookkeeping for generation only)
	nextID   int
	isInit   bool
	rotCount int
}

func (h *smHist) line(format string, a ...interface{}) {
	fmt.Fprintf(h.w, format+"\n", a...)
}

func (h *smHist) record(op string, err error) {
	h.st.Ops++
	h.st.OpMix[op]++
	if err != nil {
		h.st.ErrKinds[smErrName(err)]++
	}
}

func (h *smHist) obs() { h.line("%s", smObs(h.sm, h.maxSeat)) }

func joinInts(xs []int) string {
	if len(xs) == 0 {
		return "-"
	}
	s := make([]string, len(xs))
	for i, x := range xs {
		s[i] = strconv.Itoa(x)
	}
	return strings.Join(s, ",")
}

func (h *smHist) refreshPresent() {
	h.present = h.present[:0]
	for i := 0; i < h.maxSeat; i++ {
		if sp := h.sm.Seats()[i]; sp != nil {
			h.present = append(h.present, idNum(sp.ID))
		}
	}
}

func (h *smHist) opAssign(batch map[int]int) error {
	m := make(map[string]int)
	keys := make([]int, 0, len(batch))
	for id, seat := range batch {
		m[pid(id)] = seat
		keys = append(keys, id)
	}
	sort.Ints(keys)
	parts := make([]string, 0)
	for _, id := range keys {
		parts = append(parts, fmt.Sprintf("%d:%d", id, batch[id]))
	}
	arg := strings.Join(parts, ",")
	if arg == "" {
		arg = "-"
	}
	err := h.sm.AssignSeats(m)
	h.line("sm assign %s | %s", arg, smErrName(err))
	h.record("assign", err)
	h.obs()
	h.refreshPresent()
	return err
}

func (h *smHist) opRand(ids []int) error {
	s := make([]string, len(ids))
	for i, id := range ids {
		s[i] = pid(id)
	}
	err := h.sm.RandomAssignSeats(s)
	choice := make([]int, 0)
	if err == nil {
		for _, id := range s {
			seat, e := h.sm.GetSeatID(id)
			if e != nil {
				seat = -1
			}
			choice = append(choice, seat)
		}
	}
	h.line("sm rand %s %s | %s", joinInts(ids), joinInts(choice), smErrName(err))
	h.record("rand", err)
	h.obs()
	h.refreshPresent()
	return err
}

func (h *smHist) opRemove(ids []int) error {
	s := make([]string, len(ids))
	for i, id := range ids {
		s[i] = pid(id)
	}
	err := h.sm.RemoveSeats(s)
	h.line("sm remove %s | %s", joinInts(ids), smErrName(err))
	h.record("remove", err)
	h.obs()
	h.refreshPresent()
	return err
}

func (h *smHist) opJoin(ids []int) error {
	s := make([]string, len(ids))
	for i, id := range ids {
		s[i] = pid(id)
	}
	err := h.sm.JoinPlayers(s)
	h.line("sm join %s | %s", joinInts(ids), smErrName(err))
	h.record("join", err)
	h.obs()
	return err
}

func (h *smHist) opChips(id int, b bool) error {
	err := h.sm.UpdatePlayerHasChips(pid(id), b)
	h.line("sm chips %d %s | %s", id, b01(b), smErrName(err))
	h.record("chips", err)
	h.obs()
	return err
}

func (h *smHist) opInit(random bool) error {
	err := h.sm.InitPositions(random)
	choice := -1
	if err == nil {
		if h.rule == seat_manager.Rule_Default {
			choice = h.sm.CurrentBBSeatID()
		} else {
			choice = h.sm.CurrentDealerSeatID()
		}
		h.isInit = true
	}
	h.line("sm init %s %d | %s", b01(random), choice, smErrName(err))
	h.record("init", err)
	h.obs()
	return err
}

func (h *smHist) opRotate() error {
	err := h.sm.RotatePositions()
	h.line("sm rotate | %s", smErrName(err))
	h.record("rotate", err)
	h.st.Rotations++
	h.obs()
	return err
}

func (h *smHist) queries(r *rand.Rand) {
	ids := append([]int{}, h.present...)
	ids = append(ids, 900+r.Intn(5)) // unknown
	for _, id := range ids {
		if r.Intn(3) != 0 {
			continue
		}
		h.line("sm between %d | %s", id, b01(h.sm.IsPlayerBetweenDealerBB(pid(id))))
		act, err := h.sm.IsPlayerActive(pid(id))
		if err != nil {
			h.line("sm active %d | nf", id)
		} else {
			h.line("sm active %d | %s", id, b01(act))
		}
		seat, _ := h.sm.GetSeatID(pid(id))
		h.line("sm seatid %d | %d", id, seat)
		h.st.Ops += 3
		h.st.OpMix["query"] += 3
	}
}

func (h *smHist) emptySeats() []int {
	out := make([]int, 0)
	for i := 0; i < h.maxSeat; i++ {
		if h.sm.Seats()[i] == nil {
			out = append(out, i)
		}
	}
	return out
}

func (h *smHist) fresh() int {
	h.nextID++
	return h.nextID
}

// arrivals: some new players by fixed seat, some by random seat; most join at once, some later/never
func (h *smHist) arrive(r *rand.Rand, k int, joinProb float64) {
	empties := h.emptySeats()
	r.Shuffle(len(empties), func(i, j int) { empties[i], empties[j] = empties[j], empties[i] })
	newIDs := make([]int, 0)
	if k > 0 && r.Intn(2) == 0 {
		batch := map[int]int{}
		for i := 0; i < k && i < len(empties); i++ {
			id := h.fresh()
			batch[id] = empties[i]
			newIDs = append(newIDs, id)
		}
		if len(batch) > 0 {
			h.opAssign(batch)
		}
	} else if k > 0 {
		ids := make([]int, 0)
		for i := 0; i < k; i++ {
			ids = append(ids, h.fresh())
		}
		if h.opRand(ids) == nil {
			newIDs = ids
		}
	}
	js := make([]int, 0)
	for _, id := range newIDs {
		if r.Float64() < joinProb {
			js = append(js, id)
		}
	}
	if len(js) > 0 {
		h.opJoin(js)
	}
}

func (h *smHist) malformed(r *rand.Rand) {
	switch r.Intn(9) {
	case 0: // seat taken
		if len(h.present) > 0 {
			victim := h.present[r.Intn(len(h.present))]
			seat, _ := h.sm.GetSeatID(pid(victim))
			h.opAssign(map[int]int{h.fresh(): seat})
		}
	case 1: // already seated id, other seat
		if len(h.present) > 0 && len(h.emptySeats()) > 0 {
			h.opAssign(map[int]int{h.present[r.Intn(len(h.present))]: h.emptySeats()[0]})
		}
	case 2: // two ids, one seat
		if e := h.emptySeats(); len(e) > 0 {
			h.opAssign(map[int]int{h.fresh(): e[0], h.fresh(): e[0]})
		}
	case 3: // out of range
		seat := h.maxSeat + r.Intn(3)
		if r.Intn(2) == 0 {
			seat = -1 - r.Intn(2)
		}
		h.opAssign(map[int]int{h.fresh(): seat})
	case 4: // too many
		ids := make([]int, 0)
		for i := 0; i < len(h.emptySeats())+1; i++ {
			ids = append(ids, h.fresh())
		}
		h.opRand(ids)
	case 5: // remove unknown (mixed with a known one)
		ids := []int{900 + r.Intn(5)}
		if len(h.present) > 0 && r.Intn(2) == 0 {
			ids = append([]int{h.present[r.Intn(len(h.present))]}, ids...)
		}
		h.opRemove(ids)
	case 6: // join unknown (mixed)
		ids := []int{900 + r.Intn(5)}
		if len(h.present) > 0 && r.Intn(2) == 0 {
			ids = append([]int{h.present[r.Intn(len(h.present))]}, ids...)
		}
		h.opJoin(ids)
	case 7: // random seat for somebody already seated / repeated id
		if len(h.present) > 0 && r.Intn(2) == 0 {
			h.opRand([]int{h.present[r.Intn(len(h.present))]})
		} else {
			id := h.fresh()
			h.opRand([]int{id, id})
		}
	case 8:
		h.opChips(900+r.Intn(5), r.Intn(2) == 0)
	}
}

func genSMHistory(r *rand.Rand, st *smStats, hid int, maxOps int) string {
	maxSeat := 2 + r.Intn(9) // 2..10
	rule := seat_manager.Rule_Default
	switch x := r.Intn(100); {
	case x < 12:
		rule = seat_manager.Rule_ShortDeck
	case x < 15:
		rule = seat_manager.Rule_Omaha
	}
	h := &smHist{w: &strings.Builder{}, sm: seat_manager.NewSeatManager(maxSeat, rule), maxSeat: maxSeat, rule: rule, st: st}
	st.Histories++
	st.SeatCounts[strconv.Itoa(maxSeat)]++
	st.Rules[rule]++
	h.line("sm new %d %s h=%d", maxSeat, rule, hid)

	if r.Intn(12) == 0 {
		h.opRotate() // before init
	}
	h.arrive(r, 1+r.Intn(maxSeat), 0.9)
	if r.Intn(4) == 0 {
		h.arrive(r, r.Intn(3), 0.8)
	}
	if r.Intn(5) == 0 {
		h.malformed(r)
	}
	h.opInit(r.Intn(5) != 0)
	hands := 1 + r.Intn(14)
	for g := 0; g < hands && h.st.Ops < maxOps; g++ {
		if !h.isInit {
			// keep trying to get positions: more arrivals / joins
			h.arrive(r, 1+r.Intn(2), 1.0)
			h.opInit(r.Intn(3) != 0)
			continue
		}
		// between hands
		nEv := r.Intn(4)
		for e := 0; e < nEv; e++ {
			switch x := r.Intn(100); {
			case x < 25: // bust somebody seated
				if len(h.present) > 0 {
					h.opChips(h.present[r.Intn(len(h.present))], false)
				}
			case x < 40: // re-buy
				if len(h.present) > 0 {
					h.opChips(h.present[r.Intn(len(h.present))], true)
				}
			case x < 55: // leave
				if len(h.present) > 0 {
					k := 1 + r.Intn(2)
					ids := make([]int, 0)
					perm := r.Perm(len(h.present))
					for i := 0; i < k && i < len(perm); i++ {
						ids = append(ids, h.present[perm[i]])
					}
					h.opRemove(ids)
				}
			case x < 80: // arrivals
				h.arrive(r, 1+r.Intn(2), 0.75)
			case x < 88: // late join of somebody not yet in
				late := make([]int, 0)
				for i := 0; i < maxSeat; i++ {
					if sp := h.sm.Seats()[i]; sp != nil && !sp.IsIn {
						late = append(late, idNum(sp.ID))
					}
				}
				if len(late) > 0 {
					h.opJoin(late[:1+r.Intn(len(late))])
				}
			case x < 96:
				h.malformed(r)
			default:
				h.opInit(true) // already initialised
			}
		}
		if r.Intn(3) == 0 {
			h.queries(r)
		}
		h.opRotate()
		h.rotCount++
	}
	h.line("sm end")
	return h.w.String()
}

// exhaustive enumeration on small tables: all op sequences of the given depth over a small alphabet
func enumSMHistories(maxSeat int, depth int, rule string, emit func(string), st *smStats) {
	type opf func(h *smHist)
	alphabet := make([]opf, 0)
	for seat := 0; seat < maxSeat; seat++ {
		s := seat
		alphabet = append(alphabet, func(h *smHist) { // seat a fresh player here and join
			id := h.fresh()
			if h.opAssign(map[int]int{id: s}) == nil {
				h.opJoin([]int{id})
			}
		})
		alphabet = append(alphabet, func(h *smHist) { // bust / re-buy toggle, remove handled below
			if sp := h.sm.Seats()[s]; sp != nil {
				h.opChips(idNum(sp.ID), !sp.HasChips)
			}
		})
		alphabet = append(alphabet, func(h *smHist) {
			if sp := h.sm.Seats()[s]; sp != nil {
				h.opRemove([]int{idNum(sp.ID)})
			}
		})
	}
	alphabet = append(alphabet, func(h *smHist) {
		if h.isInit {
			h.opRotate()
		} else {
			h.opInit(false)
		}
	})
	hid := 0
	var rec func(prefix []int)
	rec = func(prefix []int) {
		if len(prefix) == depth {
			// only sequences that end with init/rotate are interesting for C04
			if prefix[len(prefix)-1] != len(alphabet)-1 {
				return
			}
			hid++
			h := &smHist{w: &strings.Builder{}, sm: seat_manager.NewSeatManager(maxSeat, rule), maxSeat: maxSeat, rule: rule, st: st}
			st.Histories++
			st.SeatCounts[strconv.Itoa(maxSeat)]++
			st.Rules[rule]++
			h.line("sm new %d %s h=%d", maxSeat, rule, 1000000+hid)
			// start from a seated, initialised table so that the depth is spent on what follows
			for s := 0; s < maxSeat; s++ {
				id := h.fresh()
				h.opAssign(map[int]int{id: s})
				h.opJoin([]int{id})
			}
			h.opInit(false)
			for _, a := range prefix {
				alphabet[a](h)
			}
			h.line("sm end")
			emit(h.w.String())
			return
		}
		for a := range alphabet {
			rec(append(prefix, a))
		}
	}
	rec([]int{})
}

func runSM(args []string) {
	fs := flag.NewFlagSet("sm", flag.ExitOnError)
	seed := fs.Int64("seed", 1, "PRNG seed")
	n := fs.Int("n", 1000, "number of random histories")
	out := fs.String("out", "sm.trace", "trace file")
	statsFile := fs.String("stats", "", "stats json file")
	enumDepth := fs.Int("enum", 0, "also enumerate all op sequences of this depth on 2..enumSeats seats")
	enumSeats := fs.Int("enumseats", 3, "largest table for the enumeration")
	workers := fs.Int("workers", 8, "parallel generators")
	fs.Parse(args)

	devnull, _ := os.OpenFile(os.DevNull, os.O_WRONLY, 0)
	os.Stdout = devnull // the seat manager prints its state on every error

	f, err := os.Create(*out)
	if err != nil {
		fmt.Fprintln(os.Stderr, err)
		os.Exit(2)
	}
	w := bufio.NewWriterSize(f, 1<<20)
	st := newSMStats()
	seen := map[uint64]bool{}
	var mu sync.Mutex
	emit := func(s string, sub *smStats) {
		mu.Lock()
		defer mu.Unlock()
		w.WriteString(s)
		hsh := fnv64(stripHistID(s))
		if !seen[hsh] {
			seen[hsh] = true
		}
		if len(st.Samples) < 3 {
			st.Samples = append(st.Samples, s)
		}
		if sub != nil {
			mergeSMStats(st, sub)
		}
	}

	var wg sync.WaitGroup
	per := (*n + *workers - 1) / *workers
	for wk := 0; wk < *workers; wk++ {
		wg.Add(1)
		go func(wk int) {
			defer wg.Done()
			r := rand.New(rand.NewSource(*seed*1000003 + int64(wk)))
			for i := 0; i < per && wk*per+i < *n; i++ {
				sub := newSMStats()
				s := genSMHistory(r, sub, wk*per+i, 400)
				emit(s, sub)
			}
		}(wk)
	}
	wg.Wait()

	if *enumDepth > 0 {
		for seats := 2; seats <= *enumSeats; seats++ {
			sub := newSMStats()
			enumSMHistories(seats, *enumDepth, seat_manager.Rule_Default, func(s string) { emit(s, nil) }, sub)
			mu.Lock()
			mergeSMStats(st, sub)
			mu.Unlock()
		}
	}
	w.Flush()
	f.Close()
	st.Distinct = len(seen)
	if *statsFile != "" {
		b, _ := json.MarshalIndent(st, "", " ")
		os.WriteFile(*statsFile, b, 0644)
	}
}

func mergeSMStats(dst, src *smStats) {
	dst.Histories += src.Histories
	dst.Ops += src.Ops
	dst.Rotations += src.Rotations
	for k, v := range src.OpMix {
		dst.OpMix[k] += v
	}
	for k, v := range src.ErrKinds {
		dst.ErrKinds[k] += v
	}
	for k, v := range src.SeatCounts {
		dst.SeatCounts[k] += v
	}
	for k, v := range src.Rules {
		dst.Rules[k] += v
	}
}

func stripHistID(s string) string {
	// the first line carries h=<n>; distinctness is about the operations
	if i := strings.Index(s, "\n"); i >= 0 {
		first := s[:i]
		if j := strings.Index(first, " h="); j >= 0 {
			first = first[:j]
		}
		return first + s[i:]
	}
	return s
}

func fnv64(s string) uint64 {
	var h uint64 = 14695981039346656037
	for i := 0; i < len(s); i++ {
		h ^= uint64(s[i])
		h *= 1099511628211
	}
	return h
}
