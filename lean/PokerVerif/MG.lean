import PokerVerif.Generated.Facts
/-!
# MG — model of `manager.go`

The manager is a registry `tableID → engine` plus one forwarding method per engine operation.  The model is
generic in the engine: `E` is the engine state, `Op` the operation (name + arguments), `R` its result and
`estep : E → Op → E × R` the engine's own behaviour (the `TB` layer, or anything else — the theorems hold for
every engine).  Which methods delete the registry entry, and that every method forwards to the same-named
engine method with its arguments in order, is read from the source (`Facts.managerTable`).
-/
namespace MG

/-- does the manager method `name` delete the registry entry after a successful engine call? -/
def deletes (name : String) : Bool :=
  (Facts.managerTable.find? (fun r => r.name == name)).any (fun r => r.deletes && r.delAfter)

/-- is `name` a forwarding method of the manager at all? -/
def known (name : String) : Bool := Facts.managerTable.any (fun r => r.name == name)

structure Reg (E : Type) where
  tables : List (Nat × E)      -- association list, first match wins (a `sync.Map`)

inductive Out (R : Type)
  | notFound                   -- ErrManagerTableNotFound
  | result (r : R)             -- whatever the engine returned

def lookup {E : Type} (reg : Reg E) (id : Nat) : Option E :=
  (reg.tables.find? (fun e => e.1 == id)).map (·.2)

def store {E : Type} (reg : Reg E) (id : Nat) (e : E) : Reg E :=
  { tables := (id, e) :: reg.tables.filter (fun x => x.1 != id) }

def delete {E : Type} (reg : Reg E) (id : Nat) : Reg E :=
  { tables := reg.tables.filter (fun x => x.1 != id) }

/-- one manager call `m.<name>(tableID, args…)`; `failed r` says whether the engine's result is an error
(Close/Release keep the entry when the engine call fails) -/
def call {E Op R : Type} (estep : E → Op → E × R) (nameOf : Op → String) (failed : R → Bool)
    (reg : Reg E) (id : Nat) (op : Op) : Reg E × Out R :=
  match lookup reg id with
  | none => (reg, .notFound)
  | some e =>
    let (e', r) := estep e op
    if deletes (nameOf op) && !failed r then (delete (store reg id e') id, .result r)
    else (store reg id e', .result r)

end MG
