import PokerVerif.TB
import PokerVerif.SMSpec
/-!
# Table-level specification predicates and run-time monitors (C01 C02 C03 C05 C06 C07 C08 C12)

`Obs` is what the harness observes of the implementation at a quiescent point (table snapshot, and — when read
live — the seat manager, the open-game gate and the released flag).  The predicates below are the `Bool`
conclusions of the `Props/` theorems about the `TB` model *and* the monitors the driver evaluates on the
implementation's observations.  A monitor returns the list of violated classes (keys of `known_findings.json`).
-/
namespace TBSpec
open TB

structure Obs where
  cfg : Meta
  status : Status
  started : Bool
  gameCount : Nat
  dealer : Int
  sb : Int
  bb : Int
  seatMap : List Int
  players : List Player
  gidx : List Int
  nextBB : List Nat
  blind : Blind
  gameBlind : Option Blind
  hasGame : Bool
  endAt : Bool
  last : Bool
  sm : Option SM.State
  gate : Option (Nat × List Part)
  released : Option Bool

def ofState (s : State) : Obs :=
  { cfg := s.cfg, status := s.status, started := s.started, gameCount := s.gameCount, dealer := s.dealer, sb := s.sb,
    bb := s.bb, seatMap := s.seatMap, players := s.players, gidx := s.gidx, nextBB := s.nextBB, blind := s.blind,
    gameBlind := s.gameBlind, hasGame := s.hasGame, endAt := false, last := false, sm := some s.sm,
    gate := some (s.gateCount, s.gate), released := some s.released }

def playerAt (o : Obs) (i : Int) : Option Player := if 0 ≤ i then o.players[i.toNat]? else none
def findPlayer (o : Obs) (id : Nat) : Option Player := o.players.find? (fun p => p.id == id)
def totalBankroll (o : Obs) : Int := (o.players.map (·.bankroll)).sum

-- ================================================================== C03: seat bookkeeping

/-- every player has one in-range seat and the seat map names him there -/
def seatsConsistent (o : Obs) : Bool :=
  o.seatMap.length == o.cfg.maxSeat &&
  (((List.range o.players.length).zip o.players).all (fun e =>
    decide (0 ≤ e.2.seat) && decide (e.2.seat < o.cfg.maxSeat) && (seatMapGet o.seatMap e.2.seat == some (e.1 : Int)))) &&
  ((o.seatMap.filter (· != -1)).length == o.players.length) &&
  o.seatMap.all (fun v => v == -1 || (decide (0 ≤ v) && decide (v.toNat < o.players.length)))

def idsDistinct (o : Obs) : Bool := SM.allDistinct (o.players.map (·.id))

/-- the seat manager names the same occupant for every seat, with the same seated-in flag -/
def smAgrees (o : Obs) : Bool :=
  match o.sm with
  | none => true
  | some sm =>
    (SMSpec.seatsList o.cfg.maxSeat).all (fun s =>
      match sm.seats s, (seatMapGet o.seatMap s).bind (playerAt o) with
      | none, none => true
      | some sp, some p => sp.id == p.id && sp.isIn == p.isIn
      | _, _ => false)

def c03Inv (o : Obs) : List String :=
  (if seatsConsistent o then [] else ["C03.seat-map-and-player-list-disagree"]) ++
  (if idsDistinct o then [] else ["C03.player-listed-twice"]) ++
  (if o.players.length ≤ o.cfg.maxSeat then [] else ["C03.more-players-than-seats"]) ++
  (if smAgrees o then [] else ["C03.seat-manager-disagrees-with-table"])

def membershipView (o : Obs) : List (Nat × Int × Bool × Int) × List Int :=
  (o.players.map (fun p => (p.id, p.seat, p.isIn, p.bankroll)), o.seatMap)

def smSeatsEq (a b : Obs) : Bool :=
  match a.sm, b.sm with
  | some x, some y => SMSpec.sameSeats x y
  | _, _ => true

/-- a membership operation that reported an error left seats, players and seat manager as they were -/
def unchangedMembership (prev cur : Obs) : Bool :=
  membershipView prev == membershipView cur && smSeatsEq prev cur

-- ================================================================== C06: labels

def dealtInSeats (o : Obs) : List Int := (o.players.filter (·.participated)).map (·.seat)

/-- seats clockwise from `start` (n of them, `start` first) -/
def cwFrom (n : Nat) (start : Int) : List Int := (List.range n).map (fun (k : Nat) => (start + (k : Int)) % (n : Int))

/-- position slots clockwise from the BB seat: dealt-in seats plus a dead button / dead small blind -/
def slots (o : Obs) : List Int :=
  let di := dealtInSeats o
  (cwFrom o.cfg.maxSeat o.bb).filter (fun s => di.contains s || s == o.dealer || s == o.sb)

def standardOrder (count : Nat) : List (List String) :=
  if count == 2 then [["bb"], ["dealer", "sb"]]
  else
    let row := match Facts.positionTable.find? (fun r => r.1 == count) with | some r => r.2 | none => []
    (row.drop 2 ++ row.take 2).map (fun x => [x])

/-- the label each dealt-in player should carry: i-th slot clockwise from BB ↦ i-th label of the standard order -/
def expectedLabels (o : Obs) : List (Int × List String) :=
  let sl := slots o
  (sl.zip (standardOrder sl.length)).filter (fun e => (dealtInSeats o).contains e.1)

def labelsOK (o : Obs) : Bool :=
  let exp := expectedLabels o
  let sl := slots o
  decide (2 ≤ sl.length) && decide (sl.length ≤ 10) &&
  o.players.all (fun p =>
    if p.participated then
      (match exp.find? (fun e => e.1 == p.seat) with | some e => p.positions == e.2 | none => false)
    else p.positions.isEmpty)

def allDistinctS : List String → Bool
  | [] => true
  | h :: t => !(t.contains h) && allDistinctS t

/-- the sub-claims spelled out in the property -/
def labelClaims (o : Obs) : Bool :=
  let di := o.players.filter (·.participated)
  -- BB seat: bb
  (di.all (fun p => if p.seat == o.bb then p.positions.contains "bb" else !(p.positions.contains "bb"))) &&
  -- SB seat dealt in: sb (dealer+sb heads-up)
  (di.all (fun p => if p.seat == o.sb then p.positions.contains "sb" && (if di.length == 2 then p.positions.contains "dealer" else true) else true)) &&
  -- no two players share a label, every dealt-in player has one, nobody else has any
  allDistinctS ((di.map (fun p => p.positions)).flatten) &&
  di.all (fun p => !p.positions.isEmpty) &&
  (o.players.filter (fun p => !p.participated)).all (fun p => p.positions.isEmpty)

/-- next-BB order: players with chips, clockwise from the seat after the big blind -/
def expectedNextBB (o : Obs) : List Nat :=
  ((List.range o.cfg.maxSeat).map (fun (k : Nat) => (o.bb + 1 + (k : Int)) % (o.cfg.maxSeat : Int))).filterMap (fun s =>
    match (seatMapGet o.seatMap s).bind (playerAt o) with
    | some p => if p.bankroll > 0 then some p.id else none
    | none => none)

-- ================================================================== C02: the hand's player list

def gidxPlayers (o : Obs) : List (Option Player) := o.gidx.map (playerAt o)

def handListExact (o : Obs) : Bool :=
  let gp := gidxPlayers o
  gp.all (·.isSome) && SM.allDistinctI o.gidx &&
  gp.all (fun p => match p with | some p => p.participated | none => false) &&
  decide (o.gidx.length = (o.players.filter (·.participated)).length)

/-- clockwise: offsets from the first entry's seat strictly increase -/
def clockwise (o : Obs) : Bool :=
  match gidxPlayers o with
  | some first :: rest =>
    let offs := rest.filterMap (fun p => p.map (fun p => (p.seat - first.seat) % (o.cfg.maxSeat : Int)))
    let rec incr : Int → List Int → Bool
      | _, [] => true
      | prev, h :: t => decide (prev < h) && incr h t
    incr 0 offs
  | _ => true

-- ================================================================== C05: who is dealt in

def eligibleBySM (sm : SM.State) (p : Player) : Bool :=
  match sm.seats p.seat with
  | some sp => sp.isIn && sp.hasChips && !sp.between
  | none => false

-- ================================================================== monitor memory

structure Mon where
  broughtIn : Int := 0
  takenOut : Int := 0
  openObs : Option Obs := none              -- `opened` snapshot of the running hand
  openIds : List Nat := []                  -- ids of the hand's entries at open
  openBlind : Option Blind := none          -- BlindState in force at the open
  opts : Option (Int × List Int × List (Int × List String)) := none   -- ante, [dealer,sb,bb], players(bankroll, labels)
  result : List (Nat × Int) := []
  closedSeen : Bool := false                -- external close / release
  pausedByUser : Bool := false
  lcJudged : Nat := 0                       -- observation pairs judged by the life-cycle monitor
  missed : List (Nat × Nat) := []           -- id ↦ consecutive opens missed while seated-in with chips
  stayIn : List Nat := []                   -- ids dealt into the last hand who must be dealt into the next
  lastDealt : List Nat := []                -- ids dealt into the last hand that opened
  handsOpened : Nat := 0
  atLastOpen : List Nat := []               -- ids at the table when the last hand opened
  tentativeButton : Option Int := none      -- small-blind seat before the last rotation (the seat the waiting flags were computed against)
  flagsClean : Bool := false                -- no refused rotation since the last open (a refusal re-flags against tentative seats)
  fundedAtTick : Nat := 0                   -- seated-in players with chips when the continue handler ran
  expectOpen : Bool := false                -- the gate was set up by the continue handler with ≥ 2 funded players
  lastArgs : List String := []              -- arguments and result (`res:<token>`) of the operation being observed
  openedSince : Bool := false   -- a hand was opened since the last observation (its blinds were published)

def argNat (ts : List String) (k : String) : Option Nat :=
  ts.findSome? (fun t => match t.splitOn "=" with | [a, b] => if a == k then b.toNat? else none | _ => none)
def argInt (ts : List String) (k : String) : Option Int :=
  ts.findSome? (fun t => match t.splitOn "=" with | [a, b] => if a == k then b.toInt? else none | _ => none)

/-- bookkeeping at an operation line (before its observation) -/
def noteOp (m : Mon) (label : String) (args : List String) (ok : Bool) (prev : Option Obs) : Mon :=
  let m := { m with lastArgs := args }
  match label with
  | "redeem" => if ok then { m with broughtIn := m.broughtIn + (argInt args "chips").getD 0 } else m
  | "reserve" =>
    -- a re-buy (the player is at the table already): what was brought in is what the call said, whether or not an
    -- observation follows at once (re-buys from inside a notification, re-buys queued behind an open)
    let known := match prev, argNat args "id" with
      | some p, some id => p.players.any (·.id == id)
      | _, _ => false
    if ok && known then { m with broughtIn := m.broughtIn + (argInt args "chips").getD 0 } else m
  | "fire.opened" =>
    -- the blinds in force at the open are those of the table as last observed (set here, at the operation, so that the
    -- options line may come before or after the observation that follows the open)
    (match prev with | some p => { m with openBlind := some p.blind, openedSince := true } | none => { m with openedSince := true })
  | "close" => { m with closedSeen := true }
  | "release" => { m with closedSeen := true }
  | "pause" => { m with pausedByUser := true }
  | _ => m

def noteSettle (m : Mon) (res : List (Nat × Int)) : Mon := { m with result := res }

def parseOptsPlayers (s : String) : List (Int × List String) :=
  (s.splitOn ";").filterMap (fun c => match c.splitOn ":" with
    | [b, l] => (b.toInt?).map (fun b => (b, if l == "" then [] else l.splitOn "+"))
    | [b] => (b.toInt?).map (fun b => (b, []))
    | _ => none)

/-- the `opened` snapshot: C02 (list), C06 (labels) -/
def onOpenedSnap (m : Mon) (o : Obs) : Mon × List String :=
  let ids := (gidxPlayers o).filterMap (fun p => p.map (·.id))
  let v :=
    (if handListExact o then [] else ["C02.hand-list-is-not-the-dealt-in-players-once-each"]) ++
    (if o.cfg.rule != .shortDeck && !(clockwise o) then ["C02.hand-list-not-clockwise"] else []) ++
    (if o.cfg.rule == .default then
      -- the standard order presupposes the ring geometry button → small blind → big blind with nobody dealt in between
      -- button and small blind; the rotation can leave other geometries (findings D26, D27), reported under their own class
      let di := o.players.filter (·.participated)
      let geo :=
        if di.length ≥ 3 && SMSpec.strictlyBetweenCw o.cfg.maxSeat o.sb o.bb o.dealer then ".big-blind-passed-the-dead-button"          -- D26
        else if di.length ≥ 3 && o.dealer != o.sb && di.any (fun p => SMSpec.strictlyBetweenCw o.cfg.maxSeat o.dealer o.sb p.seat)
        then ".dealt-in-player-between-button-and-small-blind"                                                                      -- D27
        else ""
      (if labelsOK o then [] else ["C06.labels-not-in-standard-order-from-bb" ++ geo]) ++
      (if labelClaims o then [] else ["C06.label-claims-violated" ++ geo])
     else [])
  ({ m with openObs := some o, openIds := ids }, v)

/-- what the backend received at CreateGame: C02 (start stacks), C06 (engine labels), C12 (blinds) -/
def onOpts (m : Mon) (ts : List String) : Mon × List String :=
  let ante := (argInt ts "ante").getD (-999)
  let blinds := match ts.findSome? (fun t => match t.splitOn "=" with | ["blind", b] => some b | _ => none) with
    | some b => (b.splitOn ",").filterMap (·.toInt?) | none => []
  let ps := match ts.findSome? (fun t => match t.splitOn "=" with | ["players", b] => some b | _ => none) with
    | some b => parseOptsPlayers b | none => []
  let m := { m with opts := some (ante, blinds, ps) }
  match m.openObs with
  | none => (m, [])
  | some o =>
    let entries := (gidxPlayers o).filterMap id
    let stacksOK := ps.map (·.1) == entries.map (·.bankroll)
    -- engine labels = table labels, plus `dealer` on entry 0 when the button is dead
    let labelsOK := (ps.zip entries).zipIdx.all (fun e =>
      let got := e.1.1.2
      let want := e.1.2.positions
      got == want || (e.2 == 0 && !(want.contains "dealer") && got == want ++ ["dealer"]))
      && ps.length == entries.length
    let blindOK := match m.openBlind with
      | some b => ante == b.ante && blinds == [b.dealer, b.sb, b.bb]
      | none => true
    (m, (if stacksOK then [] else ["C02.start-stack-is-not-the-bankroll-at-open"]) ++
        (if o.cfg.rule == .default && !labelsOK then ["C06.engine-labels-differ-from-table-labels"] else []) ++
        (if blindOK then [] else ["C12.hand-options-differ-from-blinds-at-open"]))

def noHand (o : Obs) : Bool := !o.hasGame && !(inHandStatus o.status)

def funded (o : Obs) : Nat := (o.players.filter (fun p => p.isIn && p.bankroll > 0)).length
def aliveCount (o : Obs) : Nat := (o.players.filter (fun p => p.bankroll > 0)).length

def bump (l : List (Nat × Nat)) (id : Nat) : List (Nat × Nat) :=
  if l.any (·.1 == id) then l.map (fun e => if e.1 == id then (id, e.2 + 1) else e) else l ++ [(id, 1)]

/-- C05, re-buy after a bust that cost at least one hand: the waiting flag must be the one a newcomer given this seat now
would get (geometric, against the published button and big blind). Result: none = fine, some cls = monitor class. -/
def rebuyTerms (m : Mon) (p o : Obs) (sm : SM.State) : List String :=
  o.players.foldl (fun acc q => match p.players.find? (·.id == q.id), sm.seats q.seat with
    | some q0, some sp =>
      if q0.bankroll == (0 : Int) && decide (q.bankroll > (0 : Int)) && decide (m.handsOpened ≥ 2) && m.flagsClean && m.atLastOpen.contains q.id &&
         !(m.lastDealt.contains q.id) && sm.isInit && sm.rule == .default then
        if sp.between == SMSpec.strictlyBetweenCw sm.maxSeat sm.dealer sm.bb q.seat then acc
        else match m.tentativeButton with
          | some td =>
            if td != sm.dealer && sp.between == SMSpec.strictlyBetweenCw sm.maxSeat td sm.bb q.seat
            then acc ++ ["C05.re-buyer-not-on-the-same-terms-as-a-newcomer.flag-from-tentative-button"]
            else acc ++ ["C05.re-buyer-not-on-the-same-terms-as-a-newcomer"]
          | none => acc ++ ["C05.re-buyer-not-on-the-same-terms-as-a-newcomer"]
      else acc
    | _, _ => acc) []

/-- an observation after operation `label` -/
def onObs (m : Mon) (label : String) (ok : Bool) (membership : Bool) (prev : Option Obs) (o : Obs) : Mon × List String :=
  -- ---- C03 on every snapshot
  let v3 := c03Inv o
  let v3a := match prev with
    | some p =>
      if membership && !ok && !(unchangedMembership p o) then
        (if label == "update" && !(p.players.all (fun q => o.players.any (·.id == q.id)))
         then ["C03.failed-batch-update-applied-its-departures"] else ["C03.failed-operation-changed-membership"])
      else []
    | none => []
  -- ---- C01 ledger bookkeeping by diffing the player lists around membership calls
  let m := match prev with
    | some p =>
      if label == "reserve" || label == "update" || label == "createjoin" || label == "leave" || label == "burst-end" then
        let gone := p.players.filter (fun q => !(o.players.any (·.id == q.id)))
        let came := o.players.filter (fun q => !(p.players.any (·.id == q.id)))
        -- (re-buys of players already at the table are booked by `noteOp`, from the amount the call named)
        { m with takenOut := m.takenOut + (gone.map (·.bankroll)).sum,
                 broughtIn := m.broughtIn + (came.map (·.bankroll)).sum }
      else m
    | none =>
      -- a table created with players: its first observation already lists them
      if label == "createjoin" then { m with broughtIn := m.broughtIn + (o.players.map (·.bankroll)).sum } else m
  let v1 := if noHand o && totalBankroll o != m.broughtIn - m.takenOut then ["C01.ledger-does-not-balance-between-hands"] else []
  -- players vanish or appear only through membership calls
  let v3b := match prev with
    | some p =>
      if !(label == "reserve" || label == "update" || label == "createjoin" || label == "leave" || label == "new" || label == "burst-end") &&
         !(p.players.map (·.id) == o.players.map (·.id)) then ["C03.player-list-changed-without-a-membership-call"] else []
    | none => []
  -- the blinds published for a hand are written at its open and by nothing else (a level change affects later hands only)
  let v12g : List String := match prev with
    | some p => if label != "fire.opened" && label != "new" && !m.openedSince && o.gameBlind != p.gameBlind
                then ["C12.published-hand-blinds-changed-without-an-open"] else []
    | none => []
  -- C07: left to itself (no pause / close request so far) the status moves along the life cycle only — the conclusion of
  -- `C07_life_cycle_step`, evaluated on the implementation's statuses wherever its hypothesis `Timely` holds of them
  let lcTimely (p : Obs) : Bool :=
    if label == "settle" then p.status == .playing
    else if label.startsWith "continue" || label == "contreset" then p.status == .settled
    else if label.startsWith "tick" then p.status == .standby || p.status == .pausing
    else label != "pause" && label != "close" && label != "new" && label != "createjoin"
  let lcOn : Bool := match prev with | some p => !m.closedSeen && !m.pausedByUser && lcTimely p | none => false
  let v7lc : List String := match prev with
    | some p => if lcOn && !(lcNext p.status o.status) then ["C07.status-left-the-life-cycle"] else []
    | none => []
  let m := if lcOn then { m with lcJudged := m.lcJudged + 1 } else m
  -- a table created on a break starts paused — with or without players
  let v12c : List String :=
    if (label == "new" || label == "createjoin") && ok && o.blind.isBreaking && o.status != .pausing
    then ["C12.table-created-on-a-break-not-paused"] else []
  -- a player who has just brought chips in (re-buy, add-on) is one the seat manager counts as having chips: that flag is
  -- what makes a busted player eligible again
  let v5r : List String :=
    if (label == "reserve" || label == "redeem") && ok then
      match argNat m.lastArgs "id", o.sm with
      | some id, some sm =>
        (match o.players.find? (·.id == id) with
         | some q => (match sm.seats q.seat with
            | some sp => if decide (q.bankroll > 0) && !sp.hasChips then ["C05.player-who-brought-chips-in-not-marked-as-having-chips"] else []
            | none => [])
         | none => [])
      | _, _ => []
    else []
  -- ---- per label
  let (m, vl) : Mon × List String :=
    if label == "fire.opened" then
      match prev with
      | none => (m, [])
      | some p =>
        let v7 :=
          (if o.gameCount == p.gameCount + 1 then [] else ["C07.game-count-not-raised-by-one"]) ++
          (if p.hasGame then ["C07.hand-opened-while-another-is-unsettled"] else []) ++
          (if m.closedSeen then ["C07.hand-opened-after-close-or-release"] else []) ++
          (if p.blind.isBreaking then ["C07.hand-opened-on-a-break-level"] else []) ++
          (if !p.blind.isSet then ["C07.hand-opened-before-blinds-are-set"] else []) ++
          (if o.status == .playing && o.hasGame then [] else ["C07.status-after-open-is-not-playing"])
        let v12 := (if o.gameBlind == some p.blind then [] else ["C12.published-hand-blinds-differ-from-blinds-at-open"]) ++
          (if p.blind.isBreaking then ["C12.hand-opened-while-the-level-is-a-break"] else [])
        -- C05: exactly the eligible players, at least two
        let v5 := match o.sm with
          | some sm =>
            (if o.players.all (fun q => q.participated == eligibleBySM sm q) then [] else ["C05.dealt-in-set-is-not-the-eligible-set"]) ++
            (if (o.players.filter (·.participated)).length ≥ 2 then [] else ["C05.hand-opened-with-fewer-than-two"]) ++
            (if m.stayIn.all (fun id => match findPlayer o id with
                | some q => if q.isIn && q.bankroll > 0 then q.participated else true
                | none => true) then [] else ["C05.dealt-in-player-with-chips-not-dealt-in-again"])
          | none => []
        let missed := o.players.foldl (fun acc q =>
          if q.isIn && q.bankroll > 0 && !q.participated then bump acc q.id
          else acc.filter (·.1 != q.id)) (m.missed.filter (fun e => o.players.any (·.id == e.1)))
        let v5b := if missed.any (fun e => e.2 > 3) then ["C05.seated-in-player-with-chips-missed-more-than-three-hands"] else []
        let dealtNow := (o.players.filter (·.participated)).map (·.id)
        let v5c : List String := []
        ({ m with openBlind := some p.blind, missed := missed, expectOpen := false, lastDealt := dealtNow, handsOpened := m.handsOpened + 1,
                  atLastOpen := o.players.map (·.id), flagsClean := true,
                  tentativeButton := (match p.sm with | some smPre => if smPre.isInit then some smPre.sb else none | none => none),
                  stayIn := dealtNow }, v7 ++ v12 ++ v5 ++ v5b ++ v5c)
    else if label == "fire.nothing" || label == "fire.refused" then
      match prev with
      | none => (m, [])
      | some p =>
        let stuck := funded p ≥ 2 && !m.closedSeen && !p.blind.isBreaking && p.blind.isSet && !p.hasGame &&
                     (match p.gate with | some (_, ps) => ps.length > 1 | none => false) &&
                     (p.released == some false) && p.status != .closed
        -- finding D16 is the refusal the rotation rule itself produces (a newcomer still flagged as waiting after the
        -- flags were re-evaluated): the seat-manager model, run on the seat manager as it was before the fire, refuses too.
        -- A refusal the rule does not produce is not D16.
        let ruleRefuses := match p.sm with
          | some smPre => smPre.isInit && (match (SM.rotate smPre).2 with | .ok => false | .err _ => true)
          | none => false
        let v8 := if stuck then
            (match o.sm with
             | some sm => if ruleRefuses && SMSpec.dealtIn sm < 2 && SMSpec.aliveN sm ≥ 2 then ["C08.next-hand-refused.newcomer-still-waiting"]
                          else ["C08.no-hand-opened-although-two-seated-in-players-have-chips"]
             | none => ["C08.no-hand-opened-although-two-seated-in-players-have-chips"])
          else []
        let v7 := if o.gameCount == p.gameCount then [] else ["C07.game-count-changed-without-an-open"]
        -- an attempt that did not open leaves the life-cycle fields alone (openGame works on a clone and hands back the
        -- old table on every refusal)
        let v7b := if o.status == p.status && o.hasGame == p.hasGame && o.gidx == p.gidx &&
                      o.players.map (fun q => (q.id, q.participated)) == p.players.map (fun q => (q.id, q.participated)) then []
                   else ["C07.attempt-that-did-not-open-changed-the-table"]
        ({ m with flagsClean := false }, v8 ++ v7 ++ v7b)
    else if label == "settle" then
      match prev, m.openObs with
      | some p, some oo =>
        let entries := (gidxPlayers oo).filterMap id
        -- each participant's bankroll changes by exactly his result, everybody else's stays
        let deltaOK := o.players.all (fun q =>
          match p.players.find? (·.id == q.id) with
          | none => true
          | some q0 =>
            let gi := (entries.zipIdx.find? (fun e => e.1.id == q.id)).map (·.2)
            let ch : Int := match gi with
              | some i => (m.result.filter (·.1 == i)).map (·.2) |>.sum
              | none => 0
            q.bankroll == q0.bankroll + ch)
        let v1 := if deltaOK then [] else ["C01.settlement-did-not-credit-exactly-the-results"]
        let v1b := if (m.result.map (·.2)).sum == 0 then [] else ["C01.backend-result-not-zero-sum"]
        let v6 := if o.cfg.rule == .default && o.nextBB != expectedNextBB o then ["C06.next-bb-order-wrong"] else []
        let v7 := (if o.status == .settled then [] else ["C07.status-after-settlement-is-not-settled"]) ++
                  (if o.gameCount == p.gameCount then [] else ["C07.game-count-changed-without-an-open"])
        (m, v1 ++ v1b ++ v6 ++ v7)
      | _, _ => (m, [])
    else if label.startsWith "continue." then
      match prev with
      | none => (m, [])
      | some p =>
        let reset := !o.hasGame && o.gidx.isEmpty && o.nextBB.isEmpty && !o.endAt && !o.last &&
                     o.players.all (fun q => q.positions.isEmpty)
        let v7 := (if reset then [] else ["C07.per-hand-fields-not-reset-between-hands"]) ++
                  (if o.status == .standby || o.status == .pausing then [] else ["C07.status-after-continue-is-neither-standby-nor-pausing"]) ++
                  (if o.gameCount == p.gameCount then [] else ["C07.game-count-changed-without-an-open"])
        let shouldPause := o.blind.isBreaking || decide (aliveCount o < o.cfg.minPlayers)
        let stopped := m.closedSeen
        -- C12: the level in force when the continue handler runs decides — a break pauses, a playable level does not
        let v12 := if stopped then [] else
          (if o.blind.isBreaking && label != "continue.paused" then ["C12.table-not-paused-although-the-level-is-a-break"] else []) ++
          (if !o.blind.isBreaking && label == "continue.paused" && !(decide (aliveCount o < o.cfg.minPlayers))
           then ["C12.table-paused-although-the-level-is-not-a-break"] else [])
        let v8 := if stopped then [] else
          (if (label == "continue.paused") == shouldPause then [] else ["C08.pause-decision-wrong"]) ++
          (if !shouldPause && label != "continue.setup" then ["C08.next-hand-not-set-up"] else []) ++
          (if label == "continue.setup" then
            (match o.gate with
             | some (gc, ps) =>
               (if gc == o.gameCount + 1 then [] else ["C08.gate-set-up-with-wrong-game-count"]) ++
               (if funded o ≥ 2 && ps.length < 2 then ["C08.gate-awaits-fewer-than-two-although-two-seated-in-players-have-chips"] else [])
             | none => [])
           else [])
        -- C05: has-chips flags refreshed
        let v5 := match o.sm with
          | some sm => if o.players.all (fun q => match sm.seats q.seat with
                          | some sp => sp.hasChips == decide (q.bankroll > 0) | none => true) then []
                       else ["C05.has-chips-flag-stale-after-hand"]
          | none => []
        let stay := (p.players.filter (fun q => q.participated && q.bankroll > 0)).map (·.id)
        ({ m with openObs := none, opts := none, result := [], stayIn := stay,
                  fundedAtTick := funded o, expectOpen := label == "continue.setup" && funded o ≥ 2 }, v7 ++ v8 ++ v12 ++ v5)
    else if label.startsWith "tick." then
      -- the delayed handler of the continue step on a table that was closed or released meanwhile does nothing at all
      match prev with
      | some p =>
        (m, if m.closedSeen && (o.status != p.status || o.gate != p.gate || label != "tick.nothing")
            then ["C07.continue-handler-acted-on-a-closed-or-released-table"] else [])
      | none => (m, [])
    else if label == "reserve" && ok then
      -- C05: the waiting flag of a freshly seated player
      match prev, o.sm with
      | some p, some sm =>
        let came := o.players.filter (fun q => !(p.players.any (·.id == q.id)))
        let okFlag := came.all (fun q => match sm.seats q.seat with
          | some sp =>
            let want := sm.isInit && sm.rule == .default && SMSpec.strictlyBetweenCw sm.maxSeat sm.dealer sm.bb q.seat
            sp.between == want
          | none => false)
        (m, (if okFlag then [] else ["C05.newcomer-waiting-flag-wrong"]) ++ rebuyTerms m p o sm)
      | _, _ => (m, [])
    else if label == "reserve" && !ok then
      -- C03: a vacated (free) seat can be taken again — a single reservation is never refused for lack of seats while
      -- the table shows the requested seat (or, for a random seat, any seat) free and the player is new
      match prev with
      | some p =>
        let noSeats := m.lastArgs.any (fun t => t == "res:noEmptySeats" || t == "res:sm.notEnoughSeats")
        let seat := (argInt m.lastArgs "seat").getD (-1)
        let free := if seat == -1 then p.seatMap.any (· == -1) else seatMapGet p.seatMap seat == some (-1)
        let isNew := match argNat m.lastArgs "id" with | some id => !(p.players.any (·.id == id)) | none => false
        (m, if noSeats && free && isNew then ["C03.free-seat-refused-for-lack-of-seats"] else [])
      | none => (m, [])
    else if label == "redeem" && ok then
      match prev, o.sm with
      | some p, some sm => (m, rebuyTerms m p o sm)
      | _, _ => (m, [])
    else (m, [])
  -- ---- while a hand runs: its list keeps denoting the same players, its blinds stay
  let vh := match m.openObs with
    | some oo =>
      if o.hasGame && inHandStatus o.status then
        let ids := (gidxPlayers o).filterMap (fun p => p.map (·.id))
        -- C06: the labels published at the open stay the players' labels for the whole hand (every later snapshot)
        (if o.cfg.rule == .default && !(o.players.all (fun q => match oo.players.find? (·.id == q.id) with
              | some q0 => q.positions == q0.positions
              | none => q.positions.isEmpty))
         then ["C06.labels-changed-after-the-hand-opened"] else []) ++
        (if ids == m.openIds && ids.length == o.gidx.length then [] else ["C02.hand-entries-no-longer-denote-the-same-players"]) ++
        (if label != "fire.opened" && m.openBlind.isSome && o.gameBlind != m.openBlind && o.status != .opened
         then ["C12.hand-blinds-changed-while-the-hand-runs"] else [])
      else []
    | none => []
  ({ m with openedSince := false }, v3 ++ v3a ++ v3b ++ v1 ++ v5r ++ v7lc ++ v12g ++ v12c ++ vl ++ vh)

end TBSpec
