import PokerVerif.SM
/-!
# Specification predicates for the seat manager (C03 seat-manager part, C04, C05 flag part)

Written independently of the model's code path (plain offset searches over `List.range`, mathematical
`%`), as `Bool` so that the very same predicate is (a) the conclusion of the theorems in `Props/` about the
model and (b) the run-time monitor evaluated on the implementation's observed states.
-/
namespace SMSpec
open SM

/-- seat at clockwise offset `k` from `start` on an `n`-seat table -/
def cw (n : Nat) (start : Int) (k : Nat) : Int := (start + (k : Int)) % (n : Int)
/-- seat at counter-clockwise offset `k` -/
def ccw (n : Nat) (start : Int) (k : Nat) : Int := (start - (k : Int)) % (n : Int)

/-- smallest offset `k ∈ 1..n-1` whose clockwise seat satisfies `p` -/
def firstCwOffset (n : Nat) (start : Int) (p : Int → Bool) : Option Nat :=
  (List.range' 1 (n - 1)).find? (fun k => p (cw n start k))
def firstCcwOffset (n : Nat) (start : Int) (p : Int → Bool) : Option Nat :=
  (List.range' 1 (n - 1)).find? (fun k => p (ccw n start k))

def firstCw (n : Nat) (start : Int) (p : Int → Bool) : Int :=
  match firstCwOffset n start p with | some k => cw n start k | none => -1
def firstCcw (n : Nat) (start : Int) (p : Int → Bool) : Int :=
  match firstCcwOffset n start p with | some k => ccw n start k | none => -1

def seatsList (n : Nat) : List Int := (List.range n).map (fun (k : Nat) => (k : Int))
def countSeats (n : Nat) (p : Int → Bool) : Nat := ((seatsList n).filter p).length

def validSeat (n : Nat) (i : Int) : Bool := decide (0 ≤ i) && decide (i < n)

-- ------------------------------------------------------------------ C04 (default rule)

/-- new BB = first seated-in-with-chips seat clockwise after the old BB (nobody skipped, never backwards) -/
def bbNext (pre post : State) : Bool :=
  post.bb == firstCw pre.maxSeat pre.bb (aliveAt pre.seats) && post.bb != -1

/-- the big-blind seat holds a dealt-in (active) player -/
def bbDealtIn (post : State) : Bool := validSeat post.maxSeat post.bb && activeAt post.seats post.bb

def dealtIn (post : State) : Nat := countSeats post.maxSeat (activeAt post.seats)

/-- three or more dealt in: SB = previous BB seat, dealer = previous SB seat, or coming from heads-up the
nearest live seat before the small blind -/
def ringSeats (pre post : State) : Bool :=
  post.sb == pre.bb &&
  (if isHU pre then post.dealer == firstCcw pre.maxSeat post.sb (aliveAt pre.seats) && post.dealer != -1
   else post.dealer == pre.sb)

def distinct3 (post : State) : Bool := post.dealer != post.sb && post.sb != post.bb && post.dealer != post.bb

/-- exactly two dealt in: dealer and small blind are the other dealt-in player -/
def huSeats (post : State) : Bool :=
  post.dealer == post.sb && post.dealer != post.bb && validSeat post.maxSeat post.dealer &&
  activeAt post.seats post.dealer

def buttonsUnchanged (pre post : State) : Bool :=
  post.dealer == pre.dealer && post.sb == pre.sb && post.bb == pre.bb

def aliveN (st : State) : Nat := countSeats st.maxSeat (aliveAt st.seats)

/-- short deck: dealer passes to the next dealt-in seat, no blinds seats -/
def shortDeckNext (pre post : State) : Bool :=
  post.dealer == firstCw pre.maxSeat pre.dealer (activeAt pre.seats) && post.dealer != -1 &&
  post.sb == -1 && post.bb == -1

/-- classification of what a rotation did wrong (empty = satisfies C04).  Class names are the keys of
`known_findings.json`. -/
def rotateViolations (pre post : State) (ok : Bool) : List String :=
  if !pre.isInit then (if ok then ["C04.rotate-accepted-before-init"] else [])
  else if pre.rule = .default then
    if ok then
      let n := dealtIn post
      (if bbNext pre post then [] else ["C04.bb-not-next-live-seat"]) ++
      (if bbDealtIn post then [] else ["C04.bb-seat-not-dealt-in"]) ++
      (if n < 2 then ["C04.accepted-with-fewer-than-two-dealt-in"] else
       if n == 2 then (if huSeats post then [] else ["C04.heads-up-dealer-sb-not-the-other-player"])
       else
        (if ringSeats pre post then [] else ["C04.ring-sb-or-dealer-not-previous-bb-sb"]) ++
        (if distinct3 post then []
         else if post.bb == pre.sb && post.dealer == post.bb then ["C04.ring-not-distinct.new-bb-on-previous-sb-seat"]
         else ["C04.ring-not-distinct.other"]))
    else
      (if buttonsUnchanged pre post then [] else ["C04.refused-rotation-moved-a-button"]) ++
      (if aliveN pre < 2 then []
       else if dealtIn post < 2 then ["C04.refused-with-two-live.newcomer-still-waiting"]
       else ["C04.refused-with-two-dealt-in"])
  else if pre.rule = .shortDeck then
    if ok then
      (if shortDeckNext pre post then [] else ["C04.short-deck-dealer-not-next-dealt-in"]) ++
      (if dealtIn pre < 2 then ["C04.accepted-with-fewer-than-two-dealt-in"] else [])
    else
      (if buttonsUnchanged pre post then [] else ["C04.refused-rotation-moved-a-button"]) ++
      (if dealtIn pre < 2 then [] else ["C04.refused-with-two-dealt-in"])
  else (if ok then ["C04.rotate-accepted-for-unsupported-rule"] else [])

/-- first positions: BB on a dealt-in seat; ≥3: SB/dealer the nearest dealt-in seats before it; 2: dealer = SB = other -/
def initViolations (pre post : State) (ok : Bool) : List String :=
  if !ok then
    (if buttonsUnchanged pre post && post.isInit == pre.isInit then [] else ["C04.refused-init-moved-a-button"]) ++
    (if pre.isInit || pre.rule = .other || countSeats pre.maxSeat (activeAt pre.seats) < 2 then []
     else ["C04.init-refused-with-two-dealt-in"])
  else if pre.rule = .default then
    let n := countSeats pre.maxSeat (activeAt pre.seats)
    (if bbDealtIn post then [] else ["C04.bb-seat-not-dealt-in"]) ++
    (if n < 2 then ["C04.accepted-with-fewer-than-two-dealt-in"]
     else if n == 2 then (if huSeats post then [] else ["C04.heads-up-dealer-sb-not-the-other-player"])
     else
      (if post.sb == firstCcw pre.maxSeat post.bb (activeAt pre.seats) &&
          post.dealer == firstCcw pre.maxSeat post.sb (activeAt pre.seats) && distinct3 post then []
       else ["C04.init-ring-seats-wrong"]))
  else
    (if validSeat post.maxSeat post.dealer && activeAt post.seats post.dealer && post.sb == -1 && post.bb == -1 then []
     else ["C04.init-short-deck-wrong"])

-- ------------------------------------------------------------------ C03 (seat-manager part)

def idsOf (st : State) : List Nat :=
  (seatsList st.maxSeat).filterMap (fun i => (st.seats i).map (·.id))

/-- each player at most one seat -/
def idsDistinct (st : State) : Bool := allDistinct (idsOf st)

def sameSeats (a b : State) : Bool :=
  (seatsList a.maxSeat).all (fun i => a.seats i == b.seats i) && a.maxSeat == b.maxSeat
def sameState (a b : State) : Bool :=
  sameSeats a b && a.dealer == b.dealer && a.sb == b.sb && a.bb == b.bb && a.isInit == b.isInit && a.rule == b.rule

/-- membership operations are all-or-nothing -/
def atomicOK (pre post : State) (ok : Bool) : Bool := ok || sameState pre post

-- ------------------------------------------------------------------ C05 (flag part)

/-- the waiting flag of a freshly seated player: set exactly for a seat strictly between button and BB once
positions exist (default rule) -/
def strictlyBetweenCw (n : Nat) (dealer bb target : Int) : Bool :=
  let off (x : Int) : Int := (x - dealer) % (n : Int)
  decide (0 < off target) && decide (off target < off bb)

end SMSpec
