import PokerVerif.Generated.Facts
/-!
# SM — model of `seat_manager/*.go`

Hand-written, executable, core Lean only.  One definition per Go function (see DESIGN.md §3.1).
The seat map `map[int]*SeatPlayer` is a total function `Int → Option SeatPlayer` (a missing key and a
nil value are both `none`), `%` is `Int.tmod` (Go's truncated remainder), the circular scans are
structural recursions that mirror the Go `for`, and the modulus operands of the four scans come
from `Facts` (regenerated from the source on every run).
-/
namespace SM

inductive Rule | default | shortDeck | other
deriving Repr, DecidableEq, Inhabited

structure SeatPlayer where
  id : Nat
  isIn : Bool
  between : Bool
  hasChips : Bool
deriving Repr, DecidableEq, Inhabited

def SeatPlayer.active (p : SeatPlayer) : Bool := p.isIn && !p.between && p.hasChips
def SeatPlayer.alive (p : SeatPlayer) : Bool := p.isIn && p.hasChips

/-- Go: `map[int]*SeatPlayer`; a missing key and a nil value are both `none`. -/
abbrev Seats := Int → Option SeatPlayer

def emptySeats : Seats := fun _ => none
def setSeat (s : Seats) (k : Int) (v : Option SeatPlayer) : Seats := fun i => if i = k then v else s i

def aliveAt (s : Seats) (i : Int) : Bool := match s i with | some p => p.alive | none => false
def activeAt (s : Seats) (i : Int) : Bool := match s i with | some p => p.active | none => false
def occupiedAt (s : Seats) (i : Int) : Bool := (s i).isSome

/-- `for i := lo; i < lo+k; i++ { s := f i; if p s { return s } }; return -1` -/
def scan (f : Nat → Int) (p : Int → Bool) : (k : Nat) → (lo : Nat) → Int
  | 0, _ => -1
  | k+1, lo => if p (f lo) then f lo else scan f p k (lo+1)

inductive Err
  | notEnoughSeats | playerNotFound | unavailableSeat | dupPlayers | dupSeats | seatTaken
  | unableInit | alreadyInit | unableRotate
deriving Repr, DecidableEq, Inhabited

inductive Res
  | ok
  | err (possible : List Err)   -- the error kinds some map-iteration order could report (usually one)
deriving Repr, DecidableEq, Inhabited

def Res.isOk : Res → Bool | .ok => true | .err _ => false

structure State where
  maxSeat : Nat
  seats : Seats := emptySeats
  dealer : Int := -1
  sb : Int := -1
  bb : Int := -1
  rule : Rule := .default
  isInit : Bool := false

def State.new (maxSeat : Nat) (rule : Rule) : State := { maxSeat := maxSeat, rule := rule }

/-- in-range keys only: `NewSeatManager` creates keys `0..MaxSeat-1`, nothing else ever adds a key
(after the range check in `AssignSeats`). -/
def inRange (st : State) (i : Int) : Bool := decide (0 ≤ i) && decide (i < st.maxSeat)

def seatAt (st : State) (i : Int) : Option SeatPlayer := if inRange st i then st.seats i else none

/-- count of keys `0..n-1` satisfying `p` -/
def countUpTo (p : Nat → Bool) : Nat → Nat
  | 0 => 0
  | n+1 => countUpTo p n + (if p n then 1 else 0)

def activeCount (n : Nat) (s : Seats) : Nat := countUpTo (fun i => activeAt s (Int.ofNat i)) n
def aliveCount (n : Nat) (s : Seats) : Nat := countUpTo (fun i => aliveAt s (Int.ofNat i)) n
def emptyCount (n : Nat) (s : Seats) : Nat := countUpTo (fun i => !(occupiedAt s (Int.ofNat i))) n

/-- lowest seat in `0..n-1` satisfying `p` (`-1` if none) -/
def firstSeat (p : Int → Bool) (n : Nat) : Int := scan (fun i => (i : Int)) p n 0

/-- `getSeatPlayer` / `GetSeatID`: seat of a player id (`-1` = not found).  With unique ids the Go map
iteration order is irrelevant. -/
def seatOf (st : State) (id : Nat) : Int :=
  firstSeat (fun i => match st.seats i with | some p => p.id == id | none => false) st.maxSeat

def hasPlayer (st : State) (id : Nat) : Bool := seatOf st id != -1

-- ---------------------------------------------------------------- circular scans

def nextAlive (st : State) (start : Int) : Int :=
  scan (fun i => Int.tmod (start + (i : Int)) (Facts.nextAliveMod st.maxSeat)) (aliveAt st.seats) (st.maxSeat - 1) 1
def nextActive (st : State) (start : Int) : Int :=
  scan (fun i => Int.tmod (start + (i : Int)) (Facts.nextActiveMod st.maxSeat)) (activeAt st.seats) (st.maxSeat - 1) 1
def prevAlive (st : State) (start : Int) : Int :=
  scan (fun i => Int.tmod (start + Facts.prevAliveAdd st.maxSeat - (i : Int)) (Facts.prevAliveMod st.maxSeat))
    (aliveAt st.seats) (st.maxSeat - 1) 1
/-- `previousOccupiedSeatID(start, shouldActive)` -/
def prevOccupied (st : State) (start : Int) (shouldActive : Bool) : Int :=
  scan (fun i => Int.tmod (start + Facts.prevOccAdd st.maxSeat - (i : Int)) (Facts.prevOccMod st.maxSeat))
    (fun s => if shouldActive then activeAt st.seats s else occupiedAt st.seats s) (st.maxSeat - 1) 1

-- ---------------------------------------------------------------- between dealer and BB

def wrapHit (n : Int) (target : Int) : (k : Nat) → (lo : Int) → Bool
  | 0, _ => false
  | k+1, lo => if Int.tmod lo n == target then true else wrapHit n target k (lo+1)

/-- `isBetweenDealerBB` for the default rule (the short-deck early return is in `isBetweenR`) -/
def isBetween (maxSeat : Nat) (dealer bb target : Int) : Bool :=
  if bb - dealer < 0 then
    (wrapHit maxSeat target (bb + maxSeat - (dealer + 1)).toNat (dealer + 1)) || (decide (target < bb) && decide (target > dealer))
  else decide (target < bb) && decide (target > dealer)

def isBetweenR (rule : Rule) (maxSeat : Nat) (dealer bb target : Int) : Bool :=
  if rule = .shortDeck then false else isBetween maxSeat dealer bb target

/-- `IsPlayerBetweenDealerBB(playerID)` -/
def playerBetween (st : State) (id : Nat) : Bool :=
  if !st.isInit then false
  else if st.rule = .shortDeck then false
  else
    let s := seatOf st id
    if s = -1 then false else isBetweenR st.rule st.maxSeat st.dealer st.bb s

def reflag (maxSeat : Nat) (dealer bb : Int) (s : Seats) : Seats := fun i =>
  match s i with
  | some p => if p.active then some p else some { p with between := isBetween maxSeat dealer bb i }
  | none => none

-- ---------------------------------------------------------------- membership

def newSeatPlayer (id : Nat) : SeatPlayer := { id := id, isIn := false, between := false, hasChips := true }

/-- place one new player (`newSeatPlayer` + the waiting flag as `AssignSeats`/`RandomAssignSeats` compute it) -/
def place (st : State) (id : Nat) (seat : Int) : State :=
  let st1 := { st with seats := setSeat st.seats seat (some (newSeatPlayer id)) }
  let b := if st.isInit then playerBetween st1 id else false
  { st1 with seats := setSeat st1.seats seat (some { newSeatPlayer id with between := b }) }

def placeAll (st : State) : List (Nat × Int) → State
  | [] => st
  | (id, seat) :: t => placeAll (place st id seat) t

def occupiedByOther (st : State) (id : Nat) (seat : Int) : Bool :=
  match seatAt st seat with | some p => p.id != id | none => false

/-- error kinds the validation loop of `AssignSeats` can report for this batch under some iteration order -/
def assignLoopErrs (st : State) (batch : List (Nat × Int)) : List Err :=
  let unavailable := batch.any (fun e => !(inRange st e.2))
  let taken := batch.any (fun e => inRange st e.2 && occupiedByOther st e.1 e.2)
  let dupSeat := batch.any (fun e1 => batch.any (fun e2 =>
      e1.1 != e2.1 && e1.2 == e2.2 && inRange st e1.2 && !(occupiedByOther st e1.1 e1.2)))
  (if unavailable then [Err.unavailableSeat] else []) ++ (if taken then [Err.seatTaken] else []) ++
  (if dupSeat then [Err.dupSeats] else [])

/-- `AssignSeats(map[playerID]seatID)`; the batch has pairwise distinct ids (it is a Go map). -/
def assign (st : State) (batch : List (Nat × Int)) : State × Res :=
  if emptyCount st.maxSeat st.seats < batch.length then (st, .err [.notEnoughSeats])
  else
    let errs := assignLoopErrs st batch
    if !errs.isEmpty then (st, .err errs)
    else if batch.any (fun e => hasPlayer st e.1) then (st, .err [.dupPlayers])
    else (placeAll st batch, .ok)

def allDistinct : List Nat → Bool
  | [] => true
  | h :: t => !(t.contains h) && allDistinct t

def allDistinctI : List Int → Bool
  | [] => true
  | h :: t => !(t.contains h) && allDistinctI t

/-- `RandomAssignSeats(ids)`; `choice` = the seats the shuffle produced (recorded from the implementation);
a choice is legal iff it has the right length and consists of pairwise distinct empty in-range seats. -/
def randomAssign (st : State) (ids : List Nat) (choice : List Int) : State × Res :=
  if ids.any (fun id => hasPlayer st id) || !(allDistinct ids) then (st, .err [.dupPlayers])
  else if emptyCount st.maxSeat st.seats < ids.length then (st, .err [.notEnoughSeats])
  else (placeAll st (ids.zip choice), .ok)

def legalChoice (st : State) (ids : List Nat) (choice : List Int) : Bool :=
  choice.length == ids.length && allDistinctI choice &&
  choice.all (fun s => inRange st s && !(occupiedAt st.seats s))

def clearSeats (s : Seats) : List Int → Seats
  | [] => s
  | k :: t => clearSeats (setSeat s k none) t

/-- `RemoveSeats(ids)` -/
def remove (st : State) (ids : List Nat) : State × Res :=
  if ids.any (fun id => !(hasPlayer st id)) then (st, .err [.playerNotFound])
  else ({ st with seats := clearSeats st.seats (ids.map (seatOf st)) }, .ok)

def updAt (s : Seats) (k : Int) (f : SeatPlayer → SeatPlayer) : Seats := fun i =>
  if i = k then (match s i with | some p => some (f p) | none => none) else s i

def joinSeats (s : Seats) : List Int → Seats
  | [] => s
  | k :: t => joinSeats (updAt s k (fun p => { p with isIn := true })) t

/-- `JoinPlayers(ids)` -/
def join (st : State) (ids : List Nat) : State × Res :=
  if ids.any (fun id => !(hasPlayer st id)) then (st, .err [.playerNotFound])
  else ({ st with seats := joinSeats st.seats (ids.map (seatOf st)) }, .ok)

/-- `UpdatePlayerHasChips(id, b)` -/
def setChips (st : State) (id : Nat) (b : Bool) : State × Res :=
  if !(hasPlayer st id) then (st, .err [.playerNotFound])
  else ({ st with seats := updAt st.seats (seatOf st id) (fun p => { p with hasChips := b }) }, .ok)

/-- `IsPlayerActive(id)` : `none` = ErrPlayerNotFound -/
def isActive (st : State) (id : Nat) : Option Bool :=
  if !(hasPlayer st id) then none else some (activeAt st.seats (seatOf st id))

-- ---------------------------------------------------------------- positions

def isHU (st : State) : Bool := st.dealer == st.sb && st.bb != st.dealer

/-- `InitPositions(isRandom)`; `choice` = the seat the shuffle put first (`none` when not random: lowest
active seat). -/
def init (st : State) (choice : Option Int) : State × Res :=
  if st.rule = .other then (st, .err [.unableInit])
  else if st.isInit then (st, .err [.alreadyInit])
  else
    let ac := activeCount st.maxSeat st.seats
    if ac < 2 then (st, .err [.unableInit])
    else
      let first := match choice with
        | some c => c
        | none => firstSeat (activeAt st.seats) st.maxSeat
      if st.rule = .default then
        let st1 := { st with bb := first }
        if ac == 2 then
          let other := firstSeat (fun i => activeAt st.seats i && i != first) st.maxSeat
          -- the Go loop leaves the seats untouched if it finds no other active seat
          if other = -1 then ({ st1 with isInit := true }, .ok)
          else ({ st1 with dealer := other, sb := other, isInit := true }, .ok)
        else
          let sb := prevOccupied st1 st1.bb true
          if sb = -1 then (st1, .err [.unableInit])
          else
            let st2 := { st1 with sb := sb }
            let d := prevOccupied st2 st2.sb true
            if d = -1 then (st2, .err [.unableInit])
            else ({ st2 with dealer := d, isInit := true }, .ok)
      else
        ({ st with dealer := first, sb := -1, bb := -1, isInit := true }, .ok)

def legalInitChoice (st : State) (choice : Option Int) : Bool :=
  match choice with
  | none => true
  | some c => inRange st c && activeAt st.seats c

/-- `rotatePositions`, default rule -/
def rotateDefault (st : State) : State × Res :=
  let prevHU := isHU st
  let prevSB := st.sb
  let prevBB := st.bb
  let newBB := nextAlive st prevBB
  let seats1 := reflag st.maxSeat prevSB newBB st.seats
  let st1 := { st with seats := seats1 }
  let ac := activeCount st.maxSeat seats1
  if ac < 2 then (st1, .err [.unableRotate])
  else
    let st2 := { st1 with bb := newBB }
    if ac == 2 then
      let d := nextActive st2 newBB
      ({ st2 with dealer := d, sb := d }, .ok)
    else
      let st3 := { st2 with sb := prevBB }
      if prevHU then
        let d := prevAlive st3 st3.sb
        let seats2 := reflag st.maxSeat d newBB st3.seats
        ({ st3 with seats := seats2, dealer := d }, .ok)
      else ({ st3 with dealer := prevSB }, .ok)

/-- `rotatePositions`, short deck -/
def rotateShort (st : State) : State × Res :=
  if activeCount st.maxSeat st.seats < 2 then (st, .err [.unableRotate])
  else ({ st with dealer := nextActive st st.dealer, sb := -1, bb := -1 }, .ok)

/-- `RotatePositions()` -/
def rotate (st : State) : State × Res :=
  if !st.isInit then (st, .err [.unableRotate])
  else if st.rule = .default then rotateDefault st
  else if st.rule = .shortDeck then rotateShort st
  else (st, .err [.unableRotate])

/-- `ListPlayerSeatsFromDealer()` -/
def fromDealer (st : State) : List (Option SeatPlayer) :=
  (List.range st.maxSeat).map (fun (k : Nat) => seatAt st (Int.tmod (st.dealer + (k : Int)) st.maxSeat))

/-- a seat map given as a table (seat 0 first) -/
def seatsOfList (tbl : List (Option SeatPlayer)) : Seats :=
  fun i => if 0 ≤ i then tbl.getD i.toNat none else none

/-- freeze the seat function into a table (keeps closures shallow in long driver runs) -/
def normalize (st : State) : State :=
  let tbl := (List.range st.maxSeat).map (fun (k : Nat) => st.seats (k : Int))
  { st with seats := fun i => if 0 ≤ i then (tbl.getD i.toNat none) else none }

end SM
