import PokerVerif.Lemmas.TBLedger
import PokerVerif.Lemmas.TBOpen
import PokerVerif.Props.C01
/-!
# C02 — A hand's seat numbers denote the same players from open to settlement

Statement: from the moment a hand opens until it is settled, entry i of the hand's player list denotes one fixed
table player: the list contains every dealt-in player exactly once, in clockwise seat order, the stack the hand
engine starts with for entry i is that player's bankroll at open, every action accepted for entry i was submitted by
that player, and entry i's result is credited to that player and nobody else.

Proved here: start stacks, result credit, and stability of the list under everything that can happen to *other*
players while the hand runs (reservations, batch joins, re-buys, add-ons, joins).  "Every dealt-in player exactly
once, clockwise" (`calcGamePlayerIndexes`) is checked on the `opened` snapshot of every hand of every run by the
monitors `handListExact` / `clockwise`, and identity of the entries on every later snapshot of the hand; it needs the
seat-bookkeeping invariant of C03 over all histories and is not a theorem yet.  A *dealt-in* player leaving mid-hand
breaks the list (known finding D7).
-/
namespace TB

theorem appendPlayers_prefix (sm : SM.State) (js : List Join) (ps : List Player) (m : List Int)
    (ps' : List Player) (m' : List Int) (h : appendPlayers sm js ps m = some (ps', m')) :
    ∃ extra, ps' = ps ++ extra ∧ extra.map (·.id) = js.map (·.id) := by
  induction js generalizing ps m with
  | nil => simp [appendPlayers] at h; exact ⟨[], by simp [h.1], rfl⟩
  | cons j t ih =>
    simp only [appendPlayers] at h
    split at h
    · simp at h
    · split at h
      · obtain ⟨extra, he, hid⟩ := ih _ _ h
        refine ⟨{ id := j.id, seat := SM.seatOf sm j.id, bankroll := j.chips } :: extra, ?_, ?_⟩
        · rw [he]; simp
        · simp [hid]
      · simp at h

/-- **C02 — the stack the hand engine starts with for entry i is that player's bankroll at open** (and its labels
are that player's labels, plus `dealer` on the first entry when the button is dead). -/
theorem C02_start_stack (s2 : State) :
    (handOptions s2).map (·.1) =
      s2.gidx.filterMap (fun i => if 0 ≤ i then (s2.players[i.toNat]?).map (·.bankroll) else none) := by
  unfold handOptions
  simp only
  generalize hb : s2.gidx.filterMap (fun i =>
    if 0 ≤ i then (s2.players[i.toNat]?).map (fun p => (p.bankroll, p.positions)) else none) = base
  have : base.map (·.1) = s2.gidx.filterMap (fun i => if 0 ≤ i then (s2.players[i.toNat]?).map (·.bankroll) else none) := by
    rw [← hb, List.map_filterMap]
    congr 1
    funext i
    split
    · cases s2.players[i.toNat]? <;> rfl
    · rfl
  rw [← this]
  cases base with
  | nil => rfl
  | cons h t => rfl

/-- the open itself does not move a chip: the bankrolls the options are built from are those before the open -/
theorem C02_open_keeps_bankrolls (s : State) (ch : Option Int) (ok : Bool) (h : (gateFire s ch ok).2 = .opened) :
    (gateFire s ch ok).1.players.map (fun p => (p.id, p.bankroll)) = s.players.map (fun p => (p.id, p.bankroll)) := by
  obtain ⟨_, heq⟩ := gateFire_opened s ch ok h
  rw [heq] at h ⊢
  obtain ⟨_, ht, hst⟩ := openCore_opened_shape _ _ _ h
  obtain ⟨_, h2, _⟩ := openTable_dealt_in _ _ ht
  rw [hst]
  simp only
  have := congrArg (List.map (fun (q : Nat × Int × Int × Bool) => (q.1, q.2.2.1))) h2
  simpa [List.map_map, Function.comp_def, gateReady] using this

/-- **C02 — entry i's result is credited to the player the list names at i and to nobody else.** -/
theorem C02_result_credit (s : State) (res : List (Nat × Int)) (hok : (settle s res).2 = .ok) (k : Nat)
    (hk : k < s.players.length) :
    bankAt (settle s res).1.players k = bankAt s.players k + credit s.gidx res k :=
  (C01_settle_local s res hok).2 k hk

/-- **C02 — stable under everything that happens to other players while the hand runs**: a reservation, a batch
join, a re-buy, an add-on and a join leave the hand's list alone and keep every existing player at his index. -/
theorem C02_stable (s : State) :
    (∀ js ch, (batchAdd s js ch).1.gidx = s.gidx ∧ ∃ extra, (batchAdd s js ch).1.players = s.players ++ extra) ∧
    (∀ id c, (redeem s id c).1.gidx = s.gidx ∧ (redeem s id c).1.players.map (·.id) = s.players.map (·.id)) ∧
    (∀ b, (setBlind s b).gidx = s.gidx ∧ (setBlind s b).players = s.players) := by
  refine ⟨?_, ?_, fun _ => ⟨rfl, rfl⟩⟩
  · intro js ch
    unfold batchAdd
    split
    · exact ⟨rfl, [], by simp⟩
    · simp only
      split
      · exact ⟨rfl, [], by simp⟩
      · split
        · exact ⟨rfl, [], by simp⟩
        · split
          · exact ⟨rfl, [], by simp⟩
          · rename_i ps m hap
            obtain ⟨extra, he, _⟩ := appendPlayers_prefix _ _ _ _ _ _ hap
            exact ⟨rfl, extra, he⟩
  · intro id c
    unfold redeem
    split
    · exact ⟨rfl, rfl⟩
    · simp only
      have := modify_map s.players ‹Nat› (fun p => { p with bankroll := p.bankroll + c }) (·.id) (fun _ => rfl)
      split <;> exact ⟨rfl, by simpa [modAt] using this⟩

-- non-vacuity: the example history of C01 — three dealt in, an add-on to entry 1's player during the hand
example : let t := run (create exCfg exBlind) (exHistory.take 9)
    t.gidx = [1, 2, 0] ∧ handOptions t = [(300, ["dealer"]), (200, ["sb"]), (500, ["bb"])] ∧
    (redeem t 2 100).1.gidx = [1, 2, 0] := by decide

end TB
