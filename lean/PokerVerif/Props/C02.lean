import PokerVerif.Lemmas.TBGidx
import PokerVerif.Lemmas.TBLedger
import PokerVerif.Lemmas.TBOpen
import PokerVerif.Lemmas.TBIndex
import PokerVerif.Lemmas.TBSeatsRun
import PokerVerif.Props.C01
import PokerVerif.Lemmas.TBLeaveList
/-!
# C02 — A hand's seat numbers denote the same players from open to settlement

Statement: from the moment a hand opens until it is settled, entry i of the hand's player list denotes one fixed
table player: the list contains every dealt-in player exactly once, in clockwise seat order, the stack the hand
engine starts with for entry i is that player's bankroll at open, every action accepted for entry i was submitted by
that player, and entry i's result is credited to that player and nobody else.

Proved here: start stacks, result credit, stability of the list under everything that can happen to *other*
players while the hand runs (reservations, batch joins, re-buys, add-ons, joins), and — `C02_hand_list` — that the list
built by `calcGamePlayerIndexes` names exactly the dealt-in players, each once, clockwise from the start seat, for every
table whose seat map and player list describe the same seating (`MapWF`; that this holds in every reachable state is the
seat-bookkeeping invariant of C03, monitored on every observed state as `c03Inv` and not yet lifted over all histories).
The same facts are checked on the `opened` snapshot of every hand of every run (`handListExact`, `clockwise`), and the
identity of the entries on every later snapshot of the hand.  A *dealt-in* player leaving mid-hand breaks the list
(known finding D7).
-/
namespace TB

theorem appendPlayers_prefix (sm : SM.State) (js : List Join) (ps : List Player) (m : List Int)
    (ps' : List Player) (m' : List Int) (h : appendPlayers sm js ps m = some (ps', m')) :
    ∃ extra, ps' = ps ++ extra ∧ extra.map (·.id) = js.map (·.id) := by
  induction js generalizing ps m with
  | nil => simp [appendPlayers] at h; exact ⟨[], by simp [h.1], rfl⟩
  | cons j t ih =>
    simp only [appendPlayers] at h
    split at h
    · simp at h
    · split at h
      · obtain ⟨extra, he, hid⟩ := ih _ _ h
        refine ⟨{ id := j.id, seat := SM.seatOf sm j.id, bankroll := j.chips } :: extra, ?_, ?_⟩
        · rw [he]; simp
        · simp [hid]
      · simp at h

/-- **C02 — the stack the hand engine starts with for entry i is that player's bankroll at open** (and its labels
are that player's labels, plus `dealer` on the first entry when the button is dead). -/
theorem C02_start_stack (s2 : State) :
    (handOptions s2).map (·.1) =
      s2.gidx.filterMap (fun i => if 0 ≤ i then (s2.players[i.toNat]?).map (·.bankroll) else none) := by
  unfold handOptions
  simp only
  generalize hb : s2.gidx.filterMap (fun i =>
    if 0 ≤ i then (s2.players[i.toNat]?).map (fun p => (p.bankroll, p.positions)) else none) = base
  have : base.map (·.1) = s2.gidx.filterMap (fun i => if 0 ≤ i then (s2.players[i.toNat]?).map (·.bankroll) else none) := by
    rw [← hb, List.map_filterMap]
    congr 1
    funext i
    split
    · cases s2.players[i.toNat]? <;> rfl
    · rfl
  rw [← this]
  cases base with
  | nil => rfl
  | cons h t => rfl

/-- the open itself does not move a chip: the bankrolls the options are built from are those before the open -/
theorem C02_open_keeps_bankrolls (s : State) (ch : Option Int) (ok : Bool) (h : (gateFire s ch ok).2 = .opened) :
    (gateFire s ch ok).1.players.map (fun p => (p.id, p.bankroll)) = s.players.map (fun p => (p.id, p.bankroll)) := by
  obtain ⟨_, heq⟩ := gateFire_opened s ch ok h
  rw [heq] at h ⊢
  obtain ⟨_, ht, hst⟩ := openCore_opened_shape _ _ _ h
  obtain ⟨_, h2, _⟩ := openTable_dealt_in _ _ ht
  rw [hst]
  simp only
  have := congrArg (List.map (fun (q : Nat × Int × Int × Bool) => (q.1, q.2.2.1))) h2
  simpa [List.map_map, Function.comp_def, gateReady] using this

/-- **C02 — entry i's result is credited to the player the list names at i and to nobody else.** -/
theorem C02_result_credit (s : State) (res : List (Nat × Int)) (hok : (settle s res).2 = .ok) (k : Nat)
    (hk : k < s.players.length) :
    bankAt (settle s res).1.players k = bankAt s.players k + credit s.gidx res k :=
  (C01_settle_local s res hok).2 k hk

/-- `calcLeavePlayers` re-maps the hand's player indexes through the player ids on *every* departure (regenerated from
table_engine_internal.go) — as `TB.batchRemove` does.  D30 (fixed): it did so only while the table status was a hand
status; a hand stopped by `PauseTable` / `CloseTable` kept stale entries after a departure (the next departure indexed
the player list out of range, a settlement would have credited the neighbours). -/
theorem C02_remap_fact : Facts.leaveRemapGuard = "always: range te.table.State.GamePlayerIndexes" := by decide

/-- **C02 — a departure keeps the hand's list denoting the same players**: in every state reachable from `CreateTable`
(recorded seat draws legal), after a successful `PlayersLeave` the hand's list — read against the new, compacted player
list — names exactly the players it named before, minus those who left, in the same order; whatever the table status
(also after a pause or a close in the middle of the hand: D30). -/
theorem C02_leave_keeps_entries (cfg : Meta) (b : Blind) (evs : List Event) (hl : DrawsLegal (create cfg b) evs)
    (ids : List Nat) (hok : (batchRemove (run (create cfg b) evs) ids).2 = .ok) :
    let t := run (create cfg b) evs
    (batchRemove t ids).1.gidx.filterMap (entryId (batchRemove t ids).1.players) =
      (t.gidx.filterMap (entryId t.players)).filter (fun id => !(ids.contains id)) :=
  batchRemove_entries _ ids (run_inv3 _ evs (create_inv3 cfg b) hl).2.2 hok

-- non-vacuity: a three-player hand, the table is paused, the player listed first (not in the hand's first entry) leaves
example :
    let t := run (create exCfg exBlind)
      [.reserve { id := 1, chips := 500, seat := 0 } [], .reserve { id := 2, chips := 300, seat := 2 } [],
       .reserve { id := 3, chips := 200, seat := 3 } [], .join 2, .join 3, .start, .setup 0 [(2, 0), (3, 1)],
       .fire (some 3) true, .pause]
    t.gidx.filterMap (entryId t.players) = [2, 3] ∧ (batchRemove t [1]).2 = .ok ∧
    (batchRemove t [1]).1.gidx.filterMap (entryId (batchRemove t [1]).1.players) = [2, 3] ∧
    t.gidx ≠ (batchRemove t [1]).1.gidx := by decide

/-- who is admitted to the hand's list is decided by the `IsParticipated` flag `openGame` has just refreshed — the same
snapshot of "dealt in" the rest of the open works with — in all three loops of `calcGamePlayerIndexes` (regenerated from
table_engine_internal.go); `TB.gameIndexes` filters by `partOf`, the same flag -/
theorem C02_list_membership_fact : Facts.handListTests =
    ["players[playerIdx].IsParticipated", "playerIdx >= 0 && players[playerIdx].IsParticipated",
     "playerIdx >= 0 && players[playerIdx].IsParticipated"] := by decide

/-- **C02 — stable under everything that happens to other players while the hand runs**: a reservation, a batch
join, a re-buy, an add-on and a join leave the hand's list alone and keep every existing player at his index. -/
theorem C02_stable (s : State) :
    (∀ js ch, (batchAdd s js ch).1.gidx = s.gidx ∧ ∃ extra, (batchAdd s js ch).1.players = s.players ++ extra) ∧
    (∀ id c, (redeem s id c).1.gidx = s.gidx ∧ (redeem s id c).1.players.map (·.id) = s.players.map (·.id)) ∧
    (∀ b, (setBlind s b).gidx = s.gidx ∧ (setBlind s b).players = s.players) := by
  refine ⟨?_, ?_, fun _ => ⟨rfl, rfl⟩⟩
  · intro js ch
    unfold batchAdd
    split
    · exact ⟨rfl, [], by simp⟩
    · simp only
      split
      · exact ⟨rfl, [], by simp⟩
      · split
        · exact ⟨rfl, [], by simp⟩
        · split
          · exact ⟨rfl, [], by simp⟩
          · rename_i ps m hap
            obtain ⟨extra, he, _⟩ := appendPlayers_prefix _ _ _ _ _ _ hap
            exact ⟨rfl, extra, he⟩
  · intro id c
    unfold redeem
    split
    · exact ⟨rfl, rfl⟩
    · simp only
      have := modify_map s.players ‹Nat› (fun p => { p with bankroll := p.bankroll + c }) (·.id) (fun _ => rfl)
      split <;> exact ⟨rfl, by simpa [modAt] using this⟩

/-- **C02 — the hand's list contains every dealt-in player exactly once, in clockwise seat order** (default rule; for
every seat layout, button position incl. dead button / dead small blind, any sitting-out or busted players in between):
whenever `openGame` succeeds on a table whose seat map and player list describe the same seating (`MapWF`, the
seat-bookkeeping invariant of C03) and a start seat exists (`handStart ≠ -1`: the dealer is dealt in, or some dealt-in
seat precedes the blinds), the list `GamePlayerIndexes` of the opened table
* names exactly the dealt-in players (`pi ∈ gidx ↔ players[pi]` is dealt in),
* names nobody twice,
* and is the clockwise walk over all seats from the start seat, keeping the dealt-in ones. -/
theorem C02_hand_list (s : State) (sm : SM.State) (hop : (openTable s sm).2 = .opened)
    (hrule : s.cfg.rule ≠ .shortDeck) (wf : MapWF s.seatMap s.players) (hn : 0 < s.seatMap.length)
    (hstart : handStart { s with sm := sm } (openTable s sm).1.players ≠ -1) :
    (∀ pi, pi ∈ (openTable s sm).1.gidx ↔
      (0 ≤ pi ∧ ∃ p, (openTable s sm).1.players[pi.toNat]? = some p ∧ p.participated = true)) ∧
    (openTable s sm).1.gidx.Nodup ∧
    (openTable s sm).1.gidx =
      (walkSeats s.seatMap.length (handStart { s with sm := sm } (openTable s sm).1.players)).filterMap
        (pickAt s.seatMap (partOf (openTable s sm).1.players)) := by
  obtain ⟨ps, gi, ps2, hm, hgi, hap, heq⟩ := openTable_opened_shape s sm hop
  rw [heq] at hstart ⊢
  simp only [openedState] at hstart ⊢
  -- the three lists agree on seats and on who is dealt in
  have seats1 := mapM_keeps (·.seat) (fun _ _ => rfl) sm _ _ hm
  have seats2 := assignPositions_map (·.seat) (fun _ _ => rfl) sm ps ps2 hap
  have part2 := assignPositions_map (·.participated) (fun _ _ => rfl) sm ps ps2 hap
  have both2 := assignPositions_map (fun p => (p.participated, p.seat)) (fun _ _ => rfl) sm ps ps2 hap
  have wfps : MapWF s.seatMap ps := MapWF.of_seats _ _ _ seats1 wf
  have hst : handStart { s with sm := sm } ps2 = handStart { s with sm := sm } ps := handStart_congr _ _ _ both2
  rw [hst] at hstart ⊢
  have hpo : partOf ps2 = partOf ps := funext (partOf_congr ps ps2 part2)
  rw [hpo]
  obtain ⟨h1, h2, h3⟩ := gameIndexes_exact { s with sm := sm } ps gi hrule wfps hn hstart hgi
  refine ⟨?_, h2, h3⟩
  intro pi
  rw [h1 pi]
  have hel := getElem?_of_map_eq (·.participated) ps ps2 part2 pi.toNat
  constructor
  · rintro ⟨h0, p, hp, hpp⟩
    rw [hp] at hel
    cases hp2 : ps2[pi.toNat]? with
    | none => rw [hp2] at hel; cases hel
    | some p2 =>
      rw [hp2] at hel
      simp only [Option.map_some] at hel
      exact ⟨h0, p2, rfl, (Option.some.inj hel).trans hpp⟩
  · rintro ⟨h0, p2, hp2, hpp⟩
    rw [hp2] at hel
    cases hp : ps[pi.toNat]? with
    | none => rw [hp] at hel; cases hel
    | some p =>
      rw [hp] at hel
      simp only [Option.map_some] at hel
      exact ⟨h0, p, rfl, (Option.some.inj hel).symm.trans hpp⟩

/-- **C02 (partial) — … in every reachable state**: the same for the table reached by any history whose arrivals were given
seats the table showed free (`ArrivalsOK`, see `C03_bookkeeping_partial`): no separate consistency hypothesis is needed -/
theorem C02_hand_list_reachable_partial (cfg : Meta) (b : Blind) (evs : List Event) (ha : ArrivalsOK (create cfg b) evs)
    (sm : SM.State) (hop : (openTable (run (create cfg b) evs) sm).2 = .opened)
    (hrule : (run (create cfg b) evs).cfg.rule ≠ .shortDeck) (hn : 0 < (run (create cfg b) evs).seatMap.length)
    (hstart : handStart { run (create cfg b) evs with sm := sm } (openTable (run (create cfg b) evs) sm).1.players ≠ -1) :
    (∀ pi, pi ∈ (openTable (run (create cfg b) evs) sm).1.gidx ↔
      (0 ≤ pi ∧ ∃ p, (openTable (run (create cfg b) evs) sm).1.players[pi.toNat]? = some p ∧ p.participated = true)) ∧
    (openTable (run (create cfg b) evs) sm).1.gidx.Nodup :=
  let w := C02_hand_list (run (create cfg b) evs) sm hop hrule
    (run_booked _ evs (create_booked cfg b) ha).1.1 hn hstart
  ⟨w.1, w.2.1⟩

/-- **C02 — … for every history**: in the table reached from `CreateTable` by *any* history of the 19 event kinds (only
hypothesis: the recorded random seat draws are draws the seat manager could have made — `DrawsLegal`; the seat-bookkeeping
invariant is `C03_for_every_history`), a successful open yields a hand list that names exactly the dealt-in players, nobody
twice, and is the clockwise walk from the start seat keeping the dealt-in ones. -/
theorem C02_hand_list_for_every_history (cfg : Meta) (b : Blind) (evs : List Event) (hl : DrawsLegal (create cfg b) evs)
    (sm : SM.State) (hop : (openTable (run (create cfg b) evs) sm).2 = .opened)
    (hrule : (run (create cfg b) evs).cfg.rule ≠ .shortDeck) (hn : 0 < (run (create cfg b) evs).seatMap.length)
    (hstart : handStart { run (create cfg b) evs with sm := sm } (openTable (run (create cfg b) evs) sm).1.players ≠ -1) :
    (∀ pi, pi ∈ (openTable (run (create cfg b) evs) sm).1.gidx ↔
      (0 ≤ pi ∧ ∃ p, (openTable (run (create cfg b) evs) sm).1.players[pi.toNat]? = some p ∧ p.participated = true)) ∧
    (openTable (run (create cfg b) evs) sm).1.gidx.Nodup ∧
    (openTable (run (create cfg b) evs) sm).1.gidx =
      (walkSeats (run (create cfg b) evs).seatMap.length
        (handStart { run (create cfg b) evs with sm := sm } (openTable (run (create cfg b) evs) sm).1.players)).filterMap
        (pickAt (run (create cfg b) evs).seatMap (partOf (openTable (run (create cfg b) evs) sm).1.players)) :=
  C02_hand_list (run (create cfg b) evs) sm hop hrule
    (run_inv3 _ evs (create_inv3 cfg b) hl).1.1.1 hn hstart

-- non-vacuity of `C02_hand_list`: the state of the example history just before its first hand opens is consistent, the
-- open succeeds, a start seat exists — and the list is the three dealt-in players clockwise from the dealer
example : let t := run (create exCfg exBlind) (exHistory.take 8)
    mapWFb t.seatMap t.players = true ∧ 0 < t.seatMap.length ∧ t.cfg.rule ≠ .shortDeck ∧
    (openTable t (SM.init t.sm (some 0)).1).2 = .opened ∧
    handStart { t with sm := (SM.init t.sm (some 0)).1 } (openTable t (SM.init t.sm (some 0)).1).1.players ≠ -1 ∧
    (openTable t (SM.init t.sm (some 0)).1).1.gidx = [1, 2, 0] := by decide

-- non-vacuity: the example history of C01 — three dealt in, an add-on to entry 1's player during the hand
example : let t := run (create exCfg exBlind) (exHistory.take 9)
    t.gidx = [1, 2, 0] ∧ handOptions t = [(300, ["dealer"]), (200, ["sb"]), (500, ["bb"])] ∧
    (redeem t 2 100).1.gidx = [1, 2, 0] := by decide

end TB
