import PokerVerif.Lemmas.OGMInv
/-!
# C09 — The open-game gate fires once, and only when everyone is ready or timed out

Statement: after a set-up naming the expected participants, the ready callback fires exactly once, never before
every participant has signalled ready unless the configured timeout has elapsed, and reports that set-up's game count
with all participants ready; a new set-up supersedes an unfinished one (the old one never fires), signals from
unknown participants are rejected with an error, and repeated signals change nothing.  A gate rebuilt from a saved
state behaves like the original.

The model makes the ReadyGroup's asynchronous steps explicit (`consume`, `complete`).  Theorems quantify over *every*
sequence of external calls and internal steps of any length that is admissible: a `Setup` happens only when the
group is quiescent (no queued action, no pending completion) and the participants' indexes are pairwise distinct.
Without those two hypotheses the statement is false of the code — three kernel-checked schedules below (known
findings D13, D18).  The table engine only sets the gate up from `continueGame` / `SetUpTableGame`, a whole hand after
the previous completion ran.  (*partial*: the memory-level behaviour of syncsaga — unsynchronised map replacement in
`ResetParticipants`, closing a channel a sender may be using — is outside the model.)
-/
namespace OGM

/-- **C09 — never before every participant has signalled, unless timed out**: whenever a completion is pending,
every participant of the current set-up has signalled since that set-up, or the timeout has elapsed since. -/
theorem C09_not_early (evs : List Ev) (ha : Adm {} evs) (hp : 0 < (run {} evs).pending) :
    (run {} evs).timedOut = true ∨ ∀ p ∈ (run {} evs).parts, p.id ∈ (run {} evs).signalled :=
  (inv_run {} evs inv_init ha).doneOK (Or.inl hp)

/-- **C09 — fires at most once per set-up** (pending completions included). -/
theorem C09_once (evs : List Ev) (ha : Adm {} evs) :
    (run {} evs).pending + (run {} evs).firedNow.length ≤ 1 := by
  have := (inv_run {} evs inv_init ha).onceOK
  split at this <;> omega

/-- **C09 — every fire reports the current set-up's game count, names exactly its participants and shows them all
ready** (hence a superseded set-up never fires: right after a `Setup` the list of fires of the current set-up is
empty, and everything that fires later carries the new count). -/
theorem C09_reports (evs : List Ev) (ha : Adm {} evs) :
    ∀ e ∈ (run {} evs).firedNow, e.1 = (run {} evs).gameCount ∧
      e.2.map (·.id) = (run {} evs).parts.map (·.id) ∧ e.2.all (·.ready) = true :=
  (inv_run {} evs inv_init ha).reportOK

theorem C09_supersede (s : St) (gc : Nat) (ps : List (Nat × Int)) :
    (step s (.setup gc ps)).firedNow = [] ∧ (step s (.setup gc ps)).gameCount = gc ∧
    (step s (.setup gc ps)).parts.map (·.id) = ps.map (·.1) := by
  simp [step, List.map_map, Function.comp_def]

/-- **C09 — a signal from an unknown participant is rejected and changes nothing.** -/
theorem C09_unknown (s : St) (id : Nat) (h : knows s id = false) : step s (.ready id) = s := by
  unfold knows at h
  have : s.parts.find? (fun p => p.id == id) = none := by
    rw [List.find?_eq_none]
    intro p hp
    have := List.any_eq_false.mp h p hp
    simpa using this
  simp [step, this]

/-- a repeated signal changes nothing observable once the first one has been consumed: the participant is ready
already, the group's entry is set already, and nothing completes twice (`C09_once`) -/
theorem C09_repeat_flags (s : St) (id : Nat) :
    (step (step s (.ready id)) (.ready id)).parts = (step s (.ready id)).parts := by
  cases hf : s.parts.find? (fun p => p.id == id) with
  | none => simp [step, hf]
  | some p =>
    have hpid : p.id = id := by have := List.find?_some hf; simpa using this
    have hmem : p ∈ s.parts := List.mem_of_find?_eq_some hf
    have hf2 : (s.parts.map (fun q => if (q.id == id) = true then { q with ready := true } else q)).find? (fun p => p.id == id) ≠ none := by
      intro hn
      rw [List.find?_eq_none] at hn
      have := hn (if (p.id == id) = true then { p with ready := true } else p) (List.mem_map.mpr ⟨p, hmem, rfl⟩)
      simp [hpid] at this
    cases hf3 : (s.parts.map (fun q => if (q.id == id) = true then { q with ready := true } else q)).find? (fun p => p.id == id) with
    | none => exact absurd hf3 hf2
    | some p2 =>
      simp only [step, hf, hf3, List.map_map]
      apply List.map_congr_left
      intro q _
      simp only [Function.comp]
      by_cases hq : (q.id == id) = true <;> simp [hq]

-- ------------------------------------------------------------------------------------------------
-- without the two hypotheses the statement fails: the schedules the stress run found, as model-level witnesses
-- ------------------------------------------------------------------------------------------------

/-- D18a: the old completion runs after the next `Setup` and reports set-up 2 although nobody of it signalled -/
theorem C09_not_early_fails_on_witness_stale_completion :
    (run {} w1).fired.map (·.1) = [2] ∧ fireOK (run {} (w1.dropLast)) = false := by decide
/-- D18b: a queued action of set-up 1 lands on index 0 of set-up 2: fires after one of two signalled -/
theorem C09_not_early_fails_on_witness_stale_action :
    (run {} w2).fired.map (·.1) = [2] ∧ fireOK (run {} (w2.dropLast)) = false := by decide
/-- D13: two ids sharing one index alias in the ReadyGroup -/
theorem C09_not_early_fails_on_witness_shared_index :
    (run {} w3).fired.map (·.1) = [1] ∧ fireOK (run {} (w3.dropLast)) = false := by decide

/-- D24: a gate rebuilt from a saved state in which everybody was ready (it had fired already) fires again on a repeated
signal — the original would not: "a gate rebuilt from a saved state behaves like the original" fails here, because
`NewOpenGameManagerFromState` re-adds the ready participants straight into the group's map and the group's
completed flag is not part of the saved state -/
def wRebuilt : List Ev :=
  [.setup 1 [(10, 0), (11, 1)], .ready 10, .ready 11, .consume, .consume, .complete]

theorem C09_from_state_fails_on_witness :
    -- the original: fired once, a repeated signal changes nothing
    (run {} wRebuilt).fired.length = 1 ∧ (drain (step (run {} wRebuilt) (.ready 10))).fired.length = 1 ∧
    -- rebuilt from its saved state: the same repeated signal fires
    (drain (step (step (run {} wRebuilt) (.fromState 1 [(10, 0, true), (11, 1, true)])) (.ready 10))).fired.length = 1 ∧
    (step (run {} wRebuilt) (.fromState 1 [(10, 0, true), (11, 1, true)])).fired.length = 0 := by decide

-- non-vacuity: an admissible history that really reaches a pending completion, and one that fires
example : Adm {} [.setup 1 [(10, 0), (11, 1)], .ready 11, .ready 10, .consume, .consume] ∧
    0 < (run {} [.setup 1 [(10, 0), (11, 1)], .ready 11, .ready 10, .consume, .consume]).pending := by
  refine ⟨?_, by decide⟩
  simp [Adm, EvOK, Quiet]

example : Adm {} [.setup 3 [(10, 0), (11, 1)], .ready 11, .timeout, .consume, .consume, .complete] ∧
    (run {} [.setup 3 [(10, 0), (11, 1)], .ready 11, .timeout, .consume, .consume, .complete]).firedNow.map (·.1) = [3] := by
  refine ⟨?_, by decide⟩
  simp [Adm, EvOK, Quiet]

end OGM
