import PokerVerif.Lemmas.SMRotate
import PokerVerif.Lemmas.SMReach
/-!
# C04 — Button and blinds move by the dead-button rule for every history

Statement (properties.jsonl): between consecutive hands the big blind moves to the next seated-in player with
chips clockwise (nobody is skipped, it never moves backwards) and the big-blind seat always holds a dealt-in
player; with three or more dealt in, SB = previous BB seat and dealer = previous SB seat even if those seats are
now empty or busted (coming from heads-up the dealer is the nearest live seat before the small blind) and the
three seats are distinct; with exactly two dealt in, dealer and small blind are the other player.  A refused
rotation moves nothing and is refused only when fewer than two seated-in players have chips; short-deck tables
pass the dealer to the next dealt-in seat.

All theorems are about `SM.rotate` / `SM.init` (the model of `seat_manager`), for *every* seat function, seat
count and button position; the conclusions are the `SMSpec` predicates that the run-time monitor evaluates on
the implementation.  The modulus of the circular scans is whatever `Facts` says the source contains now.
-/
namespace SM
open SMSpec

-- ================================================================================================
-- Property theorems (default rule).  Hypotheses: the old big-blind seat is a seat of the table.
-- ================================================================================================

/-- **C04 — the big-blind seat always holds a dealt-in player.** -/
theorem C04_bb_dealt_in (st : State) (hbb0 : 0 ≤ st.bb) (hbbn : st.bb < st.maxSeat)
    (hok : (rotateDefault st).2 = .ok) : bbDealtIn (rotateDefault st).1 = true := by
  rcases Nat.lt_or_ge (activeCount st.maxSeat (seats1 st)) 2 with hlt | hge
  · rw [rotate_refused st hlt] at hok; simp at hok
  · obtain ⟨_, h0, hn, _, _, hact⟩ := newBB_of_two_active st hbb0 hbbn hge
    rcases Nat.eq_or_lt_of_le hge with heq | hgt
    · rw [rotate_hu st heq.symm]; simp [bbDealtIn, validSeat, h0, hn, hact]
    · cases hu : isHU st
      · rw [rotate_ring st hgt hu]; simp [bbDealtIn, validSeat, h0, hn, hact]
      · rw [rotate_ring_hu st hgt hu]
        simp [bbDealtIn, validSeat, h0, hn, reflag_keeps_active _ _ _ _ _ hact]

/-- **C04 — the big blind moves to the next seated-in player with chips clockwise: nobody is skipped, it never
moves backwards** (the conclusion is the spec's minimal-positive-clockwise-offset search). -/
theorem C04_bb_next (st : State) (hbb0 : 0 ≤ st.bb) (hbbn : st.bb < st.maxSeat)
    (hok : (rotateDefault st).2 = .ok) : bbNext st (rotateDefault st).1 = true := by
  rcases Nat.lt_or_ge (activeCount st.maxSeat (seats1 st)) 2 with hlt | hge
  · rw [rotate_refused st hlt] at hok; simp at hok
  · obtain ⟨hne, _, _, _, _, _⟩ := newBB_of_two_active st hbb0 hbbn hge
    have hspec := nextAlive_eq_spec st st.bb hbb0
    rcases Nat.eq_or_lt_of_le hge with heq | hgt
    · rw [rotate_hu st heq.symm]; simp [bbNext, ← hspec, hne]
    · cases hu : isHU st
      · rw [rotate_ring st hgt hu]; simp [bbNext, ← hspec, hne]
      · rw [rotate_ring_hu st hgt hu]; simp [bbNext, ← hspec, hne]

/-- **C04 — with exactly two dealt in, dealer and small blind are the other player.** -/
theorem C04_hu (st : State) (hbb0 : 0 ≤ st.bb) (hbbn : st.bb < st.maxSeat)
    (hok : (rotateDefault st).2 = .ok) (h2 : dealtIn (rotateDefault st).1 = 2) :
    huSeats (rotateDefault st).1 = true := by
  rw [dealtIn_eq] at h2
  rcases Nat.lt_or_ge (activeCount st.maxSeat (seats1 st)) 2 with hlt | hge
  · rw [rotate_refused st hlt] at hok; simp at hok
  · obtain ⟨_, h0, hn, _, _, _⟩ := newBB_of_two_active st hbb0 hbbn hge
    rcases Nat.eq_or_lt_of_le hge with heq | hgt
    · obtain ⟨j, hjn, hpj, hjne⟩ := other_of_two hge (nextAlive st st.bb)
      have hex := nextActive_exists { st with seats := seats1 st, bb := nextAlive st st.bb } (nextAlive st st.bb) h0 hn
        (Int.ofNat j) (by simp) (by simp; omega) hjne hpj
      obtain ⟨d0, dn, dact, dne⟩ := nextActive_props { st with seats := seats1 st, bb := nextAlive st st.bb }
        (nextAlive st st.bb) h0 hn hex
      rw [rotate_hu st heq.symm]
      simp only [huSeats, validSeat]
      simp at d0 dn dact dne ⊢
      exact ⟨⟨dne, d0, dn⟩, dact⟩
    · exfalso
      cases hu : isHU st
      · rw [rotate_ring st hgt hu] at h2; simp at h2; omega
      · rw [rotate_ring_hu st hgt hu] at h2; simp at h2
        have := reflag_count_ge st.maxSeat st.maxSeat (huDealer st) (nextAlive st st.bb) (seats1 st)
        omega

/-- **C04 — with three or more dealt in, SB = previous BB seat and dealer = previous SB seat (even if those seats
are now empty or busted); coming from heads-up the dealer is the nearest live seat before the small blind.** -/
theorem C04_ring (st : State) (hbb0 : 0 ≤ st.bb) (hbbn : st.bb < st.maxSeat)
    (hok : (rotateDefault st).2 = .ok) (h3 : 3 ≤ dealtIn (rotateDefault st).1) :
    ringSeats st (rotateDefault st).1 = true := by
  rw [dealtIn_eq] at h3
  rcases Nat.lt_or_ge (activeCount st.maxSeat (seats1 st)) 2 with hlt | hge
  · rw [rotate_refused st hlt] at hok; simp at hok
  · rcases Nat.eq_or_lt_of_le hge with heq | hgt
    · exfalso; rw [rotate_hu st heq.symm] at h3; simp at h3; omega
    · cases hu : isHU st
      · rw [rotate_ring st hgt hu]; simp [ringSeats, hu]
      · rw [rotate_ring_hu st hgt hu]
        -- dealer = nearest live seat counter-clockwise from the new SB seat (= old BB seat)
        have halive : aliveAt (seats1 st) = aliveAt st.seats := by
          funext i; unfold seats1; exact reflag_alive _ _ _ _ i
        have hspec := prevAlive_eq_spec { st with seats := seats1 st, bb := nextAlive st st.bb, sb := st.bb } st.bb hbb0
        simp only [halive] at hspec
        obtain ⟨j, hjn, hpj, hjne⟩ := other_of_two hge st.bb
        have haj : aliveAt (seats1 st) (Int.ofNat j) = true := active_imp_alive _ _ hpj
        have hex := prevAlive_exists { st with seats := seats1 st, bb := nextAlive st st.bb, sb := st.bb } st.bb hbb0 hbbn
          (Int.ofNat j) (by simp) (by simp; omega) hjne haj
        simp only [ringSeats, hu, huDealer] at hex ⊢
        simp [← hspec, hex]

/-- **C04 — for every history**: in every state the seat manager can reach from `NewSeatManager` by any sequence of its
public operations (arrivals by fixed and random seat, departures, sit-ins, has-chips updates, `InitPositions`,
any number of rotations — the recorded random first seat being a legal draw), an accepted rotation under the default
rule puts the big blind on a dealt-in player, on the next seated-in player with chips clockwise; with exactly two dealt
in, dealer and small blind are the other player; with three or more, SB / dealer take the previous BB / SB seats.  (The
hypothesis "the old big-blind seat is a seat of the table" of the theorems above holds in every reachable state:
`runOps_bbok`.) -/
theorem C04_for_every_history (n : Nat) (ops : List Op) (hl : OpsLegal (State.new n .default) ops)
    (hinit : (runOps (State.new n .default) ops).isInit = true)
    (hok : (rotateDefault (runOps (State.new n .default) ops)).2 = .ok) :
    bbDealtIn (rotateDefault (runOps (State.new n .default) ops)).1 = true ∧
    bbNext (runOps (State.new n .default) ops) (rotateDefault (runOps (State.new n .default) ops)).1 = true ∧
    (dealtIn (rotateDefault (runOps (State.new n .default) ops)).1 = 2 →
      huSeats (rotateDefault (runOps (State.new n .default) ops)).1 = true) ∧
    (3 ≤ dealtIn (rotateDefault (runOps (State.new n .default) ops)).1 →
      ringSeats (runOps (State.new n .default) ops) (rotateDefault (runOps (State.new n .default) ops)).1 = true) := by
  have hrule : (runOps (State.new n .default) ops).rule = .default := by rw [runOps_rule]; rfl
  obtain ⟨hb0, hbn⟩ := runOps_bbok _ ops (new_bbok n .default) hl hrule hinit
  exact ⟨C04_bb_dealt_in _ hb0 hbn hok, C04_bb_next _ hb0 hbn hok, C04_hu _ hb0 hbn hok, C04_ring _ hb0 hbn hok⟩

-- non-vacuity of `C04_for_every_history`: four arrivals (fixed and random seats), three sit in, positions are drawn, a
-- rotation, a bust, a late sit-in — a legal history after which positions are set and the next rotation is accepted
def exOps : List Op :=
  [.assign [(1, 0), (2, 2)], .randomAssign [3, 4] [4, 5], .join [1, 2, 3], .init (some 2), .rotate,
   .setChips 2 false, .join [4], .rotate]

example : OpsLegal (State.new 6 .default) exOps ∧ (runOps (State.new 6 .default) exOps).isInit = true ∧
    (rotateDefault (runOps (State.new 6 .default) exOps)).2 = .ok := by
  simp only [exOps, OpsLegal, OpLegal, stepOp, and_true, true_and]
  decide

/-- **C04 — a refused rotation moves no button seat.** -/
theorem C04_refused_moves_nothing (st : State) (hr : (rotateDefault st).2 ≠ .ok) :
    buttonsUnchanged st (rotateDefault st).1 = true := by
  rcases Nat.lt_or_ge (activeCount st.maxSeat (seats1 st)) 2 with hlt | hge
  · rw [rotate_refused st hlt]; simp [buttonsUnchanged]
  · exfalso; apply hr
    rcases Nat.eq_or_lt_of_le hge with heq | hgt
    · rw [rotate_hu st heq.symm]
    · cases hu : isHU st
      · rw [rotate_ring st hgt hu]
      · rw [rotate_ring_hu st hgt hu]

/-- **C04 — fewer than two seated-in players with chips ⇒ the rotation is refused** (never accepted with < 2). -/
theorem C04_refused_if_fewer_than_two_live (st : State) (h : aliveN st < 2) : (rotateDefault st).2 ≠ .ok := by
  rw [aliveN_eq] at h
  have h1 : activeCount st.maxSeat (seats1 st) < 2 := by
    have := activeCount_le_aliveCount st.maxSeat (seats1 st)
    have h2 : aliveCount st.maxSeat (seats1 st) = aliveCount st.maxSeat st.seats := by
      unfold seats1; exact aliveCount_reflag _ _ _ _ _
    omega
  rw [rotate_refused st h1]; simp

/-- **C04 (partial) — a rotation is refused only when fewer than two players are dealt in after the waiting flags
have been re-evaluated.**  The statement of the property says "fewer than two seated-in players have chips"; the
gap between the two is exactly `C04_refusal_full_fails_on_witness` below (finding D16). -/
theorem C04_refusal_partial (st : State) (hr : (rotateDefault st).2 ≠ .ok) :
    dealtIn (rotateDefault st).1 < 2 := by
  rw [dealtIn_eq]
  rcases Nat.lt_or_ge (activeCount st.maxSeat (seats1 st)) 2 with hlt | hge
  · rw [rotate_refused st hlt]; simpa using hlt
  · exfalso; apply hr
    rcases Nat.eq_or_lt_of_le hge with heq | hgt
    · rw [rotate_hu st heq.symm]
    · cases hu : isHU st
      · rw [rotate_ring st hgt hu]
      · rw [rotate_ring_hu st hgt hu]

/-- **C04 (partial) — with three or more dealt in the three button seats are distinct**, provided the previous
hand was not heads-up, its SB and BB seats differed and the new BB does not land on the previous SB seat.  The last
hypothesis is not implied by reachability: `C04_distinct_fails_on_witness` (finding D8). -/
theorem C04_distinct_partial (st : State) (hbb0 : 0 ≤ st.bb) (hbbn : st.bb < st.maxSeat)
    (hok : (rotateDefault st).2 = .ok) (h3 : 3 ≤ dealtIn (rotateDefault st).1)
    (hu : isHU st = false) (hpre : st.sb ≠ st.bb) (hnew : nextAlive st st.bb ≠ st.sb) :
    distinct3 (rotateDefault st).1 = true := by
  rw [dealtIn_eq] at h3
  rcases Nat.lt_or_ge (activeCount st.maxSeat (seats1 st)) 2 with hlt | hge
  · rw [rotate_refused st hlt] at hok; simp at hok
  · obtain ⟨_, _, _, _, hneb, _⟩ := newBB_of_two_active st hbb0 hbbn hge
    rcases Nat.eq_or_lt_of_le hge with heq | hgt
    · exfalso; rw [rotate_hu st heq.symm] at h3; simp at h3; omega
    · rw [rotate_ring st hgt hu]
      simp only [distinct3, bne_iff_ne, ne_eq, Bool.and_eq_true, decide_eq_true_eq]
      exact ⟨⟨hpre, fun h => hneb h.symm⟩, fun h => hnew h.symm⟩

-- ------------------------------------------------------------------------------------------------
-- Witnesses: where the code (and therefore the model) does not meet the full statement
-- ------------------------------------------------------------------------------------------------

private def sp (id : Nat) (isIn btw chips : Bool) : Option SeatPlayer :=
  some { id := id, isIn := isIn, between := btw, hasChips := chips }

/-- D8: 7 seats, dealer seat 1 busted, SB seat 2, BB seat 6, a newcomer waiting on seat 5 -/
def witnessD8 : State :=
  { maxSeat := 7, seats := seatsOfList [none, sp 3 true false false, sp 2 true false true, none, none, sp 4 true true true, sp 1 true false true],
    dealer := 1, sb := 2, bb := 6, rule := .default, isInit := true }

/-- the full "three seats are distinct" clause fails: three are dealt in, dealer seat = BB seat = 2 -/
theorem C04_distinct_fails_on_witness :
    (rotateDefault witnessD8).2 = .ok ∧ dealtIn (rotateDefault witnessD8).1 = 3 ∧
    (rotateDefault witnessD8).1.dealer = 2 ∧ (rotateDefault witnessD8).1.sb = 6 ∧ (rotateDefault witnessD8).1.bb = 2 ∧
    distinct3 (rotateDefault witnessD8).1 = false := by decide

/-- D16: 4 seats, D=0 SB=1 BB=3, seats 1 and 3 busted, a newcomer waiting on seat 2 -/
def witnessD16 : State :=
  { maxSeat := 4, seats := seatsOfList [sp 1 true false true, sp 2 true false false, sp 4 true true true, sp 3 true false false],
    dealer := 0, sb := 1, bb := 3, rule := .default, isInit := true }

/-- the full "refused only when fewer than two seated-in players have chips" clause fails: two live players,
rotation refused because the newcomer is still flagged as waiting -/
theorem C04_refusal_full_fails_on_witness :
    (rotateDefault witnessD16).2 ≠ .ok ∧ aliveN witnessD16 = 2 ∧ dealtIn (rotateDefault witnessD16).1 = 1 := by decide

-- non-vacuity: concrete non-trivial states meet the hypotheses of the theorems above
/-- a 9-seat ring with a dead button and a busted player: accepted, 4 dealt in, BB moves 5 → 7 -/
def exampleRing : State :=
  { maxSeat := 9, seats := seatsOfList [sp 1 true false true, none, sp 2 true false false, sp 3 true false true, none,
      sp 4 true false true, none, sp 5 true false true, none],
    dealer := 2, sb := 3, bb := 5, rule := .default, isInit := true }

example : 0 ≤ exampleRing.bb ∧ exampleRing.bb < exampleRing.maxSeat ∧ (rotateDefault exampleRing).2 = .ok ∧
    3 ≤ dealtIn (rotateDefault exampleRing).1 ∧ isHU exampleRing = false ∧ exampleRing.sb ≠ exampleRing.bb ∧
    nextAlive exampleRing exampleRing.bb ≠ exampleRing.sb ∧ (rotateDefault exampleRing).1.bb = 7 ∧
    (rotateDefault exampleRing).1.sb = 5 ∧ (rotateDefault exampleRing).1.dealer = 3 := by decide

/-- heads-up on 6 seats -/
def exampleHU : State :=
  { maxSeat := 6, seats := seatsOfList [none, sp 1 true false true, none, none, sp 2 true false true, none],
    dealer := 1, sb := 1, bb := 4, rule := .default, isInit := true }

example : (rotateDefault exampleHU).2 = .ok ∧ dealtIn (rotateDefault exampleHU).1 = 2 ∧
    (rotateDefault exampleHU).1.bb = 1 ∧ (rotateDefault exampleHU).1.dealer = 4 := by decide

end SM
