import PokerVerif.Lemmas.SMBasic
/-!
# C04 — Button and blinds move by the dead-button rule for every history

Statement (properties.jsonl): between consecutive hands the big blind moves to the next seated-in player with
chips clockwise (nobody is skipped, it never moves backwards) and the big-blind seat always holds a dealt-in
player; with three or more dealt in, SB = previous BB seat and dealer = previous SB seat even if those seats are
now empty or busted (coming from heads-up the dealer is the nearest live seat before the small blind) and the
three seats are distinct; with exactly two dealt in, dealer and small blind are the other player.  A refused
rotation moves nothing and is refused only when fewer than two seated-in players have chips; short-deck tables
pass the dealer to the next dealt-in seat.

All theorems are about `SM.rotate` / `SM.init` (the model of `seat_manager`), for *every* seat function, seat
count and button position; the conclusions are the `SMSpec` predicates that the run-time monitor evaluates on
the implementation.  The modulus of the circular scans is whatever `Facts` says the source contains now.
-/
namespace SM
open SMSpec

/-- the model's next-BB scan is the spec's "first live seat clockwise" -/
theorem nextAlive_eq_spec (st : State) (start : Int) (h0 : 0 ≤ start) :
    nextAlive st start = firstCw st.maxSeat start (aliveAt st.seats) := by
  unfold nextAlive firstCw firstCwOffset
  rw [scan_eq_find, facts_nextAliveMod]
  have hf : ∀ j : Nat, Int.tmod (start + (j:Int)) (st.maxSeat : Int) = cw st.maxSeat start j := by
    intro j; unfold cw; exact Int.tmod_eq_emod_of_nonneg (by omega)
  simp only [hf]
  generalize List.find? _ _ = o
  cases o <;> rfl

theorem nextActive_eq_spec (st : State) (start : Int) (h0 : 0 ≤ start) :
    nextActive st start = firstCw st.maxSeat start (activeAt st.seats) := by
  unfold nextActive firstCw firstCwOffset
  rw [scan_eq_find, facts_nextActiveMod]
  have hf : ∀ j : Nat, Int.tmod (start + (j:Int)) (st.maxSeat : Int) = cw st.maxSeat start j := by
    intro j; unfold cw; exact Int.tmod_eq_emod_of_nonneg (by omega)
  simp only [hf]
  generalize List.find? _ _ = o
  cases o <;> rfl

theorem prevAlive_eq_spec (st : State) (start : Int) (h0 : 0 ≤ start) :
    prevAlive st start = firstCcw st.maxSeat start (aliveAt st.seats) := by
  unfold prevAlive firstCcw firstCcwOffset
  rw [scan_eq_find, facts_prevAliveMod, facts_prevAliveAdd]
  have key := find_congr (fun j : Nat => Int.tmod (start + (st.maxSeat : Int) - (j : Int)) (st.maxSeat : Int))
    (fun j : Nat => ccw st.maxSeat start j) (aliveAt st.seats) (st.maxSeat - 1) 1 (by
      intro j h1 h2
      show Int.tmod (start + (st.maxSeat : Int) - (j : Int)) (st.maxSeat : Int) = ccw st.maxSeat start j
      unfold ccw
      rw [Int.tmod_eq_emod_of_nonneg (by omega)]
      have : start + (st.maxSeat : Int) - (j : Int) = (start - (j : Int)) + (st.maxSeat : Int) := by omega
      rw [this, Int.add_emod_right])
  rw [key]
  generalize List.find? _ _ = o
  cases o <;> rfl

-- ------------------------------------------------------------------------------------------------
-- the new big-blind seat
-- ------------------------------------------------------------------------------------------------

/-- the seats after the first re-flagging pass of `rotatePositions` -/
def seats1 (st : State) : Seats := reflag st.maxSeat st.sb (nextAlive st st.bb) st.seats

theorem nextAlive_props (st : State) (start : Int) (h0 : 0 ≤ start) (hn : start < st.maxSeat)
    (hne : nextAlive st start ≠ -1) :
    0 ≤ nextAlive st start ∧ nextAlive st start < st.maxSeat ∧ aliveAt st.seats (nextAlive st start) = true ∧
    nextAlive st start ≠ start := by
  have := fwdScan_props st.maxSeat (aliveAt st.seats) start h0 hn (nextAlive st start)
    (by unfold nextAlive; rw [facts_nextAliveMod]) hne
  exact this

theorem nextActive_props (st : State) (start : Int) (h0 : 0 ≤ start) (hn : start < st.maxSeat)
    (hne : nextActive st start ≠ -1) :
    0 ≤ nextActive st start ∧ nextActive st start < st.maxSeat ∧ activeAt st.seats (nextActive st start) = true ∧
    nextActive st start ≠ start := by
  have := fwdScan_props st.maxSeat (activeAt st.seats) start h0 hn (nextActive st start)
    (by unfold nextActive; rw [facts_nextActiveMod]) hne
  exact this

theorem prevAlive_props (st : State) (start : Int) (h0 : 0 ≤ start) (hn : start < st.maxSeat)
    (hne : prevAlive st start ≠ -1) :
    0 ≤ prevAlive st start ∧ prevAlive st start < st.maxSeat ∧ aliveAt st.seats (prevAlive st start) = true ∧
    prevAlive st start ≠ start := by
  have := bwdScan_props st.maxSeat (aliveAt st.seats) start h0 hn (prevAlive st start)
    (by unfold prevAlive; rw [facts_prevAliveMod, facts_prevAliveAdd]) hne
  exact this

/-- two dealt-in players after re-flagging ⇒ a new BB seat exists, is in range, live, not the old BB seat and
dealt in -/
theorem newBB_of_two_active (st : State) (hbb0 : 0 ≤ st.bb) (hbbn : st.bb < st.maxSeat)
    (hac : 2 ≤ activeCount st.maxSeat (seats1 st)) :
    nextAlive st st.bb ≠ -1 ∧ 0 ≤ nextAlive st st.bb ∧ nextAlive st st.bb < st.maxSeat ∧
    aliveAt st.seats (nextAlive st st.bb) = true ∧ nextAlive st st.bb ≠ st.bb ∧
    activeAt (seats1 st) (nextAlive st st.bb) = true := by
  obtain ⟨i, j, hij, hjn, hpi, hpj⟩ := count_ge_two _ _ hac
  have hai : aliveAt st.seats (Int.ofNat i) = true := by
    have := active_imp_alive _ _ hpi; unfold seats1 at this; rwa [reflag_alive] at this
  have haj : aliveAt st.seats (Int.ofNat j) = true := by
    have := active_imp_alive _ _ hpj; unfold seats1 at this; rwa [reflag_alive] at this
  have hne1 : nextAlive st st.bb ≠ -1 := by
    unfold nextAlive; rw [facts_nextAliveMod]
    by_cases hib : (Int.ofNat i) = st.bb
    · exact fwdScan_exists st.maxSeat _ st.bb hbb0 hbbn (Int.ofNat j) (by simp) (by simp; omega)
        (by intro h; have : (Int.ofNat i) = (Int.ofNat j) := by rw [hib, h]
            simp at this; omega) haj
    · exact fwdScan_exists st.maxSeat _ st.bb hbb0 hbbn (Int.ofNat i) (by simp) (by simp; omega) hib hai
  obtain ⟨h1, h2, h3, h4⟩ := nextAlive_props st st.bb hbb0 hbbn hne1
  exact ⟨hne1, h1, h2, h3, h4, reflag_at _ _ _ _ _ h3 (isBetween_self _ _ _ h1 h2)⟩

-- ------------------------------------------------------------------------------------------------
-- shape of the result, branch by branch (so that the property theorems need not unfold `rotateDefault`)
-- ------------------------------------------------------------------------------------------------

theorem rotate_refused (st : State) (h : activeCount st.maxSeat (seats1 st) < 2) :
    rotateDefault st = ({ st with seats := seats1 st }, .err [.unableRotate]) := by
  unfold rotateDefault; unfold seats1 at h; simp [h, seats1]

theorem rotate_hu (st : State) (h : activeCount st.maxSeat (seats1 st) = 2) :
    rotateDefault st =
      ({ st with seats := seats1 st, bb := nextAlive st st.bb,
                 dealer := nextActive { st with seats := seats1 st, bb := nextAlive st st.bb } (nextAlive st st.bb),
                 sb := nextActive { st with seats := seats1 st, bb := nextAlive st st.bb } (nextAlive st st.bb) }, .ok) := by
  unfold rotateDefault; unfold seats1 at h; simp [h, seats1]

theorem rotate_ring (st : State) (h : 3 ≤ activeCount st.maxSeat (seats1 st)) (hu : isHU st = false) :
    rotateDefault st =
      ({ st with seats := seats1 st, bb := nextAlive st st.bb, sb := st.bb, dealer := st.sb }, .ok) := by
  unfold rotateDefault; unfold seats1 at h
  have h1 : ¬ activeCount st.maxSeat (reflag st.maxSeat st.sb (nextAlive st st.bb) st.seats) < 2 := by omega
  have h2 : (activeCount st.maxSeat (reflag st.maxSeat st.sb (nextAlive st st.bb) st.seats) == 2) = false := by
    simp; omega
  simp [h1, h2, hu, seats1]

/-- the nearest live seat before the (new) small-blind seat, used as dealer when coming from heads-up -/
def huDealer (st : State) : Int :=
  prevAlive { st with seats := seats1 st, bb := nextAlive st st.bb, sb := st.bb } st.bb

theorem rotate_ring_hu (st : State) (h : 3 ≤ activeCount st.maxSeat (seats1 st)) (hu : isHU st = true) :
    rotateDefault st =
      ({ st with seats := reflag st.maxSeat (huDealer st) (nextAlive st st.bb) (seats1 st),
                 bb := nextAlive st st.bb, sb := st.bb, dealer := huDealer st }, .ok) := by
  unfold rotateDefault; unfold seats1 at h
  have h1 : ¬ activeCount st.maxSeat (reflag st.maxSeat st.sb (nextAlive st st.bb) st.seats) < 2 := by omega
  have h2 : (activeCount st.maxSeat (reflag st.maxSeat st.sb (nextAlive st st.bb) st.seats) == 2) = false := by
    simp; omega
  simp [h1, h2, hu, seats1, huDealer]

theorem dealtIn_eq (st : State) : dealtIn st = activeCount st.maxSeat st.seats := by
  unfold dealtIn activeCount; exact countSeats_eq _ _

theorem aliveN_eq (st : State) : aliveN st = aliveCount st.maxSeat st.seats := by
  unfold aliveN aliveCount; exact countSeats_eq _ _

theorem nextActive_exists (s : State) (start : Int) (h0 : 0 ≤ start) (hn : start < s.maxSeat)
    (j : Int) (hj0 : 0 ≤ j) (hjn : j < s.maxSeat) (hne : j ≠ start) (hp : activeAt s.seats j = true) :
    nextActive s start ≠ -1 := by
  unfold nextActive; rw [facts_nextActiveMod]
  exact fwdScan_exists s.maxSeat _ start h0 hn j hj0 hjn hne hp

theorem prevAlive_exists (s : State) (start : Int) (h0 : 0 ≤ start) (hn : start < s.maxSeat)
    (j : Int) (hj0 : 0 ≤ j) (hjn : j < s.maxSeat) (hne : j ≠ start) (hp : aliveAt s.seats j = true) :
    prevAlive s start ≠ -1 := by
  unfold prevAlive; rw [facts_prevAliveMod, facts_prevAliveAdd]
  exact bwdScan_exists s.maxSeat _ start h0 hn j hj0 hjn hne hp

/-- among two distinct seats one differs from any given seat -/
theorem other_of_two {p : Nat → Bool} {n : Nat} (h : 2 ≤ countUpTo p n) (x : Int) :
    ∃ j : Nat, j < n ∧ p j = true ∧ (Int.ofNat j) ≠ x := by
  obtain ⟨i, j, hij, hjn, hpi, hpj⟩ := count_ge_two p n h
  by_cases hi : (Int.ofNat i) = x
  · refine ⟨j, hjn, hpj, ?_⟩
    intro hj
    have : (Int.ofNat i) = (Int.ofNat j) := by rw [hi, hj]
    simp at this; omega
  · exact ⟨i, by omega, hpi, hi⟩

theorem reflag_count_ge (n m : Nat) (d b : Int) (s : Seats) : activeCount n s ≤ activeCount n (reflag m d b s) :=
  count_mono _ _ n (fun _ _ h => reflag_keeps_active m d b s _ h)

-- ================================================================================================
-- Property theorems (default rule).  Hypotheses: the old big-blind seat is a seat of the table.
-- ================================================================================================

/-- **C04 — the big-blind seat always holds a dealt-in player.** -/
theorem C04_bb_dealt_in (st : State) (hbb0 : 0 ≤ st.bb) (hbbn : st.bb < st.maxSeat)
    (hok : (rotateDefault st).2 = .ok) : bbDealtIn (rotateDefault st).1 = true := by
  rcases Nat.lt_or_ge (activeCount st.maxSeat (seats1 st)) 2 with hlt | hge
  · rw [rotate_refused st hlt] at hok; simp at hok
  · obtain ⟨_, h0, hn, _, _, hact⟩ := newBB_of_two_active st hbb0 hbbn hge
    rcases Nat.eq_or_lt_of_le hge with heq | hgt
    · rw [rotate_hu st heq.symm]; simp [bbDealtIn, validSeat, h0, hn, hact]
    · cases hu : isHU st
      · rw [rotate_ring st hgt hu]; simp [bbDealtIn, validSeat, h0, hn, hact]
      · rw [rotate_ring_hu st hgt hu]
        simp [bbDealtIn, validSeat, h0, hn, reflag_keeps_active _ _ _ _ _ hact]

/-- **C04 — the big blind moves to the next seated-in player with chips clockwise: nobody is skipped, it never
moves backwards** (the conclusion is the spec's minimal-positive-clockwise-offset search). -/
theorem C04_bb_next (st : State) (hbb0 : 0 ≤ st.bb) (hbbn : st.bb < st.maxSeat)
    (hok : (rotateDefault st).2 = .ok) : bbNext st (rotateDefault st).1 = true := by
  rcases Nat.lt_or_ge (activeCount st.maxSeat (seats1 st)) 2 with hlt | hge
  · rw [rotate_refused st hlt] at hok; simp at hok
  · obtain ⟨hne, _, _, _, _, _⟩ := newBB_of_two_active st hbb0 hbbn hge
    have hspec := nextAlive_eq_spec st st.bb hbb0
    rcases Nat.eq_or_lt_of_le hge with heq | hgt
    · rw [rotate_hu st heq.symm]; simp [bbNext, ← hspec, hne]
    · cases hu : isHU st
      · rw [rotate_ring st hgt hu]; simp [bbNext, ← hspec, hne]
      · rw [rotate_ring_hu st hgt hu]; simp [bbNext, ← hspec, hne]

/-- **C04 — with exactly two dealt in, dealer and small blind are the other player.** -/
theorem C04_hu (st : State) (hbb0 : 0 ≤ st.bb) (hbbn : st.bb < st.maxSeat)
    (hok : (rotateDefault st).2 = .ok) (h2 : dealtIn (rotateDefault st).1 = 2) :
    huSeats (rotateDefault st).1 = true := by
  rw [dealtIn_eq] at h2
  rcases Nat.lt_or_ge (activeCount st.maxSeat (seats1 st)) 2 with hlt | hge
  · rw [rotate_refused st hlt] at hok; simp at hok
  · obtain ⟨_, h0, hn, _, _, _⟩ := newBB_of_two_active st hbb0 hbbn hge
    rcases Nat.eq_or_lt_of_le hge with heq | hgt
    · obtain ⟨j, hjn, hpj, hjne⟩ := other_of_two hge (nextAlive st st.bb)
      have hex := nextActive_exists { st with seats := seats1 st, bb := nextAlive st st.bb } (nextAlive st st.bb) h0 hn
        (Int.ofNat j) (by simp) (by simp; omega) hjne hpj
      obtain ⟨d0, dn, dact, dne⟩ := nextActive_props { st with seats := seats1 st, bb := nextAlive st st.bb }
        (nextAlive st st.bb) h0 hn hex
      rw [rotate_hu st heq.symm]
      simp only [huSeats, validSeat]
      simp at d0 dn dact dne ⊢
      exact ⟨⟨dne, d0, dn⟩, dact⟩
    · exfalso
      cases hu : isHU st
      · rw [rotate_ring st hgt hu] at h2; simp at h2; omega
      · rw [rotate_ring_hu st hgt hu] at h2; simp at h2
        have := reflag_count_ge st.maxSeat st.maxSeat (huDealer st) (nextAlive st st.bb) (seats1 st)
        omega

/-- **C04 — with three or more dealt in, SB = previous BB seat and dealer = previous SB seat (even if those seats
are now empty or busted); coming from heads-up the dealer is the nearest live seat before the small blind.** -/
theorem C04_ring (st : State) (hbb0 : 0 ≤ st.bb) (hbbn : st.bb < st.maxSeat)
    (hok : (rotateDefault st).2 = .ok) (h3 : 3 ≤ dealtIn (rotateDefault st).1) :
    ringSeats st (rotateDefault st).1 = true := by
  rw [dealtIn_eq] at h3
  rcases Nat.lt_or_ge (activeCount st.maxSeat (seats1 st)) 2 with hlt | hge
  · rw [rotate_refused st hlt] at hok; simp at hok
  · rcases Nat.eq_or_lt_of_le hge with heq | hgt
    · exfalso; rw [rotate_hu st heq.symm] at h3; simp at h3; omega
    · cases hu : isHU st
      · rw [rotate_ring st hgt hu]; simp [ringSeats, hu]
      · rw [rotate_ring_hu st hgt hu]
        -- dealer = nearest live seat counter-clockwise from the new SB seat (= old BB seat)
        have halive : aliveAt (seats1 st) = aliveAt st.seats := by
          funext i; unfold seats1; exact reflag_alive _ _ _ _ i
        have hspec := prevAlive_eq_spec { st with seats := seats1 st, bb := nextAlive st st.bb, sb := st.bb } st.bb hbb0
        simp only [halive] at hspec
        obtain ⟨j, hjn, hpj, hjne⟩ := other_of_two hge st.bb
        have haj : aliveAt (seats1 st) (Int.ofNat j) = true := active_imp_alive _ _ hpj
        have hex := prevAlive_exists { st with seats := seats1 st, bb := nextAlive st st.bb, sb := st.bb } st.bb hbb0 hbbn
          (Int.ofNat j) (by simp) (by simp; omega) hjne haj
        simp only [ringSeats, hu, huDealer] at hex ⊢
        simp [← hspec, hex]

/-- **C04 — a refused rotation moves no button seat.** -/
theorem C04_refused_moves_nothing (st : State) (hr : (rotateDefault st).2 ≠ .ok) :
    buttonsUnchanged st (rotateDefault st).1 = true := by
  rcases Nat.lt_or_ge (activeCount st.maxSeat (seats1 st)) 2 with hlt | hge
  · rw [rotate_refused st hlt]; simp [buttonsUnchanged]
  · exfalso; apply hr
    rcases Nat.eq_or_lt_of_le hge with heq | hgt
    · rw [rotate_hu st heq.symm]
    · cases hu : isHU st
      · rw [rotate_ring st hgt hu]
      · rw [rotate_ring_hu st hgt hu]

/-- **C04 — fewer than two seated-in players with chips ⇒ the rotation is refused** (never accepted with < 2). -/
theorem C04_refused_if_fewer_than_two_live (st : State) (h : aliveN st < 2) : (rotateDefault st).2 ≠ .ok := by
  rw [aliveN_eq] at h
  have h1 : activeCount st.maxSeat (seats1 st) < 2 := by
    have := activeCount_le_aliveCount st.maxSeat (seats1 st)
    have h2 : aliveCount st.maxSeat (seats1 st) = aliveCount st.maxSeat st.seats := by
      unfold seats1; exact aliveCount_reflag _ _ _ _ _
    omega
  rw [rotate_refused st h1]; simp

/-- **C04 (partial) — a rotation is refused only when fewer than two players are dealt in after the waiting flags
have been re-evaluated.**  The statement of the property says "fewer than two seated-in players have chips"; the
gap between the two is exactly `C04_refusal_full_fails_on_witness` below (finding D16). -/
theorem C04_refusal_partial (st : State) (hr : (rotateDefault st).2 ≠ .ok) :
    dealtIn (rotateDefault st).1 < 2 := by
  rw [dealtIn_eq]
  rcases Nat.lt_or_ge (activeCount st.maxSeat (seats1 st)) 2 with hlt | hge
  · rw [rotate_refused st hlt]; simpa using hlt
  · exfalso; apply hr
    rcases Nat.eq_or_lt_of_le hge with heq | hgt
    · rw [rotate_hu st heq.symm]
    · cases hu : isHU st
      · rw [rotate_ring st hgt hu]
      · rw [rotate_ring_hu st hgt hu]

/-- **C04 (partial) — with three or more dealt in the three button seats are distinct**, provided the previous
hand was not heads-up, its SB and BB seats differed and the new BB does not land on the previous SB seat.  The last
hypothesis is not implied by reachability: `C04_distinct_fails_on_witness` (finding D8). -/
theorem C04_distinct_partial (st : State) (hbb0 : 0 ≤ st.bb) (hbbn : st.bb < st.maxSeat)
    (hok : (rotateDefault st).2 = .ok) (h3 : 3 ≤ dealtIn (rotateDefault st).1)
    (hu : isHU st = false) (hpre : st.sb ≠ st.bb) (hnew : nextAlive st st.bb ≠ st.sb) :
    distinct3 (rotateDefault st).1 = true := by
  rw [dealtIn_eq] at h3
  rcases Nat.lt_or_ge (activeCount st.maxSeat (seats1 st)) 2 with hlt | hge
  · rw [rotate_refused st hlt] at hok; simp at hok
  · obtain ⟨_, _, _, _, hneb, _⟩ := newBB_of_two_active st hbb0 hbbn hge
    rcases Nat.eq_or_lt_of_le hge with heq | hgt
    · exfalso; rw [rotate_hu st heq.symm] at h3; simp at h3; omega
    · rw [rotate_ring st hgt hu]
      simp only [distinct3, bne_iff_ne, ne_eq, Bool.and_eq_true, decide_eq_true_eq]
      exact ⟨⟨hpre, fun h => hneb h.symm⟩, fun h => hnew h.symm⟩

-- ------------------------------------------------------------------------------------------------
-- Witnesses: where the code (and therefore the model) does not meet the full statement
-- ------------------------------------------------------------------------------------------------

private def sp (id : Nat) (isIn btw chips : Bool) : Option SeatPlayer :=
  some { id := id, isIn := isIn, between := btw, hasChips := chips }

/-- D8: 7 seats, dealer seat 1 busted, SB seat 2, BB seat 6, a newcomer waiting on seat 5 -/
def witnessD8 : State :=
  { maxSeat := 7, seats := seatsOfList [none, sp 3 true false false, sp 2 true false true, none, none, sp 4 true true true, sp 1 true false true],
    dealer := 1, sb := 2, bb := 6, rule := .default, isInit := true }

/-- the full "three seats are distinct" clause fails: three are dealt in, dealer seat = BB seat = 2 -/
theorem C04_distinct_fails_on_witness :
    (rotateDefault witnessD8).2 = .ok ∧ dealtIn (rotateDefault witnessD8).1 = 3 ∧
    (rotateDefault witnessD8).1.dealer = 2 ∧ (rotateDefault witnessD8).1.sb = 6 ∧ (rotateDefault witnessD8).1.bb = 2 ∧
    distinct3 (rotateDefault witnessD8).1 = false := by decide

/-- D16: 4 seats, D=0 SB=1 BB=3, seats 1 and 3 busted, a newcomer waiting on seat 2 -/
def witnessD16 : State :=
  { maxSeat := 4, seats := seatsOfList [sp 1 true false true, sp 2 true false false, sp 4 true true true, sp 3 true false false],
    dealer := 0, sb := 1, bb := 3, rule := .default, isInit := true }

/-- the full "refused only when fewer than two seated-in players have chips" clause fails: two live players,
rotation refused because the newcomer is still flagged as waiting -/
theorem C04_refusal_full_fails_on_witness :
    (rotateDefault witnessD16).2 ≠ .ok ∧ aliveN witnessD16 = 2 ∧ dealtIn (rotateDefault witnessD16).1 = 1 := by decide

-- non-vacuity: concrete non-trivial states meet the hypotheses of the theorems above
/-- a 9-seat ring with a dead button and a busted player: accepted, 4 dealt in, BB moves 5 → 7 -/
def exampleRing : State :=
  { maxSeat := 9, seats := seatsOfList [sp 1 true false true, none, sp 2 true false false, sp 3 true false true, none,
      sp 4 true false true, none, sp 5 true false true, none],
    dealer := 2, sb := 3, bb := 5, rule := .default, isInit := true }

example : 0 ≤ exampleRing.bb ∧ exampleRing.bb < exampleRing.maxSeat ∧ (rotateDefault exampleRing).2 = .ok ∧
    3 ≤ dealtIn (rotateDefault exampleRing).1 ∧ isHU exampleRing = false ∧ exampleRing.sb ≠ exampleRing.bb ∧
    nextAlive exampleRing exampleRing.bb ≠ exampleRing.sb ∧ (rotateDefault exampleRing).1.bb = 7 ∧
    (rotateDefault exampleRing).1.sb = 5 ∧ (rotateDefault exampleRing).1.dealer = 3 := by decide

/-- heads-up on 6 seats -/
def exampleHU : State :=
  { maxSeat := 6, seats := seatsOfList [none, sp 1 true false true, none, none, sp 2 true false true, none],
    dealer := 1, sb := 1, bb := 4, rule := .default, isInit := true }

example : (rotateDefault exampleHU).2 = .ok ∧ dealtIn (rotateDefault exampleHU).1 = 2 ∧
    (rotateDefault exampleHU).1.bb = 1 ∧ (rotateDefault exampleHU).1.dealer = 4 := by decide

end SM
