import PokerVerif.Lemmas.TBClosed
import PokerVerif.Lemmas.TBLifeCycle
import PokerVerif.Lemmas.TBBasic
/-!
# C07 — Table status follows its life cycle; one hand at a time; hands are numbered

Statement: left to itself the status only moves created/balancing/pausing → opened → playing → settled → standby
→ (opened | pausing); each opened hand raises the game count by exactly one (fresh game id: the backend's,
monitored); a new hand never opens while another is unsettled; between hands the per-hand fields are reset.  No
hand opens after the table has been closed or released between hands, while the blind level is a break, or before
blinds are set.

Theorems are about `TB.gateFire` (gate callback → tableGameOpen → openGame → startGame), `TB.settle`,
`TB.continueGame` and the other steps of the `TB` model, for every state.
-/
namespace TB

/-- **C07 — no hand opens after close or release, while a hand is unsettled, on a break level, or before blinds
are set**; nothing changes at all then (but the gate's ready flags). -/
theorem C07_no_open_when (s : State) (choice : Option Int) (createOk : Bool)
    (h : s.released = true ∨ s.status = .closed ∨ s.hasGame = true ∨ s.blind.isBreaking = true ∨ s.blind.isSet = false) :
    (gateFire s choice createOk).2 ≠ .opened ∧ (gateFire s choice createOk).2 ≠ .startFailed ∧
    (gateFire s choice createOk).1 = gateReady s := by
  unfold gateFire
  cases hg : openGuard (gateReady s) with
  | nothing => simp
  | refused => simp
  | go =>
    exfalso
    obtain ⟨_, h1, h2, h3, h4, h5⟩ := openGuard_go _ hg
    simp only [gateReady] at h1 h2 h3 h4 h5
    rcases h with h | h | h | h | h <;> simp_all

/-- **C07 — each opened hand raises the game count by exactly one, goes to `playing` and carries a hand; it opens
only when no hand is unsettled, the table is neither closed nor released, and the blinds are set and not a break.** -/
theorem C07_open_counts (s : State) (choice : Option Int) (createOk : Bool)
    (h : (gateFire s choice createOk).2 = .opened) :
    (gateFire s choice createOk).1.gameCount = s.gameCount + 1 ∧
    (gateFire s choice createOk).1.status = .playing ∧ (gateFire s choice createOk).1.hasGame = true ∧
    s.hasGame = false ∧ s.released = false ∧ s.status ≠ .closed ∧ s.blind.isBreaking = false ∧ s.blind.isSet = true := by
  obtain ⟨hg, heq⟩ := gateFire_opened s choice createOk h
  obtain ⟨_, h1, h2, h3, h4, h5⟩ := openGuard_go _ hg
  rw [heq] at h ⊢
  obtain ⟨c1, c2, c3, _, _⟩ := openCore_opened _ _ _ h
  simp only [gateReady] at h1 h2 h3 h4 h5 c1
  exact ⟨c1, c2, c3, h3, h1, h2, h5, h4⟩

/-- a turn of `tableGameOpen`'s retry loop waits 3 s and then looks whether the table was closed or released meanwhile,
before anything else (regenerated from table_engine_stage.go) — `TB.retryOpen`'s first test -/
theorem C07_retry_head_fact : Facts.retryLoopHead =
    ["time.Sleep(time.Second * 3)", "if te.isReleased || te.table.State.Status == TableStateStatus_TableClosed { return nil }"] := by decide

/-- **C07 — the retry loop opens no hand on a closed or released table, on a break, before blinds are set, or once the
table shows a hand**: a turn of `tableGameOpen`'s retry loop (3 s after a refused attempt, lock held) then changes nothing
at all.  (Closed / released: D32, fixed — the loop did not look.) -/
theorem C07_retry_no_open_when (s : State) (choice : Option Int) (createOk : Bool)
    (h : s.released = true ∨ s.status = .closed ∨ inHandStatus s.status = true ∨ s.blind.isBreaking = true ∨ s.blind.isSet = false) :
    (retryOpen s choice createOk).2 ≠ .opened ∧ (retryOpen s choice createOk).2 ≠ .startFailed ∧
    (retryOpen s choice createOk).1 = s := by
  rcases retryOpen_cases s choice createOk with hc | hc | ⟨h1, h2, h3, h4, h5, _⟩
  · rw [hc]; simp
  · rw [hc]; simp
  · exfalso
    rcases h with h | h | h | h | h
    · rw [h] at h1; cases h1
    · exact h2 h
    · rw [h] at h3; cases h3
    · rw [h] at h5; cases h5
    · rw [h] at h4; cases h4

/-- **C07 — a hand opened by the retry loop** raises the game count by exactly one, goes to `playing` and carries a hand;
it opens only when the table is neither closed nor released, shows no hand status and the blinds are set and not a break. -/
theorem C07_retry_open_counts (s : State) (choice : Option Int) (createOk : Bool)
    (h : (retryOpen s choice createOk).2 = .opened) :
    (retryOpen s choice createOk).1.gameCount = s.gameCount + 1 ∧
    (retryOpen s choice createOk).1.status = .playing ∧ (retryOpen s choice createOk).1.hasGame = true ∧
    s.released = false ∧ s.status ≠ .closed ∧
    inHandStatus s.status = false ∧ s.blind.isBreaking = false ∧ s.blind.isSet = true := by
  rcases retryOpen_cases s choice createOk with hc | hc | ⟨h1, h2, h3, h4, h5, hc⟩
  · rw [hc] at h; cases h
  · rw [hc] at h; cases h
  · rw [hc] at h ⊢
    obtain ⟨c1, c2, c3, _, _⟩ := openCore_opened _ _ _ h
    exact ⟨c1, c2, c3, h1, h2, h3, h5, h4⟩

/-- **C07 — no hand opens after the table has been closed or released, whatever happens next**: from a released table
(`CloseTable` releases the table too) no history of any length — arrivals, sit-ins, top-ups, level changes, gate set-ups and
firings, turns of the retry loop, settlements of a hand still running, the continue step, … — raises the game count, and
the table stays released. -/
theorem C07_closed_for_good (s : State) (evs : List Event) (h : s.released = true) :
    (run s evs).released = true ∧ (run s evs).gameCount = s.gameCount :=
  run_closed s evs h

/-- … in particular after `CloseTable` / `ReleaseTable` at any moment of any history -/
theorem C07_after_close (s : State) (evs : List Event) :
    (run (close s) evs).gameCount = s.gameCount ∧ (run (release s) evs).gameCount = s.gameCount :=
  ⟨(run_closed (close s) evs rfl).2, (run_closed (release s) evs rfl).2⟩

/-- **C07 — the game count changes at no other step**: a fire that does not open, a settlement, the continue step
and every administrative operation leave it alone. -/
theorem C07_count_elsewhere (s : State) :
    (∀ ch ok, (gateFire s ch ok).2 = .nothing ∨ (gateFire s ch ok).2 = .refused → (gateFire s ch ok).1.gameCount = s.gameCount) ∧
    (∀ r, (settle s r).1.gameCount = s.gameCount) ∧
    (∀ e, (continueGame s e).1.gameCount = s.gameCount) ∧
    (pause s).gameCount = s.gameCount ∧ (close s).gameCount = s.gameCount ∧ (release s).gameCount = s.gameCount ∧
    (∀ b, (setBlind s b).gameCount = s.gameCount) ∧ (∀ gc ps, (setup s gc ps).gameCount = s.gameCount) := by
  refine ⟨?_, ?_, ?_, rfl, rfl, rfl, fun _ => rfl, fun _ _ => rfl⟩
  · intro ch ok h
    unfold gateFire at h ⊢
    cases hg : openGuard (gateReady s) with
    | nothing => rfl
    | refused => rfl
    | go =>
      simp only [hg] at h ⊢
      exact openCore_quiet _ _ _ h
  · intro r
    unfold settle
    simp only
    split
    · rfl
    · split <;> rfl
  · intro e
    unfold continueGame
    split
    · rfl
    · unfold nextMove
      simp only
      repeat (first | split | rfl)

/-- **C07 — settlement puts the table into `settled`.** -/
theorem C07_settle_status (s : State) (r : List (Nat × Int)) : (settle s r).1.status = .settled := by
  unfold settle
  simp only
  split
  · rfl
  · split <;> rfl

/-- **C07 — the continue step leaves the table in `standby` or `pausing` and resets the per-hand fields** (hand
state, the hand's player list, next-BB list). -/
theorem C07_reset (s : State) (e : Bool) :
    ((continueGame s e).1.status = .standby ∨ (continueGame s e).1.status = .pausing) ∧
    (continueGame s e).1.hasGame = false ∧ (continueGame s e).1.gidx = [] ∧ (continueGame s e).1.nextBB = [] := by
  unfold continueGame
  split
  · simp [resetHand]
  · unfold nextMove
    simp only
    repeat (first | split | simp [resetHand, setup])

-- non-vacuity: a concrete table on which a hand opens, and the same table closed between hands
def exCfg : Meta := { maxSeat := 4, minPlayers := 2, rule := .default, mode := .ct }
def exBlind : Blind := { level := 1, ante := 0, dealer := 0, sb := 10, bb := 20 }
def exTable : State :=
  let s0 := create exCfg exBlind
  let s1 := (reserve s0 { id := 1, chips := 500, seat := 0 } []).1
  let s2 := (reserve s1 { id := 2, chips := 300, seat := 2 } []).1
  let s3 := (join (join s2 1).1 2).1
  setup (start s3) 0 [(1, 0), (2, 1)]

example : (gateFire exTable (some 0) true).2 = .opened ∧ (gateFire exTable (some 0) true).1.gameCount = 1 ∧
    (gateFire (close exTable) (some 0) true).2 = .nothing := by decide

-- ---------------------------------------------------------------- the life cycle as a whole (`Lemmas/TBLifeCycle`)

/-- **C07 — the status only ever moves along the life cycle, one event at a time.**  For every state that holds a hand
whenever its status says so (`LCInv`, an invariant — see `C07_life_cycle`) and every one of the 19 event kinds other than
an external pause / close, coming when the engine produces it (`Timely`: the back end closes a hand that is being played,
the continue step follows the settlement): the status afterwards is the status before, or its successor
created / balancing / pausing / standby → opened → playing → settled → standby → (opened | pausing) (`lcNext`; the gate's
callback takes the two steps → opened → playing under one hold of the lock, the continue step without an interval the two
steps settled → standby → pausing). -/
theorem C07_life_cycle_step (s : State) (e : Event) (hi : LCInv s) (ht : Timely s e) :
    lcNext s.status (step s e).status = true ∧ LCInv (step s e) :=
  step_lifeCycle s e hi ht

/-- **C07 — … along every history of a table left to itself, of any length, from `CreateTable` on**: whatever membership
calls, top-ups, level changes, gate set-ups, signals, firings, retry turns, settlements and continue steps follow one
another, each status is the previous one or its successor in the cycle. -/
theorem C07_life_cycle (cfg : Meta) (b : Blind) (evs : List Event) (ht : AllTimely (create cfg b) evs) :
    ∀ pre e post, evs = pre ++ e :: post →
      lcNext (run (create cfg b) pre).status (run (create cfg b) (pre ++ [e])).status = true :=
  (run_lifeCycle (create cfg b) evs (create_lcInv cfg b) ht).2

/-- **C07 — calls that are not part of the cycle never move the status**: arrivals, sit-ins, top-ups, departures, batch
updates, level changes, release, start, the gate's set-up and signals, the auto-join completion. -/
theorem C07_status_moved_by_the_cycle_only (s : State) :
    (∀ j ch, (reserve s j ch).1.status = s.status) ∧ (∀ id, (join s id).1.status = s.status) ∧
    (∀ id c, (redeem s id c).1.status = s.status) ∧ (∀ ids, (batchRemove s ids).1.status = s.status) ∧
    (∀ js lv ch, (update s js lv ch).1.status = s.status) ∧ (∀ b, (setBlind s b).status = s.status) ∧
    (release s).status = s.status ∧ (start s).status = s.status ∧ (∀ gc ps, (setup s gc ps).status = s.status) ∧
    (∀ id, (finish s id).1.status = s.status) ∧ (autoJoinStale s).status = s.status :=
  ⟨fun j ch => congrArg Prod.fst (lc_reserve s j ch), fun id => congrArg Prod.fst (lc_join s id),
   fun id c => congrArg Prod.fst (lc_redeem s id c), fun ids => congrArg Prod.fst (lc_batchRemove s ids),
   fun js lv ch => congrArg Prod.fst (lc_update s js lv ch), fun _ => rfl, rfl, rfl, fun _ _ => rfl,
   fun id => congrArg Prod.fst (lc_finish s id), congrArg Prod.fst (lc_foldl_join s.players s)⟩

/-- **C07 — a new hand never opens while another is unsettled, as a statement about the status**: the gate's callback on a
table that is `playing` or `settled` (and holds its hand) changes neither status nor count. -/
theorem C07_no_second_hand (s : State) (ch : Option Int) (ok : Bool) (hi : LCInv s)
    (hp : s.status = .playing ∨ s.status = .settled) :
    (gateFire s ch ok).2 = .nothing ∧ (gateFire s ch ok).1.status = s.status ∧
    (gateFire s ch ok).1.gameCount = s.gameCount := by
  have hg : (gateReady s).hasGame = true := hi hp
  unfold gateFire openGuard
  by_cases h1 : (gateReady s).gate.length ≤ 1
  · simp [h1]; exact ⟨rfl, rfl⟩
  · by_cases h2 : ((gateReady s).released || (gateReady s).status == .closed) = true
    · simp [h1, h2]; exact ⟨rfl, rfl⟩
    · simp [h1, h2, hg]; exact ⟨rfl, rfl⟩

-- non-vacuity: a whole turn of the cycle on the example table is a timely history; its statuses are the cycle's
def exCycle : List Event :=
  [.reserve { id := 1, chips := 500, seat := 0 } [], .reserve { id := 2, chips := 300, seat := 2 } [], .join 1, .join 2,
   .start, .setup 0 [(1, 0), (2, 1)], .fire (some 0) true, .redeem 1 100, .settle [(0, 50), (1, -50)], .contReset,
   .tick false, .finish 1, .finish 2, .fire none true]

example : AllTimely (create exCfg exBlind) exCycle := by decide
example : (exCycle.foldl (fun (acc : State × List Status) e => (step acc.1 e, acc.2 ++ [(step acc.1 e).status]))
    (create exCfg exBlind, [])).2 =
    [.created, .created, .created, .created, .created, .created, .playing, .playing, .settled, .standby, .standby,
     .standby, .standby, .playing] := by decide
example : LCInv exTable ∧ LCInv (gateFire exTable (some 0) true).1 ∧
    (gateFire exTable (some 0) true).1.status = .playing := by decide

/-- the delayed handler of `continueGame` looks for a closed, then for a released table *when it runs* — its first two
statements (regenerated from table_engine_stage.go); `nextMove` does the same -/
theorem C07_continue_handler_head_fact : Facts.continueHandlerHead =
    ["if te.table.State.Status == TableStateStatus_TableClosed { return nil }", "if te.isReleased { return nil }"] := by decide

/-- with a continue interval the continue step is two happenings — `continueGame` up to arming the timer, and the delayed
handler — and other calls may land in between; with nothing in between they are the one-piece step -/
theorem C07_continue_is_reset_then_tick (s : State) (ex : Bool) (hok : (continueGame s ex).2 ≠ .failed) :
    step (step s .contReset) (.tick ex) = step s (.continue ex) := by
  show (nextMove (continueGame s true).1 ex).1 = (continueGame s ex).1
  unfold continueGame at hok ⊢
  cases hr : refreshPlayers s.sm s.players with
  | none => simp [hr] at hok
  | some r =>
    obtain ⟨sm, ps⟩ := r
    simp only
    have : (nextMove { resetHand s with sm := sm, players := ps } true) = ({ resetHand s with sm := sm, players := ps }, .nothing) := by
      unfold nextMove; simp
    rw [this]

/-- **C07 — a table closed or released inside the continue interval is left alone by the delayed handler**: it neither
pauses the table nor sets the next hand up, whatever the players' chips and the blind level -/
theorem C07_closed_in_the_interval (s : State) (ex : Bool) :
    step (step s .close) (.tick ex) = step s .close ∧ step (step s .release) (.tick ex) = step s .release := by
  constructor
  · show (nextMove (close s) ex).1 = close s
    unfold nextMove close; cases ex <;> simp
  · show (nextMove (release s) ex).1 = release s
    unfold nextMove release
    cases ex
    · by_cases hc : (s.status == Status.closed) = true <;> simp [hc]
    · simp

end TB
