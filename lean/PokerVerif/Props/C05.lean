import PokerVerif.Lemmas.TBOpen
import PokerVerif.Props.C07
/-!
# C05 — Exactly the eligible players are dealt in; newcomers wait for the blind

Statement: a hand deals in exactly the players who are seated-in, have chips and are not newcomers waiting for the
big blind, and never opens with fewer than two such players.  A player dealt into one hand who still has chips and
stays seated is dealt into the next; a busted player who re-buys is eligible again on the same terms as a newcomer,
and a seated-in player with chips never misses more than three hands in a row.

Proved here (for every state / seat map): who is dealt in at an open; at least two; the has-chips refresh after a
hand and on re-buy / add-on; a dealt-in player stays dealt in through a rotation.  The "same terms as a newcomer" clause for
re-buyers is proved for ring-after-ring rotations (`C05_rebuy_same_terms_ring_partial`) and *fails* when the rotation
yields a heads-up hand (finding D25, witness `C05_rebuy_same_terms_fails_on_witness`, monitored as
`C05.re-buyer-not-on-the-same-terms-as-a-newcomer…`).  The waiting flag of a newly seated player and the bound of
three missed hands are checked by the monitors on every run (`C05.newcomer-waiting-flag-wrong`,
`C05.seated-in-player-with-chips-missed-more-than-three-hands`) and are not theorems yet (DESIGN.md, C05).
-/
namespace TB

/-- **C05 — a hand deals in exactly the players the seat manager calls active** (seated-in, has chips, not waiting
for the big blind — `SM.SeatPlayer.active`), for every player of the table, and changes nothing else about them. -/
theorem C05_dealt_in_iff (s : State) (ch : Option Int) (ok : Bool) (h : (gateFire s ch ok).2 = .opened) :
    (gateFire s ch ok).1.players.map (fun p => (p.id, p.participated)) =
      s.players.map (fun p => (p.id, (SM.isActive (gateFire s ch ok).1.sm p.id).getD false)) ∧
    (gateFire s ch ok).1.players.map (fun p => (p.id, p.seat, p.bankroll, p.isIn)) =
      s.players.map (fun p => (p.id, p.seat, p.bankroll, p.isIn)) := by
  obtain ⟨_, heq⟩ := gateFire_opened s ch ok h
  rw [heq] at h ⊢
  obtain ⟨_, ht, hst⟩ := openCore_opened_shape _ _ _ h
  obtain ⟨h1, h2, h3⟩ := openTable_dealt_in _ _ ht
  rw [hst]
  simp only [h3]
  exact ⟨by simpa [gateReady] using h1, by simpa [gateReady] using h2⟩

/-- what "active" means -/
theorem C05_active_means (sm : SM.State) (id : Nat) (h : SM.hasPlayer sm id = true) :
    SM.isActive sm id = some (match sm.seats (SM.seatOf sm id) with
      | some p => p.isIn && !p.between && p.hasChips | none => false) := by
  unfold SM.isActive SM.activeAt SM.SeatPlayer.active
  simp only [h, Bool.not_true, Bool.false_eq_true, if_false]
  congr 1

/-- **C05 — never fewer than two**: the seat manager accepts positions only with two or more active players, and a
hand opens only when it did. -/
theorem C05_min_two (s : State) (ch : Option Int) (ok : Bool) (h : (gateFire s ch ok).2 = .opened) :
    2 ≤ SM.activeCount (gateFire s ch ok).1.sm.maxSeat (gateFire s ch ok).1.sm.seats := by
  obtain ⟨_, heq⟩ := gateFire_opened s ch ok h
  rw [heq] at h ⊢
  obtain ⟨hr, ht, hst⟩ := openCore_opened_shape _ _ _ h
  obtain ⟨_, _, h3⟩ := openTable_dealt_in _ _ ht
  rw [hst]
  simp only [h3]
  by_cases hi : (gateReady s).sm.isInit = true
  · simp only [hi, Bool.not_true, Bool.false_eq_true, if_false] at hr ⊢
    exact SM.rotate_ok_two _ hr
  · simp only [hi, Bool.not_false, if_true] at hr ⊢
    exact SM.init_ok_two _ _ hr

end TB

namespace SM

/-- **C05 — a player dealt into one hand who still has chips and stays seated is dealt into the next**: an active
seat stays active through `rotatePositions` (the waiting flag is re-evaluated only for non-active players). -/
theorem C05_stays_in (st : State) (i : Int) (hact : activeAt st.seats i = true) :
    activeAt (rotateDefault st).1.seats i = true := by
  rcases Nat.lt_or_ge (activeCount st.maxSeat (seats1 st)) 2 with hlt | hge
  · rw [rotate_refused st hlt]; exact reflag_keeps_active _ _ _ _ _ hact
  · rcases Nat.eq_or_lt_of_le hge with heq | hgt
    · rw [rotate_hu st heq.symm]; exact reflag_keeps_active _ _ _ _ _ hact
    · cases hu : isHU st
      · rw [rotate_ring st hgt hu]; exact reflag_keeps_active _ _ _ _ _ hact
      · rw [rotate_ring_hu st hgt hu]
        exact reflag_keeps_active _ _ _ _ _ (reflag_keeps_active _ _ _ _ _ hact)

/-- **C05 (partial) — a busted player who re-buys is eligible on the same terms as a newcomer**, ring hand after ring
hand: after an accepted rotation with three or more dealt in that does not come from a heads-up hand, every occupant
who was not active (busted, sitting out, still waiting) carries exactly the waiting flag `AssignSeats` would give a
newcomer seated there now — `isBetween` of the *published* button and big-blind seats. A later re-buy only sets
`hasChips` (`C05_set_chips`), so the re-buyer then waits, or not, exactly like a newcomer on that seat. -/
theorem C05_rebuy_same_terms_ring_partial (st : State) (h3 : 3 ≤ activeCount st.maxSeat (seats1 st)) (hu : isHU st = false)
    (i : Int) (p : SeatPlayer) (hp : st.seats i = some p) (hna : p.active = false) :
    ∃ q, (rotateDefault st).1.seats i = some q ∧ q.id = p.id ∧
      q.between = isBetween st.maxSeat (rotateDefault st).1.dealer (rotateDefault st).1.bb i := by
  rw [rotate_ring st h3 hu]
  refine ⟨{ p with between := isBetween st.maxSeat st.sb (nextAlive st st.bb) i }, ?_, rfl, rfl⟩
  show seats1 st i = _
  unfold seats1 reflag
  simp [hp, hna]

/-- D25: the full clause fails when the rotation yields a heads-up hand: the waiting flags are computed against the
*tentative* button (the previous small-blind seat) while the published button is the seat after the big blind.
6 seats, previous hand D=1 SB=3 BB=5; seats 1 and 3 busted, seats 4 and 5 play on. -/
def witnessD25 : State :=
  { maxSeat := 6, rule := .default, isInit := true, dealer := 1, sb := 3, bb := 5,
    seats := seatsOfList [none,
      some { id := 4, isIn := true, between := false, hasChips := false }, none,
      some { id := 3, isIn := true, between := false, hasChips := false },
      some { id := 5, isIn := true, between := false, hasChips := true },
      some { id := 1, isIn := true, between := false, hasChips := true }] }

/-- after the rotation (D = SB = 5, BB = 4) the busted player on seat 3 is flagged "not waiting", while a newcomer
given seat 2 at that moment is flagged "waiting" and so would be one given seat 3: the re-buyer of seat 3 is dealt into
the next hand at once, the newcomer is not -/
theorem C05_rebuy_same_terms_fails_on_witness :
    (rotateDefault witnessD25).2 = .ok ∧
    ((rotateDefault witnessD25).1.dealer, (rotateDefault witnessD25).1.sb, (rotateDefault witnessD25).1.bb) = (5, 5, 4) ∧
    ((rotateDefault witnessD25).1.seats 3).map (·.between) = some false ∧
    isBetween 6 (rotateDefault witnessD25).1.dealer (rotateDefault witnessD25).1.bb 3 = true ∧
    (((place (rotateDefault witnessD25).1 9 2).seats 2).map (·.between)) = some true := by decide

/-- has-chips refresh (continueGame, re-buy, add-on): `UpdatePlayerHasChips` sets exactly that player's flag -/
theorem C05_set_chips (st : State) (id : Nat) (b : Bool) (h : hasPlayer st id = true) :
    (setChips st id b).2 = .ok ∧
    (setChips st id b).1.seats (seatOf st id) = (st.seats (seatOf st id)).map (fun p => { p with hasChips := b }) ∧
    ∀ j, j ≠ seatOf st id → (setChips st id b).1.seats j = st.seats j := by
  unfold setChips updAt
  simp only [h, Bool.not_true, Bool.false_eq_true, if_false]
  refine ⟨trivial, ?_, ?_⟩
  · simp; cases st.seats (seatOf st id) <;> rfl
  · intro j hj; simp [hj]

end SM
