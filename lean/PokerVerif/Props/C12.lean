import PokerVerif.Lemmas.TBGameBlind
import PokerVerif.Lemmas.TBBasic
import PokerVerif.Props.C07
/-!
# C12 — A hand is played at the blinds in force when it opened

Statement: the ante and blinds charged in a hand, and the blind level published for that hand, are those in force at
the moment it opened; changing the blind level while a hand is running affects only later hands.  When the level is
a break no hand is opened and the table pauses after the current hand; a table created on a break starts paused.

In the model `startHand` reads `BlindState` once (fact `Facts.startGameBlindRead`: the code copies the struct,
`blind := *te.table.State.BlindState`) and both the backend options and `GameBlindState` are that one value.
-/
namespace TB

/-- the source reads the blind level exactly once in startGame (regenerated from table_engine_stage.go) -/
theorem C12_single_read_fact : Facts.startGameBlindRead = "*te.table.State.BlindState" := by decide

/-- no step of the engine swaps the live table for another object (only `CreateTable` assigns it): a blind update, which
takes no engine lock and writes into the live table, cannot be dropped with a table that is thrown away — it reaches
the later hands (D31; regenerated from the source) -/
theorem C12_live_table_never_swapped_fact : Facts.teTableAssigned = ["CreateTable"] := by decide

/-- **C12 — the blind level published for a hand is the one in force when it opened** (and `BlindState` itself is
not touched by the open). -/
theorem C12_snapshot (s : State) (choice : Option Int) (createOk : Bool)
    (h : (gateFire s choice createOk).2 = .opened) :
    (gateFire s choice createOk).1.gameBlind = some s.blind ∧ (gateFire s choice createOk).1.blind = s.blind := by
  obtain ⟨_, heq⟩ := gateFire_opened s choice createOk h
  rw [heq] at h ⊢
  obtain ⟨_, _, _, c4, c5⟩ := openCore_opened _ _ _ h
  simpa [gateReady] using And.intro c4 c5

/-- **C12 — changing the level while a hand runs affects only later hands**: `UpdateBlind` leaves the hand's
published level alone, and so do settlement and the continue step; only the next open reads `BlindState`. -/
theorem C12_update_later_only (s : State) (b : Blind) :
    (setBlind s b).gameBlind = s.gameBlind ∧
    (∀ r, (settle (setBlind s b) r).1.gameBlind = s.gameBlind) ∧
    (∀ e, (continueGame (setBlind s b) e).1.gameBlind = s.gameBlind) ∧
    (∀ ch ok, (gateFire (setBlind s b) ch ok).2 = .opened → (gateFire (setBlind s b) ch ok).1.gameBlind = some b) := by
  refine ⟨rfl, ?_, ?_, ?_⟩
  · intro r
    unfold settle
    simp only
    split
    · rfl
    · split <;> rfl
  · intro e
    unfold continueGame
    split
    · rfl
    · unfold nextMove
      simp only
      repeat (first | split | rfl)
  · intro ch ok h
    exact (C12_snapshot _ ch ok h).1

/-- **C12 — the blinds published for a hand are written at its open and by nothing else**: of the 19 kinds of event a
table can see, only a gate firing or a retry turn *that opens a hand* changes `GameBlindState`, and it then publishes the
`BlindState` in force at that moment; every other event — level changes, membership calls, settlement, the continue step,
pause / close / release, refused or failed opens — leaves it exactly as it was. -/
theorem C12_published_only_at_an_open (s : State) (e : Event) :
    (step s e).gameBlind = s.gameBlind ∨
    ((∃ ch ok, (e = .fire ch ok ∧ (gateFire s ch ok).2 = .opened) ∨ (e = .retry ch ok ∧ (retryOpen s ch ok).2 = .opened)) ∧
      (step s e).gameBlind = some s.blind) :=
  step_gameBlind s e

/-- **C12 — on a break no hand is opened, the continue step pauses, and a table created on a break starts paused.** -/
theorem C12_break (s : State) (hb : s.blind.isBreaking = true) :
    (∀ ch ok, (gateFire s ch ok).2 ≠ .opened) ∧
    (∀ cfg, (create cfg s.blind).status = .pausing) := by
  refine ⟨fun ch ok => (C07_no_open_when s ch ok (Or.inr (Or.inr (Or.inr (Or.inl hb))))).1, ?_⟩
  intro cfg
  unfold create
  have : (s.blind.level == -1) = true := hb
  simp [this]

/-- `CreateTable` (regenerated from table_engine.go): a table whose blind level is −1 is created `pausing`, and the only
other status it can be given at creation — `balancing`, for an MTT table created with players — is guarded by "not
pausing": exactly the two rules of `create` / `createJoin` -/
theorem C12_create_status_fact : Facts.createStatusRules =
    ["tableSetting.Blind.Level == -1 => status = TableStateStatus_TablePausing",
     "table.Meta.Mode == CompetitionMode_MTT && table.State.Status != TableStateStatus_TablePausing => table.State.Status = TableStateStatus_TableBalancing"] := rfl

/-- **C12 — a table created on a break starts paused, with or without players**: `CreateTable` with `JoinPlayers` adds the
players as a batch join and turns an MTT table `balancing` — except on a break, where it stays `pausing`, whatever the
mode, the players and the outcome of seating them -/
theorem C12_created_on_break_with_players (cfg : Meta) (b : Blind) (hb : b.isBreaking = true) (js : List Join) (ch : List Int) :
    (createWith cfg b js ch).1.status = .pausing := by
  have hc : (create cfg b).status = .pausing := by
    unfold create
    have : (b.level == -1) = true := hb
    simp [this]
  have hadd : (batchAdd (create cfg b) js ch).1.status = .pausing := by
    rw [← hc]
    unfold batchAdd
    split
    · rfl
    · simp only
      split
      · rfl
      · split
        · rfl
        · split <;> rfl
  unfold createWith createJoin
  split
  · exact hc
  · simp only
    split
    · simp [hadd]
    · exact hadd

-- non-vacuity: an MTT table created with two players (one fixed seat, one drawn) — balancing on a playable level,
-- pausing on a break; the recorded draw is legal and both are seated
example :
    let cfg : Meta := { maxSeat := 4, minPlayers := 2, rule := .default, mode := .mtt }
    let js : List Join := [{ id := 1, chips := 500, seat := 0 }, { id := 2, chips := 300, seat := -1 }]
    let lvl : Blind := { level := 1, ante := 0, dealer := 0, sb := 10, bb := 20 }
    let brk : Blind := { level := -1, ante := 0, dealer := 0, sb := 0, bb := 0 }
    (createWith cfg lvl js [2]).2 = .ok ∧ (createWith cfg lvl js [2]).1.status = .balancing ∧
    (createWith cfg brk js [2]).2 = .ok ∧ (createWith cfg brk js [2]).1.status = .pausing ∧
    (createWith cfg brk js [2]).1.players.map (·.seat) = [0, 2] ∧ DrawLegal (create cfg brk) (.update js [] [2]) := by decide

/-- … nor by the retry loop: a break announced while `tableGameOpen` waits to retry a refused open stops the retry -/
theorem C12_break_retry (s : State) (hb : s.blind.isBreaking = true) (ch : Option Int) (ok : Bool) :
    (retryOpen s ch ok).2 ≠ .opened ∧ (retryOpen s ch ok).1 = s :=
  ⟨(C07_retry_no_open_when s ch ok (Or.inr (Or.inr (Or.inr (Or.inl hb))))).1,
   (C07_retry_no_open_when s ch ok (Or.inr (Or.inr (Or.inr (Or.inl hb))))).2.2⟩

theorem C12_break_pauses (s : State) (hb : s.blind.isBreaking = true) (hr : s.released = false)
    (hok : (continueGame s false).2 ≠ .failed) :
    (continueGame s false).2 = .paused ∧ (continueGame s false).1.status = .pausing := by
  rcases continueGame_cases s false with ⟨_, h⟩ | ⟨sm, ps, _, h⟩
  · rw [h] at hok; simp at hok
  · rw [h]
    have hp : shouldPause { resetHand s with sm := sm, players := ps } = true := by
      unfold shouldPause; simp [resetHand, hb]
    rw [(nextMove_spec _ (by simp [resetHand]) (by simp [resetHand, hr])).1 hp]
    exact ⟨rfl, rfl⟩

-- non-vacuity: a level change during the hand does not reach the hand
example : let t := gateFire exTable (some 0) true
    t.2 = .opened ∧ t.1.gameBlind = some exBlind ∧
    (setBlind t.1 { exBlind with level := 2, sb := 50, bb := 100 }).gameBlind = some exBlind := by decide

end TB
