import PokerVerif.Lemmas.TBLedger
import PokerVerif.Props.C07
/-!
# C01 — Chips are conserved by hands, top-ups and departures

Statement: the table never creates or destroys chips: whenever no hand is in progress, the bankrolls of the seated
players sum to everything brought in (buy-ins, re-buys, add-ons) minus what departing players took with them.  A
completed hand only moves chips between the players dealt into it — each one's bankroll changes by exactly their
result for that hand — and leaves everyone else's bankroll untouched.

`broughtIn` / `takenOut` are ghost ledgers of the `TB` model (amounts of accepted reservations, re-buys, add-ons;
bankrolls of accepted departures).  The hand engine is a parameter: theorems hold for every result it may return
that is zero-sum (`ResultsConserve`, contract on pokerface, monitored on every real result).
`Facts.settleMode` ties the write-back in `settleGame` (`Bankroll += Changed`) to the source.
-/
namespace TB

/-- settleGame credits the participant's change (regenerated from table_engine_stage.go) -/
theorem C01_settle_mode_fact : Facts.settleMode = "+= player.Changed" := by decide

/-- no step of the engine swaps the live table for another object (only `CreateTable` assigns it): chips added by a call
that takes no engine lock cannot be dropped with a table that is thrown away (D31; regenerated from the source) -/
theorem C01_live_table_never_swapped_fact : Facts.teTableAssigned = ["CreateTable"] := by decide

/-- `PlayerRedeemChips` credits the chips with one `+=` on the live entry and only then talks to the seat manager: the
read-modify-write of the bankroll does not span another call (regenerated from table_engine.go) -/
theorem C01_redeem_credit_fact : Facts.redeemSteps = ["playerState.Bankroll += joinPlayer.RedeemChips", "tell-seat-manager"] := by
  decide

/-- **C01 — the ledger balances in every reachable state** (hence whenever no hand is in progress): for every table
configuration and every sequence of operations and internal events, of any length, the bankrolls sum to what was
brought in minus what departing players took with them. -/
theorem C01_ledger (cfg : Meta) (b : Blind) (evs : List Event) (hz : ResultsConserve evs) :
    total (run (create cfg b) evs) = (run (create cfg b) evs).broughtIn - (run (create cfg b) evs).takenOut :=
  ledger_run _ evs (ledger_create cfg b) hz

/-- … also from a table created with players (`CreateTable` with `JoinPlayers`): what they brought is booked as brought in -/
theorem C01_ledger_created_with_players (cfg : Meta) (b : Blind) (js : List Join) (ch : List Int) (evs : List Event)
    (hz : ResultsConserve evs) :
    total (run (createWith cfg b js ch).1 evs) =
      (run (createWith cfg b js ch).1 evs).broughtIn - (run (createWith cfg b js ch).1 evs).takenOut := by
  have h0 : Ledger (createWith cfg b js ch).1 := by
    unfold createWith createJoin
    split
    · exact ledger_create cfg b
    · have hb := ledger_batchAdd (create cfg b) js ch (ledger_create cfg b)
      simp only
      split
      · split
        · exact hb
        · exact hb
      · exact hb
  exact ledger_run _ evs h0 hz

/-- **C01 — a completed hand changes each player's bankroll by exactly what the result credits to them through the
hand's list, and nobody else's**: player index `k` gains the sum of the result entries whose game index maps to `k`
(`credit`), which is `0` for everybody the hand's list does not name. -/
theorem C01_settle_local (s : State) (res : List (Nat × Int)) (hok : (settle s res).2 = .ok) :
    (settle s res).1.players.length = s.players.length ∧
    ∀ k, k < s.players.length → bankAt (settle s res).1.players k = bankAt s.players k + credit s.gidx res k := by
  unfold settle at hok ⊢
  simp only at hok ⊢
  split
  · rename_i hfold; simp [hfold] at hok
  · rename_i ps hfold
    have := settle_fold_local s.gidx res s.players ps hfold
    split <;> exact this

/-- nobody outside the hand's list is touched -/
theorem C01_bystanders_untouched (s : State) (res : List (Nat × Int)) (hok : (settle s res).2 = .ok) (k : Nat)
    (hk : k < s.players.length) (hout : ∀ e ∈ res, s.gidx[e.1]? ≠ some (k : Int)) :
    bankAt (settle s res).1.players k = bankAt s.players k := by
  rw [(C01_settle_local s res hok).2 k hk]
  have : credit s.gidx res k = 0 := by
    unfold credit
    have : res.filter (fun e => s.gidx[e.1]? == some (k : Int)) = [] := by
      rw [List.filter_eq_nil_iff]
      intro e he
      have := hout e he
      simpa using this
    simp [this]
  omega

/-- buy-in, re-buy and add-on add exactly the amount to the ledger; a departure removes exactly the leavers'
bankrolls (all through `ledger_step`; stated here for the single operations) -/
theorem C01_ops_exact (s : State) (hl : Ledger s) :
    (∀ j ch, Ledger (reserve s j ch).1) ∧ (∀ id c, Ledger (redeem s id c).1) ∧ (∀ ids, Ledger (batchRemove s ids).1) ∧
    (∀ js lv ch, Ledger (update s js lv ch).1) :=
  ⟨fun j ch => ledger_reserve s j ch hl, fun id c => ledger_redeem s id c hl, fun ids => ledger_batchRemove s ids hl,
   fun js lv ch => ledger_update s js lv ch hl⟩

-- non-vacuity: a history with a buy-in, an add-on during the hand, a zero-sum result and a departure
def exHistory : List Event :=
  [.reserve { id := 1, chips := 500, seat := 0 } [], .reserve { id := 2, chips := 300, seat := 2 } [],
   .reserve { id := 3, chips := 200, seat := -1 } [3], .join 1, .join 2, .join 3, .start,
   .setup 0 [(1, 0), (2, 1), (3, 2)], .fire (some 0) true, .redeem 2 100, .settle [(0, -50), (1, 80), (2, -30)],
   .continue false, .leave [3]]

example : ResultsConserve exHistory ∧ (run (create exCfg exBlind) exHistory).players.length = 2 ∧
    total (run (create exCfg exBlind) exHistory) = 820 ∧ (run (create exCfg exBlind) exHistory).broughtIn = 1100 ∧
    (run (create exCfg exBlind) exHistory).takenOut = 280 := by
  refine ⟨by simp [exHistory, ResultsConserve], by decide⟩

end TB
