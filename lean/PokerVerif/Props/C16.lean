import PokerVerif.Lemmas.SMAssign
import PokerVerif.Lemmas.TBLedger
import PokerVerif.Props.C03
import PokerVerif.Props.C10
/-!
# C16 — Concurrent callers see one-at-a-time behaviour

Statement: reservations, departures and batch updates issued at the same time from many goroutines have the effect of
some one-at-a-time order: no seat is given twice, no player is lost or duplicated, capacity is respected and the
bookkeeping of C03 holds afterwards; concurrent seat-manager assignments likewise never double-book.  When several
players submit game actions simultaneously, exactly the action of the player whose turn it is can be accepted for that
turn, and the hand still settles with chips conserved.

(*partial*: a theorem cannot exhibit a Go schedule.)  What is proved: (1) the lock discipline the statement anchors —
every listed method opens with `Lock(); defer Unlock()` — over the facts regenerated from the source; (2) the
sequential facts that make *every* one-at-a-time order safe, so that whichever order the lock imposes is covered: a
successful assignment never touches an occupied seat, refused operations change nothing, the ledger balances after any
sequence, an action is accepted only from the player whose turn it is.  What is searched on every run: bursts of
2..64 goroutines firing reservations (fixed and random seats), departures and batch updates at one table are
*linearised* from the notifications the engine emits inside its lock and replayed through the TB model, which must
reproduce every intermediate and the final state (table + seat manager); simultaneous submissions of every action kind
by every participant at every betting decision; parallel seat-manager assignments; a crash of the process is an
observation (bursts run in child processes).
-/
namespace SM

/-- **C16 — the methods the statement lists hold their lock for their whole body** (regenerated from the source):
membership calls, every Player<Action>, hand opening; the five seat-manager mutators (+ init / rotate). -/
theorem C16_lock_facts :
    (["UpdateTablePlayers", "PlayerReserve", "PlayersLeave", "PlayerReady", "PlayerPay", "PlayerPass", "PlayerFold", "PlayerCheck",
      "PlayerCall", "PlayerAllin", "PlayerBet", "PlayerRaise", "tableGameOpen"].all (fun m => Facts.teLocked.contains m)) = true ∧
    (["AssignSeats", "RandomAssignSeats", "RemoveSeats", "JoinPlayers", "UpdatePlayerHasChips", "InitPositions", "RotatePositions"].all
      (fun m => Facts.smLocked.contains m)) = true := by decide

/-- … and none of them lets the lock go in between: the opening `Lock(); defer Unlock()` is the only mention of the engine
lock in the body of every locked `tableEngine` method (regenerated from the source) -/
theorem C16_no_lock_window_fact : Facts.teLockWindows = [] := by decide

/-- **C16 — no seat is given twice**: whatever order the lock imposes, a successful `AssignSeats` leaves every occupied
seat with its occupant (it only fills seats that were empty), and a refused one changes nothing. -/
theorem C16_no_double_booking (st : State) (b : List (Nat × Int)) :
    ((assign st b).2 = .ok → ∀ i p, inRange st i = true → st.seats i = some p → (assign st b).1.seats i = some p) ∧
    ((assign st b).2 ≠ .ok → (assign st b).1 = st) :=
  ⟨fun h i p hi hp => assign_keeps_occupants st b h i p hi hp, (C03_sm_atomic st).1 b⟩

/-- the same for random seats: a legal draw consists of empty seats, so nobody is displaced -/
theorem C16_random_no_double_booking (st : State) (ids : List Nat) (ch : List Int) (hl : legalChoice st ids ch = true)
    (h : (randomAssign st ids ch).2 = .ok) (i : Int) (p : SeatPlayer) (hp : st.seats i = some p) :
    (randomAssign st ids ch).1.seats i = some p := by
  unfold randomAssign at h ⊢
  split at h
  · simp at h
  · split at h
    · simp at h
    · rename_i h1 h2
      simp only [h1, h2, if_false, Bool.false_eq_true]
      rw [placeAll_other _ _ i ?_, hp]
      intro e he hei
      -- every drawn seat is empty
      unfold legalChoice at hl
      simp only [Bool.and_eq_true, List.all_eq_true] at hl
      have hmem : e.2 ∈ ch := (List.of_mem_zip he).2
      have := hl.2 e.2 hmem
      rw [hei] at this
      simp [occupiedAt, hp] at this

end SM

namespace TB

/-- **C16 — whatever one-at-a-time order results, chips are conserved**: the ledger balances after *every* sequence
of operations, hence after every permutation of the calls that raced. -/
theorem C16_any_order_conserves (cfg : Meta) (b : Blind) (evs evs' : List Event) (_hperm : evs'.Perm evs)
    (hz : ResultsConserve evs') :
    total (run (create cfg b) evs') = (run (create cfg b) evs').broughtIn - (run (create cfg b) evs').takenOut :=
  ledger_run _ evs' (ledger_create cfg b) hz

end TB

namespace HD

/-- **C16 — of several simultaneous submissions only the one of the player whose turn it is can be accepted for that
turn**: an accepted wager action comes from the current player of the state it is applied to (each submission meets,
under the engine lock, the state the previous accepted one left). -/
theorem C16_only_current_player (s : State) (id : Nat) (kind : String) (arg : Int) (o : Oracle)
    (hk : ¬(kind = "ready" ∨ kind = "pay")) (h : (act s id kind arg o).2 = .ok) :
    ∃ gi v, findIdx s.hand id = some gi ∧ s.view = some v ∧ v.cur = (gi : Int) := by
  obtain ⟨_, gi, v, h1, h3, _, _, h7⟩ := C10_accept_sound s id kind arg o h
  exact ⟨gi, v, h1, h3, (h7 hk).1⟩

/-- two different players cannot both be accepted against the same state -/
theorem C16_one_per_turn (s : State) (a b : Nat) (k1 k2 : String) (x y : Int) (o1 o2 : Oracle)
    (hk1 : ¬(k1 = "ready" ∨ k1 = "pay")) (hk2 : ¬(k2 = "ready" ∨ k2 = "pay"))
    (h1 : (act s a k1 x o1).2 = .ok) (h2 : (act s b k2 y o2).2 = .ok) :
    findIdx s.hand a = findIdx s.hand b := by
  obtain ⟨g1, v1, e1, f1, c1⟩ := C16_only_current_player s a k1 x o1 hk1 h1
  obtain ⟨g2, v2, e2, f2, c2⟩ := C16_only_current_player s b k2 y o2 hk2 h2
  rw [f1] at f2
  have : v1 = v2 := by simpa using f2
  subst this
  rw [e1, e2]
  congr 1
  omega

end HD
