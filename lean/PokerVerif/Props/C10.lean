import PokerVerif.Lemmas.HDBasic
/-!
# C10 — Only the player whose turn it is can act; refused actions leave no trace

Statement: a game action (fold, check, call, bet, raise, all-in, pass, ready, pay) is accepted only from a player the
hand is waiting on and only if the hand currently allows that action for them; anything else — an action out of
turn, of a kind not allowed, by a player not dealt in or not at the table, or while no hand is being played — returns
an error and changes neither the table nor the hand.  An accepted action is applied once and is published as the
table's last player action and as an action event naming that player, seat, action, round and hand.

Theorems are about `HD.act` (validateGameMove → Player<Action> → game.<Action> → backend), for every state, caller,
action, amount and backend outcome.  Which wager actions the hand allows is pokerface's decision: an accepted wager
action is one the backend accepted (`Oracle.ok`), and `PF.accepts` — monitored against the real engine on every
action of every run — says the backend accepts only kinds in the caller's allowed list.  The guards of `game.Pass`,
`validatePlayMove`, `validateActionMove` and `validateGameMove` are tied to the source as regenerated facts.
Reading of the last sentence: the code publishes an action *event* for pass and the six wager actions and only the
last-action record for `ready` / `pay` (antes and blinds are announced collectively when collected).
-/
namespace HD

/-- the guards in the source are the ones the model transcribes (regenerated from game.go / table_engine_internal.go) -/
theorem C10_guard_facts :
    Facts.validateGameMoveBody =
      ["if te.table.State.Status != TableStateStatus_TableGamePlaying { return ErrTablePlayerInvalidGameAction }",
       "if gamePlayerIdx == UnsetValue { return ErrTablePlayerNotFound }", "return nil"] ∧
    Facts.gameValidatePlayMove =
      ["if p := g.gs.GetPlayer(playerIdx); p == nil { return ErrGamePlayerNotFound }",
       "if g.gs.Status.CurrentPlayer != playerIdx { return ErrGameInvalidAction }", "return nil"] ∧
    Facts.gameValidateActionMove =
      ["if p := g.gs.GetPlayer(playerIdx); p == nil { return ErrGamePlayerNotFound }",
       "if !g.gs.HasAction(playerIdx, action) { return ErrGameInvalidAction }",
       "if g.rg == nil { return ErrGameInvalidAction }", "return nil"] ∧
    Facts.gamePassBody.take 2 =
      ["if err := g.validatePlayMove(playerIdx); err != nil { return g.GetGameState(), err }",
       "if !g.gs.HasAction(playerIdx, \"pass\") { return g.GetGameState(), ErrGameInvalidAction }"] ∧
    (["PlayerAllin", "PlayerBet", "PlayerCall", "PlayerCheck", "PlayerFold", "PlayerPass", "PlayerPay", "PlayerRaise", "PlayerReady"].all
      (fun m => Facts.teLocked.contains m)) = true := by decide

/-- **C10 — accepted only from a player the hand is waiting on, and only what the hand allows**: an accepted action
was submitted while a hand is being played, by a player of the hand; `ready` / `pay` only if the hand allows it for
that player; every other action only by the player whose turn it is, `pass` only if allowed, and only after the hand
engine itself accepted it. -/
theorem C10_accept_sound (s : State) (id : Nat) (kind : String) (arg : Int) (o : Oracle)
    (h : (act s id kind arg o).2 = .ok) :
    s.playing = true ∧ ∃ gi v, findIdx s.hand id = some gi ∧ s.view = some v ∧ (v.player gi).isSome = true ∧
      ((kind = "ready" ∨ kind = "pay") → v.hasAction gi kind = true) ∧
      (¬(kind = "ready" ∨ kind = "pay") → v.cur = (gi : Int) ∧ (kind = "pass" → v.hasAction gi "pass" = true) ∧ ∃ nr, o = .ok nr) := by
  rcases act_cases s id kind arg o with ⟨_, e, he⟩ | ⟨gi, v, isR, emit, h1, _, h3, h4, h5, _, h7⟩
  · rw [he] at h; simp at h
  · refine ⟨h4, gi, v, h1, h3, h5, ?_, ?_⟩
    · intro hk
      rcases h7 with ⟨_, ha, _, _⟩ | ⟨hn, _⟩
      · exact ha
      · exact absurd hk hn
    · intro hk
      rcases h7 with ⟨hy, _⟩ | ⟨_, hc, hp, _, nr, ho, _⟩
      · exact absurd hy hk
      · exact ⟨hc, hp, nr, ho⟩

/-- … and, under the pokerface contract (the backend accepts a wager action only if `PF.accepts`), the action is in
the caller's allowed list -/
theorem C10_accepted_is_allowed (s : State) (id : Nat) (kind : String) (arg : Int) (o : Oracle)
    (h : (act s id kind arg o).2 = .ok) (hw : kind ≠ "pass") (hk : ¬(kind = "ready" ∨ kind = "pay"))
    (contract : ∀ gi v p, findIdx s.hand id = some gi → s.view = some v → v.players[gi]? = some p →
      (∃ nr, o = .ok nr) → PF.accepts v p kind arg = true) :
    ∃ gi v p, findIdx s.hand id = some gi ∧ s.view = some v ∧ v.players[gi]? = some p ∧ p.allowed.contains kind = true := by
  obtain ⟨_, gi, v, h1, h3, h5, _, h7⟩ := C10_accept_sound s id kind arg o h
  obtain ⟨_, _, hor⟩ := h7 hk
  have hp : ∃ p, v.players[gi]? = some p := by
    unfold View.player at h5
    have hnn : (0 : Int) ≤ (gi : Int) := by omega
    simp only [hnn, if_true, Int.toNat_natCast] at h5
    cases hq : v.players[gi]? with
    | none => rw [hq] at h5; simp at h5
    | some p => exact ⟨p, rfl⟩
  obtain ⟨p, hp⟩ := hp
  have hacc := contract gi v p h1 h3 hp hor
  refine ⟨gi, v, p, h1, h3, hp, ?_⟩
  unfold PF.accepts at hacc
  have hkp : (kind == "pass") = false := by simpa using hw
  simp only [hkp, Bool.false_eq_true, if_false] at hacc
  by_cases hc : p.allowed.contains kind = true
  · exact hc
  · have hc' : (!(p.allowed.contains kind)) = true := by simpa using hc
    simp only [hc', if_true] at hacc
    exact absurd hacc (by simp)

/-- **C10 — anything else returns an error and changes neither the table nor the hand.** -/
theorem C10_reject_no_trace (s : State) (id : Nat) (kind : String) (arg : Int) (o : Oracle) (e : Err)
    (h : (act s id kind arg o).2 = .err e) : (act s id kind arg o).1 = s := by
  rcases act_cases s id kind arg o with ⟨hs, _⟩ | ⟨_, _, _, _, _, _, _, _, _, h6, _⟩
  · exact hs
  · rw [h6] at h; simp at h

/-- the named refusals: no hand being played; not at the table / not dealt in; out of turn; kind not allowed -/
theorem C10_refusals (s : State) (id : Nat) (kind : String) (arg : Int) (o : Oracle) :
    (s.playing = false → act s id kind arg o = (s, .err .invalidGameAction)) ∧
    (s.playing = true → findIdx s.hand id = none → act s id kind arg o = (s, .err .playerNotFound)) := by
  constructor
  · intro h; unfold act; simp [h]
  · intro h1 h2; unfold act; simp [h1, h2]

/-- an accepted action is recorded under the hand state it produced — `createPlayerGameAction` reads the hand id and the
round from the state the action returned (`gs`), not from the live hand state, which the hand's own goroutine may already
have moved on (D33; regenerated from table_engine_internal.go) -/
theorem C10_action_record_fact : Facts.actionRecordReads = ["pga.GameID = gs.GameID", "pga.Round = gs.Status.Round"] := by
  decide

/-- **C10 — an accepted action is applied once and published**: it becomes the table's last player action naming
that player, seat, action, round and hand; pass and the wager actions are also emitted as exactly one action event
carrying the same record; the log of accepted actions grows by exactly this one. -/
theorem C10_publish (s : State) (id : Nat) (kind : String) (arg : Int) (o : Oracle)
    (h : (act s id kind arg o).2 = .ok) :
    ∃ gi v, findIdx s.hand id = some gi ∧ s.view = some v ∧
      (act s id kind arg o).1.last = some (mkLast s v id gi kind arg) ∧
      (mkLast s v id gi kind arg).id = id ∧ (mkLast s v id gi kind arg).seat = seatOfId s id ∧
      (mkLast s v id gi kind arg).action = kind ∧ (mkLast s v id gi kind arg).round = v.round ∧
      (mkLast s v id gi kind arg).gc = s.gc ∧ (mkLast s v id gi kind arg).gid = v.gid ∧
      (act s id kind arg o).1.log = s.log ++ [(id, kind, v.round)] ∧
      (act s id kind arg o).1.events =
        (if kind = "ready" ∨ kind = "pay" then s.events else s.events ++ [mkLast s v id gi kind arg]) := by
  rcases act_cases s id kind arg o with ⟨_, e, he⟩ | ⟨gi, v, isR, emit, h1, _, h3, _, _, h6, h7⟩
  · rw [he] at h; simp at h
  · refine ⟨gi, v, h1, h3, ?_⟩
    rw [h6]
    refine ⟨rfl, rfl, rfl, rfl, rfl, rfl, rfl, rfl, ?_⟩
    rcases h7 with ⟨hy, _, _, hem⟩ | ⟨hn, _, _, hem, _⟩
    · simp [accept, hem, hy]
    · simp [accept, hem, hn]

-- non-vacuity: a three-player hand at a preflop decision point
def exView : View :=
  { stamp := 7, gid := 42, event := "RoundStarted", round := "preflop", cur := 0, raiser := 2, wager := 20, mini := 20, prev := 20,
    ante := 0, bDealer := 0, bSB := 10, bBB := 20, hasResult := false,
    players := [{ idx := 0, positions := ["dealer"], acted := false, did := "", fold := false, allowed := ["allin", "fold", "call", "raise"],
                  bankroll := 500, init := 500, stack := 500, wager := 0, pot := 0 },
                { idx := 1, positions := ["sb"], acted := false, did := "", fold := false, allowed := [], bankroll := 300, init := 300, stack := 290, wager := 10, pot := 0 },
                { idx := 2, positions := ["bb"], acted := false, did := "", fold := false, allowed := [], bankroll := 200, init := 200, stack := 180, wager := 20, pot := 0 }] }
def exState : State :=
  { players := [{ id := 11, seat := 4 }, { id := 12, seat := 0 }, { id := 13, seat := 2 }, { id := 14, seat := 7 }],
    hand := [12, 13, 11], gc := 3, actionTime := 7, playing := true, view := some exView, last := none }

example : (act exState 12 "call" 0 (.ok 2)).2 = .ok ∧ (act exState 13 "call" 0 (.ok 2)).2 = .err .gameInvalidAction ∧
    (act exState 14 "fold" 0 .none).2 = .err .playerNotFound ∧ (act exState 12 "pass" 0 (.ok 2)).2 = .err .gameInvalidAction ∧
    ((act exState 12 "call" 0 (.ok 2)).1.last.map (fun l => (l.id, l.seat, l.action, l.round, l.chips, l.gc))) = some (12, 0, "call", "preflop", 20, 3) := by
  decide

end HD
