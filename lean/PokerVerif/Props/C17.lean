import PokerVerif.MG
/-!
# C17 — Manager tables are isolated and manager calls equal engine calls

Statement: every manager operation addressed to a table id has exactly the effect and result of the same-named
operation on that table's engine and no effect on any other table; an id that was never created, or whose table
has been closed or released, yields the table-not-found error.

Two parts.  (1) Facts regenerated from `manager.go` (one row per method, produced by /verif/extract, which fails
closed on any body shape it does not recognise) satisfy the forwarding discipline — decided over the whole finite
table.  (2) For *every* engine (`E`, `estep` arbitrary) the registry model built from those facts forwards,
isolates and forgets closed tables.
-/
namespace MG

-- ---------------------------------------------------------------- (1) the generated table

/-- every method was recognised, looks the table up first, answers a failed lookup with
ErrManagerTableNotFound, calls the engine method of the same name with its own parameters in order, and returns
what that call returned -/
theorem C17_forward_facts :
    Facts.managerTable.all (fun r =>
      r.recognised && r.lookupOK && r.notFound && r.callee == r.name && r.args == r.params && r.returnsIt) = true := by
  decide

/-- exactly CloseTable and ReleaseTable delete the registry entry, and they do so after the engine call -/
theorem C17_delete_facts :
    Facts.managerTable.all (fun r =>
      (r.deletes == (r.name == "CloseTable" || r.name == "ReleaseTable")) && (r.deletes == r.delAfter)) = true := by
  decide

/-- all 22 forwarding methods of the `Manager` interface are present (the other three — Reset, GetTableEngine,
CreateTable — are not forwarders and are tied by their statement text below) -/
theorem C17_methods_facts :
    Facts.managerTable.map (·.name) =
      ["CloseTable", "PauseTable", "PlayerAllin", "PlayerBet", "PlayerCall", "PlayerCheck",
       "PlayerExtendActionDeadline", "PlayerFold", "PlayerJoin", "PlayerPass", "PlayerPay", "PlayerRaise",
       "PlayerReady", "PlayerRedeemChips", "PlayerReserve", "PlayerSettlementFinish", "PlayersLeave",
       "ReleaseTable", "SetUpTableGame", "StartTableGame", "UpdateBlind", "UpdateTablePlayers"] ∧
    Facts.managerOther = ["CreateTable", "GetTableEngine", "Reset"] := by decide

theorem C17_lookup_facts :
    Facts.managerGetTableEngine =
      ["tableEngine, exist := m.tableEngines.Load(tableID)",
       "if !exist { return nil, ErrManagerTableNotFound }",
       "return tableEngine.(TableEngine), nil"] ∧
    Facts.managerCreateTail =
      ["table, err := tableEngine.CreateTable(setting)", "if err != nil { return nil, err }",
       "m.tableEngines.Store(table.ID, tableEngine)", "return table, nil"] := by decide

-- ---------------------------------------------------------------- (2) the registry model, any engine

variable {E Op R : Type} (estep : E → Op → E × R) (nameOf : Op → String) (failed : R → Bool)

theorem find_filter_ne (l : List (Nat × E)) (a b : Nat) (h : b ≠ a) :
    List.find? (fun e => e.1 == b) (List.filter (fun x => x.1 != a) l) = List.find? (fun e => e.1 == b) l := by
  induction l with
  | nil => rfl
  | cons x t ih =>
    simp only [List.filter_cons]
    by_cases hx : x.1 = a
    · have h1 : (x.1 != a) = false := by simp [hx]
      have h2 : (x.1 == b) = false := by simp [hx]; omega
      simp only [h1, List.find?_cons, h2]; exact ih
    · have h1 : (x.1 != a) = true := by simp [hx]
      simp only [h1, if_true, List.find?_cons]
      cases (x.1 == b) <;> simp [ih]

theorem lookup_store_ne (reg : Reg E) (a b : Nat) (e : E) (h : b ≠ a) :
    lookup (store reg a e) b = lookup reg b := by
  unfold lookup store
  have h2 : (a == b) = false := by simp; omega
  simp only [List.find?_cons, h2]
  rw [find_filter_ne _ _ _ h]

theorem lookup_delete_ne (reg : Reg E) (a b : Nat) (h : b ≠ a) :
    lookup (delete reg a) b = lookup reg b := by
  unfold lookup delete
  rw [find_filter_ne _ _ _ h]

theorem lookup_delete_self (reg : Reg E) (a : Nat) : lookup (delete reg a) a = none := by
  unfold lookup delete
  have : List.find? (fun e => e.1 == a) (List.filter (fun x => x.1 != a) reg.tables) = none := by
    rw [List.find?_eq_none]
    intro x hx
    have := (List.mem_filter.mp hx).2
    simpa using this
  rw [this]; rfl

theorem lookup_store_self (reg : Reg E) (a : Nat) (e : E) : lookup (store reg a e) a = some e := by
  unfold lookup store
  simp [List.find?_cons]

/-- **C17 — isolation**: a manager call addressed to table `a` leaves every other table's engine untouched. -/
theorem C17_isolated (reg : Reg E) (a b : Nat) (op : Op) (h : b ≠ a) :
    lookup (call estep nameOf failed reg a op).1 b = lookup reg b := by
  unfold call
  cases hl : lookup reg a with
  | none => rfl
  | some e =>
    simp only
    split
    · rw [lookup_delete_ne _ _ _ h, lookup_store_ne _ _ _ _ h]
    · rw [lookup_store_ne _ _ _ _ h]

/-- **C17 — forwarding**: on a registered table the manager returns exactly what the engine's same-named
operation returns, and the table's engine ends in exactly the state that operation leaves it in (or is
forgotten, for a successful Close/Release). -/
theorem C17_forward (reg : Reg E) (a : Nat) (op : Op) (e : E) (hl : lookup reg a = some e) :
    (call estep nameOf failed reg a op).2 = .result (estep e op).2 ∧
    (lookup (call estep nameOf failed reg a op).1 a = some (estep e op).1 ∨
     (lookup (call estep nameOf failed reg a op).1 a = none ∧ deletes (nameOf op) = true ∧ failed (estep e op).2 = false)) := by
  unfold call
  simp only [hl]
  split
  · rename_i hd
    refine ⟨rfl, Or.inr ⟨lookup_delete_self _ _, ?_, ?_⟩⟩ <;> simp at hd <;> simp [hd]
  · exact ⟨rfl, Or.inl (lookup_store_self _ _ _)⟩

/-- **C17 — unknown id**: table-not-found, nothing changes. -/
theorem C17_not_found (reg : Reg E) (a : Nat) (op : Op) (hl : lookup reg a = none) :
    call estep nameOf failed reg a op = (reg, .notFound) := by
  unfold call; simp [hl]

/-- **C17 — closed or released tables are forgotten**: after a successful CloseTable/ReleaseTable every later
call to that id is table-not-found. -/
theorem C17_closed_forgotten (reg : Reg E) (a : Nat) (op op2 : Op) (e : E) (hl : lookup reg a = some e)
    (hd : deletes (nameOf op) = true) (hok : failed (estep e op).2 = false) :
    (call estep nameOf failed (call estep nameOf failed reg a op).1 a op2).2 = .notFound := by
  have : lookup (call estep nameOf failed reg a op).1 a = none := by
    unfold call; simp only [hl]; simp [hd, hok, lookup_delete_self]
  rw [C17_not_found _ _ _ _ _ _ this]

/-- which names delete: read from the regenerated table -/
theorem C17_deletes_exactly : deletes "CloseTable" = true ∧ deletes "ReleaseTable" = true ∧
    (Facts.managerTable.filter (fun r => deletes r.name)).map (·.name) = ["CloseTable", "ReleaseTable"] := by decide

-- ---------------------------------------------------------------- every history: the manager is a product of independent tables

/-- one table on its own: absent (never created, closed, released) it answers table-not-found and stays absent; present it
is the engine's own step, and a successful Close / Release makes it absent -/
def tstep (st : Option E) (op : Op) : Option E × Out R :=
  match st with
  | none => (none, .notFound)
  | some e =>
    let r := estep e op
    if deletes (nameOf op) && !failed r.2 then (none, .result r.2) else (some r.1, .result r.2)

/-- a history of manager calls `(table id, operation)`, with each call's answer -/
def runCalls (reg : Reg E) : List (Nat × Op) → Reg E × List (Nat × Out R)
  | [] => (reg, [])
  | c :: t =>
    let r := call estep nameOf failed reg c.1 c.2
    let rest := runCalls r.1 t
    (rest.1, (c.1, r.2) :: rest.2)

/-- the same for one table on its own -/
def runTable (st : Option E) : List Op → Option E × List (Out R)
  | [] => (st, [])
  | op :: t =>
    let r := tstep estep nameOf failed st op
    let rest := runTable r.1 t
    (rest.1, r.2 :: rest.2)

/-- the operations of a history that are addressed to table `a` / the answers they got -/
def opsOf (a : Nat) (calls : List (Nat × Op)) : List Op := (calls.filter (fun c => c.1 == a)).map (·.2)
def outsOf (a : Nat) (outs : List (Nat × Out R)) : List (Out R) := (outs.filter (fun c => c.1 == a)).map (·.2)

/-- a call addressed to `a` is the table's own step -/
theorem call_self (reg : Reg E) (a : Nat) (op : Op) :
    lookup (call estep nameOf failed reg a op).1 a = (tstep estep nameOf failed (lookup reg a) op).1 ∧
    (call estep nameOf failed reg a op).2 = (tstep estep nameOf failed (lookup reg a) op).2 := by
  unfold call tstep
  cases hl : lookup reg a with
  | none => simp [hl]
  | some e =>
    simp only
    split
    · exact ⟨lookup_delete_self _ _, rfl⟩
    · exact ⟨lookup_store_self _ _ _, rfl⟩

/-- **C17 — for every history of manager calls, of any length, over any number of tables, for every engine**: what the
manager holds for table `a` at the end, and the answers the calls addressed to `a` got, are exactly those of table `a`'s
engine run on its own on the calls addressed to it — the same-named operations, in order, with table-not-found for as
long as the id is not (or no longer) registered.  Calls addressed to other tables do not appear in it at all. -/
theorem C17_refines (reg : Reg E) (calls : List (Nat × Op)) (a : Nat) :
    lookup (runCalls estep nameOf failed reg calls).1 a =
      (runTable estep nameOf failed (lookup reg a) (opsOf a calls)).1 ∧
    outsOf a (runCalls estep nameOf failed reg calls).2 =
      (runTable estep nameOf failed (lookup reg a) (opsOf a calls)).2 := by
  induction calls generalizing reg with
  | nil => exact ⟨rfl, rfl⟩
  | cons c t ih =>
    have ih' := ih (call estep nameOf failed reg c.1 c.2).1
    by_cases hc : c.1 = a
    · have hs := call_self estep nameOf failed reg a c.2
      have hf : opsOf a (c :: t) = c.2 :: opsOf a t := by simp [opsOf, hc]
      rw [hf]
      simp only [runCalls, runTable, outsOf]
      rw [hc] at ih' ⊢
      rw [hs.1] at ih'
      refine ⟨ih'.1, ?_⟩
      simp only [beq_self_eq_true, List.filter_cons_of_pos, List.map_cons, hs.2]
      exact congrArg _ ih'.2
    · have hne : a ≠ c.1 := fun h => hc h.symm
      have hf : opsOf a (c :: t) = opsOf a t := by
        have : (c.1 == a) = false := by simpa using hc
        simp [opsOf, this]
      rw [hf]
      simp only [runCalls, outsOf]
      rw [C17_isolated estep nameOf failed reg c.1 a c.2 hne] at ih'
      refine ⟨ih'.1, ?_⟩
      have : (c.1 == a) = false := by simpa using hc
      simp only [this, Bool.false_eq_true, not_false_eq_true, List.filter_cons_of_neg]
      exact ih'.2

-- non-vacuity: three tables, interleaved calls, a close in the middle
example : let estep : Nat → String → Nat × Bool := fun n _ => (n + 1, true)
    let reg : Reg Nat := { tables := [(1, 10), (2, 20), (3, 30)] }
    let calls := [(1, "PlayerJoin"), (2, "PlayerJoin"), (1, "CloseTable"), (1, "PlayerJoin"), (2, "UpdateBlind"), (4, "PauseTable")]
    lookup (runCalls estep id (fun r => !r) reg calls).1 1 = none ∧
    lookup (runCalls estep id (fun r => !r) reg calls).1 2 = some 22 ∧
    lookup (runCalls estep id (fun r => !r) reg calls).1 3 = some 30 ∧
    opsOf 1 calls = ["PlayerJoin", "CloseTable", "PlayerJoin"] := by decide

-- non-vacuity: a two-table registry over a toy engine
example : let estep : Nat → String → Nat × Bool := fun n _ => (n + 1, true)
    let reg : Reg Nat := { tables := [(1, 10), (2, 20)] }
    lookup (call estep id (fun r => !r) reg 1 "PlayerJoin").1 1 = some 11 ∧
    lookup (call estep id (fun r => !r) reg 1 "PlayerJoin").1 2 = some 20 ∧
    lookup (call estep id (fun r => !r) reg 1 "CloseTable").1 1 = none := by decide

end MG
