import PokerVerif.AC
import PokerVerif.Props.C10
/-!
# C19 — Auto-play for an unresponsive player never volunteers chips

Statement: when a human player's thinking time runs out, or the player is suspended, the player runner acts for them
in the most conservative way: pass when that is the only option, otherwise ready or check if allowed, otherwise fold,
and it pays only mandatory antes and blinds of the posted size; it never calls, bets, raises or moves all-in, and it
does nothing before the thinking time has elapsed.

`AC.automate` / `AC.requestMove` transcribe `playerRunner.automate` / `requestMove`; the order of the `if` chain and
the statements of `requestMove` are regenerated facts.  The real runner is run on thousands of real hand states per
run (all three statuses, action time 0 and 1 s) and must make exactly the modelled call, timed cases not before the
thinking time.
-/
namespace AC
open HD

/-- the `if` chain of `automate` and the head of `requestMove`, as the source has them now -/
theorem C19_order_facts :
    Facts.automateConds = ["gs.HasAction(playerIdx, \"ready\")", "gs.HasAction(playerIdx, \"check\")", "gs.HasAction(playerIdx, \"fold\")"] ∧
    Facts.automateActs = ["return pr.actions.Ready()", "return pr.actions.Check()", "return pr.actions.Fold()"] ∧
    Facts.playerRequestMove.take 2 =
      ["if gs.HasAction(playerIdx, \"pass\") { return pr.actions.Pass() }",
       "if pr.status == PlayerStatus_Suspend { return pr.automate(gs, playerIdx) }"] := by decide

/-- `playerRunner.UpdateTableState`, statement by statement (regenerated from actor/player_runner.go): a state that is not
newer than the last one seen is dropped **whatever hand it belongs to** — the `UpdatedAt` comparison is not skipped for a
state of another hand, so an update of the previous hand that is delivered late cannot re-arm the runner with a stale request. -/
def expectedPlayerUpdate : List String := ["gs := table.State.GameState", "pr.tableInfo = table", "if gs != nil { if gs.GameID != pr.curGameID { pr.curGameID = gs.GameID } if pr.lastGameStateTime >= gs.UpdatedAt { return nil } pr.lastGameStateTime = gs.UpdatedAt }", "isEliminated := true", "for _, ps := range table.State.PlayerStates { if ps.PlayerID == pr.playerID { isEliminated = false } }", "if isEliminated { return nil }", "gamePlayerIdx := pr.actor.GetTable().GetGamePlayerIndex(pr.playerID)", "pr.onTableStateUpdated(table)", "switch table.State.Status { case pokertable.TableStateStatus_TableGamePlaying: if gamePlayerIdx == -1 { return nil } if gs == nil { return nil } gs.AsPlayer(gamePlayerIdx) player := gs.GetPlayer(gamePlayerIdx) if len(player.AllowedActions) > 0 { pr.requestMove(gs, gamePlayerIdx) } }", "return nil"]

theorem C19_update_facts : Facts.playerUpdate = expectedPlayerUpdate := by rfl

/-- the player's own fold brings him back — the runner's status is `running` again — whether or not the table accepts the
fold (regenerated from actor/player_runner.go): a suspended player who presses Fold too late is still back, and the runner
waits his thinking time out at the next request -/
theorem C19_fold_resumes_fact : Facts.playerFold = ["pr.Resume()", "return pr.actions.Fold()"] := by decide

/-- the payments of `automate`, as the source has them now: the sizes posted for the running hand (`gs.Meta`), by
request and position, and nothing else -/
theorem C19_payment_facts :
    Facts.automateBody.drop 1 =
      ["switch gs.Status.CurrentEvent { case pokerface.GameEventSymbols[pokerface.GameEvent_AnteRequested]: return pr.actions.Pay(gs.Meta.Ante) case pokerface.GameEventSymbols[pokerface.GameEvent_BlindsRequested]: if gs.HasPosition(playerIdx, \"sb\") { return pr.actions.Pay(gs.Meta.Blind.SB) } else if gs.HasPosition(playerIdx, \"bb\") { return pr.actions.Pay(gs.Meta.Blind.BB) } return pr.actions.Pay(gs.Meta.Blind.Dealer) }",
       "return nil"] := by rfl


/-- **C19 — the most conservative move, never a voluntary chip**: `automate` yields ready, check, fold, a mandatory
payment of the posted size, or nothing — for every hand state and every player. -/
theorem C19_conservative (v : View) (gi : Nat) :
    automate v gi = some .ready ∨ automate v gi = some .check ∨ automate v gi = some .fold ∨
    (∃ c, automate v gi = some (.pay c) ∧ posted v gi = some c) ∨ automate v gi = none := by
  unfold automate
  split
  · exact Or.inl rfl
  · split
    · exact Or.inr (Or.inl rfl)
    · split
      · exact Or.inr (Or.inr (Or.inl rfl))
      · cases h : posted v gi with
        | none => exact Or.inr (Or.inr (Or.inr (Or.inr rfl)))
        | some c => exact Or.inr (Or.inr (Or.inr (Or.inl ⟨c, rfl, rfl⟩)))

/-- in particular it never calls, bets, raises or moves all-in -/
theorem C19_never_volunteers (v : View) (gi : Nat) (m : Move) (h : automate v gi = some m) :
    m.kind ≠ "call" ∧ m.kind ≠ "bet" ∧ m.kind ≠ "raise" ∧ m.kind ≠ "allin" := by
  rcases C19_conservative v gi with h1 | h1 | h1 | ⟨c, h1, _⟩ | h1 <;> rw [h1] at h <;> simp at h <;> subst h <;> simp [Move.kind]

/-- precedence: ready before check before fold before a payment -/
theorem C19_precedence (v : View) (gi : Nat) :
    (v.hasAction gi "ready" = true → automate v gi = some .ready) ∧
    (v.hasAction gi "ready" = false → v.hasAction gi "check" = true → automate v gi = some .check) ∧
    (v.hasAction gi "ready" = false → v.hasAction gi "check" = false → v.hasAction gi "fold" = true → automate v gi = some .fold) := by
  refine ⟨?_, ?_, ?_⟩
  · intro h; unfold automate; simp [h]
  · intro h1 h2; unfold automate; simp [h1, h2]
  · intro h1 h2 h3; unfold automate; simp [h1, h2, h3]

/-- the payment is the posted size: the ante at an ante request; at a blinds request the small blind for the `sb`
position, else the big blind for `bb`, else the dealer blind -/
theorem C19_posted_size (v : View) (gi : Nat) :
    (v.event = "AnteRequested" → posted v gi = some v.ante) ∧
    (v.event = "BlindsRequested" → v.hasPosition gi "sb" = true → posted v gi = some v.bSB) ∧
    (v.event = "BlindsRequested" → v.hasPosition gi "sb" = false → v.hasPosition gi "bb" = true → posted v gi = some v.bBB) ∧
    (v.event ≠ "AnteRequested" → v.event ≠ "BlindsRequested" → posted v gi = none) := by
  refine ⟨?_, ?_, ?_, ?_⟩
  · intro h; unfold posted; simp [h]
  · intro h hs; unfold posted; simp [h, hs]
  · intro h hs hb; unfold posted; simp [h, hs, hb]
  · intro h1 h2; unfold posted; simp [h1, h2]

/-- **C19 — pass at once when that is the option; a suspended player is acted for at once; otherwise nothing happens
before the thinking time has elapsed** (the time bank is armed with exactly the action time), and what happens then is
`automate`. -/
theorem C19_wait (status : PStatus) (actionTime : Int) (v : View) (gi : Nat) :
    (v.hasAction gi "pass" = true → requestMove status actionTime v gi = .now .pass) ∧
    (v.hasAction gi "pass" = false → status = .suspend →
      requestMove status actionTime v gi = (match automate v gi with | some m => .now m | none => .nothing)) ∧
    (v.hasAction gi "pass" = false → status ≠ .suspend → requestMove status actionTime v gi = .after actionTime (automate v gi)) := by
  refine ⟨?_, ?_, ?_⟩
  · intro h; unfold requestMove; simp [h]
  · intro h hs; unfold requestMove; simp only [h, hs]; simp; cases automate v gi <;> rfl
  · intro h hs; unfold requestMove
    have : (status == PStatus.suspend) = false := by cases status <;> simp_all
    simp [h, this]

-- non-vacuity: facing a bet with call / fold / raise / all-in allowed the runner folds; at a blinds request the bb pays 20
example : automate exView 0 = some .fold ∧
    automate { exView with event := "BlindsRequested", players := exView.players.map (fun p => { p with allowed := if p.idx == 2 then ["pay"] else [] }) } 2 = some (.pay 20) ∧
    requestMove .running 7 exView 0 = .after 7 (some .fold) := by decide

/-- the runner's status machine as the source has it now (regenerated from actor/player_runner.go): `AC.pIdle`, `pSuspend`,
`pResume` are these three bodies -/
theorem C19_status_machine_facts :
    Facts.playerIdle =
      ["if pr.status != PlayerStatus_Idle { pr.status = PlayerStatus_Idle pr.idleCount = 0 } else { pr.idleCount++ }",
       "if pr.idleCount == pr.suspendThreshold { return pr.Suspend() }", "return nil"] ∧
    Facts.playerSuspend = ["pr.status = PlayerStatus_Suspend", "return nil"] ∧
    Facts.playerResume =
      ["if pr.status == PlayerStatus_Running { return nil }", "pr.status = PlayerStatus_Running", "pr.idleCount = 0", "return nil"] := by
  decide

/-- **C19 — an idle report ends a suspension**: whatever the runner's status and count were, suspended and then reported
idle the player is idle — not suspended — with a fresh count; and so is any player who was not idle -/
theorem C19_idle_report_ends_suspension (s : PSt) :
    (pIdle (pSuspend s)).status = .idle ∧ (pIdle (pSuspend s)).idleCount = 0 ∧
    (s.status ≠ .idle → (pIdle s).status = .idle ∧ (pIdle s).idleCount = 0) := by
  refine ⟨by simp [pIdle, pSuspend, suspendThreshold], by simp [pIdle, pSuspend, suspendThreshold], fun h => ?_⟩
  cases hs : s.status <;> simp_all [pIdle, suspendThreshold]

/-- **C19 — … and so the thinking time applies again**: after a suspension followed by an idle report the runner does
nothing at once (unless a pass is the only option) — it arms the time bank with the player's thinking time, for every view -/
theorem C19_waits_again_after_idle_report (s : PSt) (actionTime : Int) (v : View) (gi : Nat)
    (hp : v.hasAction gi "pass" = false) :
    requestMove (pIdle (pSuspend s)).status actionTime v gi = .after actionTime (automate v gi) := by
  have h := (C19_idle_report_ends_suspension s).1
  unfold requestMove
  simp [hp, h]

/-- a player is suspended by the runner itself only at the second idle report in a row on an idle player; a come-back
(`Resume`, or the player's own move) makes him running with a fresh count -/
theorem C19_status_paths :
    (pRun {} "SI".toList).status = .idle ∧ (pRun {} "II".toList).status = .idle ∧ (pRun {} "III".toList).status = .suspend ∧
    (pRun {} "SIR".toList).status = .running ∧ (pRun {} "IIIR".toList) = {} ∧ (pRun {} "IS".toList).status = .suspend := by decide

end AC
