import PokerVerif.Lemmas.HDBasic
import PokerVerif.Props.C10
/-!
# C13 — A failing game backend never corrupts a hand

Statement: if the game backend fails while applying a player's action, the caller gets the error, the table and the
hand are exactly as before and the same action can be submitted again; however many such failures and retries a hand
suffers, its course and result are exactly those determined by the successfully applied steps alone.  A backend
failure in a step the engine performs by itself (collecting antes or blinds, readiness, next round) is reported through
the table error callback rather than lost.

The backend is an oracle of the model: each submission carries what the backend did (`Oracle.err` = it failed).
Theorems quantify over every state and every sequence of submissions with every ok/fail pattern.  The last sentence
(internal steps) is about `game.go`'s `onGameErrorUpdated` calls; it is exercised by the fault-injecting harness
(every injected failure of an internal step must show up on `OnTableErrorUpdated`) and is not modelled beyond that.
-/
namespace HD

structure Sub where
  id : Nat
  kind : String
  arg : Int
  oracle : Oracle

def run (s : State) (subs : List Sub) : State := subs.foldl (fun st a => (act st a.id a.kind a.arg a.oracle).1) s

/-- the submissions that were accepted, in order -/
def acceptedOf (s : State) : List Sub → List Sub
  | [] => []
  | a :: t =>
    let r := act s a.id a.kind a.arg a.oracle
    if r.2 = .ok then a :: acceptedOf r.1 t else acceptedOf r.1 t

/-- **C13 — the caller gets the error and nothing changed**: a backend failure on a player's action yields an
error and leaves table and hand exactly as before. -/
theorem C13_error_returned (s : State) (id : Nat) (kind : String) (arg : Int) (h : ¬(kind = "ready" ∨ kind = "pay")) :
    (act s id kind arg .err).2 ≠ .ok ∧ (act s id kind arg .err).1 = s := by
  rcases act_cases s id kind arg .err with ⟨hs, e, he⟩ | ⟨_, _, _, _, _, _, _, _, _, _, h7⟩
  · exact ⟨by rw [he]; simp, hs⟩
  · rcases h7 with ⟨hy, _⟩ | ⟨_, _, _, _, nr, ho, _⟩
    · exact absurd hy h
    · simp at ho

/-- **C13 — the same action can be submitted again**: after a failed attempt the retry meets exactly the state the
first attempt met, so it is accepted iff the backend now accepts it. -/
theorem C13_retry (s : State) (id : Nat) (kind : String) (arg : Int) (h : ¬(kind = "ready" ∨ kind = "pay")) (o : Oracle) :
    act (act s id kind arg .err).1 id kind arg o = act s id kind arg o := by
  rw [(C13_error_returned s id kind arg h).2]

/-- **C13 — erasure**: however many failures (and refusals) a sequence of submissions contains, the final table and
hand are those determined by the accepted submissions alone. -/
theorem C13_erasure (s : State) (subs : List Sub) : run s subs = run s (acceptedOf s subs) := by
  induction subs generalizing s with
  | nil => rfl
  | cons a t ih =>
    simp only [run, List.foldl_cons, acceptedOf]
    by_cases hok : (act s a.id a.kind a.arg a.oracle).2 = .ok
    · simp only [hok, if_true, List.foldl_cons]
      exact ih _
    · simp only [hok, if_false]
      have hs : (act s a.id a.kind a.arg a.oracle).1 = s := by
        rcases act_cases s a.id a.kind a.arg a.oracle with ⟨hs, _⟩ | ⟨_, _, _, _, _, _, _, _, _, h6, _⟩
        · exact hs
        · rw [h6] at hok; simp at hok
      rw [hs]
      have := ih s
      simp only [run] at this
      rw [hs] at *
      exact this

/-- every submission kept by `acceptedOf` is accepted again when the failures are left out (same states) -/
theorem C13_accepted_replay (s : State) (subs : List Sub) : acceptedOf s (acceptedOf s subs) = acceptedOf s subs := by
  induction subs generalizing s with
  | nil => rfl
  | cons a t ih =>
    simp only [acceptedOf]
    by_cases hok : (act s a.id a.kind a.arg a.oracle).2 = .ok
    · simp only [hok, if_true, acceptedOf]
      exact congrArg _ (ih _)
    · simp only [hok, if_false]
      have hs : (act s a.id a.kind a.arg a.oracle).1 = s := by
        rcases act_cases s a.id a.kind a.arg a.oracle with ⟨hs, _⟩ | ⟨_, _, _, _, _, _, _, _, _, h6, _⟩
        · exact hs
        · rw [h6] at hok; simp at hok
      rw [hs]; exact ih s

-- non-vacuity: a failure, a retry, an out-of-turn probe in between
example : let subs : List Sub := [⟨12, "call", 0, .err⟩, ⟨13, "fold", 0, .none⟩, ⟨12, "call", 0, .ok 2⟩]
    (acceptedOf exState subs).length = 1 ∧ (run exState subs).log = [(12, "call", "preflop")] := by decide

end HD
