import PokerVerif.Lemmas.TBBasic
import PokerVerif.Lemmas.SMBasic
import PokerVerif.Lemmas.TBSeatsRun
import PokerVerif.Lemmas.TBAgree
import PokerVerif.Lemmas.TBAgreeRun
import PokerVerif.Lemmas.TBGidx
import PokerVerif.Lemmas.TBLeaveList
import PokerVerif.Lemmas.TBFlags
import PokerVerif.Props.C07
import PokerVerif.Props.C01
/-!
# C03 — Seat bookkeeping stays exclusive, consistent and all-or-nothing

Statement: at every moment each seat holds at most one player and each player at most one seat within the configured
seat count, and the seat map, the player list and the seat manager name the same occupant for every seat with the
same seated-in flag.  A seat vacated by a departure can be taken again.  A membership operation that reports an error
(table full, seat taken, duplicate or unknown player) leaves all of these exactly as they were.

Proved here: all-or-nothing for every seat-manager mutator and for `PlayerReserve`, `PlayersLeave`, `PlayerJoin`,
`PlayerRedeemChips`; capacity; a vacated seat is empty again and an empty in-range seat accepts a new player.
`UpdateTablePlayers` is leave-then-join: if the join half fails the departure is already applied (known finding D20,
`C03_update_not_atomic_on_witness`); for batches mixing fixed and random seats the release of the fixed seats is
modelled (`batchAdd`) and compared with the implementation on every run.

**For every history** (`C03_for_every_history`, `C03_occupants`, `C03_membership_calls_cannot_panic`): starting from
`CreateTable`, after any sequence of the 19 kinds of event of `TB.Event` — arrivals single and in batches with fixed and
drawn seats, sit-ins, top-ups, departures, blind changes, pause/close/release/start, gate set-ups and firings (positions
drawn or rotated), turns of the retry loop, settlement signals, settlements, the continue step, the stale auto-join
completion — the table's seat map and player list are tight and of the configured length (`Booked`), the seat manager
holds, on every seat of the table, exactly the id of the player the table lists there, no id being listed twice (`Agree`),
**and** every entry of the hand's player list is an index into the player list (`GidxOK`).  The only hypothesis
(`DrawsLegal`): each recorded random seat draw is one `RandomAssignSeats` could have made (a fact about the recording,
checked by the driver on every trace).  No "did not panic" hypothesis is left: in such a state neither `batchAddPlayers` nor
`calcLeavePlayers` can index out of range (`batchAdd_no_panic`, `batchRemove_no_panic`) — the obstruction met while proving
the latter was the defect D30 (hand list left stale by a departure after a pause/close mid-hand), repaired in /repo.
The seated-in *flag* is not part of `Agree`: D22 (stale auto-join) makes table and seat manager disagree on it transiently
(and D31 can lose a lock-free join under a concurrent open), so it is a monitor (`TBSpec.c03Inv`), not a theorem.
-/
namespace SM

/-- **C03 — every seat-manager mutator is all-or-nothing**: an error leaves the state exactly as it was. -/
theorem C03_sm_atomic (st : State) :
    (∀ b, (assign st b).2 ≠ .ok → (assign st b).1 = st) ∧
    (∀ ids ch, (randomAssign st ids ch).2 ≠ .ok → (randomAssign st ids ch).1 = st) ∧
    (∀ ids, (remove st ids).2 ≠ .ok → (remove st ids).1 = st) ∧
    (∀ ids, (join st ids).2 ≠ .ok → (join st ids).1 = st) ∧
    (∀ id b, (setChips st id b).2 ≠ .ok → (setChips st id b).1 = st) := by
  refine ⟨?_, ?_, ?_, ?_, ?_⟩
  · intro b; unfold assign; split
    · intro _; rfl
    · simp only; split
      · intro _; rfl
      · split
        · intro _; rfl
        · intro h; exact absurd rfl h
  · intro ids ch; unfold randomAssign; split
    · intro _; rfl
    · split
      · intro _; rfl
      · intro h; exact absurd rfl h
  · intro ids; unfold remove; split
    · intro _; rfl
    · intro h; exact absurd rfl h
  · intro ids; unfold join; split
    · intro _; rfl
    · intro h; exact absurd rfl h
  · intro id b; unfold setChips; split
    · intro _; rfl
    · intro h; exact absurd rfl h

/-- **C03 — a seat vacated by a departure is empty again** (and no other seat is touched). -/
theorem C03_vacated (st : State) (ids : List Nat) (hok : (remove st ids).2 = .ok) :
    (∀ id ∈ ids, (remove st ids).1.seats (seatOf st id) = none) ∧
    (∀ j, j ∉ ids.map (seatOf st) → (remove st ids).1.seats j = st.seats j) := by
  unfold remove at hok ⊢
  split
  · rename_i h; simp [h] at hok
  · constructor
    · intro id hid
      exact clearSeats_mem _ _ _ (List.mem_map.mpr ⟨id, hid, rfl⟩)
    · intro j hj
      exact clearSeats_other _ _ _ hj

theorem emptyCount_pos (n : Nat) (s : Seats) (k : Nat) (hk : k < n) (he : s (Int.ofNat k) = none) :
    1 ≤ emptyCount n s := by
  unfold emptyCount
  induction n with
  | zero => omega
  | succ n ih =>
    simp only [countUpTo]
    by_cases hkn : k = n
    · subst hkn
      have : (!occupiedAt s (Int.ofNat k)) = true := by unfold occupiedAt; rw [he]; rfl
      simp only [this, if_true]; omega
    · have := ih (by omega); omega

/-- **C03 — … and can be taken again**: a fresh player is accepted on any empty seat of the table. -/
theorem C03_reuse (st : State) (id : Nat) (seat : Nat) (hs : seat < st.maxSeat)
    (he : st.seats (Int.ofNat seat) = none) (hf : hasPlayer st id = false) :
    (assign st [(id, Int.ofNat seat)]).2 = .ok := by
  unfold assign
  have h1 : ¬ emptyCount st.maxSeat st.seats < [(id, Int.ofNat seat)].length := by
    have := emptyCount_pos st.maxSeat st.seats seat hs he; simp; omega
  have hr : inRange st (Int.ofNat seat) = true := by unfold inRange; simp; omega
  have h2 : assignLoopErrs st [(id, Int.ofNat seat)] = [] := by
    unfold assignLoopErrs occupiedByOther seatAt
    simp only [List.any_cons, List.any_nil, Bool.or_false, hr, he]
    simp
  rw [if_neg h1]
  simp only [h2, List.isEmpty_nil, Bool.not_true, Bool.false_eq_true, if_false, List.any_cons, List.any_nil, Bool.or_false, hf]
end SM

namespace TB

/-- seat-manager knows every listed player (one clause of the consistency invariant `TBSpec.c03Inv`) -/
def SMKnows (s : State) : Prop := ∀ id, findPlayerIdx s id ≠ none → SM.hasPlayer s.sm id = true

theorem batchAdd_single_atomic (s : State) (j : Join) (ch : List Int) (e : Err) :
    (batchAdd s [j] ch).2 = .err e → (batchAdd s [j] ch).1 = s := by
  unfold batchAdd
  split
  · intro _; rfl
  · simp only
    split
    · intro _; rfl
    · split
      · -- the random assignment failed: with a single join there is no fixed seat to release
        rename_i hr2
        intro _
        by_cases hseat : j.seat = -1
        · simp [fixedMap, hseat]
        · exfalso
          simp [randomIds, hseat] at hr2
      · split
        · simp
        · simp

/-- **C03 — `PlayerReserve` is all-or-nothing** (table full, seat taken, out of range, duplicate …). -/
theorem C03_reserve_atomic (s : State) (j : Join) (ch : List Int) (hk : SMKnows s) (e : Err) :
    (reserve s j ch).2 = .err e → (reserve s j ch).1 = s := by
  unfold reserve
  split
  · split
    · intro _; rfl
    · exact batchAdd_single_atomic s j ch e
  · rename_i i hi
    simp only
    have hp := hk j.id (by rw [hi]; simp)
    have : (SM.setChips s.sm j.id true).2 = .ok := by unfold SM.setChips; simp [hp]
    simp [this]

/-- **C03 — a full table refuses a new reservation and stays as it is.** -/
theorem C03_full (s : State) (j : Join) (ch : List Int) (hnew : findPlayerIdx s j.id = none)
    (hfull : s.players.length = s.cfg.maxSeat) :
    reserve s j ch = (s, .err .noEmptySeats) := by
  unfold reserve; simp [hnew, hfull]

/-- **C03 — `PlayersLeave` is all-or-nothing** (an unknown id anywhere in the batch). -/
theorem C03_leave_atomic (s : State) (ids : List Nat) (e : Err) :
    (batchRemove s ids).2 = .err e → (batchRemove s ids).1 = s := by
  unfold batchRemove
  simp only
  split
  · intro _; rfl
  · split
    · simp
    · split
      · simp
      · simp

/-- `PlayerJoin` / `PlayerRedeemChips` of a stranger -/
theorem C03_stranger (s : State) (id : Nat) (c : Int) (h : findPlayerIdx s id = none) :
    join s id = (s, .err .playerNotFound) ∧ redeem s id c = (s, .err .playerNotFound) ∧
    finish s id = (s, .err .playerNotFound) := by
  refine ⟨?_, ?_, ?_⟩
  · unfold join joinCore; simp [h]
  · unfold redeem; simp [h]
  · unfold finish; simp [h]

/-- **C03 — a departure keeps the table's seat bookkeeping**: after a successful `PlayersLeave` the seat map (rebuilt for
the players that stay) and the player list describe the same seating again — every occupied entry names the listed player
sitting there, every listed player's seat names him, every other entry is `-1` — with one entry per seat. -/
theorem C03_leave_keeps_bookkeeping (s : State) (ids : List Nat) (h : Booked s) : Booked (batchRemove s ids).1 :=
  batchRemove_booked s ids h

/-- **C03 — a departure keeps seat manager and table in agreement**: if before a `PlayersLeave` the seat map, the player
list and the seat manager name the same occupant for every seat (`Agree`) and the table's own bookkeeping is consistent
(`Booked`), they do so afterwards — whether the call succeeds or is refused (the index-out-of-range panics of
`calcLeavePlayers` are the excluded case). -/
theorem C03_leave_keeps_agreement (s : State) (ids : List Nat) (hb : Booked s) (ha : Agree s)
    (hnp : (batchRemove s ids).2 ≠ .panic) : Booked (batchRemove s ids).1 ∧ Agree (batchRemove s ids).1 :=
  ⟨batchRemove_booked s ids hb, batchRemove_agree s ids hb ha hnp⟩

/-- **C03 — everything but arrivals and departures leaves the occupants alone**: sit-ins, top-ups, settlement signals, a
hand opening (positions drawn or rotated), settlement and the continue step change neither the listed ids, nor the seat
map, nor who the seat manager holds where. -/
theorem C03_quiet_operations (s : State) :
    (∀ id, Quiet (join s id).1 s ∧ SeatsEq (join s id).1 s) ∧
    (∀ id c, Quiet (redeem s id c).1 s ∧ SeatsEq (redeem s id c).1 s) ∧
    (∀ id, Quiet (finish s id).1 s ∧ SeatsEq (finish s id).1 s) ∧
    (∀ ch ok, Quiet (gateFire s ch ok).1 s ∧ SeatsEq (gateFire s ch ok).1 s) ∧
    (∀ r, Quiet (settle s r).1 s ∧ SeatsEq (settle s r).1 s) ∧
    (∀ e, Quiet (continueGame s e).1 s ∧ SeatsEq (continueGame s e).1 s) ∧
    (Quiet (autoJoinStale s) s ∧ SeatsEq (autoJoinStale s) s) :=
  ⟨fun id => ⟨q_join s id, seq_join s id⟩, fun id c => ⟨q_redeem s id c, seq_redeem s id c⟩,
   fun id => ⟨q_finish s id, seq_finish s id⟩, fun ch ok => ⟨q_gateFire s ch ok, seq_gateFire s ch ok⟩,
   fun r => ⟨q_settle s r, seq_settle s r⟩, fun e => ⟨q_continueGame s e, seq_continueGame s e⟩,
   ⟨q_autoJoinStale s, seq_autoJoinStale s⟩⟩

/-- **C03 (partial) — the seat bookkeeping of the table holds in every reachable state**: for every table, every history
of every length (arrivals single and in batches, top-ups, departures, hands opened, settled and continued, pauses, …),
*provided every arrival was given seats the table showed free, one each* (`ArrivalsOK`: the seat manager's answer agrees
with the table's seat map — the other half of the invariant, evaluated by the monitor `c03Inv` on every observed state and
not yet derived from the seat-manager model for all histories).  In particular: each seat holds at most one player, each
player exactly one seat within the seat count, and seat map and player list name the same occupant for every seat. -/
theorem C03_bookkeeping_partial (cfg : Meta) (b : Blind) (evs : List Event) (ha : ArrivalsOK (create cfg b) evs) :
    Booked (run (create cfg b) evs) := run_booked _ evs (create_booked cfg b) ha

/-- … and no two listed players share a seat -/
theorem C03_one_player_per_seat_partial (cfg : Meta) (b : Blind) (evs : List Event) (ha : ArrivalsOK (create cfg b) evs) :
    (run (create cfg b) evs).players.Pairwise (fun p q => p.seat ≠ q.seat) :=
  MapTight.seats_distinct _ _ (C03_bookkeeping_partial cfg b evs ha).1

-- non-vacuity: the example history (three arrivals, joins, a hand with an add-on, a departure) meets the premise
example : ArrivalsOK (create exCfg exBlind) exHistory := by
  simp only [exHistory, ArrivalsOK, EventArrivalOK, step, and_true]
  decide


/-- **C03 — for every history**: in every state reachable from `CreateTable` by any history whose recorded seat draws are
legal, the table's seat bookkeeping is consistent, the seat manager agrees with it seat by seat, and the hand's player list
points into the player list. -/
theorem C03_for_every_history (cfg : Meta) (b : Blind) (evs : List Event) (hl : DrawsLegal (create cfg b) evs) :
    Booked (run (create cfg b) evs) ∧ Agree (run (create cfg b) evs) ∧ GidxOK (run (create cfg b) evs) :=
  run_inv3 _ evs (create_inv3 cfg b) hl

/-- the state `CreateTable` leaves when it is given players is the state after a batch join on the fresh table, up to the
status -/
theorem createWith_eq (cfg : Meta) (b : Blind) (js : List Join) (ch : List Int) :
    ∃ st, (createWith cfg b js ch).1 = { step (create cfg b) (.update js [] ch) with status := st } := by
  unfold createWith createJoin
  show ∃ st, _ = { (update (create cfg b) js [] ch).1 with status := st }
  unfold update
  simp only [List.isEmpty_nil, if_true]
  cases hj : js.isEmpty with
  | true => exact ⟨(create cfg b).status, by simp⟩
  | false =>
    simp only [Bool.false_eq_true, if_false]
    cases hr : (batchAdd (create cfg b) js ch).2 with
    | ok =>
      simp only
      split
      · exact ⟨.balancing, rfl⟩
      · exact ⟨(batchAdd (create cfg b) js ch).1.status, rfl⟩
    | err e => exact ⟨(batchAdd (create cfg b) js ch).1.status, rfl⟩
    | panic => exact ⟨(batchAdd (create cfg b) js ch).1.status, rfl⟩

theorem inv3_status (s : State) (st : Status) (h : Inv3 s) : Inv3 { s with status := st } :=
  ⟨h.1, ⟨h.2.1.maxSeat, h.2.1.seats, h.2.1.ids⟩, h.2.2⟩

/-- **C03 — … also for a table created with players** (`CreateTable` with `JoinPlayers`, the "create-with-players" of the
quantifier): the invariant holds right after the creation and after every history that follows -/
theorem C03_created_with_players (cfg : Meta) (b : Blind) (js : List Join) (ch : List Int)
    (hd : DrawLegal (create cfg b) (.update js [] ch)) (evs : List Event)
    (hl : DrawsLegal (createWith cfg b js ch).1 evs) :
    Booked (run (createWith cfg b js ch).1 evs) ∧ Agree (run (createWith cfg b js ch).1 evs) ∧
      GidxOK (run (createWith cfg b js ch).1 evs) := by
  obtain ⟨st, heq⟩ := createWith_eq cfg b js ch
  have h0 : Inv3 (createWith cfg b js ch).1 := by
    rw [heq]
    exact inv3_status _ st (step_inv3 _ _ (create_inv3 cfg b) hd)
  exact run_inv3 _ evs h0 hl

/-- **C03 — … with the same seated-in flag, for every history** (`Lemmas/TBFlags`): in every state reachable from
`CreateTable` by any history of the 19 event kinds whose recorded seat draws are legal, the seat manager holds every listed
player on his seat — under his id — *with the table's seated-in flag*.  Sit-ins write both flags (`PlayerJoin` sets the
table's first; on a table whose books agree the seat manager cannot refuse: `C03_join_sets_both_flags`), arrivals come not
seated-in on both sides and go to empty seats, a refused batch gives back only what it had just taken, departures only clear
seats, and nothing else — top-ups, level changes, the gate, opens with their rotation and waiting flags, settlements, the
continue step's has-chips refresh — touches a flag. -/
theorem C03_flags_for_every_history (cfg : Meta) (b : Blind) (evs : List Event) (hl : DrawsLegal (create cfg b) evs) :
    let t := run (create cfg b) evs
    ∀ (i : Nat) (p : Player), t.players[i]? = some p →
      ∃ sp, t.sm.seats p.seat = some sp ∧ sp.id = p.id ∧ sp.isIn = p.isIn := by
  intro t i p hp
  obtain ⟨⟨hb, ha, _⟩, hf⟩ := run_inv4 _ evs (create_inv4 cfg b) hl
  have hg := hb.1.1.players i p hp
  have hr := seatMapGet_range t.seatMap p.seat _ hg
  rw [hb.2] at hr
  have hsm : SM.idAt t.sm p.seat = some p.id := by
    rw [ha.seats p.seat hr.1 hr.2]; exact occ_of_player t.seatMap t.players hb.1.1 i p hp
  unfold SM.idAt at hsm
  cases hs : t.sm.seats p.seat with
  | none => rw [hs] at hsm; cases hsm
  | some sp =>
    rw [hs] at hsm
    have hid : sp.id = p.id := Option.some.inj hsm
    exact ⟨sp, rfl, hid, hf p (List.mem_of_getElem? hp) sp hs hid⟩

/-- … also for a table created with players, and after every history that follows -/
theorem C03_flags_created_with_players (cfg : Meta) (b : Blind) (js : List Join) (ch : List Int)
    (hd : DrawLegal (create cfg b) (.update js [] ch)) (evs : List Event)
    (hl : DrawsLegal (createWith cfg b js ch).1 evs) :
    FlagInv (run (createWith cfg b js ch).1 evs) := by
  obtain ⟨st, heq⟩ := createWith_eq cfg b js ch
  have h1 := step_inv4 _ _ (create_inv4 cfg b) hd
  have h0 : Inv4 (createWith cfg b js ch).1 := by
    rw [heq]
    exact ⟨inv3_status _ st h1.1, h1.2⟩
  exact (run_inv4 _ evs h0 hl).2

-- non-vacuity: two players reserve, one of them sits in — both sides say so
def exFlagsTable : State := run (create exCfg exBlind) (exCycle.take 3)
example : exFlagsTable.players.map (fun p => (p.id, p.seat, p.isIn)) = [(1, 0, true), (2, 2, false)] ∧
    (exFlagsTable.sm.seats 0).map (fun sp => (sp.id, sp.isIn)) = some (1, true) ∧
    (exFlagsTable.sm.seats 2).map (fun sp => (sp.id, sp.isIn)) = some (2, false) := by decide

/-- … spelled out: no two listed players share a seat or an id, every listed player sits on a seat of the table whose
seat-map entry names him, and the seat manager's occupant of every seat of the table is the table's -/
theorem C03_occupants (cfg : Meta) (b : Blind) (evs : List Event) (hl : DrawsLegal (create cfg b) evs) :
    let t := run (create cfg b) evs
    t.players.Pairwise (fun p q => p.seat ≠ q.seat) ∧ (t.players.map (·.id)).Nodup ∧
    (∀ (i : Nat) (p : Player), t.players[i]? = some p → 0 ≤ p.seat ∧ p.seat < t.cfg.maxSeat ∧ seatMapGet t.seatMap p.seat = some (i : Int) ∧
      SM.idAt t.sm p.seat = some p.id) ∧
    (∀ seat : Int, 0 ≤ seat → seat < t.cfg.maxSeat → SM.idAt t.sm seat = occId t.seatMap t.players seat) ∧
    SM.IdsUnique t.sm := by
  intro t
  obtain ⟨hb, ha, _⟩ := C03_for_every_history cfg b evs hl
  refine ⟨MapTight.seats_distinct _ _ hb.1, ha.ids, ?_, ha.seats, sm_unique t hb ha⟩
  intro i p hp
  have hg := hb.1.1.players i p hp
  have hr := seatMapGet_range t.seatMap p.seat _ hg
  rw [hb.2] at hr
  refine ⟨hr.1, hr.2, hg, ?_⟩
  rw [ha.seats p.seat hr.1 hr.2]
  exact occ_of_player t.seatMap t.players hb.1.1 i p hp

/-- **C03 — the two seated-in flags are written together.**  `PlayerJoin` sets the table's flag *before* it asks the seat
manager; a refusal there would leave the two apart.  On a table whose books agree (`Inv`, i.e. in every reachable state —
`C03_for_every_history`) the seat manager knows every listed player who has a seat, so it cannot refuse: the sit-in of a
listed, seated, not yet seated-in player answers `ok`, and afterwards the table's entry and the seat manager's occupant of
his seat both say seated-in. -/
theorem C03_join_sets_both_flags (s : State) (hi : Inv s) (id i : Nat) (p : Player)
    (hf : findPlayerIdx s id = some i) (hp : s.players[i]? = some p) (hseat : p.seat ≠ -1) (hout : p.isIn = false) :
    (joinCore s id).2.1 = .ok ∧
    ((joinCore s id).1.players[i]?).map (·.isIn) = some true ∧
    ((joinCore s id).1.sm.seats p.seat).map (·.isIn) = some true := by
  obtain ⟨hb, ha⟩ := hi
  -- the player found is the player asked for
  have hid : p.id = id := by
    obtain ⟨_, q, hq, hqid⟩ := findIdxAux_some id s.players 0 i hf
    simp only [Nat.sub_zero] at hq
    rw [hp] at hq; cases hq; exact hqid
  -- the seat manager holds him on his seat
  have hg := hb.1.1.players i p hp
  have hr := seatMapGet_range s.seatMap p.seat _ hg
  rw [hb.2] at hr
  have hsm : SM.idAt s.sm p.seat = some p.id := by
    rw [ha.seats p.seat hr.1 hr.2]; exact occ_of_player s.seatMap s.players hb.1.1 i p hp
  have hu := sm_unique s hb ha
  have hms : (s.sm.maxSeat : Int) = s.cfg.maxSeat := by rw [ha.maxSeat]
  have hso : SM.seatOf s.sm id = p.seat := by
    rw [← hid]; exact SM.seatOf_eq s.sm hu p.id p.seat hr.1 (by rw [hms]; exact hr.2) hsm
  have hhas : SM.hasPlayer s.sm id = true := by
    rw [SM.hasPlayer_iff]; exact ⟨p.seat, hr.1, by rw [hms]; exact hr.2, by rw [← hid]; exact hsm⟩
  obtain ⟨sp, hsp⟩ : ∃ sp, s.sm.seats p.seat = some sp := by
    unfold SM.idAt at hsm
    cases h : s.sm.seats p.seat with
    | none => rw [h] at hsm; cases hsm
    | some sp => exact ⟨sp, rfl⟩
  have hlt : i < s.players.length := findPlayerIdx_lt s id i hf
  unfold joinCore
  simp only [hf, hp, hseat, hout, beq_iff_eq, if_false, Bool.false_eq_true]
  have hj : SM.join s.sm [id] = ({ s.sm with seats := SM.joinSeats s.sm.seats [SM.seatOf s.sm id] }, .ok) := by
    unfold SM.join; simp [hhas]
  rw [hj]
  refine ⟨rfl, ?_, ?_⟩
  · simp [modAt, hp]
  · simp [SM.joinSeats, SM.updAt, hso, hsp]

/-- **C03 — no membership call can crash the table**: in every reachable state `PlayersLeave` of anybody, and
`PlayerReserve` / `UpdateTablePlayers` arrivals with a legal draw, end in `ok` or in an error — never in an index out of
range (which would leave the seat manager updated and the table not). -/
theorem C03_membership_calls_cannot_panic (cfg : Meta) (b : Blind) (evs : List Event) (hl : DrawsLegal (create cfg b) evs) :
    let t := run (create cfg b) evs
    (∀ ids, (batchRemove t ids).2 ≠ .panic) ∧
    (∀ js ch, BatchLegal t js ch → (batchAdd t js ch).2 ≠ .panic) := by
  intro t
  obtain ⟨hb, ha, hg⟩ := C03_for_every_history cfg b evs hl
  exact ⟨fun ids => batchRemove_no_panic t ids hb hg, fun js ch h => batchAdd_no_panic t js ch hb ha h⟩

-- non-vacuity: the example history (three arrivals, one on a drawn seat, joins, a hand with an add-on, a departure)
example : DrawsLegal (create exCfg exBlind) exHistory := by
  simp only [exHistory, DrawsLegal, DrawLegal, step, and_true]
  decide

/-- D20: a batch update whose join half fails has already applied its departures -/
theorem C03_update_not_atomic_on_witness :
    let t := run (create exCfg exBlind) [.reserve { id := 1, chips := 500, seat := 0 } [], .reserve { id := 2, chips := 300, seat := 2 } []]
    (update t [{ id := 3, chips := 100, seat := 2 }] [1] []).2 = .err (.sm [.seatTaken]) ∧
    (update t [{ id := 3, chips := 100, seat := 2 }] [1] []).1.players.length = 1 ∧ t.players.length = 2 := by decide

-- non-vacuity for the atomicity theorems: a refused reservation on a seat that is taken
example : let t := run (create exCfg exBlind) [.reserve { id := 1, chips := 500, seat := 0 } []]
    (reserve t { id := 2, chips := 100, seat := 0 } []).2 = .err (.sm [.seatTaken]) ∧
    (reserve t { id := 2, chips := 100, seat := 7 } []).2 = .err (.sm [.unavailableSeat]) := by decide

end TB
