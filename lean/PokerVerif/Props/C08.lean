import PokerVerif.Lemmas.TBBasic
import PokerVerif.Props.C07
/-!
# C08 — After each hand the table pauses or deals on; it never wedges

Statement: when a hand has been settled and the continue interval has elapsed, the table pauses iff the blind level
is a break or fewer players than the table minimum still have chips; otherwise, provided at least two seated-in
players have chips, the next hand opens as soon as the expected players have signalled they finished viewing the
settlement (or the open-game timeout elapses) — without any further external call and regardless of who busted, who
was sitting out and who arrived meanwhile.

`continueGame` = reset + refresh + the delayed handler `nextMove`.  CT/cash tables past `MaxDuration` (`expired`)
and closed / released tables are excluded explicitly: the code ends auto-open there by design.
-/
namespace TB

theorem zip_range_snd {α : Type} (l : List α) : ((List.range l.length).zip l).map (·.2) = l := by
  apply List.map_snd_zip; simp
theorem zip_range_fst {α : Type} (l : List α) : ((List.range l.length).zip l).map (·.1) = List.range l.length := by
  apply List.map_fst_zip; simp

/-- `ShouldPause`, spelled out: break level, or fewer players with chips than the table minimum -/
theorem shouldPause_iff (s : State) :
    shouldPause s = true ↔ (s.blind.isBreaking = true ∨ (alivePlayers s).length < s.cfg.minPlayers) := by
  unfold shouldPause; simp

/-- **C08 — pause iff the level is a break or fewer players than the minimum still have chips; otherwise the next
hand is set up** with game count + 1, awaiting the seated-in players with chips (`C08_gate_participants`). -/
theorem C08_pause_iff (s : State) (hr : s.released = false) (hok : (continueGame s false).2 ≠ .failed) :
    ∃ sm ps, refreshPlayers s.sm s.players = some (sm, ps) ∧
      ((continueGame s false).2 = .paused ↔ shouldPause { resetHand s with sm := sm, players := ps } = true) ∧
      ((continueGame s false).2 = .paused → (continueGame s false).1.status = .pausing) ∧
      ((continueGame s false).2 ≠ .paused →
        (continueGame s false).2 = .setUp ∧ (continueGame s false).1.gateCount = s.gameCount + 1 ∧
        (continueGame s false).1.gate.map (fun q => (q.id, q.idx)) = gateParticipants { resetHand s with sm := sm, players := ps } ∧
        (continueGame s false).1.status = .standby) := by
  rcases continueGame_cases s false with ⟨_, h⟩ | ⟨sm, ps, hrp, h⟩
  · rw [h] at hok; simp at hok
  · refine ⟨sm, ps, hrp, ?_⟩
    have spec := nextMove_spec { resetHand s with sm := sm, players := ps } (by simp [resetHand]) (by simp [resetHand, hr])
    rw [h]
    cases hp : shouldPause { resetHand s with sm := sm, players := ps }
    · rw [spec.2 hp]
      refine ⟨by simp, by simp, fun _ => ⟨rfl, by simp [setup, resetHand], ?_, by simp [setup, resetHand]⟩⟩
      simp [setup, List.map_map, Function.comp_def]
    · rw [spec.1 hp]
      exact ⟨by simp, fun _ => rfl, fun hne => absurd rfl hne⟩

/-- who is awaited: exactly the seated-in players with chips, each once, numbered 0,1,2,… -/
theorem C08_gate_participants (s : State) :
    (gateParticipants s).map (·.1) = (s.players.filter (fun p => p.isIn && decide (p.bankroll > 0))).map (·.id) ∧
    (gateParticipants s).map (·.2) = List.range (s.players.filter (fun p => p.isIn && decide (p.bankroll > 0))).length := by
  unfold gateParticipants
  simp only [List.map_map, Function.comp_def]
  constructor
  · have := zip_range_snd (s.players.filter (fun p => p.isIn && decide (p.bankroll > 0)))
    conv => rhs; rw [← this]
    simp [List.map_map, Function.comp_def]
  · exact zip_range_fst _

/-- **C08 — the gate's callback opens the hand whenever more than one participant is awaited and nothing forbids
it** (not closed / released, no unsettled hand, blinds set and not a break): the outcome is then decided by the seat
manager alone — `opened` iff positions could be initialised / rotated (C04: at least two dealt in). -/
theorem C08_fire_reaches_positions (s : State) (ch : Option Int) (ok : Bool)
    (hg : 1 < s.gate.length) (hr : s.released = false) (hc : s.status ≠ .closed) (hh : s.hasGame = false)
    (hs : s.blind.isSet = true) (hb : s.blind.isBreaking = false) :
    gateFire s ch ok = openCore (gateReady s) ch ok := by
  unfold gateFire
  have : openGuard (gateReady s) = .go := by
    unfold openGuard gateReady
    simp [hr, hc, hh, hs, hb]
    omega
  simp [this]

/-- the statuses `tableGameOpen`'s retry loop takes for "a hand is already running" (regenerated from
table_engine_stage.go): opened, playing, settled — `TB.inHandStatus`; in particular not `standby`, the status between hands -/
theorem C08_retry_statuses_fact : Facts.retryRunningStatuses =
    ["TableStateStatus_TableGameOpened", "TableStateStatus_TableGamePlaying", "TableStateStatus_TableGameSettled",
     "isGameRunning := funk.Contains(gameStartingStatuses, te.table.State.Status)"] := by decide

/-- **C08 — the retry loop tries again in earnest**: 3 s after a refused attempt, unless the table shows a hand by then,
the table was closed or released meanwhile,
the blinds are still unset or a break has begun, the turn is `openGame` + `startGame` exactly as on the first attempt
(between hands too: `standby` is not a hand status) — the outcome is again the seat manager's alone. -/
theorem C08_retry_reaches_positions (s : State) (ch : Option Int) (ok : Bool)
    (hr : s.released = false) (hc : s.status ≠ .closed)
    (hh : inHandStatus s.status = false) (hs : s.blind.isSet = true) (hb : s.blind.isBreaking = false) :
    retryOpen s ch ok = openCore s ch ok := by
  unfold retryOpen
  simp [hr, hc, hh, hs, hb]

example : inHandStatus .standby = false ∧ inHandStatus .created = false ∧ inHandStatus .pausing = false := by decide

/-- … and when the seat manager refuses, nothing but its waiting flags has changed (the engine retries) -/
theorem C08_refused_by_positions (s : State) (ch : Option Int) (ok : Bool)
    (h : (openCore s ch ok).2 = .refused)
    (hact : ∀ sm, s.players.mapM (fun p => (SM.isActive sm p.id).map (fun a => { p with participated := a })) ≠ none) :
    ((if !s.sm.isInit then SM.init s.sm ch else SM.rotate s.sm).2 ≠ .ok) := by
  intro hokk
  unfold openCore at h
  simp only [hokk] at h
  split at h
  · rename_i ht
    have := startHand_not_quiet (openTable s (if (!s.sm.isInit) = true then SM.init s.sm ch else SM.rotate s.sm).1).1 ok
    exact this.2 h
  · unfold openTable at h
    split at h
    · rename_i hm; exact hact _ hm
    · simp only at h
      split at h
      · simp at h
      · split at h <;> simp at h

-- non-vacuity: a settled two-player table continues to a set-up gate; with one bust it pauses
example :
    let t := (gateFire exTable (some 0) true).1
    let t1 := (settle t [(0, 10), (1, -10)]).1
    let t2 := (settle t [(0, 500), (1, -500)]).1
    (continueGame t1 false).2 = .setUp ∧ (continueGame t1 false).1.gateCount = 2 ∧
    (continueGame t2 false).2 = .paused := by decide

end TB
