import PokerVerif.AC
/-!
# C20 — Observers never see hidden cards, and each actor gets its own copy

Statement: a non-system observer is never shown the deck, the burned cards, or any hole cards or hand strength while
a hand is in play, and after the hand closes still not those of players who folded.  Every actor is given an independent
copy of the table state, so what one runner hides or changes is invisible to the other actors and to the engine.

`AC.observerView` = `observerRunner.UpdateTableState` (the filter is applied whenever a hand state is present — a
regenerated fact) composed with pokerface's `AsObserver` (`AC.asObserver`, contract, checked against the real function
on every observer case of every run).  Isolation is stated in a reference-store model of the adapter's
marshal / unmarshal copy.  (*partial*: aliasing is a property of pointers at run time — the harness checks, for 1..5
actors in every attach order, that the engine's table and the other actors' tables are byte-identical after the
observer ran and after a write through the observer's copy, and that no two actors share `State` / `GameState`
pointers.)
-/
namespace AC

/-- the source filters whenever a hand state is present, whatever the table status (regenerated) -/
theorem C20_filter_fact : observerFilterRecognised = true := by decide

/-- registering a listener on an observer only stores it (regenerated from actor/observer_runner.go): nothing the runner
already holds — a snapshot kept unfiltered while it was in system mode, say — is handed to the newcomer -/
theorem C20_subscribe_fact : Facts.observerSubscribe = ["obr.onTableStateUpdated = fn", "return nil"] := by decide

/-- attaching an actor to an adapter only stores the two references (regenerated from actor/table_engine_adapter.go and
actor/actor.go): nothing is delivered at that moment — in particular not the table the adapter was built from, which is
the engine's own -/
theorem C20_attach_fact : Facts.adapterSetActor = ["tea.actor = a"] ∧
    Facts.actorSetAdapter = ["tc.SetActor(a)", "a.tableAdapter = tc", "return nil"] := by decide

/-- the adapter marshals the table, unmarshals into a fresh value and forwards *that* (regenerated) -/
theorem C20_adapter_fact :
    Facts.adapterUpdate =
      ["data, err := tableInfo.GetJSON()", "if err != nil { return err }", "var t pokertable.Table",
       "err = json.Unmarshal([]byte(data), &t)", "if err != nil { return err }", "tea.table = &t",
       "return tea.actor.UpdateTableState(&t)"] := by decide

/-- **C20 — a non-system observer is never shown the deck, the burned cards, any hole cards or hand strength while a
hand is in play; after the hand closed still not those of players who folded** — for every hand state, and whatever
the table status is. -/
theorem C20_hidden (g : Priv) :
    ∃ o, observerView false (some g) = some o ∧ o.deck = [] ∧ o.burned = [] ∧
      (g.event ≠ "GameClosed" → ∀ h ∈ o.holes, h.2.1 = [] ∧ h.2.2 = false) ∧
      (g.event = "GameClosed" → ∀ h ∈ o.holes, h.1 = true → h.2.1 = [] ∧ h.2.2 = false) := by
  refine ⟨asObserver g, rfl, ?_, ?_, ?_, ?_⟩
  · unfold asObserver; split <;> rfl
  · unfold asObserver; split <;> rfl
  · intro hne h hh
    unfold asObserver at hh
    have : (g.event == "GameClosed") = false := by simpa using hne
    simp only [this, Bool.false_eq_true, if_false, List.mem_map] at hh
    obtain ⟨x, _, rfl⟩ := hh
    exact ⟨rfl, rfl⟩
  · intro he h hh hf
    unfold asObserver at hh
    simp only [he, beq_self_eq_true, if_true, List.mem_map] at hh
    obtain ⟨x, _, rfl⟩ := hh
    by_cases hx : x.1 = true
    · simp [hx]
    · simp [hx] at hf

/-- a system observer sees the state as it is; without a hand state there is nothing to show -/
theorem C20_system_and_empty (g : Priv) : observerView true (some g) = some g ∧ ∀ b, observerView b none = none :=
  ⟨rfl, fun _ => rfl⟩

/-- **C20 — every actor is given an independent copy**: the adapter's copy lives at a fresh address holding an equal
value, so whatever is written through it leaves the engine's table and every other actor's copy as they were. -/
theorem C20_isolated {α : Type} (s : Store α) (r : Nat) (w : α) (r2 : Nat) (h : (s.copy r).2 = some r2) :
    r2 = s.next ∧ ((s.copy r).1.get r2 = s.get r) ∧
    ∀ r3, r3 ≠ r2 → (((s.copy r).1.set r2 w).get r3 = s.get r3) := by
  unfold Store.copy at h ⊢
  cases hg : s.cell r with
  | none => simp [hg] at h
  | some v =>
    simp only [hg] at h ⊢
    have hr2 : r2 = s.next := by simpa using h.symm
    subst hr2
    refine ⟨rfl, ?_, ?_⟩
    · simp [Store.get, hg]
    · intro r3 hne
      simp [Store.get, Store.set, hne]

/-- … and two actors never get the same address -/
theorem C20_distinct_copies {α : Type} (s : Store α) (r : Nat) (a b : Nat)
    (ha : (s.copy r).2 = some a) (hb : ((s.copy r).1.copy r).2 = some b)
    (hr : r < s.next) : a ≠ b ∧ a ≠ r ∧ b ≠ r := by
  unfold Store.copy at ha hb
  cases hg : s.cell r with
  | none => simp [hg] at ha
  | some v =>
    simp only [hg] at ha hb
    have e1 : a = s.next := by simpa using ha.symm
    have hne : r ≠ s.next := by omega
    simp only [hne, if_false, hg] at hb
    have e2 : b = s.next + 1 := by simpa using hb.symm
    omega

-- non-vacuity: a running three-player hand (one folded) seen under status `pausing`, and the same hand closed
example : let g : Priv := { event := "RoundStarted", deck := ["S2", "S3"], burned := ["H4"], holes := [(false, ["SA", "SK"], true), (true, ["D2", "C7"], true), (false, ["HQ", "HJ"], true)] }
    observerView false (some g) = some { event := "RoundStarted", deck := [], burned := [], holes := [(false, [], false), (true, [], false), (false, [], false)] } ∧
    observerView false (some { g with event := "GameClosed" }) =
      some { event := "GameClosed", deck := [], burned := [], holes := [(false, ["SA", "SK"], true), (true, [], false), (false, ["HQ", "HJ"], true)] } := by decide

end AC
