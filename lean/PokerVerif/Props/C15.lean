import PokerVerif.Lemmas.HDBasic
import PokerVerif.Props.C10
/-!
# C15 — The published action deadline matches the turn

Statement: whenever a betting round asks a player who has not yet acted to choose a wager action, the table publishes
an action deadline equal to the time of the request plus the configured action time; the deadline is cleared when the
betting round closes and between hands, and a deadline extension moves it later by exactly the requested seconds.

`HD.deliver` = a hand state reaching the table (`game.handleGameState`, then `te.updateGameState` →
`updateCurrentActionEndAt`); `now` is the engine's clock at that moment, an event argument.  (*partial*: that `now`
is the wall-clock time of the request is observed by the harness with a bracket `t0 ≤ deadline − actionTime ≤ t1`
on every such state of every run; a theorem cannot exhibit a clock.)
-/
namespace HD

/-- **C15 — deadline = time of the request + action time**, for every such state while the table is playing. -/
theorem C15_set (s : State) (v : View) (now : Int) (h : asksForWager v = true) :
    (deliver s v true now).endAt = now + s.actionTime := by
  unfold deliver
  have ha : armsDeadline true v = true := by
    unfold armsDeadline; simpa using h
  have hne : (v.event == "RoundClosed") = false := by
    unfold asksForWager at h
    simp at h
    have := h.1.1
    simp [this]
  simp [ha, hne]

/-- **C15 — cleared when the betting round closes** … -/
theorem C15_cleared_round_closed (s : State) (v : View) (p : Bool) (now : Int) (h : v.event = "RoundClosed") :
    (deliver s v p now).endAt = 0 := by
  unfold deliver
  have ha : armsDeadline p v = false := by unfold armsDeadline asksForWager; simp [h]
  simp [h, ha]

/-- … **and between hands** -/
theorem C15_cleared_between_hands (s : State) : (reset s).endAt = 0 := rfl

/-- any other state leaves the deadline as it is -/
theorem C15_unchanged_otherwise (s : State) (v : View) (p : Bool) (now : Int)
    (h1 : v.event ≠ "RoundClosed") (h2 : armsDeadline p v = false) : (deliver s v p now).endAt = s.endAt := by
  unfold deliver
  have : (v.event == "RoundClosed") = false := by simpa using h1
  simp [this, h2]

/-- **C15 — an extension moves the deadline later by exactly the requested seconds**, any number of times. -/
theorem C15_extend (s : State) (d : Int) : (extend s d).1.endAt = s.endAt + d ∧ (extend s d).2 = s.endAt + d := ⟨rfl, rfl⟩

theorem C15_extend_many (s : State) (ds : List Int) :
    (ds.foldl (fun st d => (extend st d).1) s).endAt = s.endAt + ds.sum := by
  induction ds generalizing s with
  | nil => simp
  | cons d t ih =>
    simp only [List.foldl_cons, List.sum_cons]
    rw [ih]
    show s.endAt + d + t.sum = s.endAt + (d + t.sum)
    omega

/-- accepted actions do not touch the deadline -/
theorem C15_actions_keep_deadline (s : State) (id : Nat) (kind : String) (arg : Int) (o : Oracle) :
    (act s id kind arg o).1.endAt = s.endAt := by
  rcases act_cases s id kind arg o with ⟨hs, _⟩ | ⟨_, _, _, _, _, _, _, _, _, h6, _⟩
  · rw [hs]
  · rw [h6]; rfl

-- non-vacuity
example : asksForWager exView = true ∧ (deliver exState exView true 1000).endAt = 1007 ∧
    (extend (deliver exState exView true 1000) 15).2 = 1022 := by decide

end HD
