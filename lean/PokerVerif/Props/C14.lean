import PokerVerif.Lemmas.HDStats
import PokerVerif.Props.C10
/-!
# C14 — Per-hand player statistics describe what the player actually did

Statement: at settlement each participant's counters equal the numbers of wager actions, calls and checks that were
accepted from them in that hand (raises never exceed actions), the fold flag and fold round are set exactly for
players who folded, every "did X" flag (VPIP, PFR, ATS, 3-bet, fold-to-3-bet, check-raise, c-bet, fold-to-c-bet,
showdown win) implies the matching "had the chance" flag, at most one player holds the 3-bet flag, and all statistics
are cleared before the next hand.

Theorems are invariants over *every* sequence of hand-level events (submissions with any backend outcome, states
reaching the table, deadline extensions, the reset between hands), relating the statistics to the ghost log of
accepted actions.  "Did ⇒ chance" is proved under the contract `StableEvent` (monitored on every delivered state): the
event symbol `validateGameStatisticGameState` compares with — `Started`, regenerated from the source — never reaches
the table, so every chance flag except the 3-bet one stays off and with it its did-flag (D14: today the implication
holds for that reason; `PlayerFold` sets IsFtCB under IsFt3BChance, mirrored in `bump1`).  Showdown flags are set by
`settleGame` from card powers (pokerface): monitored, not modelled.
-/
namespace HD

/-- the event symbol the statistics code waits for (regenerated from game_statistics.go) -/
theorem C14_stat_event_fact : statEvent = "Started" := by decide

/-- `PlayerFold` reads the round it records *before* it applies the fold (regenerated from table_engine.go) — the model's
`fold` stamps the round of the state the fold was validated on.  D28 (fixed): read after the action event had been
published, it raced with the hand's own updater, which moves a closed round on at once, and named the following round. -/
theorem C14_fold_round_fact : Facts.foldRoundRead = "before-the-fold|te.game.GetGameState().Status.Round" := by decide

/-- `PlayerBet` / `PlayerAllin` decide "was this a raise" on the state the action itself returned (regenerated from
table_engine.go) — the model's `bump1` is given that state.  D29 (fixed): asked of the live hand state after the action
event had been published, the answer depended on whether the hand had already moved on (an action that closes the round). -/
theorem C14_raiser_read_fact : Facts.raiserReads =
    ["PlayerBet: gs.Status.CurrentRaiser == gamePlayerIdx", "PlayerAllin: gs.Status.CurrentRaiser == gamePlayerIdx"] := by decide

/-- **C14 — counters = accepted wager actions / calls / checks, raises ≤ actions, fold flag ⇔ a fold was accepted**,
for every player, after every history that starts with empty statistics. -/
theorem C14_counters (s : State) (evs : List Ev) (h0 : Inv14 s) :
    ∀ p ∈ (runEv s evs).players,
      p.stats.actionTimes = cnt (runEv s evs).log p.id isWager ∧
      p.stats.callTimes = cnt (runEv s evs).log p.id (· == "call") ∧
      p.stats.checkTimes = cnt (runEv s evs).log p.id (· == "check") ∧
      p.stats.raiseTimes ≤ p.stats.actionTimes ∧
      (p.stats.isFold = true ↔ 0 < cnt (runEv s evs).log p.id (· == "fold")) := by
  intro p hp
  have := inv14_run s evs h0 (p.id, p.seat, ctr p.stats) (List.mem_map.mpr ⟨p, hp, rfl⟩)
  exact this

/-- **C14 — every "did X" flag implies its "had the chance" flag, and at most one player holds the 3-bet flag**
(under StableEvent). -/
theorem C14_did_implies_chance (s : State) (evs : List Ev) (hs : AllStable evs) (h0 : Inv14b s) :
    (∀ p ∈ (runEv s evs).players, didImpliesChance p.stats) ∧
    (∀ p q, p ∈ (runEv s evs).players → q ∈ (runEv s evs).players → p.stats.b3 = true → q.stats.b3 = true → p.id = q.id) := by
  have h := inv14b_run s evs hs h0
  exact ⟨fun p hp => flagsOff_did p.stats (h.off p hp) (h.b3.1 p hp), h.b3.2⟩

/-- **C14 — all statistics are cleared before the next hand.** -/
theorem C14_cleared (s : State) : ∀ p ∈ (reset s).players, p.stats = {} := by
  intro p hp
  simp only [reset, List.mem_map] at hp
  obtain ⟨q, _, rfl⟩ := hp
  rfl

/-- a table whose players have distinct ids and empty statistics satisfies both invariants (the start of every hand) -/
theorem C14_initial (s : State) (hnd : (s.players.map (·.id)).Nodup) (hempty : ∀ p ∈ s.players, p.stats = {}) (hlog : s.log = []) :
    Inv14 s ∧ Inv14b s := by
  constructor
  · intro e he
    simp only [List.mem_map] at he
    obtain ⟨p, hp, rfl⟩ := he
    rw [hempty p hp, hlog]
    simp [CtrOK, cnt, ctr]
  · refine ⟨hnd, ?_, ?_, ?_⟩
    · intro p hp; rw [hempty p hp]; simp [flagsOff]
    · intro p hp hb; rw [hempty p hp] at hb; simp at hb
    · intro p q hp _ hb; rw [hempty p hp] at hb; simp at hb

-- non-vacuity: the example hand of C10 — a call, a refused out-of-turn fold, a failed and retried raise
example : let evs : List Ev := [.deliver exView true 1000, .act 12 "call" 0 (.ok 2), .act 13 "fold" 0 .none,
      .act 12 "raise" 100 .err]
    AllStable evs ∧ (statsOf (runEv exState evs).players 12).actionTimes = 1 ∧ (statsOf (runEv exState evs).players 12).callTimes = 1 ∧
    (runEv exState evs).log = [(12, "call", "preflop")] := by
  refine ⟨by simp [AllStable, Stable, exView, statEvent]; decide, by decide, by decide, by decide⟩

end HD
