import PokerVerif.Lemmas.TBBasic
import PokerVerif.Props.C07
/-!
# C06 — Position labels and next-BB order agree with the button seats

Statement: in every hand of a default-rule table, labels go clockwise from the big-blind seat in the standard order
for the number of occupied position slots (dealt-in players plus a dead button or dead small blind): the player in
the big-blind seat is labelled bb, a dealt-in player in the small-blind seat sb (dealer and sb together heads-up),
no two players share a label, every dealt-in player has one, nobody else has any, and the hand engine receives the
same labels.  At settlement the published next-big-blind order lists exactly the players with chips, clockwise from
the seat after the current big blind.

Proved here: the facts about the label table regenerated from `position.go` and about the queue the model hands
out, for every slot count; that the open hands labels only to dealt-in players' entries through `setPositions`; the
next-BB list of the model is the spec's list.  The placement of each label on its seat (the walk of
`updatePlayerPositions`) is checked by the `labelsOK` / `labelClaims` monitors on every opened hand of every run —
it is not yet a theorem (see DESIGN.md, C06).
-/
namespace TB

/-- the table in `newPositions` was recognised, has a row for each of 3..10 players, each row has exactly that many
pairwise distinct labels and starts dealer, sb, bb -/
theorem C06_table_facts :
    Facts.positionTableRecognised = true ∧ Facts.positionRotateOffset = "2" ∧
    Facts.positionTable.map (·.1) = [10, 9, 8, 7, 6, 5, 4, 3] ∧
    Facts.positionTable.all (fun r => r.2.length == r.1 && r.2.take 3 == ["dealer", "sb", "bb"] &&
      (r.2.eraseDups.length == r.2.length)) = true := by decide

/-- the queue of labels handed out from the big-blind seat: one entry per slot, `bb` first, then the early/middle/late
positions, `dealer` and `sb` last (heads-up: `bb`, then `dealer`+`sb` together); outside 2..10 slots there is none -/
theorem C06_queue (count : Nat) (h2 : 2 ≤ count) (h10 : count ≤ 10) :
    (labelQueue count).length = count ∧ (labelQueue count).head? = some ["bb"] ∧
    (if count = 2 then labelQueue count = [["bb"], ["dealer", "sb"]]
     else (labelQueue count).drop (count - 2) = [["dealer"], ["sb"]]) ∧
    ((labelQueue count).flatten.eraseDups.length = (labelQueue count).flatten.length) := by
  have : count = 2 ∨ count = 3 ∨ count = 4 ∨ count = 5 ∨ count = 6 ∨ count = 7 ∨ count = 8 ∨ count = 9 ∨ count = 10 := by omega
  rcases this with h | h | h | h | h | h | h | h | h <;> subst h <;> decide

theorem C06_no_labels_outside (count : Nat) (h : count < 2 ∨ 10 < count) : labelQueue count = [] := by
  unfold labelQueue positionRow
  rcases h with h | h
  · have h1 : (count == 2) = false := by simp; omega
    have h2 : ¬ count > 2 := by omega
    simp [h1, h2]
  · have h1 : (count == 2) = false := by simp; omega
    have h2 : count > 2 := by omega
    have h3 : Facts.positionTable.find? (fun r => r.1 == count) = none := by
      rw [List.find?_eq_none]
      intro r hr
      have hall : Facts.positionTable.all (fun r => decide (r.1 ≤ 10)) = true := by decide
      have := List.all_eq_true.mp hall r hr
      simp at this ⊢; omega
    simp [h1, h2, h3, rotateLeft]

/-- the model's label queue is the spec's standard order -/
theorem C06_queue_is_standard (count : Nat) (h2 : 2 ≤ count) (h10 : count ≤ 10) :
    labelQueue count = TBSpec.standardOrder count := by
  have : count = 2 ∨ count = 3 ∨ count = 4 ∨ count = 5 ∨ count = 6 ∨ count = 7 ∨ count = 8 ∨ count = 9 ∨ count = 10 := by omega
  rcases this with h | h | h | h | h | h | h | h | h <;> subst h <;> decide

/-- D26: the button and the small blind bust in the same hand and newcomers sit beyond them: the big blind passes the
dead button seat. 6 seats, hand played with D=0 SB=1 BB=5; seats 0 and 1 bust, newcomers wait on seats 2 and 4. -/
def witnessD26 : SM.State :=
  { maxSeat := 6, rule := .default, isInit := true, dealer := 0, sb := 1, bb := 5,
    seats := SM.seatsOfList [
      some { id := 1, isIn := true, between := false, hasChips := false },
      some { id := 2, isIn := true, between := false, hasChips := false },
      some { id := 5, isIn := true, between := true, hasChips := true }, none,
      some { id := 4, isIn := true, between := true, hasChips := true },
      some { id := 3, isIn := true, between := false, hasChips := true }] }

def witnessD26Players : List Player :=
  [{ id := 1, seat := 0, bankroll := 0, isIn := true }, { id := 2, seat := 1, bankroll := 0, isIn := true },
   { id := 3, seat := 5, bankroll := 2349, isIn := true }, { id := 4, seat := 4, bankroll := 104, isIn := true },
   { id := 5, seat := 2, bankroll := 267, isIn := true }]

/-- the rotation is accepted with D=1 (dead), SB=5, BB=2 — the button seat lies between the small and the big blind —
and the label walk gives the player on the small-blind seat `dealer`; nobody is labelled `sb`: the full clause
"a dealt-in player in the small-blind seat is labelled sb" fails -/
theorem C06_sb_label_fails_on_witness :
    (SM.rotateDefault witnessD26).2 = .ok ∧
    ((SM.rotateDefault witnessD26).1.dealer, (SM.rotateDefault witnessD26).1.sb, (SM.rotateDefault witnessD26).1.bb) = (1, 5, 2) ∧
    (assignPositions (SM.rotateDefault witnessD26).1 witnessD26Players).map (fun ps => ps.map (fun p => (p.id, p.positions))) =
      some [(1, []), (2, []), (3, ["dealer"]), (4, ["ug"]), (5, ["bb"])] := by decide

/-- D27: a player who reserved before the first hand and sat in during it (no waiting flag) on the seat between the small
and the big blind; the small blind busts and leaves. 4 seats, hand played with D=3 SB=0 BB=2, seat 0 now empty. -/
def witnessD27 : SM.State :=
  { maxSeat := 4, rule := .default, isInit := true, dealer := 3, sb := 0, bb := 2,
    seats := SM.seatsOfList [none,
      some { id := 4, isIn := true, between := false, hasChips := true },
      some { id := 2, isIn := true, between := false, hasChips := true },
      some { id := 1, isIn := true, between := false, hasChips := true }] }

def witnessD27Players : List Player :=
  [{ id := 1, seat := 3, bankroll := 2323, isIn := true }, { id := 2, seat := 2, bankroll := 372, isIn := true },
   { id := 4, seat := 1, bankroll := 192, isIn := true }]

/-- the rotation is accepted with D=0 (dead, empty), SB=2, BB=3; the player on seat 1 is dealt in *between the button and
the small blind*; the label walk gives him `ug` and the player on the small-blind seat `dealer`, nobody `sb` -/
theorem C06_between_button_and_sb_fails_on_witness :
    (SM.rotateDefault witnessD27).2 = .ok ∧
    ((SM.rotateDefault witnessD27).1.dealer, (SM.rotateDefault witnessD27).1.sb, (SM.rotateDefault witnessD27).1.bb) = (0, 2, 3) ∧
    SM.activeAt (SM.rotateDefault witnessD27).1.seats 1 = true ∧
    (assignPositions (SM.rotateDefault witnessD27).1 witnessD27Players).map (fun ps => ps.map (fun p => (p.id, p.positions))) =
      some [(1, ["bb"]), (2, ["dealer"]), (4, ["ug"])] := by decide

-- non-vacuity + an end-to-end instance: a 4-seat table, three dealt in, labels as the spec's monitor demands
example : let t := gateFire (setup (start (join (join (join (reserve (reserve (reserve (create exCfg exBlind)
      { id := 1, chips := 500, seat := 0 } []).1 { id := 2, chips := 300, seat := 2 } []).1 { id := 3, chips := 200, seat := 3 } []).1
      1).1 2).1 3).1) 0 [(1, 0), (2, 1), (3, 2)]) (some 0) true
    t.2 = .opened ∧ TBSpec.labelsOK (TBSpec.ofState { t.1 with status := .opened }) = true ∧
    TBSpec.labelClaims (TBSpec.ofState t.1) = true ∧
    t.1.players.map (·.positions) = [["bb"], ["dealer"], ["sb"]] := by decide

end TB
