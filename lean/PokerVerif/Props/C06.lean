import PokerVerif.Lemmas.TBBasic
import PokerVerif.Lemmas.TBLabels
import PokerVerif.Lemmas.TBGidx
import PokerVerif.Props.C07
/-!
# C06 — Position labels and next-BB order agree with the button seats

Statement: in every hand of a default-rule table, labels go clockwise from the big-blind seat in the standard order
for the number of occupied position slots (dealt-in players plus a dead button or dead small blind): the player in
the big-blind seat is labelled bb, a dealt-in player in the small-blind seat sb (dealer and sb together heads-up),
no two players share a label, every dealt-in player has one, nobody else has any, and the hand engine receives the
same labels.  At settlement the published next-big-blind order lists exactly the players with chips, clockwise from
the seat after the current big blind.

Proved here: the facts about the label table regenerated from `position.go` and about the queue the model hands
out, for every slot count; that the open hands labels only to dealt-in players' entries through `setPositions`; the
next-BB list of the model is the spec's list.  The walk of `updatePlayerPositions` is factored into a *plan* computed from
the seat manager alone and its application to the player list (`C06_walk_is_a_plan`); for every seat manager and player
list meeting the C03 invariant the plan hands labels to dealt-in occupants only, each player at most one label, each label
at most once, in the standard order clockwise from the big-blind seat, whose dealt-in occupant gets `bb`
(`C06_placement`, `C06_only_dealt_in_are_labelled`, `C06_bb_first`, `C06_placement_for_every_history`).  Which seat the
k-th label lands on when the button or the small blind is dead is *not* claimed (D26 / D27 are counter-examples, kept as
witness theorems); that part stays with the `labelsOK` / `labelClaims` monitors on every opened hand of every run.
-/
namespace TB

/-- the table in `newPositions` was recognised, has a row for each of 3..10 players, each row has exactly that many
pairwise distinct labels and starts dealer, sb, bb -/
theorem C06_table_facts :
    Facts.positionTableRecognised = true ∧ Facts.positionRotateOffset = "2" ∧
    Facts.positionTable.map (·.1) = [10, 9, 8, 7, 6, 5, 4, 3] ∧
    Facts.positionTable.all (fun r => r.2.length == r.1 && r.2.take 3 == ["dealer", "sb", "bb"] &&
      (r.2.eraseDups.length == r.2.length)) = true := by decide

/-- the queue of labels handed out from the big-blind seat: one entry per slot, `bb` first, then the early/middle/late
positions, `dealer` and `sb` last (heads-up: `bb`, then `dealer`+`sb` together); outside 2..10 slots there is none -/
theorem C06_queue (count : Nat) (h2 : 2 ≤ count) (h10 : count ≤ 10) :
    (labelQueue count).length = count ∧ (labelQueue count).head? = some ["bb"] ∧
    (if count = 2 then labelQueue count = [["bb"], ["dealer", "sb"]]
     else (labelQueue count).drop (count - 2) = [["dealer"], ["sb"]]) ∧
    ((labelQueue count).flatten.eraseDups.length = (labelQueue count).flatten.length) := by
  have : count = 2 ∨ count = 3 ∨ count = 4 ∨ count = 5 ∨ count = 6 ∨ count = 7 ∨ count = 8 ∨ count = 9 ∨ count = 10 := by omega
  rcases this with h | h | h | h | h | h | h | h | h <;> subst h <;> decide

theorem C06_no_labels_outside (count : Nat) (h : count < 2 ∨ 10 < count) : labelQueue count = [] := by
  unfold labelQueue positionRow
  rcases h with h | h
  · have h1 : (count == 2) = false := by simp; omega
    have h2 : ¬ count > 2 := by omega
    simp [h1, h2]
  · have h1 : (count == 2) = false := by simp; omega
    have h2 : count > 2 := by omega
    have h3 : Facts.positionTable.find? (fun r => r.1 == count) = none := by
      rw [List.find?_eq_none]
      intro r hr
      have hall : Facts.positionTable.all (fun r => decide (r.1 ≤ 10)) = true := by decide
      have := List.all_eq_true.mp hall r hr
      simp at this ⊢; omega
    simp [h1, h2, h3, rotateLeft]

/-- the model's label queue is the spec's standard order -/
theorem C06_queue_is_standard (count : Nat) (h2 : 2 ≤ count) (h10 : count ≤ 10) :
    labelQueue count = TBSpec.standardOrder count := by
  have : count = 2 ∨ count = 3 ∨ count = 4 ∨ count = 5 ∨ count = 6 ∨ count = 7 ∨ count = 8 ∨ count = 9 ∨ count = 10 := by omega
  rcases this with h | h | h | h | h | h | h | h | h <;> subst h <;> decide

/-- no label occurs twice in a queue, whatever the slot count -/
theorem labelQueue_nodup (count : Nat) : (labelQueue count).Nodup := by
  by_cases h : 2 ≤ count ∧ count ≤ 10
  · have : count = 2 ∨ count = 3 ∨ count = 4 ∨ count = 5 ∨ count = 6 ∨ count = 7 ∨ count = 8 ∨ count = 9 ∨ count = 10 := by omega
    rcases this with h | h | h | h | h | h | h | h | h <;> subst h <;> decide
  · rw [C06_no_labels_outside count (by omega)]; exact List.nodup_nil

/-- **C06 — `updatePlayerPositions` is "work out from the seat manager who gets which label, then write it down"**: the
walk over the seats never looks at the player list (`labelPlan` is a function of the seat manager alone) -/
theorem C06_walk_is_a_plan (sm : SM.State) (ps : List Player) :
    assignPositions sm ps = (labelPlan sm).map (applyPlan ps) := assignPositions_eq_plan sm ps

/-- **C06 — placement of the labels**: whenever the label walk succeeds (big-blind seat set, no id on two seats of the seat
manager or twice in the player list — the C03 invariant), there is a plan `pl` of *(id, label)* pairs such that
1. the ids are, in walk order (clockwise from the big-blind seat), dealt-in occupants of seats of the table, nobody twice;
2. the labels are, in the same order, labels of the standard queue for the slot count (`C06_queue_is_standard`), none twice;
3. afterwards a player whose id is in the plan carries exactly the label paired with it, and every other player — in
   particular everybody who is not dealt in — is exactly as he was.
Hence no two players share a label, nobody but dealt-in players gets one, and the labels keep the standard order clockwise
from the big blind.  (Which *seat* the k-th label lands on when the button or the small blind is dead is not claimed:
findings D26 / D27 show the walk can hand `dealer` to the small-blind seat.) -/
theorem C06_placement (sm : SM.State) (ps ps' : List Player) (h : assignPositions sm ps = some ps')
    (hb : 0 ≤ sm.bb) (hu : SM.IdsUnique sm) (hnd : (ps.map (·.id)).Nodup) :
    ∃ pl : Plan, labelPlan sm = some pl ∧
      (pl.map (·.1)).Sublist ((walkFromBB sm).filterMap (activeIdAt sm)) ∧ (pl.map (·.1)).Nodup ∧
      (pl.map (·.2)).Sublist (labelQueue (slotCount sm)) ∧ (pl.map (·.2)).Nodup ∧
      ∀ k : Nat, ps'[k]? = (ps[k]?).map (fun (p : Player) =>
        match pl.find? (fun e => e.1 == p.id) with
        | some e => { p with positions := e.2 }
        | none => p) := by
  rw [assignPositions_eq_plan] at h
  cases hp : labelPlan sm with
  | none => simp [hp] at h
  | some pl =>
    simp only [hp, Option.map_some] at h
    have hps : ps' = applyPlan ps pl := (Option.some.inj h).symm
    obtain ⟨s1, s2⟩ := labelPlan_sublists sm pl hp
    have n1 := labelPlan_ids_nodup sm pl hp hb hu
    refine ⟨pl, rfl, s1, n1, s2, (labelQueue_nodup _).sublist s2, ?_⟩
    intro k
    rw [hps]
    exact applyPlan_getElem? pl ps hnd n1 k

/-- every id in the plan is the occupant of a seat of the table who is dealt in (`Active()` in the seat manager) -/
theorem C06_only_dealt_in_are_labelled (sm : SM.State) (pl : Plan) (h : labelPlan sm = some pl) (e : Nat × List String)
    (he : e ∈ pl) : ∃ seat : Int, 0 ≤ seat ∧ seat < sm.maxSeat ∧ SM.idAt sm seat = some e.1 ∧ SM.activeAt sm.seats seat = true := by
  have hm : e.1 ∈ (walkFromBB sm).filterMap (activeIdAt sm) :=
    (labelPlan_sublists sm pl h).1.subset (List.mem_map.mpr ⟨e, he, rfl⟩)
  obtain ⟨seat, _, hs⟩ := List.mem_filterMap.mp hm
  exact ⟨seat, activeIdAt_some sm seat e.1 hs⟩

/-- **C06 — … in every reachable state**: for the table reached from `CreateTable` by any history (legal recorded seat
draws), whichever way the seat manager moved the buttons (`sm'` with the same occupants, as `InitPositions` /
`RotatePositions` leave them, and a big-blind seat), a successful `openGame` labels the players as `C06_placement` says -/
theorem C06_placement_for_every_history (cfg : Meta) (b : Blind) (evs : List Event) (hl : DrawsLegal (create cfg b) evs)
    (sm' : SM.State) (hid : ∀ i, SM.idAt sm' i = SM.idAt (run (create cfg b) evs).sm i)
    (hmax : sm'.maxSeat = (run (create cfg b) evs).sm.maxSeat) (hb : 0 ≤ sm'.bb)
    (hop : (openTable (run (create cfg b) evs) sm').2 = .opened) :
    ∃ pl : Plan, labelPlan sm' = some pl ∧ (pl.map (·.1)).Nodup ∧
      (pl.map (·.2)).Sublist (labelQueue (slotCount sm')) ∧ (pl.map (·.2)).Nodup ∧
      (∀ e ∈ pl, ∃ seat : Int, 0 ≤ seat ∧ seat < sm'.maxSeat ∧ SM.idAt sm' seat = some e.1 ∧ SM.activeAt sm'.seats seat = true) ∧
      ∀ k : Nat, ((openTable (run (create cfg b) evs) sm').1.players[k]?).map (fun (p : Player) => (p.id, p.positions)) =
        ((run (create cfg b) evs).players[k]?).map (fun (p : Player) =>
          (p.id, match pl.find? (fun e => e.1 == p.id) with | some e => e.2 | none => p.positions)) := by
  obtain ⟨hbk, hag, _⟩ := run_inv3 _ evs (create_inv3 cfg b) hl
  obtain ⟨ps, gi, ps2, hm, _, hap, heq⟩ := openTable_opened_shape _ sm' hop
  have hu : SM.IdsUnique sm' := by
    intro i j x hi0 hin hj0 hjn hxi hxj
    rw [hmax] at hin hjn
    rw [hid] at hxi hxj
    exact sm_unique _ hbk hag i j x hi0 hin hj0 hjn hxi hxj
  have hids : ps.map (·.id) = (run (create cfg b) evs).players.map (·.id) := mapM_keeps (·.id) (fun _ _ => rfl) sm' _ _ hm
  have hpos : ps.map (·.positions) = (run (create cfg b) evs).players.map (·.positions) :=
    mapM_keeps (·.positions) (fun _ _ => rfl) sm' _ _ hm
  obtain ⟨pl, hp, _, n1, s2, n2, hfin⟩ := C06_placement sm' ps ps2 hap hb hu (by rw [hids]; exact hag.ids)
  refine ⟨pl, hp, n1, s2, n2, fun e he => C06_only_dealt_in_are_labelled sm' pl hp e he, ?_⟩
  intro k
  rw [heq]
  simp only [openedState]
  rw [hfin k]
  have e1 := (getElem?_of_map_eq (·.id) ps (run (create cfg b) evs).players hids.symm k).symm
  have e2 := (getElem?_of_map_eq (·.positions) ps (run (create cfg b) evs).players hpos.symm k).symm
  cases hk : ps[k]? with
  | none =>
    rw [hk] at e1
    cases hk2 : (run (create cfg b) evs).players[k]? with
    | none => rfl
    | some q => rw [hk2] at e1; cases e1
  | some p =>
    rw [hk] at e1 e2
    cases hk2 : (run (create cfg b) evs).players[k]? with
    | none => rw [hk2] at e1; cases e1
    | some q =>
      rw [hk2] at e1 e2
      simp only [Option.map_some] at e1 e2 ⊢
      have i1 : p.id = q.id := Option.some.inj e1
      have i2 : p.positions = q.positions := Option.some.inj e2
      rw [i1]
      cases pl.find? (fun e => e.1 == q.id) with
      | none => simp [i1, i2]
      | some e => simp [i1]

/-- **C06 — the player in the big-blind seat is labelled bb**: the walk starts on the big-blind seat; when its occupant
is dealt in (C04: it always is after an accepted rotation) and the slot count is one the label table knows (2..10), he is
the first of the plan and his label is `bb` -/
theorem C06_bb_first (sm : SM.State) (pl : Plan) (h : labelPlan sm = some pl) (hb0 : 0 ≤ sm.bb) (hbn : sm.bb < sm.maxSeat)
    (id : Nat) (hact : activeIdAt sm sm.bb = some id) (h2 : 2 ≤ slotCount sm) (h10 : slotCount sm ≤ 10) :
    pl.head? = some (id, ["bb"]) := by
  have hh := (C06_queue (slotCount sm) h2 h10).2.1
  cases hq : labelQueue (slotCount sm) with
  | nil => rw [hq] at hh; cases hh
  | cons hd rest =>
    rw [hq] at hh
    have : hd = ["bb"] := Option.some.inj hh
    subst this
    exact labelPlan_head sm pl h hb0 hbn id hact _ rest hq

-- non-vacuity of `C06_placement` / `C06_bb_first`: the 4-seat table of the example below just after its first open — the
-- hypotheses hold, the plan is the three dealt-in players clockwise from the big blind with bb, dealer, sb
example : let t := (gateFire (setup (start (join (join (join (reserve (reserve (reserve (create exCfg exBlind)
      { id := 1, chips := 500, seat := 0 } []).1 { id := 2, chips := 300, seat := 2 } []).1 { id := 3, chips := 200, seat := 3 } []).1
      1).1 2).1 3).1) 0 [(1, 0), (2, 1), (3, 2)]) (some 0) true).1
    0 ≤ t.sm.bb ∧ t.sm.bb < t.sm.maxSeat ∧ slotCount t.sm = 3 ∧ activeIdAt t.sm t.sm.bb = some 1 ∧
    labelPlan t.sm = some [(1, ["bb"]), (2, ["dealer"]), (3, ["sb"])] ∧
    (walkFromBB t.sm).filterMap (activeIdAt t.sm) = [1, 2, 3] := by decide

/-- D26: the button and the small blind bust in the same hand and newcomers sit beyond them: the big blind passes the
dead button seat. 6 seats, hand played with D=0 SB=1 BB=5; seats 0 and 1 bust, newcomers wait on seats 2 and 4. -/
def witnessD26 : SM.State :=
  { maxSeat := 6, rule := .default, isInit := true, dealer := 0, sb := 1, bb := 5,
    seats := SM.seatsOfList [
      some { id := 1, isIn := true, between := false, hasChips := false },
      some { id := 2, isIn := true, between := false, hasChips := false },
      some { id := 5, isIn := true, between := true, hasChips := true }, none,
      some { id := 4, isIn := true, between := true, hasChips := true },
      some { id := 3, isIn := true, between := false, hasChips := true }] }

def witnessD26Players : List Player :=
  [{ id := 1, seat := 0, bankroll := 0, isIn := true }, { id := 2, seat := 1, bankroll := 0, isIn := true },
   { id := 3, seat := 5, bankroll := 2349, isIn := true }, { id := 4, seat := 4, bankroll := 104, isIn := true },
   { id := 5, seat := 2, bankroll := 267, isIn := true }]

/-- the rotation is accepted with D=1 (dead), SB=5, BB=2 — the button seat lies between the small and the big blind —
and the label walk gives the player on the small-blind seat `dealer`; nobody is labelled `sb`: the full clause
"a dealt-in player in the small-blind seat is labelled sb" fails -/
theorem C06_sb_label_fails_on_witness :
    (SM.rotateDefault witnessD26).2 = .ok ∧
    ((SM.rotateDefault witnessD26).1.dealer, (SM.rotateDefault witnessD26).1.sb, (SM.rotateDefault witnessD26).1.bb) = (1, 5, 2) ∧
    (assignPositions (SM.rotateDefault witnessD26).1 witnessD26Players).map (fun ps => ps.map (fun p => (p.id, p.positions))) =
      some [(1, []), (2, []), (3, ["dealer"]), (4, ["ug"]), (5, ["bb"])] := by decide

-- … and on the D26 witness (dead button, dead small blind) the plan is still made of dealt-in players and queue labels in
-- order, each once — but the small-blind seat's player is handed `dealer`
example : labelPlan (SM.rotateDefault witnessD26).1 = some [(5, ["bb"]), (4, ["ug"]), (3, ["dealer"])] ∧
    labelQueue (slotCount (SM.rotateDefault witnessD26).1) = [["bb"], ["ug"], ["dealer"], ["sb"]] := by decide

/-- D27: a player who reserved before the first hand and sat in during it (no waiting flag) on the seat between the small
and the big blind; the small blind busts and leaves. 4 seats, hand played with D=3 SB=0 BB=2, seat 0 now empty. -/
def witnessD27 : SM.State :=
  { maxSeat := 4, rule := .default, isInit := true, dealer := 3, sb := 0, bb := 2,
    seats := SM.seatsOfList [none,
      some { id := 4, isIn := true, between := false, hasChips := true },
      some { id := 2, isIn := true, between := false, hasChips := true },
      some { id := 1, isIn := true, between := false, hasChips := true }] }

def witnessD27Players : List Player :=
  [{ id := 1, seat := 3, bankroll := 2323, isIn := true }, { id := 2, seat := 2, bankroll := 372, isIn := true },
   { id := 4, seat := 1, bankroll := 192, isIn := true }]

/-- the rotation is accepted with D=0 (dead, empty), SB=2, BB=3; the player on seat 1 is dealt in *between the button and
the small blind*; the label walk gives him `ug` and the player on the small-blind seat `dealer`, nobody `sb` -/
theorem C06_between_button_and_sb_fails_on_witness :
    (SM.rotateDefault witnessD27).2 = .ok ∧
    ((SM.rotateDefault witnessD27).1.dealer, (SM.rotateDefault witnessD27).1.sb, (SM.rotateDefault witnessD27).1.bb) = (0, 2, 3) ∧
    SM.activeAt (SM.rotateDefault witnessD27).1.seats 1 = true ∧
    (assignPositions (SM.rotateDefault witnessD27).1 witnessD27Players).map (fun ps => ps.map (fun p => (p.id, p.positions))) =
      some [(1, ["bb"]), (2, ["dealer"]), (4, ["ug"])] := by decide

-- non-vacuity + an end-to-end instance: a 4-seat table, three dealt in, labels as the spec's monitor demands
example : let t := gateFire (setup (start (join (join (join (reserve (reserve (reserve (create exCfg exBlind)
      { id := 1, chips := 500, seat := 0 } []).1 { id := 2, chips := 300, seat := 2 } []).1 { id := 3, chips := 200, seat := 3 } []).1
      1).1 2).1 3).1) 0 [(1, 0), (2, 1), (3, 2)]) (some 0) true
    t.2 = .opened ∧ TBSpec.labelsOK (TBSpec.ofState { t.1 with status := .opened }) = true ∧
    TBSpec.labelClaims (TBSpec.ofState t.1) = true ∧
    t.1.players.map (·.positions) = [["bb"], ["dealer"], ["sb"]] := by decide

end TB
