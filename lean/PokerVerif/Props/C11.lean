import PokerVerif.HD
import PokerVerif.Props.C10
/-!
# C11 — A hand advances exactly when everyone asked has answered, and always finishes

Statement: at each readiness, ante and blind collection point the hand waits until every player it asked has responded
(or the response timeout passes) and then moves on by itself; it asks all dealt-in players for readiness and ante but
only the blind positions for blinds; betting rounds follow each other without any external trigger.  If every
participant responds, every opened hand reaches settlement in finitely many steps with a result entry for each
participant.

Proved here, about `HD.asked` and the request group `HD.RG` (the model of `onReadyRequested` / `onAnteRequested` /
`onBlindsRequested` and the ReadyGroup they arm): who is asked at each point; the group call is issued exactly when
every asked player has answered (or on timeout), once.  (*partial*: the 17 s timer is an event, not a clock; that
pokerface reaches `GameClosed` after finitely many accepted steps is a contract on the external engine — the harness
answers every request in every hand of every run, counts backend calls per hand and reports a hand that does not
settle as `C11.hand-did-not-reach-settlement`.)  An ante-only structure (all blinds 0) leaves the blinds request with
nobody to ask and nobody to complete it: `C11_no_progress_on_witness` (D17, a configuration edge, recorded).
-/
namespace HD

def allIdx (v : View) : List Nat := v.players.map (·.idx)

/-- **C11 — readiness and antes are asked of all dealt-in players** -/
theorem C11_asked_all (v : View) :
    (v.event = "ReadyRequested" → asked v = allIdx v) ∧
    (v.event = "AnteRequested" → v.ante ≠ 0 → asked v = allIdx v) ∧
    (v.event = "AnteRequested" → v.ante = 0 → asked v = []) := by
  refine ⟨?_, ?_, ?_⟩
  · intro h; unfold asked allIdx; simp [h]
  · intro h ha; unfold asked allIdx; simp [h, ha]
  · intro h ha; unfold asked; simp [h, ha]

/-- **C11 — blinds are asked only of the blind positions**: exactly the players holding a position whose blind is
positive (big blind, small blind, dealer blind) -/
theorem C11_asked_blinds (v : View) (h : v.event = "BlindsRequested") (i : Nat) :
    i ∈ asked v ↔ ∃ p ∈ v.players, p.idx = i ∧
      ((0 < v.bBB ∧ p.positions.contains "bb" = true) ∨ (0 < v.bSB ∧ p.positions.contains "sb" = true) ∨
       (0 < v.bDealer ∧ p.positions.contains "dealer" = true)) := by
  have hq : asked v = (v.players.filter (fun p =>
      (decide (v.bBB > 0) && p.positions.contains "bb") || (decide (v.bSB > 0) && p.positions.contains "sb") ||
      (decide (v.bDealer > 0) && p.positions.contains "dealer"))).map (·.idx) := by
    unfold asked
    have h1 : (v.event == "ReadyRequested") = false := by rw [h]; decide
    have h2 : (v.event == "AnteRequested") = false := by rw [h]; decide
    have h3 : (v.event == "BlindsRequested") = true := by rw [h]; decide
    simp only [h1, h2, h3, Bool.false_eq_true, if_false, if_true]
  rw [hq]
  simp only [List.mem_map, List.mem_filter]
  constructor
  · rintro ⟨p, ⟨hp, hc⟩, rfl⟩
    refine ⟨p, hp, rfl, ?_⟩
    simp at hc
    rcases hc with (⟨a, b⟩ | ⟨a, b⟩) | ⟨a, b⟩
    · exact Or.inl ⟨a, by simpa using b⟩
    · exact Or.inr (Or.inl ⟨a, by simpa using b⟩)
    · exact Or.inr (Or.inr ⟨a, by simpa using b⟩)
  · rintro ⟨p, hp, rfl, hc⟩
    refine ⟨p, ⟨hp, ?_⟩, rfl⟩
    simp
    rcases hc with ⟨a, b⟩ | ⟨a, b⟩ | ⟨a, b⟩
    · exact Or.inl (Or.inl ⟨a, by simpa using b⟩)
    · exact Or.inl (Or.inr ⟨a, by simpa using b⟩)
    · exact Or.inr ⟨a, by simpa using b⟩

/-- which group call completes which request -/
theorem C11_group_call (v : View) :
    (v.event = "ReadyRequested" → groupCall v = "readyforall") ∧ (v.event = "AnteRequested" → groupCall v = "payante") ∧
    (v.event = "BlindsRequested" → groupCall v = "payblinds") := by
  refine ⟨?_, ?_, ?_⟩ <;> intro h <;> unfold groupCall <;> simp [h]

-- ---------------------------------------------------------------- the gate

/-- invariant of a request group under answers: the answered ones are asked ones, and the completion has been spawned
iff somebody is asked and every asked player has answered -/
def RGInv (g : RG) : Prop :=
  (∀ i ∈ g.answered, i ∈ g.awaited) ∧
  (g.done = true ↔ (g.awaited ≠ [] ∧ ∀ i ∈ g.awaited, i ∈ g.answered))

theorem rg_answer_inv (g : RG) (i : Nat) (h : RGInv g) : RGInv (g.answer i) := by
  obtain ⟨h1, h2⟩ := h
  unfold RG.answer
  by_cases hc : (g.awaited.contains i && !(g.answered.contains i)) = true
  · simp only [hc, if_true]
    have hi : i ∈ g.awaited := by simp at hc; exact hc.1
    have hne : g.awaited ≠ [] := by intro e; rw [e] at hi; simp at hi
    by_cases hall : ((g.awaited.all fun k => (g.answered ++ [i]).contains k) && !g.done) = true
    · simp only [hall, if_true]
      refine ⟨?_, ?_⟩
      · intro k hk
        rcases List.mem_append.mp hk with hk | hk
        · exact h1 k hk
        · simp at hk; rw [hk]; exact hi
      · simp at hall
        constructor
        · intro _; exact ⟨hne, fun k hk => by have := hall.1 k hk; simpa using this⟩
        · intro _; rfl
    · simp only [hall, if_false]
      refine ⟨?_, ?_⟩
      · intro k hk
        rcases List.mem_append.mp hk with hk | hk
        · exact h1 k hk
        · simp at hk; rw [hk]; exact hi
      · constructor
        · intro hd
          obtain ⟨_, ha⟩ := h2.mp hd
          exact ⟨hne, fun k hk => List.mem_append_left _ (ha k hk)⟩
        · rintro ⟨_, ha⟩
          -- every asked player is among answered ++ [i]: then `hall` can only have failed because it was done already
          by_cases hd : g.done = true
          · exact hd
          · exfalso
            apply hall
            simp only [Bool.and_eq_true, List.all_eq_true, Bool.not_eq_eq_eq_not, Bool.not_true]
            exact ⟨fun k hk => by simpa using ha k hk, by simpa using hd⟩
  · simp only [hc, if_false]
    exact ⟨h1, h2⟩

theorem rg_arm_inv (v : View) : RGInv (RG.arm v) := by
  unfold RGInv RG.arm
  refine ⟨by simp, ?_⟩
  constructor
  · intro h; simp at h
  · rintro ⟨hne, ha⟩
    exfalso
    cases hq : asked v with
    | nil => exact hne (by simp [hq])
    | cons a t => have := ha a (by simp [hq]); simp at this

theorem rg_answers_inv (v : View) (is : List Nat) : RGInv (is.foldl RG.answer (RG.arm v)) := by
  have : ∀ (g : RG), RGInv g → RGInv (is.foldl RG.answer g) := by
    induction is with
    | nil => intro g h; exact h
    | cons i t ih => intro g h; exact ih _ (rg_answer_inv g i h)
  exact this _ (rg_arm_inv v)

theorem rg_awaited (g : RG) (i : Nat) : (g.answer i).awaited = g.awaited := by
  unfold RG.answer; split
  · simp only; split <;> rfl
  · rfl

theorem rg_answered_mem (g : RG) (i k : Nat) : k ∈ (g.answer i).answered ↔ (k ∈ g.answered ∨ (k = i ∧ i ∈ g.awaited)) := by
  unfold RG.answer
  by_cases hc : (g.awaited.contains i && !(g.answered.contains i)) = true
  · simp only [hc, if_true]
    have hi : i ∈ g.awaited := by simp at hc; exact hc.1
    split <;> (simp only [List.mem_append, List.mem_singleton]; constructor
               · rintro (h | h); exact Or.inl h; exact Or.inr ⟨h, hi⟩
               · rintro (h | ⟨h, _⟩); exact Or.inl h; exact Or.inr h)
  · simp only [hc, if_false]
    constructor
    · intro h; exact Or.inl h
    · rintro (h | ⟨h, hi⟩)
      · exact h
      · subst h
        simp at hc
        exact hc (by simpa using hi)

/-- **C11 — the hand moves on exactly when every asked player has answered**: after any sequence of answers (any
order, repetitions, answers of players who were not asked) the group call has been issued iff somebody was asked and
every asked player is among those who answered. -/
theorem C11_gate (v : View) (is : List Nat) :
    (is.foldl RG.answer (RG.arm v)).done = true ↔ (asked v ≠ [] ∧ ∀ i ∈ asked v, i ∈ is) := by
  -- awaited stays `asked v`; answered = the asked ones among `is`
  have key : ∀ (l : List Nat) (g : RG), g.awaited = asked v →
      (l.foldl RG.answer g).awaited = asked v ∧
      ∀ k, k ∈ (l.foldl RG.answer g).answered ↔ (k ∈ g.answered ∨ (k ∈ l ∧ k ∈ asked v)) := by
    intro l
    induction l with
    | nil => intro g hg; exact ⟨hg, fun k => by simp⟩
    | cons i t ih =>
      intro g hg
      have hg' : (g.answer i).awaited = asked v := by rw [rg_awaited]; exact hg
      obtain ⟨a, b⟩ := ih _ hg'
      refine ⟨a, fun k => ?_⟩
      rw [List.foldl_cons, b k, rg_answered_mem, hg]
      constructor
      · rintro ((h | ⟨h, hi⟩) | ⟨h, hk⟩)
        · exact Or.inl h
        · subst h; exact Or.inr ⟨by simp, hi⟩
        · exact Or.inr ⟨List.mem_cons_of_mem _ h, hk⟩
      · rintro (h | ⟨h, hk⟩)
        · exact Or.inl (Or.inl h)
        · rcases List.mem_cons.mp h with h | h
          · subst h; exact Or.inl (Or.inr ⟨rfl, hk⟩)
          · exact Or.inr ⟨h, hk⟩
  obtain ⟨ha, hb⟩ := key is (RG.arm v) rfl
  have hinv := (rg_answers_inv v is).2
  rw [hinv, ha]
  constructor
  · rintro ⟨hne, hall⟩
    refine ⟨hne, fun i hi => ?_⟩
    have := (hb i).mp (hall i hi)
    rcases this with h | ⟨h, _⟩
    · simp [RG.arm] at h
    · exact h
  · rintro ⟨hne, hall⟩
    exact ⟨hne, fun i hi => (hb i).mpr (Or.inr ⟨hall i hi, hi⟩)⟩

/-- the response time-out in the source is the one modelled by `RG.timeout` (regenerated from `NewGame` in game.go):
17 seconds, and its callback signals for *every* participant of the group that has not answered, whatever its index -/
theorem C11_timeout_fact :
    Facts.gameTimeoutSecs = 17 ∧
    Facts.gameTimeoutBody =
      ["states := rg.GetParticipantStates()",
       "for gamePlayerIdx, isReady := range states { if !isReady { rg.Ready(gamePlayerIdx) } }"] := by decide

/-- the response timeout completes the group as well (unless nobody is asked) -/
theorem C11_timeout (g : RG) (hne : g.awaited ≠ []) : g.timeout.done = true := by
  unfold RG.timeout
  by_cases hd : g.done = true
  · simp [hd]
  · have : g.awaited.isEmpty = false := by cases hq : g.awaited <;> simp_all
    simp [hd, this]

/-- D17: ante-only structure (every blind 0): at the blinds request nobody is asked, so no answer — and no timeout —
ever completes the group; the hand stays at `BlindsRequested` -/
def witnessAnteOnly : View :=
  { exView with event := "BlindsRequested", ante := 5, bDealer := 0, bSB := 0, bBB := 0 }

theorem C11_no_progress_on_witness :
    asked witnessAnteOnly = [] ∧ (RG.arm witnessAnteOnly).timeout.done = false ∧
    ([0, 1, 2].foldl RG.answer (RG.arm witnessAnteOnly)).done = false := by decide

-- non-vacuity: a blinds request on a 3-player hand with sb/bb blinds asks game indexes 1 and 2; both answers complete it
example : asked { exView with event := "BlindsRequested" } = [1, 2] ∧
    ([2, 0, 2].foldl RG.answer (RG.arm { exView with event := "BlindsRequested" })).done = false ∧
    ([2, 0, 1].foldl RG.answer (RG.arm { exView with event := "BlindsRequested" })).done = true := by decide

end HD
