import PokerVerif.Lemmas.ACBot
import PokerVerif.Props.C10
/-!
# C18 — Bots only ever make legal moves, and bot tables play out

Statement: for any hand state in which a bot is asked to act, it submits exactly one action, for itself, that the hand
engine accepts — an allowed action with a legal amount (ready, mandatory payment of the right size, or a wager within
its stack and the raise rules); it stays silent when not asked or when its view is stale.  Hands played entirely by
bots therefore always reach settlement.

`AC.botMoves` is the set of moves the bot's dice can produce (`requestMove` / `requestAI`).  Legality is stated against
`PF.accepts` / `PF.available`, the transcription of pokerface's acceptance side, under the well-formedness contract
`PF.wf` (the acting player's allowed list is `GetAvailableActions`, stacks and wagers are consistent) — monitored on
every real state.  Real bots play real tables in every run: every move must lie in the modelled set, be accepted by the
real engine, and every all-bot hand must settle.
-/
namespace AC
open HD

/-- `botRunner.requestAI` as the source has it now (regenerated from actor/bot_runner.go): the guards of the `bet` and
`raise` branches (`InitialStackSize <= minBet`: shove; `maxChipLevel <= minChipLevel`: shove) and the sampled intervals
`[minBet, stack)` / `[wager + previous raise, stack)` are the ones `aiMoves` transcribes; any other shape fails here -/
def expectedBotRequestAI : List String := ["player := gs.Players[playerIdx]", "if len(player.AllowedActions) == 0 { return nil }", "action := player.AllowedActions[0]", "if len(player.AllowedActions) > 1 { action = br.calcAction(player.AllowedActions) }", "chips := int64(0)", "switch action { case \"bet\": minBet := gs.Status.MiniBet if player.InitialStackSize <= minBet { return br.actions.Bet(player.InitialStackSize) } chips = rand.Int63n(player.InitialStackSize-minBet) + minBet err := br.actions.Bet(chips) if err != nil { return err } br.updateWagerAction(pokertable.WagerAction_Bet, chips) return nil case \"raise\": maxChipLevel := player.InitialStackSize minChipLevel := gs.Status.CurrentWager + gs.Status.PreviousRaiseSize if maxChipLevel <= minChipLevel { err := br.actions.Raise(maxChipLevel) if err != nil { return err } br.updateWagerAction(pokertable.WagerAction_Raise, maxChipLevel) return nil } chips = rand.Int63n(maxChipLevel-minChipLevel) + minChipLevel err := br.actions.Raise(chips) if err != nil { return err } br.updateWagerAction(pokertable.WagerAction_Raise, chips) return nil case \"call\": wager := int64(0) gamePlayerIdx := br.tableInfo.FindGamePlayerIdx(br.playerID) if gamePlayerIdx >= 0 && br.tableInfo != nil && br.tableInfo.State.GameState != nil && gamePlayerIdx < len(br.tableInfo.State.GameState.Players) { wager = br.tableInfo.State.GameState.Status.CurrentWager - br.tableInfo.State.GameState.GetPlayer(gamePlayerIdx).Wager } err := br.actions.Call() if err != nil { return err } br.updateWagerAction(pokertable.WagerAction_Call, wager) return nil case \"check\": err := br.actions.Check() if err != nil { return err } br.updateWagerAction(pokertable.WagerAction_Check, 0) return nil case \"allin\": wager := int64(0) gamePlayerIdx := br.tableInfo.FindGamePlayerIdx(br.playerID) if gamePlayerIdx >= 0 && br.tableInfo != nil && br.tableInfo.State.GameState != nil && gamePlayerIdx < len(br.tableInfo.State.GameState.Players) { wager = br.tableInfo.State.GameState.GetPlayer(gamePlayerIdx).StackSize } err := br.actions.Allin() if err != nil { return err } br.updateWagerAction(pokertable.WagerAction_AllIn, wager) return nil }", "err := br.actions.Fold()", "if err != nil { return err }", "br.updateWagerAction(pokertable.WagerAction_Fold, 0)", "return nil"]

/-- deliveries to one actor are queued behind its mutex — one at a time, none dropped (regenerated from actor/actor.go);
the runners' staleness filters and "acts when asked" rely on it -/
theorem C18_delivery_fact : Facts.actorUpdate =
    ["a.mu.Lock()", "defer a.mu.Unlock()", "err := a.runner.UpdateTableState(tableInfo)", "if err != nil { return err }", "return nil"] := by decide

/-- `botRunner.UpdateTableState` as the source has it now: eliminated / not seated-in bots do not play, a state of the
same hand that is not newer than the last one seen is ignored *and every newer state is remembered*, nothing happens
unless the table is playing and the bot is dealt in — what `botReacts` transcribes -/
def expectedBotUpdate : List String := ["gs := table.State.GameState", "br.tableInfo = table", "isEliminated := true", "shouldAutoJoin := false", "for _, ps := range table.State.PlayerStates { if ps.PlayerID == br.playerID { isEliminated = false if !ps.IsIn { shouldAutoJoin = true } break } }", "if isEliminated { return nil }", "if shouldAutoJoin { return br.timebank.NewTask(time.Duration(100)*time.Millisecond, func(isCancelled bool) { if isCancelled { return } br.onTableAutoJoinActionRequested(table.Meta.CompetitionID, table.ID, br.playerID) }) }", "if gs != nil { if gs.GameID != br.curGameID { br.curGameID = gs.GameID } else if br.lastGameStateTime >= gs.UpdatedAt { return nil } br.lastGameStateTime = gs.UpdatedAt }", "if table.State.Status != pokertable.TableStateStatus_TableGamePlaying || gs == nil { return nil }", "gamePlayerIdx := table.GamePlayerIndex(br.playerID)", "if gamePlayerIdx == -1 { return nil }", "player := gs.GetPlayer(gamePlayerIdx)", "if player == nil { return nil }", "if len(player.AllowedActions) > 0 { err := br.requestMove(table.State.GameState, gamePlayerIdx) if err != nil { return err } }", "return nil"]

theorem C18_update_facts : Facts.botUpdate = expectedBotUpdate := by rfl

theorem C18_ai_facts : Facts.botRequestAI = expectedBotRequestAI := by rfl

/-- what the theorems need of the player's entry in a well-formed state -/
structure Sane (v : View) (p : PView) : Prop where
  avail : p.allowed = PF.available v p
  stack : p.stack = p.init - p.wager
  wager0 : 0 ≤ p.wager
  wagerLe : p.wager ≤ p.init
  prev0 : 0 ≤ v.prev
  vwager0 : 0 ≤ v.wager

/-- **C18 — a raise the bot can choose is legal**: `raise` is allowed, the interval is not empty, and every level in it
is accepted by the hand engine, lies within the stack, and is the whole stack (all-in) or at least the minimum raise. -/
theorem C18_raise_legal (v : View) (p : PView) (hs : Sane v p) (lo hi : Int) (h : Move.raise lo hi ∈ aiMoves v p) :
    p.allowed.contains "raise" = true ∧ lo ≤ hi ∧
    ∀ a, lo ≤ a → a ≤ hi → PF.accepts v p "raise" a = true ∧ a ≤ p.init ∧ (a = p.init ∨ v.wager + v.prev ≤ a) := by
  obtain ⟨hmem, hcase⟩ := aiMoves_raise v p lo hi h
  have hav : "raise" ∈ PF.available v p := by rw [← hs.avail]; exact hmem
  obtain ⟨hstack, hbr⟩ := raise_available v p hav
  have e1 := hs.stack
  have e2 := hs.wager0
  have e3 := hs.wagerLe
  have e4 := hs.prev0
  have e5 := hs.vwager0
  have hpos : 0 < p.init := by omega
  have hvw : 0 < v.wager ∧ v.wager ≤ p.init := by
    rcases hbr with ⟨h1, h2, _⟩ | ⟨h1, _, h3⟩
    · omega
    · omega
  have hc : p.allowed.contains "raise" = true := by simpa using hmem
  have hacc : ∀ x : Int, v.wager ≤ x → x ≠ 0 → PF.accepts v p "raise" x = true := by
    intro x hx hx0
    unfold PF.accepts
    have hnp : ("raise" == "pass") = false := by decide
    simp only [hnp, hc, Bool.not_true, Bool.false_eq_true, if_false, beq_self_eq_true, if_true]
    simp
    omega
  refine ⟨hc, ?_, ?_⟩
  · rcases hcase with ⟨_, hl, hh⟩ | ⟨hn, hl, hh⟩ <;> omega
  · intro a ha1 ha2
    rcases hcase with ⟨_, hl, hh⟩ | ⟨hn, hl, hh⟩
    · have : a = p.init := by omega
      exact ⟨hacc a (by omega) (by omega), by omega, Or.inl this⟩
    · exact ⟨hacc a (by omega) (by omega), by omega, Or.inr (by omega)⟩

/-- **C18 — a bet the bot can choose is legal**: `bet` is allowed, and every amount is accepted, within the stack and
at least the minimum bet (or the whole stack when that is smaller). -/
theorem C18_bet_legal (v : View) (p : PView) (hs : Sane v p) (lo hi : Int) (h : Move.bet lo hi ∈ aiMoves v p) :
    p.allowed.contains "bet" = true ∧ lo ≤ hi ∧
    ∀ a, lo ≤ a → a ≤ hi → PF.accepts v p "bet" a = true ∧ a ≤ p.init ∧ (a = p.init ∨ v.mini ≤ a) := by
  obtain ⟨hmem, hcase⟩ := aiMoves_bet v p lo hi h
  have hav : "bet" ∈ PF.available v p := by rw [← hs.avail]; exact hmem
  obtain ⟨_, _, hmin, _⟩ := bet_available v p hav
  have hc : p.allowed.contains "bet" = true := by simpa using hmem
  have hacc : ∀ x : Int, PF.accepts v p "bet" x = true := by
    intro x
    unfold PF.accepts
    have hnp : ("bet" == "pass") = false := by decide
    have hnr : ("bet" == "raise") = false := by decide
    simp only [hnp, hnr, hc, Bool.not_true, Bool.false_eq_true, if_false]
  refine ⟨hc, ?_, ?_⟩
  · rcases hcase with ⟨_, hl, hh⟩ | ⟨hn, hl, hh⟩ <;> omega
  · intro a ha1 ha2
    rcases hcase with ⟨_, hl, hh⟩ | ⟨hn, hl, hh⟩
    · exact ⟨hacc a, by omega, Or.inl (by omega)⟩
    · exact ⟨hacc a, by omega, Or.inr (by omega)⟩

/-- **C18 — every move of the bot is an allowed action** (when the hand asks for a wager action), accepted by the hand
engine (raise levels: `C18_raise_legal`) … -/
theorem C18_kind_allowed (v : View) (p : PView) (hk : ∀ a ∈ p.allowed, a ∈ wagerKinds) (m : Move) (h : m ∈ aiMoves v p) :
    m.kind ∈ p.allowed ∧ (m.kind ≠ "raise" → PF.accepts v p m.kind 0 = true) := by
  have hm := aiMoves_kind v p hk m h
  refine ⟨hm, fun h1 => ?_⟩
  unfold PF.accepts
  have hcon : p.allowed.contains m.kind = true := by simpa using hm
  have hr : (m.kind == "raise") = false := by simpa using h1
  by_cases hp : (m.kind == "pass") = true
  · simp only [hp, if_true]
  · simp only [hp, hcon, hr, Bool.not_true, Bool.false_eq_true, if_false]

/-- … **ready / pass / the mandatory payment of the posted size** otherwise, one move each -/
theorem C18_requests (v : View) (gi : Nat) (p : PView) (hp : v.players[gi]? = some p) :
    (p.allowed.contains "ready" = true → botMoves v gi = [.ready]) ∧
    (p.allowed.contains "ready" = false → p.allowed.contains "pass" = true → botMoves v gi = [.pass]) ∧
    (p.allowed.contains "ready" = false → p.allowed.contains "pass" = false → p.allowed.contains "pay" = true →
      ∀ c, posted v gi = some c → botMoves v gi = [.pay c]) := by
  refine ⟨?_, ?_, ?_⟩
  · intro h; unfold botMoves
    have hne : p.allowed.isEmpty = false := by cases hq : p.allowed <;> simp_all
    have h' : "ready" ∈ p.allowed := by simpa using h
    simp [hp, h', hne]
  · intro h1 h2; unfold botMoves
    have hne : p.allowed.isEmpty = false := by cases hq : p.allowed <;> simp_all
    have h1' : ¬ "ready" ∈ p.allowed := by simpa using h1
    have h2' : "pass" ∈ p.allowed := by simpa using h2
    simp [hp, h1', h2', hne]
  · intro h1 h2 h3 c hc; unfold botMoves
    have hne : p.allowed.isEmpty = false := by cases hq : p.allowed <;> simp_all
    have h1' : ¬ "ready" ∈ p.allowed := by simpa using h1
    have h2' : ¬ "pass" ∈ p.allowed := by simpa using h2
    have h3' : "pay" ∈ p.allowed := by simpa using h3
    simp [hp, h1', h2', h3', hne, hc]

/-- **C18 — exactly one action when asked**: whenever the hand allows the bot something, the set of moves it may
make is not empty (and `requestMove` makes exactly one call: a single `return` per branch, compared on every real move). -/
theorem C18_acts_when_asked (v : View) (gi : Nat) (p : PView) (hp : v.players[gi]? = some p) (hne : p.allowed ≠ [])
    (hpost : p.allowed.contains "pay" = true → (posted v gi).isSome = true) : botMoves v gi ≠ [] := by
  unfold botMoves
  have he : p.allowed.isEmpty = false := by cases hq : p.allowed <;> simp_all
  simp only [hp, he, Bool.false_eq_true, if_false]
  split
  · simp
  · split
    · simp
    · split
      · simp
      · unfold aiMoves
        intro hh
        have := congrArg List.length hh
        simp at this
        exact hne this

/-- **C18 — silent when not asked or when the view is stale**: not at the table, not seated-in, no hand state, a state
already seen (same hand, time stamp not newer), table not playing, not dealt in, nothing allowed. -/
theorem C18_silent (m : BotMem) (atTable isIn playing : Bool) (v : Option View) (gi : Option Nat) :
    (atTable = false → (botReacts m atTable isIn playing v gi).1 = false) ∧
    (v = none → (botReacts m atTable isIn playing v gi).1 = false) ∧
    (∀ vv, v = some vv → vv.gid = m.curGame → vv.stamp ≤ m.lastTime → (botReacts m atTable isIn playing v gi).1 = false) ∧
    (playing = false → (botReacts m atTable isIn playing v gi).1 = false) ∧
    (gi = none → (botReacts m atTable isIn playing v gi).1 = false) := by
  refine ⟨?_, ?_, ?_, ?_, ?_⟩
  · intro h; unfold botReacts; simp [h]
  · intro h; unfold botReacts; subst h; cases atTable <;> cases isIn <;> simp
  · intro vv hv hg hs; unfold botReacts; subst hv
    have : (vv.gid == m.curGame && decide (m.lastTime ≥ vv.stamp)) = true := by simp [hg]; omega
    cases atTable <;> cases isIn <;> simp [this]
  · intro h; unfold botReacts; subst h
    cases atTable <;> cases isIn <;> cases v <;> simp
    split <;> simp
  · intro h; unfold botReacts; subst h
    cases atTable <;> cases isIn <;> cases v <;> simp
    split
    · simp
    · cases playing <;> simp

-- non-vacuity: the example state of C10 is sane for its current player; the bot may raise to any level in 40..499
example : Sane exView exView.players[0]! ∧ botMoves exView 0 = [.allin, .fold, .call, .raise 40 499] ∧
    PF.accepts exView exView.players[0]! "raise" 40 = true := by
  refine ⟨⟨by decide, by decide, by decide, by decide, by decide, by decide⟩, by decide, by decide⟩

/-- `botRunner.requestMove` as the source has it now (regenerated from actor/bot_runner.go): a humanised bot parks its move
on the time bank and, when the thinking is over, decides on the hand state it was asked on (`gs`, the argument) — not on
whatever view reached it since -/
theorem C18_request_move_fact : Facts.botRequestMove.drop 1 =
    ["if !br.isHumanized || br.tableInfo.Meta.ActionTime == 0 { return br.requestAI(gs, playerIdx) }",
     "thinkingTime := rand.Intn(br.tableInfo.Meta.ActionTime)",
     "if thinkingTime == 0 { return br.requestAI(gs, playerIdx) }",
     "return br.timebank.NewTask(time.Duration(thinkingTime)*time.Second, func(isCancelled bool) { if isCancelled { return } br.requestAI(gs, playerIdx) })"] := by rfl

end AC
