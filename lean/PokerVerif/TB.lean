import PokerVerif.SM
/-!
# TB — model of the table engine (`table_engine*.go`, `position.go`, `table.go`), between and around hands

State = what `table.go` publishes plus the embedded seat manager (`SM`), the open-game gate's bookkeeping and
ghost ledgers used only in specifications.  External operations are the `TableEngine` interface; asynchronous
happenings (the gate firing, the hand closing, the continue tick, the auto-join completion) are explicit events.
The hand itself (pokerface) is a parameter: `settle` takes the result the backend produced.  Go `panic` sites
(index out of range) are the outcome `.panic`.
-/
namespace TB

inductive Status | created | pausing | restoring | balancing | closed | opened | playing | settled | standby
deriving Repr, DecidableEq, Inhabited

inductive Mode | ct | mtt | cash
deriving Repr, DecidableEq, Inhabited

structure Player where
  id : Nat
  seat : Int
  positions : List String := []
  participated : Bool := false
  bankroll : Int
  isIn : Bool := false
deriving Repr, DecidableEq, Inhabited

structure Blind where
  level : Int
  ante : Int
  dealer : Int
  sb : Int
  bb : Int
deriving Repr, DecidableEq, Inhabited

def Blind.isBreaking (b : Blind) : Bool := b.level == -1
def Blind.isSet (b : Blind) : Bool :=
  b.level != 0 && b.ante != -1 && b.dealer != -1 && b.sb != -1 && b.bb != -1

structure Part where     -- open-game participant
  id : Nat
  idx : Nat
  ready : Bool
deriving Repr, DecidableEq, Inhabited

structure Meta where
  maxSeat : Nat
  minPlayers : Nat
  rule : SM.Rule
  mode : Mode
deriving Repr, DecidableEq, Inhabited

structure State where
  cfg : Meta
  status : Status := .created
  started : Bool := false            -- StartAt != -1
  seatMap : List Int                 -- seat -> player index, -1 = empty
  blind : Blind
  gameBlind : Option Blind := none
  dealer : Int := -1
  sb : Int := -1
  bb : Int := -1
  players : List Player := []
  gameCount : Nat := 0
  gidx : List Int := []              -- GamePlayerIndexes
  hasGame : Bool := false            -- GameState != nil
  nextBB : List Nat := []
  sm : SM.State
  gateCount : Nat := 0               -- open-game manager: GameCount of the last Setup
  gate : List Part := []             -- … and its participants
  released : Bool := false
  autoRg : List (Nat × Bool) := []   -- auto-join ready group: player index -> answered (as armed by the last batchAddPlayers)
  autoDone : Bool := false           -- … its completion callback has run
  -- ghost ledgers (specification only)
  broughtIn : Int := 0
  takenOut : Int := 0

inductive Err
  | noEmptySeats | playerNotFound | invalidAction | invalidGameAction | sm (e : List SM.Err)
deriving Repr, DecidableEq, Inhabited

inductive Res
  | ok
  | err (e : Err)
  | panic            -- index out of range in the Go code: the engine goroutine (or the caller) dies
deriving Repr, DecidableEq, Inhabited

def defaultSeatMap (n : Nat) : List Int := List.replicate n (-1)

def create (cfg : Meta) (blind : Blind) : State :=
  { cfg := cfg, seatMap := defaultSeatMap cfg.maxSeat, blind := blind,
    status := if blind.level == -1 then .pausing else .created,
    sm := SM.State.new cfg.maxSeat cfg.rule }

-- ---------------------------------------------------------------- lookups

def findIdxAux (id : Nat) : List Player → Nat → Option Nat
  | [], _ => none
  | p :: t, k => if p.id == id then some k else findIdxAux id t (k+1)

/-- `FindPlayerIdx` -/
def findPlayerIdx (s : State) (id : Nat) : Option Nat := findIdxAux id s.players 0

def setAt {α : Type} (l : List α) (i : Nat) (v : α) : List α := l.set i v
def modAt {α : Type} (l : List α) (i : Nat) (f : α → α) : List α := l.modify i f

/-- Go `seatMap[seat]` (panics outside the slice) -/
def seatMapGet (m : List Int) (seat : Int) : Option Int :=
  if 0 ≤ seat ∧ seat < m.length then m[seat.toNat]? else none

def alivePlayers (s : State) : List Player := s.players.filter (fun p => p.bankroll > 0)

/-- `ShouldPause` -/
def shouldPause (s : State) : Bool := s.blind.isBreaking || decide ((alivePlayers s).length < s.cfg.minPlayers)
/-- `shouldAutoGameOpen` -/
def shouldAutoOpen (s : State) : Bool := s.status == .standby && decide ((alivePlayers s).length ≥ s.cfg.minPlayers)

-- ---------------------------------------------------------------- membership

structure Join where
  id : Nat
  chips : Int
  seat : Int           -- -1 = random
deriving Repr, DecidableEq, Inhabited

/-- Go map built in order: a later entry for the same id overrides an earlier one -/
def fixedMap : List Join → List (Nat × Int)
  | [] => []
  | j :: t =>
    let rest := fixedMap t
    if j.seat == -1 then rest
    else if rest.any (fun e => e.1 == j.id) then rest else (j.id, j.seat) :: rest

def randomIds (js : List Join) : List Nat := (js.filter (fun j => j.seat == -1)).map (·.id)

/-- append the new players and patch the seat map (`batchAddPlayers`, second half); `none` = index out of range -/
def appendPlayers (sm : SM.State) : List Join → List Player → List Int → Option (List Player × List Int)
  | [], ps, m => some (ps, m)
  | j :: t, ps, m =>
    let seat := SM.seatOf sm j.id
    if seat = -1 then none    -- GetSeatID error (cannot happen after a successful assignment)
    else if 0 ≤ seat ∧ seat < m.length then
      appendPlayers sm t (ps ++ [{ id := j.id, seat := seat, bankroll := j.chips }]) (m.set seat.toNat ps.length)
    else none

/-- `batchAddPlayers(players)`; `choice` = seats drawn by `RandomAssignSeats` (recorded) -/
def batchAdd (s : State) (js : List Join) (choice : List Int) : State × Res :=
  if !(SM.allDistinct (js.map (·.id))) then (s, .err (.sm [.dupPlayers])) else
  let fixed := fixedMap js
  let rnd := randomIds js
  let r1 := if fixed.isEmpty then (s.sm, SM.Res.ok) else SM.assign s.sm fixed
  match r1.2 with
  | .err e => (s, .err (.sm e))
  | .ok =>
    let r2 := if rnd.isEmpty then (r1.1, SM.Res.ok) else SM.randomAssign r1.1 rnd choice
    match r2.2 with
    | .err e =>
      -- release the fixed seats taken a moment ago
      let sm' := if fixed.isEmpty then r1.1 else (SM.remove r1.1 (fixed.map (·.1))).1
      ({ s with sm := sm' }, .err (.sm e))
    | .ok =>
      match appendPlayers r2.1 js s.players s.seatMap with
      | none => ({ s with sm := r2.1 }, .panic)
      | some (ps, m) =>
        -- playersAutoIn: every player not yet seated-in is awaited (keyed by player index)
        let rg := ((List.range ps.length).zip ps).filterMap (fun e => if e.2.isIn then none else some (e.1, false))
        ({ s with sm := r2.1, players := ps, seatMap := m, autoRg := rg, autoDone := false,
                  broughtIn := s.broughtIn + (js.map (·.chips)).sum }, .ok)

/-- `PlayerReserve` -/
def reserve (s : State) (j : Join) (choice : List Int) : State × Res :=
  match findPlayerIdx s j.id with
  | none =>
    if s.players.length == s.cfg.maxSeat then (s, .err .noEmptySeats)
    else batchAdd s [j] choice
  | some i =>
    let r := SM.setChips s.sm j.id true
    -- the bankroll is raised before the seat manager is asked
    let s1 := { s with players := modAt s.players i (fun p => { p with bankroll := p.bankroll + j.chips }),
                       broughtIn := s.broughtIn + j.chips }
    match r.2 with
    | .err e => (s1, .err (.sm e))
    | .ok => ({ s1 with sm := r.1 }, .ok)

/-- `PlayerJoin` without the ready-group side effect -/
def joinCore (s : State) (id : Nat) : State × Res × Option Nat :=
  match findPlayerIdx s id with
  | none => (s, .err .playerNotFound, none)
  | some i =>
    match s.players[i]? with
    | none => (s, .panic, none)
    | some p =>
      if p.seat == -1 then (s, .err .invalidAction, none)
      else if p.isIn then (s, .ok, none)
      else
        let s1 := { s with players := modAt s.players i (fun p => { p with isIn := true }) }
        let r := SM.join s.sm [id]
        match r.2 with
        | .err e => (s1, .err (.sm e), some i)
        | .ok => ({ s1 with sm := r.1 }, .ok, some i)

def gameRunningStatus (st : Status) : Bool := st == .opened || st == .playing || st == .settled || st == .standby

/-- completion callback of the auto-join ready group: everybody not yet seated-in is joined; an MTT table
that has not started and has two seated-in players with chips starts -/
def autoJoinComplete (s : State) : State :=
  let s1 := s.players.foldl (fun acc p => (joinCore acc p.id).1) s
  let inCount := (s1.players.filter (·.isIn)).length
  let alive := (s1.players.filter (fun p => p.bankroll > 0)).length
  if inCount ≥ 2 && alive ≥ 2 && !(gameRunningStatus s1.status) && s1.blind.level > 0 && s1.gameCount == 0
     && s1.cfg.mode == .mtt then { s1 with started := true } else s1

/-- `PlayerJoin`, including the auto-join group's reaction once its last awaited player answered -/
def join (s : State) (id : Nat) : State × Res :=
  let (s1, r, fresh) := joinCore s id
  match fresh with
  | none => (s1, r)
  | some i =>
    -- te.rg.Ready(idx) happens before the seat manager is asked, whatever that answers
    if s1.autoRg.any (fun e => e.1 == i && !e.2) then
      let rg := s1.autoRg.map (fun e => if e.1 == i then (e.1, true) else e)
      let s2 := { s1 with autoRg := rg }
      if rg.all (·.2) && !s2.autoDone then (autoJoinComplete { s2 with autoDone := true }, r)
      else (s2, r)
    else (s1, r)

/-- D22: the completion callback of an *earlier* auto-join group runs late (its goroutine was still waiting for its
turn) and walks the *current* player list: everybody not yet seated-in is joined through `PlayerJoin`.  An explicit
event, placed where the harness observed it. -/
def autoJoinStale (s : State) : State := s.players.foldl (fun acc p => (join acc p.id).1) s

/-- `PlayerRedeemChips` -/
def redeem (s : State) (id : Nat) (chips : Int) : State × Res :=
  match findPlayerIdx s id with
  | none => (s, .err .playerNotFound)
  | some i =>
    let s1 := { s with players := modAt s.players i (fun p => { p with bankroll := p.bankroll + chips }),
                       broughtIn := s.broughtIn + chips }
    let newBank : Int := match s1.players[i]? with | some p => p.bankroll | none => 0
    let r := SM.setChips s.sm id (decide (newBank > 0))
    match r.2 with
    | .err e => (s1, .err (.sm e))
    | .ok => ({ s1 with sm := r.1 }, .ok)

def rebuildSeatMap (n : Nat) (ps : List Player) : Option (List Int) :=
  let rec go : List Player → Nat → List Int → Option (List Int)
    | [], _, m => some m
    | p :: t, k, m => if 0 ≤ p.seat ∧ p.seat < m.length then go t (k+1) (m.set p.seat.toNat k) else none
  go ps 0 (defaultSeatMap n)

def inHandStatus (st : Status) : Bool := st == .opened || st == .playing || st == .settled

/-- `calcLeavePlayers` + `batchRemovePlayers` (seat manager first) -/
def batchRemove (s : State) (ids : List Nat) : State × Res :=
  let r := SM.remove s.sm ids
  match r.2 with
  | .err e => (s, .err (.sm e))
  | .ok =>
    let keep := s.players.filter (fun p => !(ids.contains p.id))
    let gone := s.players.filter (fun p => ids.contains p.id)
    match rebuildSeatMap s.cfg.maxSeat keep with
    | none => ({ s with sm := r.1 }, .panic)
    | some m =>
      -- currentGamePlayerData: te.table.State.PlayerStates[playerIdx] for every game index (panics if stale)
      let oldIds : Option (List Nat) := s.gidx.mapM (fun gi =>
        if 0 ≤ gi then (s.players[gi.toNat]?).map (·.id) else none)
      match oldIds with
      | none => ({ s with sm := r.1 }, .panic)
      | some oids =>
        -- re-mapped through the ids whatever the table status (D30, fixed: only while the status was a hand status)
        let newG : List Int := oids.filterMap (fun id => (findIdxAux id keep 0).map (fun k => (k : Int)))
        ({ s with sm := r.1, players := keep, seatMap := m, gidx := newG,
                  takenOut := s.takenOut + (gone.map (·.bankroll)).sum }, .ok)

/-- `UpdateTablePlayers(joins, leaves)`: leave, then join -/
def update (s : State) (js : List Join) (leaves : List Nat) (choice : List Int) : State × Res :=
  let r1 := if leaves.isEmpty then (s, Res.ok) else batchRemove s leaves
  match r1.2 with
  | .ok => if js.isEmpty then (r1.1, .ok) else batchAdd r1.1 js choice
  | e => (r1.1, e)

/-- the `JoinPlayers` half of `CreateTable` (`s` is the table just created): the players are added as by a batch join; an
MTT table created with players is `balancing` — unless it was created on a break, which stays `pausing`.  (`CreateTable`
refuses more players than seats before anything else; the harness never sends that, it is not modelled.) -/
def createJoin (s : State) (js : List Join) (choice : List Int) : State × Res :=
  if js.isEmpty then (s, .ok) else
  let r := batchAdd s js choice
  match r.2 with
  | .ok => (if s.cfg.mode == .mtt && r.1.status != .pausing then { r.1 with status := .balancing } else r.1, .ok)
  | e => (r.1, e)

/-- `CreateTable` with players -/
def createWith (cfg : Meta) (blind : Blind) (js : List Join) (choice : List Int) : State × Res :=
  createJoin (create cfg blind) js choice

-- ---------------------------------------------------------------- open-game gate (bookkeeping only; C09 owns its dynamics)

def setup (s : State) (gc : Nat) (parts : List (Nat × Nat)) : State :=
  { s with gateCount := gc, gate := parts.map (fun q => { id := q.1, idx := q.2, ready := false }) }

/-- `PlayerSettlementFinish` -/
def finish (s : State) (id : Nat) : State × Res :=
  match findPlayerIdx s id with
  | none => (s, .err .playerNotFound)
  | some i =>
    match s.players[i]? with
    | none => (s, .panic)
    | some p =>
      if !p.isIn then (s, .err .invalidAction)
      else ({ s with gate := s.gate.map (fun q => if q.id == id then { q with ready := true } else q) }, .ok)

-- ---------------------------------------------------------------- positions and the hand's player list

/-- seats `start, start+1, …` (n of them) modulo n, Go's truncated `%` -/
def walkSeats (n : Nat) (start : Int) : List Int :=
  (List.range n).map (fun (k : Nat) => Int.tmod (start + (k : Int)) n)

/-- the collecting walk of `calcGamePlayerIndexes`: all seats once, clockwise from `start`; the player index found on a
seat is appended when that player is dealt in; `none` = a seat outside the seat map (index out of range in Go) -/
def collectStep (seatMap : List Int) (part : Int → Bool) (acc : Option (List Int)) (seat : Int) : Option (List Int) :=
  match acc with
  | none => none
  | some l =>
    match seatMapGet seatMap seat with
    | none => none
    | some pi => if part pi then some (l ++ [pi]) else some l

def collectFrom (seatMap : List Int) (part : Int → Bool) (start : Int) : Option (List Int) :=
  (walkSeats seatMap.length start).foldl (collectStep seatMap part) (some [])

/-- is the player at index `pi` of the list dealt in? -/
def partOf (players : List Player) (pi : Int) : Bool :=
  if 0 ≤ pi then (match players[pi.toNat]? with | some p => p.participated | none => false) else false

/-- the seat the hand's list starts from: the dealer seat when its player is dealt in; otherwise (dead button) the
nearest dealt-in seat before the small blind (or before the big blind when the small blind is dead too); `-1` = none -/
def handStart (s : State) (players : List Player) : Int :=
  let n := s.cfg.maxSeat
  let dealerP := players.any (fun p => p.participated && p.seat == s.sm.dealer)
  let sbP := players.any (fun p => p.participated && p.seat == s.sm.sb)
  if dealerP then s.sm.dealer
  else
    let startSeat := if sbP then s.sm.sb else s.sm.bb
    -- for i := startSeat+max-1; i >= startSeat; i-- : nearest dealt-in seat before startSeat (itself last)
    let cands := (List.range n).map (fun (k : Nat) => Int.tmod (startSeat + (n : Int) - 1 - (k : Int)) n)
    match cands.find? (fun seat => SM.inRange s.sm seat && SM.activeAt s.sm.seats seat) with
    | some x => x | none => -1

/-- `calcGamePlayerIndexes`; `none` = index out of range -/
def gameIndexes (s : State) (players : List Player) : Option (List Int) :=
  if s.cfg.rule = .shortDeck then
    match seatMapGet s.seatMap s.sm.dealer with
    | none => none
    | some d =>
      let len := players.length
      if len == 0 then some [] else
      some (((List.range len).map (fun (k : Nat) => Int.tmod (d + (k : Int)) len)).filter (partOf players))
  else collectFrom s.seatMap (partOf players) (handStart s players)

def positionRow (count : Nat) : List String :=
  match Facts.positionTable.find? (fun r => r.1 == count) with | some r => r.2 | none => []

def rotateLeft (l : List String) (k : Nat) : List String :=
  let k := if k > l.length then (if l.length == 0 then 0 else k % l.length) else k
  l.drop k ++ l.take k

/-- the number of position slots as `updatePlayerPositions` counts them -/
def slotCount (sm : SM.State) : Nat :=
  ((List.range sm.maxSeat).filter (fun (i : Nat) =>
    let seat := Int.tmod ((i : Int) + sm.dealer) sm.maxSeat
    if seat == sm.dealer || seat == sm.sb || seat == sm.bb then true
    else match SM.seatAt sm seat with | some p => p.active | none => false)).length

def labelQueue (count : Nat) : List (List String) :=
  if count == 2 then [["bb"], ["dealer", "sb"]]
  else if count > 2 then (rotateLeft (positionRow count) 2).map (fun x => [x])
  else []

def setPositions (players : List Player) (id : Nat) (pos : List String) : List Player :=
  match findIdxAux id players 0 with
  | some i => modAt players i (fun p => { p with positions := pos })
  | none => players

/-- `updatePlayerPositions`; `none` = index out of range (`playerPositions[0]` on an empty queue) -/
def assignPositions (sm : SM.State) (players : List Player) : Option (List Player) :=
  let n := sm.maxSeat
  let q0 := labelQueue (slotCount sm)
  let seats := (List.range n).map (fun (k : Nat) => Int.tmod (sm.bb + (k : Int)) n)
  let step (acc : Option (List Player × List (List String) × Bool)) (seat : Int) :=
    match acc with
    | none => none
    | some (ps, q, stop) =>
      if stop then some (ps, q, stop)
      else if !(SM.inRange sm seat) then some (ps, q, q.isEmpty)    -- key does not exist; the emptiness test still runs
      else
        match q with
        | [] => none      -- playerPositions[0] on an empty slice
        | h :: rest =>
          match sm.seats seat with
          | some sp =>
            if sp.active then
              let ps' := setPositions ps sp.id h
              some (ps', rest, rest.isEmpty)
            else
              let tp := h.contains "dealer" || h.contains "sb"
              let ts := seat == sm.dealer || seat == sm.sb
              if tp && ts then some (ps, rest, rest.isEmpty) else some (ps, q, false)
          | none =>
            let tp := h.contains "dealer" || h.contains "sb"
            let ts := seat == sm.dealer || seat == sm.sb
            if tp && ts then some (ps, rest, rest.isEmpty) else some (ps, q, false)
  -- the Go loop tests `len(playerPositions) == 0` at the end of each iteration; an initially empty queue
  -- with a first in-range seat panics, as in Go
  match seats.foldl step (some (players, q0, false)) with
  | none => none
  | some (ps, _, _) => some ps

/-- `refreshNextBBOrderPlayerIDs` -/
def nextBBOrder (s : State) (bbSeat : Int) : Option (List Nat) :=
  let n := s.cfg.maxSeat
  ((List.range n).map (fun (k : Nat) => Int.tmod (bbSeat + 1 + (k : Int)) n)).foldl (fun acc seat =>
    match acc with
    | none => none
    | some l =>
      match seatMapGet s.seatMap seat with
      | none => none
      | some pi =>
        if 0 ≤ pi then
          match s.players[pi.toNat]? with
          | none => none
          | some p => if p.bankroll > 0 then some (l ++ [p.id]) else some l
        else some l) (some [])

-- ---------------------------------------------------------------- hand life cycle

inductive OpenOut
  | opened          -- a hand was opened and started
  | refused         -- ErrTableOpenGameFailed (blinds unset, positions refused): the engine retries for 30 s
  | nothing         -- closed / released / hand already running / break level: returns nil, nothing changes
  | startFailed     -- opened, but the backend refused CreateGame: the table stays in `opened`
  | panic
deriving Repr, DecidableEq, Inhabited

/-- the gate's callback (`readyGroupOnCompleted`) marks every participant ready before anything else -/
def gateReady (s : State) : State := { s with gate := s.gate.map (fun q => { q with ready := true }) }

inductive Guard | go | nothing | refused
deriving Repr, DecidableEq, Inhabited

/-- the guards of `OnOpenGameReady`, `tableGameOpen` and the head of `openGame` -/
def openGuard (s : State) : Guard :=
  if s.gate.length ≤ 1 then .nothing                         -- one participant or fewer: no open
  else if s.released || s.status == .closed then .nothing     -- closed / released between hands
  else if s.hasGame then .nothing                             -- a hand is still unsettled
  else if !s.blind.isSet then .refused                        -- ErrTableOpenGameFailed → retry loop
  else if s.blind.isBreaking then .nothing                    -- break level
  else .go

/-- the table as `openGame` leaves it -/
def openedState (s : State) (sm : SM.State) (ps : List Player) (gi : List Int) : State :=
  { s with sm := sm, status := .opened, players := ps, gidx := gi, gameCount := s.gameCount + 1,
           dealer := sm.dealer, sb := sm.sb, bb := sm.bb }

/-- `openGame` after the seat manager moved the buttons: who is dealt in, the hand's list, the labels -/
def openTable (s : State) (sm : SM.State) : State × OpenOut :=
  -- IsParticipated := seat manager Active()
  match s.players.mapM (fun p => (SM.isActive sm p.id).map (fun a => { p with participated := a })) with
  | none => ({ s with sm := sm }, .refused)     -- IsPlayerActive error: openGame returns it
  | some ps =>
    let s1 := { s with sm := sm }
    match gameIndexes s1 ps with
    | none => (s1, .panic)
    | some gi =>
      match assignPositions sm ps with
      | none => (s1, .panic)
      | some ps2 => (openedState s sm ps2 gi, .opened)

/-- `startGame`: hand the players to the backend; status `playing`, publish the hand's blinds -/
def startHand (s2 : State) (createOk : Bool) : State × OpenOut :=
  -- playerSettings[0] panics on an empty list; every index must be valid
  if s2.gidx.isEmpty || s2.gidx.any (fun i => i < 0 || decide (i.toNat ≥ s2.players.length)) then (s2, .panic)
  else if !createOk then (s2, .startFailed)
  else ({ s2 with status := .playing, gameBlind := some s2.blind, hasGame := true }, .opened)

/-- what `startGame` hands to the backend for each entry of the hand's list: the bankroll as starting stack and the
labels; the first entry gets a `dealer` label when it has none (dead button) -/
def handOptions (s2 : State) : List (Int × List String) :=
  let base := s2.gidx.filterMap (fun i =>
    if 0 ≤ i then (s2.players[i.toNat]?).map (fun p => (p.bankroll, p.positions)) else none)
  match base with
  | [] => []
  | (b, pos) :: t => (b, if pos.contains "dealer" then pos else pos ++ ["dealer"]) :: t

/-- `openGame` + `startGame` once the guards have passed -/
def openCore (s : State) (choice : Option Int) (createOk : Bool) : State × OpenOut :=
  let r := if !s.sm.isInit then SM.init s.sm choice else SM.rotate s.sm
  match r.2 with
  | .err _ => ({ s with sm := r.1 }, .refused)
  | .ok =>
    let t := openTable s r.1
    match t.2 with
    | .opened => startHand t.1 createOk
    | _ => t

/-- the gate's callback → `tableGameOpen` → `openGame` → `startGame`.  `choice` = the seat `InitPositions(true)`
drew (ignored on a rotation); `createOk` = did the backend accept `CreateGame` -/
def gateFire (s : State) (choice : Option Int) (createOk : Bool) : State × OpenOut :=
  match openGuard (gateReady s) with
  | .nothing => (gateReady s, .nothing)
  | .refused => (gateReady s, .refused)
  | .go => openCore (gateReady s) choice createOk

/-- one turn of `tableGameOpen`'s retry loop, 3 s after an attempt that failed with `ErrTableOpenGameFailed` (the engine
lock is held all the while): nothing if the table was closed or released meanwhile or shows a hand status by now,
otherwise `openGame` again — with its own checks (blinds set, break level) -/
def retryOpen (s : State) (choice : Option Int) (createOk : Bool) : State × OpenOut :=
  if s.released || s.status == .closed then (s, .nothing)   -- closed / released during the wait (D32, fixed: not looked at)
  else if inHandStatus s.status then (s, .nothing)
  else if !s.blind.isSet then (s, .refused)
  else if s.blind.isBreaking then (s, .nothing)
  else openCore s choice createOk

/-- `settleGame`: result entries `(game index, changed)` -/
def settle (s : State) (result : List (Nat × Int)) : State × Res :=
  let s1 := { s with status := .settled }
  let step (acc : Option (List Player)) (e : Nat × Int) : Option (List Player) :=
    match acc with
    | none => none
    | some ps =>
      match s.gidx[e.1]? with
      | none => none
      | some pi => if 0 ≤ pi ∧ pi.toNat < ps.length then some (modAt ps pi.toNat (fun p => { p with bankroll := p.bankroll + e.2 })) else none
  match result.foldl step (some s.players) with
  | none => (s1, .panic)
  | some ps =>
    let s2 := { s1 with players := ps }
    match nextBBOrder s2 s.sm.bb with
    | none => (s2, .panic)
    | some nb => ({ s2 with nextBB := nb }, .ok)

inductive ContOut | paused | setUp | nothing | failed
deriving Repr, DecidableEq, Inhabited

/-- first half of `continueGame`: the per-hand fields are reset -/
def resetHand (s : State) : State := { s with status := .standby, gidx := [], nextBB := [], hasGame := false }

/-- per player: labels cleared, has-chips refreshed from the bankroll, IsParticipated recomputed; `none` = the seat
manager does not know a player (continueGame returns the error) -/
def refreshPlayers (sm : SM.State) (ps : List Player) : Option (SM.State × List Player) :=
  ps.foldl (fun (acc : Option (SM.State × List Player)) (p : Player) =>
    match acc with
    | none => none
    | some (sm, done) =>
      let r := SM.setChips sm p.id (decide (p.bankroll > 0))
      match r.2 with
      | .err _ => none
      | .ok =>
        match SM.isActive r.1 p.id with
        | none => none
        | some a => some (r.1, done ++ [{ p with positions := [], participated := a }])) (some (sm, []))

/-- the players the next hand's gate waits for: seated-in with chips, numbered in table order -/
def gateParticipants (s : State) : List (Nat × Nat) :=
  let parts := s.players.filter (fun p => p.isIn && decide (p.bankroll > 0))
  ((List.range parts.length).zip parts).map (fun e => (e.2.id, e.1))

/-- the delayed handler of `continueGame`: pause, or set the next hand up (`expired` = CT/cash table past MaxDuration) -/
def nextMove (s2 : State) (expired : Bool) : State × ContOut :=
  if expired then (s2, .nothing)
  else if s2.status == .closed then (s2, .nothing)
  else if s2.released then (s2, .nothing)
  else if shouldPause s2 then ({ s2 with status := .pausing }, .paused)
  else if shouldAutoOpen s2 then (setup s2 (s2.gameCount + 1) (gateParticipants s2), .setUp)
  else (s2, .nothing)

/-- `continueGame` with its delayed handler -/
def continueGame (s : State) (expired : Bool) : State × ContOut :=
  match refreshPlayers s.sm s.players with
  | none => (resetHand s, .failed)
  | some (sm, ps) => nextMove { resetHand s with sm := sm, players := ps } expired

-- ---------------------------------------------------------------- simple external ops

def pause (s : State) : State := { s with status := .pausing }
def close (s : State) : State := { s with status := .closed, released := true }
def release (s : State) : State := { s with released := true }
def start (s : State) : State := { s with started := true }
def setBlind (s : State) (b : Blind) : State := { s with blind := b }

-- ---------------------------------------------------------------- the event system

/-- everything that can happen to a table: the `TableEngine` interface plus the asynchronous happenings -/
inductive Event
  | reserve (j : Join) (choice : List Int)
  | join (id : Nat)
  | redeem (id : Nat) (chips : Int)
  | leave (ids : List Nat)
  | update (js : List Join) (leaves : List Nat) (choice : List Int)
  | blind (b : Blind)
  | pause | close | release | start
  | setup (gc : Nat) (parts : List (Nat × Nat))
  | finish (id : Nat)
  | autojoin                                          -- a stale auto-join completion runs (D22)
  | fire (choice : Option Int) (createOk : Bool)      -- the open-game gate fires
  | retry (choice : Option Int) (createOk : Bool)     -- a turn of the retry loop after a refused open
  | settle (result : List (Nat × Int))               -- the backend closed the hand with this result
  | continue (expired : Bool)                         -- continueGame and its delayed handler
  | contReset                                         -- continueGame up to arming the timer (GameContinueInterval > 0) …
  | tick (expired : Bool)                             -- … and the delayed handler, when the timer fires

def step (s : State) : Event → State
  | .reserve j ch => (reserve s j ch).1
  | .join id => (join s id).1
  | .redeem id c => (redeem s id c).1
  | .leave ids => (batchRemove s ids).1
  | .update js lv ch => (update s js lv ch).1
  | .blind b => setBlind s b
  | .pause => pause s
  | .close => close s
  | .release => release s
  | .start => start s
  | .setup gc ps => setup s gc ps
  | .finish id => (finish s id).1
  | .autojoin => autoJoinStale s
  | .fire ch ok => (gateFire s ch ok).1
  | .retry ch ok => (retryOpen s ch ok).1
  | .settle r => (settle s r).1
  | .continue e => (continueGame s e).1
  -- with a continue interval the two halves are separate happenings and calls may land in between.  The first half is
  -- `continueGame` whose handler finds nothing to do (`nextMove _ true` is the identity); the second is the handler
  | .contReset => (continueGame s true).1
  | .tick e => (nextMove s e).1

def run (s : State) (evs : List Event) : State := evs.foldl step s

-- ---------------------------------------------------------------- what a recorded history must satisfy

/-- the recorded draw of a batch's random seats is legal for the seat manager it is applied to -/
def BatchLegal (s : State) (js : List Join) (ch : List Int) : Prop :=
  (randomIds js).isEmpty = false →
    SM.legalChoice (if (fixedMap js).isEmpty then s.sm else (SM.assign s.sm (fixedMap js)).1) (randomIds js) ch = true

instance (s : State) (js : List Join) (ch : List Int) : Decidable (BatchLegal s js ch) := by
  unfold BatchLegal; exact inferInstance

/-- the only thing a recorded history must satisfy: every recorded random seat draw is one `RandomAssignSeats` could have
made (a fact about the recording — the driver checks it on every trace) -/
def DrawLegal (s : State) : Event → Prop
  | .reserve j ch => findPlayerIdx s j.id = none → BatchLegal s [j] ch
  | .update js lv ch => BatchLegal (if lv.isEmpty then s else (batchRemove s lv).1) js ch
  | _ => True

instance (s : State) (e : Event) : Decidable (DrawLegal s e) := by
  cases e <;> (unfold DrawLegal; exact inferInstance)

def DrawsLegal : State → List Event → Prop
  | _, [] => True
  | s, e :: t => DrawLegal s e ∧ DrawsLegal (step s e) t

-- ---------------------------------------------------------------- the life cycle of the status (C07)

/-- statuses from which a hand may be opened (`restoring` is a status of the Go type that no step of the model sets) -/
def beforeHand (a : Status) : Bool :=
  a == .created || a == .balancing || a == .pausing || a == .restoring || a == .standby

/-- the steps of the life cycle: created / balancing / pausing / standby → opened → playing → settled → standby →
(opened | pausing).  One event of the model may take two consecutive steps: the gate's callback opens the hand and hands
it to the back end under one hold of the engine lock (→ opened → playing), the continue step without an interval resets the
table and decides to pause in one go (settled → standby → pausing).  `opened → opened` is a hand the back end refused
(`CreateGame` failed: no hand is unsettled) followed by the next open. -/
def lcNext (a b : Status) : Bool :=
  a == b
  || ((beforeHand a || a == .opened) && (b == .opened || b == .playing))
  || (a == .playing && b == .settled)
  || (a == .settled && (b == .standby || b == .pausing))
  || (a == .standby && b == .pausing)

def normalize (s : State) : State := { s with sm := SM.normalize s.sm }

end TB
