/-!
# OGM — model of `open_game_manager/*.go` including the `syncsaga.ReadyGroup` it drives

The asynchronous steps are explicit: `consume` (the ReadyGroup's goroutine takes one queued action and applies it to
the participant map that is current at that moment) and `complete` (the `go onCompleted` goroutine runs: marks the
*current* participants ready and fires with the *current* state).  The group is keyed by participant *index*
(`int64(participant.Index)`), as in the code.  Ghost fields `signalled` / `timedOut` are specification only.
-/
namespace OGM

structure Part where
  id : Nat
  idx : Int
  ready : Bool
deriving Repr, DecidableEq

/-- association-list upsert: Go `m[k] = v` -/
def upsert (k : Int) (v : Bool) : List (Int × Bool) → List (Int × Bool)
  | [] => [(k, v)]
  | (k', v') :: t => if k' = k then (k, v) :: t else (k', v') :: upsert k v t

def setIfPresent (k : Int) : List (Int × Bool) → List (Int × Bool)
  | [] => []
  | (k', v') :: t => if k' = k then (k, true) :: t else (k', v') :: setIfPresent k t

structure St where
  gameCount : Nat := 0
  parts : List Part := []             -- m.state.Participants
  rg : List (Int × Bool) := []        -- ReadyGroup.participants, keyed by index
  queue : List Int := []              -- actions sitting in the (old or new) action channel
  started : Bool := false             -- actionCh != nil
  completed : Bool := false           -- rg.isCompleted
  pending : Nat := 0                  -- `go onCompleted` goroutines not yet run
  timer : Bool := false               -- timeout task armed
  fired : List (Nat × List Part) := []  -- OnOpenGameReady invocations
  -- ghost (specification only)
  signalled : List Nat := []          -- ids that called Ready since the last Setup
  timedOut : Bool := false            -- timeout elapsed since the last Setup
  firedNow : List (Nat × List Part) := []   -- OnOpenGameReady invocations since the last Setup
deriving Repr

inductive Ev
  | setup (gc : Nat) (ps : List (Nat × Int))
  | ready (id : Nat)
  | consume                      -- the ReadyGroup goroutine handles the oldest queued action
  | complete                     -- a spawned completion goroutine runs
  | timeout
  | fromState (gc : Nat) (ps : List (Nat × Int × Bool))   -- NewOpenGameManagerFromState: a fresh gate from a saved state
deriving Repr

def allReady (rg : List (Int × Bool)) : Bool := rg.all (fun e => e.2)

def step (s : St) : Ev → St
  | .setup gc ps =>
    let parts := ps.map (fun (q : Nat × Int) => ({ id := q.1, idx := q.2, ready := false } : Part))
    let rg := ps.foldl (fun acc (q : Nat × Int) => upsert q.2 false acc) []
    { s with gameCount := gc, parts := parts, rg := rg, started := true, completed := false,
             timer := true, signalled := [], timedOut := false, firedNow := [] }
  | .ready id =>
    match s.parts.find? (fun p => p.id == id) with
    | none => s                      -- ErrParticipantNotFound, nothing changes
    | some p =>
      { s with queue := if s.started then s.queue ++ [p.idx] else s.queue,
               parts := s.parts.map (fun q => if q.id == id then { q with ready := true } else q),
               signalled := id :: s.signalled }
  | .consume =>
    match s.queue with
    | [] => s
    | k :: rest =>
      let rg := setIfPresent k s.rg
      if allReady rg && !s.completed then
        { s with queue := rest, rg := rg, completed := true, pending := s.pending + 1, timer := false }
      else { s with queue := rest, rg := rg }
  | .complete =>
    if s.pending = 0 then s else
    let parts := s.parts.map (fun q => { q with ready := true })
    { s with pending := s.pending - 1, parts := parts, fired := s.fired ++ [(s.gameCount, parts)],
             firedNow := s.firedNow ++ [(s.gameCount, parts)] }
  | .timeout =>
    if !s.timer then s else
    { s with timer := false, timedOut := true,
             queue := s.queue ++ (s.rg.filter (fun e => !e.2)).map (·.1) }
  | .fromState gc ps =>
    -- a new manager object: every participant is added not-ready, the group is started, then the ready ones are
    -- re-added ready (directly into the group's map: no action is queued, nothing is validated)
    let parts := ps.map (fun (q : Nat × Int × Bool) => ({ id := q.1, idx := q.2.1, ready := q.2.2 } : Part))
    let rg0 := ps.foldl (fun acc (q : Nat × Int × Bool) => upsert q.2.1 false acc) []
    let rg := (ps.filter (·.2.2)).foldl (fun acc (q : Nat × Int × Bool) => upsert q.2.1 true acc) rg0
    { gameCount := gc, parts := parts, rg := rg, queue := [], started := true, completed := false, pending := 0,
      timer := true, fired := [], signalled := (ps.filter (·.2.2)).map (·.1), timedOut := false, firedNow := [] }

def run (s : St) (evs : List Ev) : St := evs.foldl step s

/-- does `Ready(id)` return ErrParticipantNotFound? -/
def knows (s : St) (id : Nat) : Bool := s.parts.any (fun p => p.id == id)

def iter {α : Type} (f : α → α) : Nat → α → α
  | 0, a => a
  | n+1, a => iter f n (f a)

/-- let the goroutines finish: every queued action is consumed, then every pending completion runs -/
def drain (s : St) : St :=
  let s1 := iter (fun x => step x .consume) s.queue.length s
  iter (fun x => step x .complete) s1.pending s1

/-- the three schedules found by the stress run, as model-level witnesses -/
def w1 : List Ev := [.setup 1 [(10, 0), (11, 1)], .ready 10, .ready 11, .consume, .consume,
                     .setup 2 [(20, 0), (21, 1)], .complete]
def w2 : List Ev := [.setup 1 [(10, 0), (11, 1)], .ready 10, .setup 2 [(20, 0), (21, 1)], .consume,
                     .ready 21, .consume, .complete]
def w3 : List Ev := [.setup 1 [(10, 0), (11, 0)], .ready 10, .consume, .complete]

/-- "never before every participant has signalled, unless timed out" judged at a fire -/
def fireOK (s : St) : Bool := s.timedOut || s.parts.all (fun p => s.signalled.contains p.id)

-- old completion reports set-up 2 although nobody of set-up 2 signalled
theorem w1_fails : (run {} w1).fired.map (·.1) = [2] ∧ fireOK (run {} (w1.dropLast)) = false := by decide
-- queued action of set-up 1 lands on index 0 of set-up 2: fires after only one of two signalled
theorem w2_fails : (run {} w2).fired.map (·.1) = [2] ∧ fireOK (run {} (w2.dropLast)) = false := by decide
-- two ids, one index
theorem w3_fails : (run {} w3).fired.map (·.1) = [1] ∧ fireOK (run {} (w3.dropLast)) = false := by decide

end OGM
