import PokerVerif.HD
/-!
# AC — model of the actor package (`actor/*.go`): bot runner, player runner (auto-play), observer runner, adapter

`View` is the hand state as the runner sees it (`HD.View`).  The bot's dice (`math/rand`, reseeded from the clock)
make its choice a *relation*: `botMoves` is the set of moves the dice can produce, amounts as intervals.
-/
namespace AC
open HD

inductive Move
  | ready | pass | check | call | fold | allin
  | pay (chips : Int)
  | bet (lo hi : Int)        -- any amount in [lo, hi]
  | raise (lo hi : Int)      -- any level in [lo, hi]
deriving Repr, DecidableEq, Inhabited

def Move.kind : Move → String
  | .ready => "ready" | .pass => "pass" | .check => "check" | .call => "call" | .fold => "fold" | .allin => "allin"
  | .pay _ => "pay" | .bet _ _ => "bet" | .raise _ _ => "raise"

/-- the mandatory payment a runner posts at an ante / blinds request (`requestMove` of the bot, `automate` of the
player runner): ante; at the blinds request the SB amount for an `sb` position, else BB for `bb`, else the dealer blind -/
def posted (v : View) (gi : Nat) : Option Int :=
  if v.event == "AnteRequested" then some v.ante
  else if v.event == "BlindsRequested" then
    (if v.hasPosition gi "sb" then some v.bSB else if v.hasPosition gi "bb" then some v.bBB else some v.bDealer)
  else none

-- ---------------------------------------------------------------- bot runner

/-- `requestAI`: the moves the dice can produce for a player with these allowed actions -/
def aiMoves (v : View) (p : PView) : List Move :=
  p.allowed.map (fun a =>
    if a == "bet" then (if p.init ≤ v.mini then Move.bet p.init p.init else Move.bet v.mini (p.init - 1))
    else if a == "raise" then
      (if p.init ≤ v.wager + v.prev then Move.raise p.init p.init else Move.raise (v.wager + v.prev) (p.init - 1))
    else if a == "call" then Move.call
    else if a == "check" then Move.check
    else if a == "allin" then Move.allin
    else Move.fold)      -- anything the switch does not know falls through to Fold

/-- `botRunner.requestMove` -/
def botMoves (v : View) (gi : Nat) : List Move :=
  match v.players[gi]? with
  | none => []
  | some p =>
    if p.allowed.isEmpty then []
    else if p.allowed.contains "ready" then [.ready]
    else if p.allowed.contains "pass" then [.pass]
    else if p.allowed.contains "pay" && (posted v gi).isSome then [.pay ((posted v gi).getD 0)]
    else aiMoves v p

/-- does the bot react to this table state at all (`botRunner.UpdateTableState`)? -/
structure BotMem where
  curGame : Nat := 0
  lastTime : Nat := 0

def botReacts (m : BotMem) (atTable isIn : Bool) (playing : Bool) (v : Option View) (gi : Option Nat) : Bool × BotMem :=
  if !atTable then (false, m)
  else if !isIn then (false, m)              -- asks to be seated instead
  else
    match v with
    | none => (false, m)
    | some v =>
      -- a new hand resets the staleness filter; an old or repeated state is ignored
      if v.gid == m.curGame && m.lastTime ≥ v.stamp then (false, m)
      else
        let m' : BotMem := { curGame := v.gid, lastTime := v.stamp }
        if !playing then (false, m')
        else match gi with
          | none => (false, m')
          | some g => (!(botMoves v g).isEmpty, m')

-- ---------------------------------------------------------------- player runner (auto-play)

/-- `playerRunner.automate` -/
def automate (v : View) (gi : Nat) : Option Move :=
  if v.hasAction gi "ready" then some .ready
  else if v.hasAction gi "check" then some .check
  else if v.hasAction gi "fold" then some .fold
  else (posted v gi).map Move.pay

inductive PStatus | running | idle | suspend
deriving Repr, DecidableEq, Inhabited

/-- the runner's status machine (`playerRunner.Idle` / `Suspend` / `Resume`): an idle report makes a player who is not idle
idle, with a fresh count — a suspended one too —, and counts up on one who is; at the threshold (2) he is suspended -/
structure PSt where
  status : PStatus := .running
  idleCount : Nat := 0
deriving Repr, DecidableEq, Inhabited

def suspendThreshold : Nat := 2

def pSuspend (s : PSt) : PSt := { s with status := .suspend }
def pResume (s : PSt) : PSt := if s.status == .running then s else { status := .running, idleCount := 0 }
def pIdle (s : PSt) : PSt :=
  let s1 : PSt := if s.status != .idle then { status := .idle, idleCount := 0 } else { s with idleCount := s.idleCount + 1 }
  if s1.idleCount == suspendThreshold then pSuspend s1 else s1

/-- a path of reports, as letters: I = Idle, S = Suspend, R = Resume -/
def pRun (s : PSt) : List Char → PSt
  | [] => s
  | 'I' :: t => pRun (pIdle s) t
  | 'S' :: t => pRun (pSuspend s) t
  | 'R' :: t => pRun (pResume s) t
  | _ :: t => pRun s t

inductive Plan
  | now (m : Move)              -- acts at once
  | after (secs : Int) (m : Option Move)   -- arms the time bank; acts (if at all) when it expires
  | nothing
deriving Repr, DecidableEq, Inhabited

/-- `playerRunner.requestMove` (called only when the player has allowed actions) -/
def requestMove (status : PStatus) (actionTime : Int) (v : View) (gi : Nat) : Plan :=
  if v.hasAction gi "pass" then .now .pass
  else if status == .suspend then (match automate v gi with | some m => .now m | none => .nothing)
  else .after actionTime (automate v gi)

-- ---------------------------------------------------------------- observer runner and adapter

/-- the private part of a hand state -/
structure Priv where
  event : String
  deck : List String
  burned : List String
  holes : List (Bool × List String × Bool)    -- per player: folded, hole cards, has a combination
deriving Repr, DecidableEq, Inhabited

/-- pokerface's `AsObserver` (contract, monitored) -/
def asObserver (g : Priv) : Priv :=
  if g.event == "GameClosed" then
    { g with deck := [], burned := [], holes := g.holes.map (fun h => if h.1 then (h.1, [], false) else h) }
  else { g with deck := [], burned := [], holes := g.holes.map (fun h => (h.1, [], false)) }

/-- `observerRunner.UpdateTableState`: what the observer's callback is shown -/
def observerView (systemMode : Bool) (g : Option Priv) : Option Priv :=
  match g with
  | none => none
  | some g => if systemMode then some g else some (asObserver g)

/-- is the observer filter in the source the one modelled (filter whenever a hand state is present)? -/
def observerFilterRecognised : Bool :=
  Facts.observerUpdate ==
    ["obr.tableInfo = tableInfo",
     "if !obr.systemMode && tableInfo.State.GameState != nil { tableInfo.State.GameState.AsObserver() }",
     "obr.onTableStateUpdated(tableInfo)", "return nil"]

/-- reference store (heap): what `tableEngineAdapter.UpdateTableState` does with the table it is handed -/
structure Store (α : Type) where
  cell : Nat → Option α        -- address ↦ value
  next : Nat                   -- first address never allocated

def Store.get {α : Type} (s : Store α) (r : Nat) : Option α := s.cell r
/-- a write through a reference -/
def Store.set {α : Type} (s : Store α) (r : Nat) (v : α) : Store α :=
  { s with cell := fun k => if k = r then some v else s.cell k }
/-- the adapter marshals and unmarshals: a fresh cell holding an equal value; the actor gets the new address -/
def Store.copy {α : Type} (s : Store α) (r : Nat) : Store α × Option Nat :=
  match s.cell r with
  | none => (s, none)
  | some v => ({ cell := fun k => if k = s.next then some v else s.cell k, next := s.next + 1 }, some s.next)

end AC
