import PokerVerif.Lemmas.TBBasic
import PokerVerif.Lemmas.SMRotate
/-! Helper lemmas: what `openGame` does to the player list (labels only; who is dealt in). -/
namespace TB

theorem modify_map {β : Type} (ps : List Player) (i : Nat) (f : Player → Player) (g : Player → β)
    (hg : ∀ p, g (f p) = g p) : (ps.modify i f).map g = ps.map g := by
  induction ps generalizing i with
  | nil => simp
  | cons p t ih =>
    cases i with
    | zero => simp [hg]
    | succ k => simp only [List.modify_succ_cons, List.map_cons]; rw [ih k]

theorem setPositions_map {β : Type} (g : Player → β) (hg : ∀ p pos, g { p with positions := pos } = g p)
    (ps : List Player) (id : Nat) (pos : List String) : (setPositions ps id pos).map g = ps.map g := by
  unfold setPositions
  split
  · exact modify_map _ _ _ g (fun p => hg p pos)
  · rfl

/-- `updatePlayerPositions` changes nothing but labels -/
theorem assignPositions_map {β : Type} (g : Player → β) (hg : ∀ p pos, g { p with positions := pos } = g p)
    (sm : SM.State) (ps ps' : List Player) (h : assignPositions sm ps = some ps') : ps'.map g = ps.map g := by
  unfold assignPositions at h
  simp only at h
  have key : ∀ (seats : List Int) (acc : Option (List Player × List (List String) × Bool)),
      (∀ x, acc = some x → x.1.map g = ps.map g) →
      ∀ x, seats.foldl (fun (acc : Option (List Player × List (List String) × Bool)) (seat : Int) =>
        match acc with
        | none => none
        | some (ps, q, stop) =>
          if stop then some (ps, q, stop)
          else if !(SM.inRange sm seat) then some (ps, q, q.isEmpty)
          else
            match q with
            | [] => none
            | h :: rest =>
              match sm.seats seat with
              | some sp =>
                if sp.active then
                  let ps' := setPositions ps sp.id h
                  some (ps', rest, rest.isEmpty)
                else
                  let tp := h.contains "dealer" || h.contains "sb"
                  let ts := seat == sm.dealer || seat == sm.sb
                  if tp && ts then some (ps, rest, rest.isEmpty) else some (ps, q, false)
              | none =>
                let tp := h.contains "dealer" || h.contains "sb"
                let ts := seat == sm.dealer || seat == sm.sb
                if tp && ts then some (ps, rest, rest.isEmpty) else some (ps, q, false)) acc = some x →
        x.1.map g = ps.map g := by
    intro seats
    induction seats with
    | nil => intro acc hacc x hx; simp at hx; exact hacc x hx
    | cons seat t ih =>
      intro acc hacc x hx
      simp only [List.foldl_cons] at hx
      refine ih _ ?_ x hx
      intro y hy
      cases acc with
      | none => simp at hy
      | some a =>
        obtain ⟨aps, q, stop⟩ := a
        have ha := hacc _ rfl
        simp only at hy ha
        split at hy
        · simp at hy; rw [← hy]; exact ha
        · split at hy
          · simp at hy; rw [← hy]; exact ha
          · split at hy
            · simp at hy
            · split at hy
              · split at hy
                · simp at hy; rw [← hy]; simp only; rw [setPositions_map g hg]; exact ha
                · split at hy <;> (simp at hy; rw [← hy]; exact ha)
              · split at hy <;> (simp at hy; rw [← hy]; exact ha)
  split at h
  · simp at h
  · rename_i r hr
    simp at h
    subst h
    exact key _ _ (by intro x hx; simp at hx; subst hx; rfl) _ hr

theorem mapM_participated (sm : SM.State) (ps ps' : List Player)
    (h : ps.mapM (fun p => (SM.isActive sm p.id).map (fun a => { p with participated := a })) = some ps') :
    ps'.map (fun p => (p.id, p.participated)) = ps.map (fun p => (p.id, (SM.isActive sm p.id).getD false)) ∧
    ps'.map (fun p => (p.id, p.seat, p.bankroll, p.isIn)) = ps.map (fun p => (p.id, p.seat, p.bankroll, p.isIn)) := by
  induction ps generalizing ps' with
  | nil => simp at h; subst h; simp
  | cons p t ih =>
    rw [List.mapM_cons] at h
    cases ha : SM.isActive sm p.id with
    | none => simp [ha] at h
    | some a =>
      cases ht : t.mapM (fun p => (SM.isActive sm p.id).map (fun a => { p with participated := a })) with
      | none => simp [ha, ht] at h
      | some t' =>
        simp [ha, ht] at h
        subst h
        obtain ⟨h1, h2⟩ := ih t' ht
        simp [ha, h1, h2]

/-- who is dealt in by `openGame`: exactly the players the seat manager calls active -/
theorem openTable_dealt_in (s : State) (sm : SM.State) :
    (openTable s sm).2 = .opened →
    (openTable s sm).1.players.map (fun p => (p.id, p.participated)) =
      s.players.map (fun p => (p.id, (SM.isActive sm p.id).getD false)) ∧
    (openTable s sm).1.players.map (fun p => (p.id, p.seat, p.bankroll, p.isIn)) =
      s.players.map (fun p => (p.id, p.seat, p.bankroll, p.isIn)) ∧
    (openTable s sm).1.sm = sm := by
  unfold openTable
  split
  · simp
  · rename_i ps hm
    simp only
    split
    · simp
    · split
      · simp
      · rename_i gi _ ps2 hap
        intro _
        obtain ⟨h1, h2⟩ := mapM_participated sm _ _ hm
        have a1 := assignPositions_map (fun p => (p.id, p.participated)) (fun _ _ => rfl) _ _ _ hap
        have a2 := assignPositions_map (fun p => (p.id, p.seat, p.bankroll, p.isIn)) (fun _ _ => rfl) _ _ _ hap
        simp only [openedState]
        exact ⟨a1.trans h1, a2.trans h2, trivial⟩
/-- an open that succeeds went through: seat manager ok, `openGame` ok, `startGame` ok -/
theorem openCore_opened_shape (s : State) (ch : Option Int) (ok : Bool) :
    (openCore s ch ok).2 = .opened →
    (if !s.sm.isInit then SM.init s.sm ch else SM.rotate s.sm).2 = .ok ∧
    (openTable s (if !s.sm.isInit then SM.init s.sm ch else SM.rotate s.sm).1).2 = .opened ∧
    (openCore s ch ok).1 =
      { (openTable s (if !s.sm.isInit then SM.init s.sm ch else SM.rotate s.sm).1).1 with
          status := .playing,
          gameBlind := some (openTable s (if !s.sm.isInit then SM.init s.sm ch else SM.rotate s.sm).1).1.blind,
          hasGame := true } := by
  unfold openCore
  simp only
  split
  · simp
  · rename_i hr
    split
    · rename_i ht
      intro h
      exact ⟨hr, ht, startHand_opened _ _ h⟩
    · rename_i hne
      intro h; exact absurd h hne

end TB
