import PokerVerif.Lemmas.TBGidx
/-!
# The blinds published for a hand are written at its open and by nothing else

`gb_*`: every operation of the table model other than an open leaves `GameBlindState` alone; `openCore` leaves it alone
unless it opens (then it is the `BlindState` at that moment, `openCore_opened`).  `step_gameBlind`: over `TB.Event`.
-/
namespace TB

theorem gb_joinCore (s : State) (id : Nat) : (joinCore s id).1.gameBlind = s.gameBlind := by
  unfold joinCore
  split
  · rfl
  · split
    · rfl
    · split
      · rfl
      · split
        · rfl
        · simp only
          split <;> rfl

theorem gb_foldl_joinCore (ps : List Player) (s : State) :
    (ps.foldl (fun acc p => (joinCore acc p.id).1) s).gameBlind = s.gameBlind := by
  induction ps generalizing s with
  | nil => rfl
  | cons p t ih => exact (ih _).trans (gb_joinCore s p.id)

theorem gb_autoJoinComplete (s : State) : (autoJoinComplete s).gameBlind = s.gameBlind := by
  unfold autoJoinComplete
  simp only
  split
  · exact gb_foldl_joinCore s.players s
  · exact gb_foldl_joinCore s.players s

theorem gb_join (s : State) (id : Nat) : (join s id).1.gameBlind = s.gameBlind := by
  unfold join
  have hj := gb_joinCore s id
  generalize joinCore s id = r at hj
  obtain ⟨s1, r1, fresh⟩ := r
  simp only at hj ⊢
  cases fresh with
  | none => exact hj
  | some i =>
    simp only
    split
    · split
      · exact (gb_autoJoinComplete _).trans hj
      · exact hj
    · exact hj

theorem gb_foldl_join (ps : List Player) (s : State) :
    (ps.foldl (fun acc p => (join acc p.id).1) s).gameBlind = s.gameBlind := by
  induction ps generalizing s with
  | nil => rfl
  | cons p t ih => exact (ih _).trans (gb_join s p.id)

theorem gb_redeem (s : State) (id : Nat) (c : Int) : (redeem s id c).1.gameBlind = s.gameBlind := by
  unfold redeem
  split
  · rfl
  · simp only
    split <;> rfl

theorem gb_finish (s : State) (id : Nat) : (finish s id).1.gameBlind = s.gameBlind := by
  unfold finish
  repeat (first | split | rfl)

theorem gb_batchAdd (s : State) (js : List Join) (ch : List Int) : (batchAdd s js ch).1.gameBlind = s.gameBlind := by
  unfold batchAdd
  split
  · rfl
  · simp only
    split
    · rfl
    · split
      · rfl
      · split <;> rfl

theorem gb_batchRemove (s : State) (ids : List Nat) : (batchRemove s ids).1.gameBlind = s.gameBlind := by
  unfold batchRemove
  simp only
  split
  · rfl
  · split
    · rfl
    · split <;> rfl

theorem gb_reserve (s : State) (j : Join) (ch : List Int) : (reserve s j ch).1.gameBlind = s.gameBlind := by
  unfold reserve
  split
  · split
    · rfl
    · exact gb_batchAdd s [j] ch
  · simp only
    split <;> rfl

theorem gb_update (s : State) (js : List Join) (lv : List Nat) (ch : List Int) :
    (update s js lv ch).1.gameBlind = s.gameBlind := by
  unfold update
  simp only
  by_cases he : lv.isEmpty = true
  · simp only [he, if_true]
    split
    · rfl
    · exact gb_batchAdd s js ch
  · simp only [he, Bool.false_eq_true, if_false]
    split
    · split
      · exact gb_batchRemove s lv
      · exact (gb_batchAdd _ js ch).trans (gb_batchRemove s lv)
    · exact gb_batchRemove s lv

theorem gb_settle (s : State) (r : List (Nat × Int)) : (settle s r).1.gameBlind = s.gameBlind := by
  unfold settle
  simp only
  split
  · rfl
  · split <;> rfl

theorem gb_nextMove (s2 : State) (e : Bool) : (nextMove s2 e).1.gameBlind = s2.gameBlind := by
  unfold nextMove
  repeat (first | split | rfl)

theorem gb_continueGame (s : State) (e : Bool) : (continueGame s e).1.gameBlind = s.gameBlind := by
  rcases continueGame_cases s e with ⟨_, h⟩ | ⟨sm, ps, _, h⟩
  · rw [h]; rfl
  · rw [h, gb_nextMove]; rfl

theorem gb_openTable (s : State) (sm : SM.State) : (openTable s sm).1.gameBlind = s.gameBlind := by
  unfold openTable
  split
  · rfl
  · simp only
    split
    · rfl
    · split <;> rfl

theorem gb_startHand (s2 : State) (ok : Bool) (h : (startHand s2 ok).2 ≠ .opened) :
    (startHand s2 ok).1.gameBlind = s2.gameBlind := by
  unfold startHand at h ⊢
  split
  · rfl
  · split
    · rfl
    · rename_i h1 h2
      simp [h1, h2] at h

/-- `openGame` + `startGame`: the published blinds are left alone unless the hand opens -/
theorem gb_openCore (s : State) (ch : Option Int) (ok : Bool) (h : (openCore s ch ok).2 ≠ .opened) :
    (openCore s ch ok).1.gameBlind = s.gameBlind := by
  unfold openCore at h ⊢
  simp only at h ⊢
  generalize (if !s.sm.isInit then SM.init s.sm ch else SM.rotate s.sm) = r at h ⊢
  obtain ⟨sm', res⟩ := r
  cases res with
  | err e => rfl
  | ok =>
    simp only at h ⊢
    have hot := gb_openTable s sm'
    generalize openTable s sm' = t at h hot ⊢
    obtain ⟨t1, t2⟩ := t
    cases t2 with
    | opened =>
      simp only at h hot ⊢
      exact (gb_startHand t1 ok h).trans hot
    | refused => exact hot
    | nothing => exact hot
    | startFailed => exact hot
    | panic => exact hot

/-- **every event but an open leaves the published hand blinds alone; an open publishes the blinds in force** -/
theorem step_gameBlind (s : State) (e : Event) :
    (step s e).gameBlind = s.gameBlind ∨
    ((∃ ch ok, (e = .fire ch ok ∧ (gateFire s ch ok).2 = .opened) ∨ (e = .retry ch ok ∧ (retryOpen s ch ok).2 = .opened)) ∧
      (step s e).gameBlind = some s.blind) := by
  cases e with
  | reserve j ch => exact Or.inl (gb_reserve s j ch)
  | join id => exact Or.inl (gb_join s id)
  | redeem id c => exact Or.inl (gb_redeem s id c)
  | leave ids => exact Or.inl (gb_batchRemove s ids)
  | update js lv ch => exact Or.inl (gb_update s js lv ch)
  | blind b => exact Or.inl rfl
  | pause => exact Or.inl rfl
  | close => exact Or.inl rfl
  | release => exact Or.inl rfl
  | start => exact Or.inl rfl
  | setup gc ps => exact Or.inl rfl
  | finish id => exact Or.inl (gb_finish s id)
  | autojoin => exact Or.inl (gb_foldl_join s.players s)
  | settle r => exact Or.inl (gb_settle s r)
  | «continue» ex => exact Or.inl (gb_continueGame s ex)
  | contReset => exact Or.inl (gb_continueGame s true)
  | tick ex => exact Or.inl (gb_nextMove s ex)
  | fire ch ok =>
    by_cases h : (gateFire s ch ok).2 = .opened
    · right
      obtain ⟨_, heq⟩ := gateFire_opened s ch ok h
      have h' := h
      rw [heq] at h'
      obtain ⟨_, _, _, c4, _⟩ := openCore_opened _ _ _ h'
      refine ⟨⟨ch, ok, Or.inl ⟨rfl, h⟩⟩, ?_⟩
      show (gateFire s ch ok).1.gameBlind = some s.blind
      rw [heq]; simpa [gateReady] using c4
    · left
      show (gateFire s ch ok).1.gameBlind = s.gameBlind
      unfold gateFire at h ⊢
      split
      · rfl
      · rfl
      · rename_i hg
        simp only [hg] at h
        exact gb_openCore _ ch ok h
  | retry ch ok =>
    rcases retryOpen_cases s ch ok with h | h | ⟨_, _, _, _, _, h⟩
    · left; show (retryOpen s ch ok).1.gameBlind = s.gameBlind; rw [h]
    · left; show (retryOpen s ch ok).1.gameBlind = s.gameBlind; rw [h]
    · by_cases ho : (openCore s ch ok).2 = .opened
      · right
        refine ⟨⟨ch, ok, Or.inr ⟨rfl, by rw [h]; exact ho⟩⟩, ?_⟩
        show (retryOpen s ch ok).1.gameBlind = some s.blind
        rw [h]; exact (openCore_opened _ _ _ ho).2.2.2.1
      · left
        show (retryOpen s ch ok).1.gameBlind = s.gameBlind
        rw [h]; exact gb_openCore s ch ok ho

end TB
