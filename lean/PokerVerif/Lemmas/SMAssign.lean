import PokerVerif.Lemmas.SMBasic
/-! Helper lemmas: what a successful seat assignment touches. -/
namespace SM

theorem place_other (st : State) (id : Nat) (seat i : Int) (h : i ≠ seat) : (place st id seat).seats i = st.seats i := by
  unfold place setSeat
  simp [h]

theorem place_meta (st : State) (id : Nat) (seat : Int) :
    (place st id seat).maxSeat = st.maxSeat ∧ (place st id seat).dealer = st.dealer ∧ (place st id seat).sb = st.sb ∧
    (place st id seat).bb = st.bb ∧ (place st id seat).isInit = st.isInit ∧ (place st id seat).rule = st.rule := by
  unfold place; exact ⟨rfl, rfl, rfl, rfl, rfl, rfl⟩

theorem placeAll_other (st : State) (b : List (Nat × Int)) (i : Int) (h : ∀ e ∈ b, e.2 ≠ i) :
    (placeAll st b).seats i = st.seats i := by
  induction b generalizing st with
  | nil => rfl
  | cons e t ih =>
    obtain ⟨id, seat⟩ := e
    simp only [placeAll]
    rw [ih _ (fun e he => h e (List.mem_cons_of_mem _ he))]
    exact place_other st id seat i (fun hh => h (id, seat) List.mem_cons_self hh.symm)

/-- an accepted fixed-seat batch targets only seats that are in range and not held by somebody else -/
theorem assign_ok_targets (st : State) (b : List (Nat × Int)) (h : (assign st b).2 = .ok) :
    (∀ e ∈ b, inRange st e.2 = true ∧ occupiedByOther st e.1 e.2 = false) ∧ (∀ e ∈ b, hasPlayer st e.1 = false) ∧
    (assign st b).1 = placeAll st b := by
  unfold assign at h ⊢
  by_cases c1 : emptyCount st.maxSeat st.seats < b.length
  · simp [c1] at h
  · by_cases c2 : (!(assignLoopErrs st b).isEmpty) = true
    · simp [c1, c2] at h
    · by_cases c3 : (b.any fun e => hasPlayer st e.1) = true
      · simp [c1, c2, c3] at h
      · simp only [c1, c2, c3, if_false, Bool.false_eq_true]
        refine ⟨?_, ?_, trivial⟩
        · intro e he
          have hempty : assignLoopErrs st b = [] := by simpa using c2
          unfold assignLoopErrs at hempty
          simp only [List.append_eq_nil_iff] at hempty
          obtain ⟨⟨h1, h2⟩, _⟩ := hempty
          have a1 : (b.any fun e => !inRange st e.2) = false := by
            by_cases hc : (b.any fun e => !inRange st e.2) = true
            · simp [hc] at h1
            · simpa using hc
          have a2 : (b.any fun e => inRange st e.2 && occupiedByOther st e.1 e.2) = false := by
            by_cases hc : (b.any fun e => inRange st e.2 && occupiedByOther st e.1 e.2) = true
            · simp [hc] at h2
            · simpa using hc
          have r1 := List.any_eq_false.mp a1 e he
          have r2 := List.any_eq_false.mp a2 e he
          have hin : inRange st e.2 = true := by simpa using r1
          refine ⟨hin, ?_⟩
          simpa [hin] using r2
        · intro e he
          have : (b.any fun e => hasPlayer st e.1) = false := by simpa using c3
          have := List.any_eq_false.mp this e he
          simpa using this

/-- **no seat is given twice**: a successful `AssignSeats` leaves every occupied seat with its occupant -/
theorem assign_keeps_occupants (st : State) (b : List (Nat × Int)) (h : (assign st b).2 = .ok)
    (i : Int) (p : SeatPlayer) (hi : inRange st i = true) (hp : st.seats i = some p) :
    (assign st b).1.seats i = some p := by
  obtain ⟨ht, hfresh, heq⟩ := assign_ok_targets st b h
  rw [heq, placeAll_other st b i ?_, hp]
  intro e he hei
  obtain ⟨hin, hocc⟩ := ht e he
  -- the seat is occupied by p: either p.id ≠ e.1 (then seatTaken) or p.id = e.1 (then the id is already seated)
  unfold occupiedByOther seatAt at hocc
  rw [hei] at hocc hin
  simp only [hin, if_true, hp] at hocc
  have hid : p.id = e.1 := by simpa using hocc
  have hhas := hfresh e he
  -- … but then the player is at the table already
  unfold hasPlayer seatOf firstSeat at hhas
  have hfound : scan (fun k => (k : Int)) (fun j => match st.seats j with | some q => q.id == e.1 | none => false) st.maxSeat 0 ≠ -1 := by
    unfold inRange at hi
    simp at hi
    apply scan_ne_of_hit _ _ _ _ ?_ i.toNat (by omega) (by omega)
    · have : ((i.toNat : Nat) : Int) = i := by omega
      simp only [this, hp, hid, beq_self_eq_true]
    · intro k _ _; simp
  simp at hhas
  exact hfound hhas
end SM
