import PokerVerif.Lemmas.TBOpen
import PokerVerif.Lemmas.TBIndex
import PokerVerif.Lemmas.TBAgree
import PokerVerif.Lemmas.TBLeaveList
/-!
# The label walk of `updatePlayerPositions`, separated from the player list

`assignPositions sm ps` walks the seats clockwise from the big-blind seat with a queue of labels and writes a label into
the player list whenever it meets a dealt-in (active) seat.  The walk itself never looks at the player list: it is a
function of the seat manager alone.  `labelPlan sm` is that walk, recording *(id, label)* instead of writing;
`assignPositions_eq_plan` says the real function is "compute the plan, then write it down" (`applyPlan`).  Everything that
C06 says about *who gets which label* is then a statement about `labelPlan`.
-/
namespace TB

abbrev Plan := List (Nat × List String)

def planStep (sm : SM.State) (acc : Option (Plan × List (List String) × Bool)) (seat : Int) :
    Option (Plan × List (List String) × Bool) :=
  match acc with
  | none => none
  | some (pl, q, stop) =>
    if stop then some (pl, q, stop)
    else if !(SM.inRange sm seat) then some (pl, q, q.isEmpty)
    else
      match q with
      | [] => none
      | h :: rest =>
        match sm.seats seat with
        | some sp =>
          if sp.active then some (pl ++ [(sp.id, h)], rest, rest.isEmpty)
          else
            let tp := h.contains "dealer" || h.contains "sb"
            let ts := seat == sm.dealer || seat == sm.sb
            if tp && ts then some (pl, rest, rest.isEmpty) else some (pl, q, false)
        | none =>
          let tp := h.contains "dealer" || h.contains "sb"
          let ts := seat == sm.dealer || seat == sm.sb
          if tp && ts then some (pl, rest, rest.isEmpty) else some (pl, q, false)

/-- the seats in the order the walk visits them: clockwise from the big-blind seat, once round the table -/
def walkFromBB (sm : SM.State) : List Int :=
  (List.range sm.maxSeat).map (fun (k : Nat) => Int.tmod (sm.bb + (k : Int)) sm.maxSeat)

/-- who is handed which label, in the order of the walk (`none`: the Go code indexes an empty queue) -/
def labelPlan (sm : SM.State) : Option Plan :=
  match (walkFromBB sm).foldl (planStep sm) (some ([], labelQueue (slotCount sm), false)) with
  | none => none
  | some (pl, _, _) => some pl

def applyPlan (ps : List Player) (pl : Plan) : List Player :=
  pl.foldl (fun acc e => setPositions acc e.1 e.2) ps

theorem applyPlan_append (ps : List Player) (pl : Plan) (e : Nat × List String) :
    applyPlan ps (pl ++ [e]) = setPositions (applyPlan ps pl) e.1 e.2 := by
  unfold applyPlan
  rw [List.foldl_append]
  rfl

/-- the real walk and the plan walk run in lock step: same queue, same stop flag, and the player list is the plan so far
written into the original list -/
def PlanRel (ps : List Player) :
    Option (List Player × List (List String) × Bool) → Option (Plan × List (List String) × Bool) → Prop
  | none, none => True
  | some (ps', q, stop), some (pl, q', stop') => ps' = applyPlan ps pl ∧ q = q' ∧ stop = stop'
  | _, _ => False

theorem planRel_fold (sm : SM.State) (ps : List Player) (seats : List Int)
    (a : Option (List Player × List (List String) × Bool)) (b : Option (Plan × List (List String) × Bool))
    (h : PlanRel ps a b) :
    PlanRel ps
      (seats.foldl (fun (acc : Option (List Player × List (List String) × Bool)) (seat : Int) =>
        match acc with
        | none => none
        | some (ps, q, stop) =>
          if stop then some (ps, q, stop)
          else if !(SM.inRange sm seat) then some (ps, q, q.isEmpty)
          else
            match q with
            | [] => none
            | h :: rest =>
              match sm.seats seat with
              | some sp =>
                if sp.active then
                  let ps' := setPositions ps sp.id h
                  some (ps', rest, rest.isEmpty)
                else
                  let tp := h.contains "dealer" || h.contains "sb"
                  let ts := seat == sm.dealer || seat == sm.sb
                  if tp && ts then some (ps, rest, rest.isEmpty) else some (ps, q, false)
              | none =>
                let tp := h.contains "dealer" || h.contains "sb"
                let ts := seat == sm.dealer || seat == sm.sb
                if tp && ts then some (ps, rest, rest.isEmpty) else some (ps, q, false)) a)
      (seats.foldl (planStep sm) b) := by
  induction seats generalizing a b with
  | nil => exact h
  | cons seat t ih =>
    simp only [List.foldl_cons]
    apply ih
    cases a with
    | none =>
      cases b with
      | none => exact True.intro
      | some y => exact h.elim
    | some x =>
      cases b with
      | none => obtain ⟨_, _, _⟩ := x; exact h.elim
      | some y =>
        obtain ⟨aps, q, stop⟩ := x
        obtain ⟨pl, q', stop'⟩ := y
        obtain ⟨h1, h2, h3⟩ := h
        subst h2; subst h3
        unfold planStep
        simp only
        cases stop with
        | true => exact ⟨h1, rfl, rfl⟩
        | false =>
          simp only [Bool.false_eq_true, if_false]
          cases hr : SM.inRange sm seat with
          | false => exact ⟨h1, rfl, rfl⟩
          | true =>
            simp only [Bool.not_true, Bool.false_eq_true, if_false]
            cases q with
            | nil => exact True.intro
            | cons hd rest =>
              simp only
              cases hs : sm.seats seat with
              | none =>
                simp only
                split
                · exact ⟨h1, rfl, rfl⟩
                · exact ⟨h1, rfl, rfl⟩
              | some sp =>
                simp only
                cases hact : sp.active with
                | true =>
                  simp only [if_true]
                  refine ⟨?_, rfl, rfl⟩
                  rw [applyPlan_append, h1]
                | false =>
                  simp only [Bool.false_eq_true, if_false]
                  split
                  · exact ⟨h1, rfl, rfl⟩
                  · exact ⟨h1, rfl, rfl⟩

/-- **`updatePlayerPositions` = compute the plan from the seat manager, then write it into the player list** -/
theorem assignPositions_eq_plan (sm : SM.State) (ps : List Player) :
    assignPositions sm ps = (labelPlan sm).map (applyPlan ps) := by
  unfold assignPositions labelPlan walkFromBB
  simp only
  have h := planRel_fold sm ps ((List.range sm.maxSeat).map (fun (k : Nat) => Int.tmod (sm.bb + (k : Int)) sm.maxSeat))
    (some (ps, labelQueue (slotCount sm), false)) (some ([], labelQueue (slotCount sm), false)) ⟨rfl, rfl, rfl⟩
  generalize hA : List.foldl _ (some (ps, labelQueue (slotCount sm), false)) _ = A at h
  generalize hB : List.foldl (planStep sm) (some ([], labelQueue (slotCount sm), false)) _ = B at h
  cases A with
  | none =>
    cases B with
    | none => rfl
    | some y => exact h.elim
  | some x =>
    cases B with
    | none => obtain ⟨_, _, _⟩ := x; exact h.elim
    | some y =>
      obtain ⟨aps, q, stop⟩ := x
      obtain ⟨pl, q', stop'⟩ := y
      simp only [Option.map_some]
      rw [h.1]

-- ---------------------------------------------------------------------------------------------------------------------
-- what the plan can contain

/-- the id the walk would label at `seat`: the occupant, if the seat is a key of the seat manager and he is dealt in -/
def activeIdAt (sm : SM.State) (seat : Int) : Option Nat :=
  if SM.inRange sm seat then
    match sm.seats seat with
    | some sp => if sp.active then some sp.id else none
    | none => none
  else none

/-- invariant of the plan walk: the ids handed a label so far are, in order, among the dealt-in occupants of the seats
visited so far; the labels handed out so far are, in order, among the labels taken off the front of the queue -/
structure PlanInv (sm : SM.State) (q0 : List (List String)) (visited : List Int)
    (st : Plan × List (List String) × Bool) : Prop where
  ids : (st.1.map (·.1)).Sublist (visited.filterMap (activeIdAt sm))
  labels : ∃ c, c ++ st.2.1 = q0 ∧ (st.1.map (·.2)).Sublist c

theorem PlanInv.skip {sm : SM.State} {q0 : List (List String)} {visited : List Int} {pl : Plan} {q : List (List String)}
    {stop : Bool} (h : PlanInv sm q0 visited (pl, q, stop)) (seat : Int) (stop' : Bool) :
    PlanInv sm q0 (visited ++ [seat]) (pl, q, stop') := by
  refine ⟨?_, h.labels⟩
  rw [List.filterMap_append]
  exact h.ids.trans (List.sublist_append_left _ _)

theorem PlanInv.consume {sm : SM.State} {q0 : List (List String)} {visited : List Int} {pl : Plan} {hd : List String}
    {rest : List (List String)} {stop : Bool} (h : PlanInv sm q0 visited (pl, hd :: rest, stop)) (seat : Int) (stop' : Bool) :
    PlanInv sm q0 (visited ++ [seat]) (pl, rest, stop') := by
  obtain ⟨c, hc, hl⟩ := h.labels
  refine ⟨?_, c ++ [hd], by simpa using hc, hl.trans (List.sublist_append_left _ _)⟩
  rw [List.filterMap_append]
  exact h.ids.trans (List.sublist_append_left _ _)

theorem planStep_inv (sm : SM.State) (q0 : List (List String)) (visited : List Int)
    (st st' : Plan × List (List String) × Bool) (seat : Int) (h : PlanInv sm q0 visited st)
    (hs : planStep sm (some st) seat = some st') : PlanInv sm q0 (visited ++ [seat]) st' := by
  obtain ⟨pl, q, stop⟩ := st
  unfold planStep at hs
  simp only at hs
  cases stop with
  | true =>
    simp only [if_true] at hs
    rw [← Option.some.inj hs]; exact h.skip seat true
  | false =>
    simp only [Bool.false_eq_true, if_false] at hs
    cases hr : SM.inRange sm seat with
    | false =>
      simp only [hr, Bool.not_false, if_true] at hs
      rw [← Option.some.inj hs]; exact h.skip seat _
    | true =>
      simp only [hr, Bool.not_true, Bool.false_eq_true, if_false] at hs
      cases q with
      | nil => simp at hs
      | cons hd rest =>
        simp only at hs
        cases hseat : sm.seats seat with
        | none =>
          simp only [hseat] at hs
          split at hs
          · rw [← Option.some.inj hs]; exact h.consume seat _
          · rw [← Option.some.inj hs]; exact h.skip seat _
        | some sp =>
          simp only [hseat] at hs
          cases hact : sp.active with
          | false =>
            simp only [hact, Bool.false_eq_true, if_false] at hs
            split at hs
            · rw [← Option.some.inj hs]; exact h.consume seat _
            · rw [← Option.some.inj hs]; exact h.skip seat _
          | true =>
            simp only [hact, if_true] at hs
            rw [← Option.some.inj hs]
            obtain ⟨c, hc, hl⟩ := h.labels
            have hid : activeIdAt sm seat = some sp.id := by simp [activeIdAt, hr, hseat, hact]
            refine ⟨?_, c ++ [hd], by simpa using hc, ?_⟩
            · simp only [List.map_append, List.map_cons, List.map_nil, List.filterMap_append, List.filterMap_cons, hid,
                List.filterMap_nil]
              exact List.Sublist.append h.ids (List.Sublist.refl _)
            · simp only [List.map_append, List.map_cons, List.map_nil]
              exact List.Sublist.append hl (List.Sublist.refl _)

theorem planFold_inv (sm : SM.State) (q0 : List (List String)) (seats visited : List Int)
    (acc : Option (Plan × List (List String) × Bool)) (h : ∀ st, acc = some st → PlanInv sm q0 visited st)
    (st : Plan × List (List String) × Bool) (hf : seats.foldl (planStep sm) acc = some st) :
    PlanInv sm q0 (visited ++ seats) st := by
  induction seats generalizing visited acc with
  | nil => simpa using h st (by simpa using hf)
  | cons seat t ih =>
    simp only [List.foldl_cons] at hf
    have := ih (visited ++ [seat]) (planStep sm acc seat) (by
      intro st' hst'
      cases acc with
      | none => simp [planStep] at hst'
      | some a => exact planStep_inv sm q0 visited a st' seat (h a rfl) hst') hf
    simpa using this

/-- **who can be in the plan, and with what**: the ids are, in walk order, among the dealt-in occupants of the seats; the
labels are, in order, among the labels of the queue for the slot count -/
theorem labelPlan_sublists (sm : SM.State) (pl : Plan) (h : labelPlan sm = some pl) :
    (pl.map (·.1)).Sublist ((walkFromBB sm).filterMap (activeIdAt sm)) ∧
    (pl.map (·.2)).Sublist (labelQueue (slotCount sm)) := by
  unfold labelPlan at h
  cases hf : (walkFromBB sm).foldl (planStep sm) (some ([], labelQueue (slotCount sm), false)) with
  | none => simp [hf] at h
  | some st =>
    obtain ⟨pl', q, stop⟩ := st
    simp only [hf] at h
    have hpl : pl' = pl := Option.some.inj h
    subst hpl
    have inv := planFold_inv sm (labelQueue (slotCount sm)) (walkFromBB sm) [] _ (by
      intro st hst
      rw [← Option.some.inj hst]
      exact ⟨by simp, [], by simp, by simp⟩) _ hf
    refine ⟨by simpa using inv.ids, ?_⟩
    obtain ⟨c, hc, hl⟩ := inv.labels
    simp only at hc hl
    exact hl.trans (by rw [← hc]; exact List.sublist_append_left _ _)

-- ---------------------------------------------------------------------------------------------------------------------
-- nobody is handed two labels; what the player list looks like afterwards

theorem walkFromBB_eq (sm : SM.State) : walkFromBB sm = walkSeats sm.maxSeat sm.bb := rfl

theorem activeIdAt_some (sm : SM.State) (seat : Int) (x : Nat) (h : activeIdAt sm seat = some x) :
    0 ≤ seat ∧ seat < sm.maxSeat ∧ SM.idAt sm seat = some x ∧ SM.activeAt sm.seats seat = true := by
  unfold activeIdAt at h
  cases hr : SM.inRange sm seat with
  | false => simp [hr] at h
  | true =>
    simp only [hr, if_true] at h
    have hr' : 0 ≤ seat ∧ seat < sm.maxSeat := by simpa [SM.inRange] using hr
    cases hs : sm.seats seat with
    | none => simp [hs] at h
    | some sp =>
      simp only [hs] at h
      cases ha : sp.active with
      | false => simp [ha] at h
      | true =>
        simp only [ha, if_true] at h
        refine ⟨hr'.1, hr'.2, ?_, ?_⟩
        · simp [SM.idAt, hs, Option.some.inj h]
        · simp [SM.activeAt, hs, ha]

/-- along the walk no id comes up twice (the seat manager holds an id on one seat only) -/
theorem walk_activeIds_nodup (sm : SM.State) (hb : 0 ≤ sm.bb) (hu : SM.IdsUnique sm) :
    ((walkFromBB sm).filterMap (activeIdAt sm)).Nodup := by
  rw [walkFromBB_eq]
  have hn : (walkSeats sm.maxSeat sm.bb).Nodup := walk_nodup sm.maxSeat sm.bb hb
  refine List.Pairwise.filterMap (activeIdAt sm) ?_ hn
  intro a a' hne b hb' b' hb'' heq
  subst heq
  obtain ⟨a0, a1, a2, _⟩ := activeIdAt_some sm a b hb'
  obtain ⟨c0, c1, c2, _⟩ := activeIdAt_some sm a' b hb''
  exact hne (hu a a' b a0 a1 c0 c1 a2 c2)

theorem labelPlan_ids_nodup (sm : SM.State) (pl : Plan) (h : labelPlan sm = some pl) (hb : 0 ≤ sm.bb)
    (hu : SM.IdsUnique sm) : (pl.map (·.1)).Nodup :=
  (walk_activeIds_nodup sm hb hu).sublist (labelPlan_sublists sm pl h).1

/-- writing one label: the player with that id gets it, everybody else is left alone -/
theorem setPositions_getElem? (ps : List Player) (hnd : (ps.map (·.id)).Nodup) (id : Nat) (pos : List String) (k : Nat) :
    (setPositions ps id pos)[k]? = (ps[k]?).map (fun p => if p.id == id then { p with positions := pos } else p) := by
  unfold setPositions
  cases hf : findIdxAux id ps 0 with
  | none =>
    simp only
    have hall := findIdxAux_none id ps 0 hf
    cases hk : ps[k]? with
    | none => rfl
    | some p =>
      have : p.id ≠ id := hall p (List.mem_of_getElem? hk)
      simp [this]
  | some i =>
    simp only [modAt]
    obtain ⟨_, p, hp, hid⟩ := findIdxAux_some id ps 0 i hf
    simp only [Nat.sub_zero] at hp
    rw [List.getElem?_modify]
    by_cases hik : i = k
    · subst hik
      simp [hp, hid]
    · simp only [hik, if_false]
      cases hk : ps[k]? with
      | none => rfl
      | some q =>
        have hq : q.id ≠ id := by
          intro hq
          have e1 : (ps.map (·.id))[i]? = some id := by simp [hp, hid]
          have e2 : (ps.map (·.id))[k]? = some id := by simp [hk, hq]
          exact hik (nodup_getElem?_inj _ hnd i k id e1 e2)
        simp [hq]

/-- **the player list after the labels were written**: a player whose id is in the plan carries the label the plan pairs
with it, everybody else carries what he carried before; nothing else about anybody changes (the ids in the plan and in the
player list being pairwise distinct) -/
theorem applyPlan_getElem? (pl : Plan) (ps : List Player) (hnd : (ps.map (·.id)).Nodup) (hpl : (pl.map (·.1)).Nodup) (k : Nat) :
    (applyPlan ps pl)[k]? = (ps[k]?).map (fun p =>
      match pl.find? (fun e => e.1 == p.id) with
      | some e => { p with positions := e.2 }
      | none => p) := by
  induction pl generalizing ps with
  | nil =>
    show ps[k]? = _
    cases hk : ps[k]? with
    | none => rfl
    | some p => simp
  | cons e t ih =>
    have hstep : applyPlan ps (e :: t) = applyPlan (setPositions ps e.1 e.2) t := rfl
    have hids : (setPositions ps e.1 e.2).map (·.id) = ps.map (·.id) := setPositions_map (·.id) (fun _ _ => rfl) ps e.1 e.2
    have hpl' : (t.map (·.1)).Nodup := (List.nodup_cons.mp (by simpa using hpl)).2
    have hnot : e.1 ∉ t.map (·.1) := (List.nodup_cons.mp (by simpa using hpl)).1
    rw [hstep, ih (setPositions ps e.1 e.2) (by rw [hids]; exact hnd) hpl', setPositions_getElem? ps hnd]
    cases hk : ps[k]? with
    | none => rfl
    | some p =>
      simp only [Option.map_some, List.find?_cons]
      by_cases hp : p.id = e.1
      · have h1 : (e.1 == p.id) = true := by simp [hp]
        have h2 : (p.id == e.1) = true := by simp [hp]
        simp only [h1, h2, if_true]
        -- nobody later in the plan has this id
        have hnone : t.find? (fun x => x.1 == p.id) = none := by
          rw [List.find?_eq_none]
          intro x hx hxe
          exact hnot (List.mem_map.mpr ⟨x, hx, by simpa [hp] using hxe⟩)
        simp [hnone]
      · have h1 : (e.1 == p.id) = false := by simp; exact fun h => hp h.symm
        have h2 : (p.id == e.1) = false := by simp [hp]
        simp only [h1, h2]
        rfl

-- ---------------------------------------------------------------------------------------------------------------------
-- the first label

theorem planFold_none (sm : SM.State) (seats : List Int) : seats.foldl (planStep sm) none = none := by
  induction seats with
  | nil => rfl
  | cons a t ih => simpa [planStep] using ih

theorem planStep_prefix (sm : SM.State) (st st' : Plan × List (List String) × Bool) (seat : Int)
    (h : planStep sm (some st) seat = some st') : st.1 <+: st'.1 := by
  obtain ⟨pl, q, stop⟩ := st
  unfold planStep at h
  simp only at h
  split at h
  · rw [← Option.some.inj h]; exact List.prefix_refl _
  · split at h
    · rw [← Option.some.inj h]; exact List.prefix_refl _
    · split at h
      · cases h
      · split at h
        · split at h
          · rw [← Option.some.inj h]; exact List.prefix_append _ _
          · split at h <;> (rw [← Option.some.inj h]; exact List.prefix_refl _)
        · split at h <;> (rw [← Option.some.inj h]; exact List.prefix_refl _)

theorem planFold_prefix (sm : SM.State) (seats : List Int) (st st' : Plan × List (List String) × Bool)
    (h : seats.foldl (planStep sm) (some st) = some st') : st.1 <+: st'.1 := by
  induction seats generalizing st with
  | nil => simp at h; rw [h]; exact List.prefix_refl _
  | cons a t ih =>
    simp only [List.foldl_cons] at h
    cases hs : planStep sm (some st) a with
    | none => rw [hs, planFold_none] at h; cases h
    | some st1 =>
      rw [hs] at h
      exact (planStep_prefix sm st st1 a hs).trans (ih st1 h)

/-- the walk starts on the big-blind seat: if its occupant is dealt in, he is the first in the plan and gets the first
label of the queue -/
theorem labelPlan_head (sm : SM.State) (pl : Plan) (h : labelPlan sm = some pl) (hb0 : 0 ≤ sm.bb) (hbn : sm.bb < sm.maxSeat)
    (id : Nat) (hact : activeIdAt sm sm.bb = some id) (hd : List String) (rest : List (List String))
    (hq : labelQueue (slotCount sm) = hd :: rest) : pl.head? = some (id, hd) := by
  unfold labelPlan at h
  have hn : 0 < sm.maxSeat := by omega
  obtain ⟨m, hm⟩ : ∃ m, sm.maxSeat = m + 1 := ⟨sm.maxSeat - 1, by omega⟩
  obtain ⟨tl, hw⟩ : ∃ tl, walkFromBB sm = sm.bb :: tl := by
    refine ⟨((List.range m).map Nat.succ).map (fun (k : Nat) => Int.tmod (sm.bb + (k : Int)) sm.maxSeat), ?_⟩
    unfold walkFromBB
    rw [hm, List.range_succ_eq_map]
    simp only [List.map_cons]
    congr 1
    have h1 : sm.bb < ((m + 1 : Nat) : Int) := by rw [← hm]; exact hbn
    simpa using SM.tmod_small hb0 h1
  rw [hw, List.foldl_cons] at h
  -- the first step
  have hfirst : planStep sm (some ([], labelQueue (slotCount sm), false)) sm.bb = some ([(id, hd)], rest, rest.isEmpty) := by
    unfold activeIdAt at hact
    cases hr : SM.inRange sm sm.bb with
    | false => simp [hr] at hact
    | true =>
      simp only [hr, if_true] at hact
      cases hs : sm.seats sm.bb with
      | none => simp [hs] at hact
      | some sp =>
        simp only [hs] at hact
        cases ha : sp.active with
        | false => simp [ha] at hact
        | true =>
          simp only [ha, if_true] at hact
          have : sp.id = id := Option.some.inj hact
          simp [planStep, hr, hq, hs, ha, this]
  rw [hfirst] at h
  cases hf : List.foldl (planStep sm) (some ([(id, hd)], rest, rest.isEmpty)) tl with
  | none => simp [hf] at h
  | some st =>
    obtain ⟨pl', q, stop⟩ := st
    simp only [hf] at h
    have hp := planFold_prefix sm _ _ _ hf
    simp only at hp
    obtain ⟨t, ht⟩ := hp
    rw [← Option.some.inj h, ← ht]
    rfl

end TB
