import PokerVerif.Lemmas.TBSeats
import PokerVerif.Lemmas.TBLedger
/-!
# Which operations touch the seat bookkeeping at all

`SeatsEq a b`: same seat map, and the player lists agree seat by seat.  Every operation of the table other than an
arrival (`batchAddPlayers`) and a departure (`batchRemovePlayers`) is `SeatsEq` to its input — so the seat bookkeeping
(`MapTight`) can only be touched by those two.
-/
namespace TB

def SeatsEq (a b : State) : Prop :=
  a.seatMap = b.seatMap ∧ a.players.map (·.seat) = b.players.map (·.seat) ∧ a.cfg = b.cfg

theorem SeatsEq.refl (a : State) : SeatsEq a a := ⟨rfl, rfl, rfl⟩
theorem SeatsEq.trans {a b c : State} (h1 : SeatsEq a b) (h2 : SeatsEq b c) : SeatsEq a c :=
  ⟨h1.1.trans h2.1, h1.2.1.trans h2.2.1, h1.2.2.trans h2.2.2⟩

theorem MapTight.of_seats (m : List Int) (ps ps' : List Player) (h : ps'.map (·.seat) = ps.map (·.seat))
    (w : MapTight m ps) : MapTight m ps' := ⟨MapWF.of_seats m ps ps' h w.1, w.2⟩

theorem SeatsEq.tight {a b : State} (h : SeatsEq a b) (w : MapTight b.seatMap b.players) :
    MapTight a.seatMap a.players := by
  rw [h.1]; exact MapTight.of_seats _ _ _ h.2.1 w

theorem seats_modify (ps : List Player) (i : Nat) (f : Player → Player) (hf : ∀ p, (f p).seat = p.seat) :
    (ps.modify i f).map (·.seat) = ps.map (·.seat) := modify_map ps i f (·.seat) hf

theorem seq_joinCore (s : State) (id : Nat) : SeatsEq (joinCore s id).1 s := by
  unfold joinCore
  split
  · exact SeatsEq.refl s
  · split
    · exact SeatsEq.refl s
    · split
      · exact SeatsEq.refl s
      · split
        · exact SeatsEq.refl s
        · have hb := seats_modify s.players ‹Nat› (fun p => { p with isIn := true }) (fun _ => rfl)
          simp only
          split <;> exact ⟨rfl, by simpa [modAt] using hb, rfl⟩

theorem seq_foldl_joinCore (ps : List Player) (s : State) :
    SeatsEq (ps.foldl (fun acc p => (joinCore acc p.id).1) s) s := by
  induction ps generalizing s with
  | nil => exact SeatsEq.refl s
  | cons p t ih => exact (ih _).trans (seq_joinCore s p.id)

theorem seq_started (s : State) : SeatsEq { s with started := true } s := ⟨rfl, rfl, rfl⟩

theorem seq_autoJoinComplete (s : State) : SeatsEq (autoJoinComplete s) s := by
  unfold autoJoinComplete
  simp only
  split
  · exact (seq_started _).trans (seq_foldl_joinCore s.players s)
  · exact seq_foldl_joinCore s.players s

theorem seq_join (s : State) (id : Nat) : SeatsEq (join s id).1 s := by
  unfold join
  have hj := seq_joinCore s id
  generalize joinCore s id = r at hj
  obtain ⟨s1, r1, fresh⟩ := r
  simp only at hj ⊢
  cases fresh with
  | none => exact hj
  | some i =>
    simp only
    split
    · split
      · exact (seq_autoJoinComplete _).trans ((show SeatsEq { { s1 with autoRg := _ } with autoDone := true } s1 from ⟨rfl, rfl, rfl⟩).trans hj)
      · exact (show SeatsEq { s1 with autoRg := _ } s1 from ⟨rfl, rfl, rfl⟩).trans hj
    · exact hj

theorem seq_foldl_join (ps : List Player) (s : State) :
    SeatsEq (ps.foldl (fun acc p => (join acc p.id).1) s) s := by
  induction ps generalizing s with
  | nil => exact SeatsEq.refl s
  | cons p t ih => exact (ih _).trans (seq_join s p.id)

theorem seq_autoJoinStale (s : State) : SeatsEq (autoJoinStale s) s := seq_foldl_join s.players s

theorem seq_redeem (s : State) (id : Nat) (c : Int) : SeatsEq (redeem s id c).1 s := by
  unfold redeem
  split
  · exact SeatsEq.refl s
  · have hb := seats_modify s.players ‹Nat› (fun p => { p with bankroll := p.bankroll + c }) (fun _ => rfl)
    simp only
    split <;> exact ⟨rfl, by simpa [modAt] using hb, rfl⟩

theorem seq_finish (s : State) (id : Nat) : SeatsEq (finish s id).1 s := by
  unfold finish
  repeat (first | split | exact SeatsEq.refl _ | exact ⟨rfl, rfl, rfl⟩)

theorem seq_settle (s : State) (r : List (Nat × Int)) : SeatsEq (settle s r).1 s := by
  unfold settle
  simp only
  -- the fold keeps the seats of the list it carries
  have key : ∀ (res : List (Nat × Int)) (acc : List Player),
      acc.map (·.seat) = s.players.map (·.seat) →
      ∀ ps, res.foldl (fun (acc : Option (List Player)) (e : Nat × Int) =>
        match acc with
        | none => none
        | some ps =>
          match s.gidx[e.1]? with
          | none => none
          | some pi => if 0 ≤ pi ∧ pi.toNat < ps.length then
              some (modAt ps pi.toNat (fun p => { p with bankroll := p.bankroll + e.2 })) else none) (some acc) = some ps →
      ps.map (·.seat) = s.players.map (·.seat) := by
    intro res
    induction res with
    | nil => intro acc ha ps h; simp at h; subst h; exact ha
    | cons e t ih =>
      intro acc ha ps h
      simp only [List.foldl_cons] at h
      cases hg : s.gidx[e.1]? with
      | none =>
        simp only [hg] at h
        have : ∀ (l : List (Nat × Int)), l.foldl (fun (acc : Option (List Player)) (e : Nat × Int) =>
            match acc with
            | none => none
            | some ps =>
              match s.gidx[e.1]? with
              | none => none
              | some pi => if 0 ≤ pi ∧ pi.toNat < ps.length then
                  some (modAt ps pi.toNat (fun p => { p with bankroll := p.bankroll + e.2 })) else none) none = none := by
          intro l; induction l with
          | nil => rfl
          | cons _ _ ih2 => simpa using ih2
        rw [this] at h; cases h
      | some pi =>
        simp only [hg] at h
        by_cases hc : 0 ≤ pi ∧ pi.toNat < acc.length
        · simp only [hc, and_self, if_true] at h
          exact ih _ (by rw [← ha]; exact seats_modify acc pi.toNat _ (fun _ => rfl)) ps h
        · simp only [hc, if_false] at h
          have : ∀ (l : List (Nat × Int)), l.foldl (fun (acc : Option (List Player)) (e : Nat × Int) =>
              match acc with
              | none => none
              | some ps =>
                match s.gidx[e.1]? with
                | none => none
                | some pi => if 0 ≤ pi ∧ pi.toNat < ps.length then
                    some (modAt ps pi.toNat (fun p => { p with bankroll := p.bankroll + e.2 })) else none) none = none := by
            intro l; induction l with
            | nil => rfl
            | cons _ _ ih2 => simpa using ih2
          rw [this] at h; cases h
  split
  · exact ⟨rfl, rfl, rfl⟩
  · rename_i ps hps
    have hs := key r s.players rfl ps hps
    split <;> exact ⟨rfl, hs, rfl⟩

theorem foldl_none_gen {α β : Type} (f : Option β → α → Option β) (hf : ∀ a, f none a = none) (l : List α) :
    l.foldl f none = none := by
  induction l with
  | nil => rfl
  | cons a t ih => simp only [List.foldl_cons, hf]; exact ih

theorem refreshPlayers_seats_fold (ps : List Player) (sm0 : SM.State) (done0 : List Player) (r : SM.State × List Player)
    (h : ps.foldl (fun (acc : Option (SM.State × List Player)) (p : Player) =>
      match acc with
      | none => none
      | some (sm, done) =>
        let r := SM.setChips sm p.id (decide (p.bankroll > 0))
        match r.2 with
        | .err _ => none
        | .ok =>
          match SM.isActive r.1 p.id with
          | none => none
          | some a => some (r.1, done ++ [{ p with positions := [], participated := a }])) (some (sm0, done0)) = some r) :
    r.2.map (·.seat) = done0.map (·.seat) ++ ps.map (·.seat) := by
  induction ps generalizing sm0 done0 with
  | nil => simp at h; subst h; simp
  | cons p t ih =>
    simp only [List.foldl_cons] at h
    cases hr : (SM.setChips sm0 p.id (decide (p.bankroll > 0))).2 with
    | err e => simp only [hr] at h; rw [foldl_none_gen _ (fun _ => rfl)] at h; cases h
    | ok =>
      simp only [hr] at h
      cases ha : SM.isActive (SM.setChips sm0 p.id (decide (p.bankroll > 0))).1 p.id with
      | none => simp only [ha] at h; rw [foldl_none_gen _ (fun _ => rfl)] at h; cases h
      | some a =>
        simp only [ha] at h
        rw [ih _ _ h]; simp

theorem seq_nextMove (s2 : State) (e : Bool) : SeatsEq (nextMove s2 e).1 s2 := by
  unfold nextMove
  repeat (first | split | exact SeatsEq.refl _ | exact ⟨rfl, rfl, rfl⟩)

theorem seq_continueGame (s : State) (e : Bool) : SeatsEq (continueGame s e).1 s := by
  rcases continueGame_cases s e with ⟨_, h⟩ | ⟨sm, ps, hrp, h⟩
  · rw [h]; exact ⟨rfl, rfl, rfl⟩
  · rw [h]
    refine (seq_nextMove _ e).trans ⟨rfl, ?_, rfl⟩
    have := refreshPlayers_seats_fold s.players s.sm [] (sm, ps) hrp
    simpa [resetHand] using this

theorem seq_openTable (s : State) (sm : SM.State) : SeatsEq (openTable s sm).1 s := by
  unfold openTable
  split
  · exact ⟨rfl, rfl, rfl⟩
  · rename_i ps hm
    simp only
    split
    · exact ⟨rfl, rfl, rfl⟩
    · split
      · exact ⟨rfl, rfl, rfl⟩
      · rename_i ps2 hap
        refine ⟨rfl, ?_, rfl⟩
        have h1 := assignPositions_map (·.seat) (fun _ _ => rfl) _ _ _ hap
        have h2 := mapM_keeps (·.seat) (fun _ _ => rfl) sm _ _ hm
        simp only [openedState]
        rw [h1, h2]

theorem seq_startHand (s2 : State) (ok : Bool) : SeatsEq (startHand s2 ok).1 s2 := by
  unfold startHand
  split
  · exact SeatsEq.refl _
  · split
    · exact SeatsEq.refl _
    · exact ⟨rfl, rfl, rfl⟩

theorem seq_openCore (s : State) (ch : Option Int) (ok : Bool) : SeatsEq (openCore s ch ok).1 s := by
  unfold openCore
  simp only
  split
  · exact ⟨rfl, rfl, rfl⟩
  · split
    · exact (seq_startHand _ ok).trans (seq_openTable _ _)
    · exact seq_openTable _ _

theorem seq_gateFire (s : State) (ch : Option Int) (ok : Bool) : SeatsEq (gateFire s ch ok).1 s := by
  unfold gateFire
  have hg : SeatsEq (gateReady s) s := ⟨rfl, rfl, rfl⟩
  split
  · exact hg
  · exact hg
  · exact (seq_openCore _ ch ok).trans hg

theorem seq_retryOpen (s : State) (ch : Option Int) (ok : Bool) : SeatsEq (retryOpen s ch ok).1 s := by
  rcases retryOpen_cases s ch ok with h | h | ⟨_, _, _, _, _, h⟩
  · rw [h]; exact ⟨rfl, rfl, rfl⟩
  · rw [h]; exact ⟨rfl, rfl, rfl⟩
  · rw [h]; exact seq_openCore s ch ok

/-- a top-up by `PlayerReserve` of somebody already at the table -/
theorem seq_reserve_known (s : State) (j : Join) (ch : List Int) (i : Nat) (h : findPlayerIdx s j.id = some i) :
    SeatsEq (reserve s j ch).1 s := by
  unfold reserve
  rw [h]
  have hb := seats_modify s.players i (fun p => { p with bankroll := p.bankroll + j.chips }) (fun _ => rfl)
  simp only
  split <;> exact ⟨rfl, by simpa [modAt] using hb, rfl⟩

theorem batchAdd_cfg (s : State) (js : List Join) (ch : List Int) : (batchAdd s js ch).1.cfg = s.cfg := by
  unfold batchAdd
  split
  · rfl
  · simp only
    split
    · rfl
    · split
      · rfl
      · split <;> rfl

theorem batchRemove_cfg (s : State) (ids : List Nat) : (batchRemove s ids).1.cfg = s.cfg := by
  unfold batchRemove
  simp only
  split
  · rfl
  · split
    · rfl
    · split <;> rfl

-- ------------------------------------------------------------------ arrivals

/-- what the table relies on at an arrival: the seats the seat manager has given the new players are seats the table
shows free, one each (the agreement of seat manager and table about free seats — the other half of C03's invariant,
evaluated on every observed state by the monitor `c03Inv`) -/
def ArrivalOK (s : State) (js : List Join) (ch : List Int) : Prop :=
  (batchAdd s js ch).2 = .ok →
    (∀ j ∈ js, seatMapGet s.seatMap (SM.seatOf (batchAdd s js ch).1.sm j.id) = some (-1)) ∧
    js.Pairwise (fun a b => SM.seatOf (batchAdd s js ch).1.sm a.id ≠ SM.seatOf (batchAdd s js ch).1.sm b.id)

instance (s : State) (js : List Join) (ch : List Int) : Decidable (ArrivalOK s js ch) := by
  unfold ArrivalOK; exact inferInstance

/-- `batchAddPlayers`: either nothing about seat map and player list changes (refused), or the appending loop ran on
the seat manager that is now the table's -/
theorem batchAdd_shape (s : State) (js : List Join) (ch : List Int) :
    ((batchAdd s js ch).1.seatMap = s.seatMap ∧ (batchAdd s js ch).1.players = s.players ∧ (batchAdd s js ch).2 ≠ .ok) ∨
    (∃ ps m, appendPlayers (batchAdd s js ch).1.sm js s.players s.seatMap = some (ps, m) ∧
      (batchAdd s js ch).1.players = ps ∧ (batchAdd s js ch).1.seatMap = m ∧ (batchAdd s js ch).2 = .ok) := by
  unfold batchAdd
  split
  · exact Or.inl ⟨rfl, rfl, by simp⟩
  · simp only
    split
    · exact Or.inl ⟨rfl, rfl, by simp⟩
    · split
      · exact Or.inl ⟨rfl, rfl, by simp⟩
      · split
        · exact Or.inl ⟨rfl, rfl, by simp⟩
        · rename_i ps m hap
          exact Or.inr ⟨ps, m, hap, rfl, rfl, rfl⟩

theorem batchAdd_tight (s : State) (js : List Join) (ch : List Int) (h : MapTight s.seatMap s.players)
    (hlen : s.seatMap.length = s.cfg.maxSeat) (ha : ArrivalOK s js ch) :
    MapTight (batchAdd s js ch).1.seatMap (batchAdd s js ch).1.players ∧
    (batchAdd s js ch).1.seatMap.length = (batchAdd s js ch).1.cfg.maxSeat := by
  have hcfg := batchAdd_cfg s js ch
  rcases batchAdd_shape s js ch with ⟨h1, h2, _⟩ | ⟨ps, m, hap, h2, h1, hok⟩
  · rw [h1, h2, hcfg]; exact ⟨h, hlen⟩
  · obtain ⟨hf, hp⟩ := ha hok
    obtain ⟨w1, w2⟩ := appendPlayers_tight _ js s.players s.seatMap h hf hp ps m hap
    rw [h1, h2, hcfg]; exact ⟨w1, by rw [w2]; exact hlen⟩

/-- the arrival condition of one event (departures of a batch update come first) -/
def EventArrivalOK (s : State) : Event → Prop
  | .reserve j ch => findPlayerIdx s j.id = none → ArrivalOK s [j] ch
  | .update js lv ch => ArrivalOK (if lv.isEmpty then s else (batchRemove s lv).1) js ch
  | _ => True

def ArrivalsOK : State → List Event → Prop
  | _, [] => True
  | s, e :: t => EventArrivalOK s e ∧ ArrivalsOK (step s e) t

/-- the seat bookkeeping as an invariant of one step -/
def Booked (s : State) : Prop := MapTight s.seatMap s.players ∧ s.seatMap.length = s.cfg.maxSeat

theorem SeatsEq.booked {a b : State} (h : SeatsEq a b) (w : Booked b) : Booked a :=
  ⟨h.tight w.1, by rw [h.1, h.2.2]; exact w.2⟩

theorem batchRemove_booked (s : State) (ids : List Nat) (h : Booked s) : Booked (batchRemove s ids).1 := by
  by_cases hok : (batchRemove s ids).2 = .ok
  · obtain ⟨w1, w2, _⟩ := batchRemove_tight s ids h.1 hok
    exact ⟨w1, by rw [w2, batchRemove_cfg]⟩
  · -- refused or panicked: seat map and players are as they were
    have : (batchRemove s ids).1.seatMap = s.seatMap ∧ (batchRemove s ids).1.players = s.players ∧
        (batchRemove s ids).1.cfg = s.cfg := by
      unfold batchRemove at hok ⊢
      simp only at hok ⊢
      split
      · exact ⟨rfl, rfl, rfl⟩
      · split
        · exact ⟨rfl, rfl, rfl⟩
        · split
          · exact ⟨rfl, rfl, rfl⟩
          · rename_i hr _ m hm _ oids ho
            simp only [hr, hm, ho] at hok
            exact absurd trivial hok
    rw [Booked, this.1, this.2.1, this.2.2]; exact h

theorem step_booked (s : State) (e : Event) (h : Booked s) (ha : EventArrivalOK s e) : Booked (step s e) := by
  cases e with
  | reserve j ch =>
    show Booked (reserve s j ch).1
    cases hf : findPlayerIdx s j.id with
    | some i => exact (seq_reserve_known s j ch i hf).booked h
    | none =>
      have ha' : ArrivalOK s [j] ch := ha hf
      unfold reserve
      rw [hf]
      simp only
      split
      · exact h
      · exact batchAdd_tight s [j] ch h.1 h.2 ha'
  | join id => exact (seq_join s id).booked h
  | redeem id c => exact (seq_redeem s id c).booked h
  | leave ids => exact batchRemove_booked s ids h
  | update js lv ch =>
    show Booked (update s js lv ch).1
    have ha' : ArrivalOK (if lv.isEmpty then s else (batchRemove s lv).1) js ch := ha
    unfold update
    simp only
    by_cases hl : lv.isEmpty = true
    · simp only [hl, if_true] at ha' ⊢
      split
      · exact h
      · exact batchAdd_tight s js ch h.1 h.2 ha'
    · simp only [hl, Bool.false_eq_true, if_false] at ha' ⊢
      have hb := batchRemove_booked s lv h
      split
      · split
        · exact hb
        · exact batchAdd_tight _ js ch hb.1 hb.2 ha'
      · exact hb
  | blind b => exact h
  | pause => exact h
  | close => exact h
  | release => exact h
  | start => exact h
  | setup gc ps => exact h
  | finish id => exact (seq_finish s id).booked h
  | autojoin => exact (seq_autoJoinStale s).booked h
  | fire ch ok => exact (seq_gateFire s ch ok).booked h
  | retry ch ok => exact (seq_retryOpen s ch ok).booked h
  | settle r => exact (seq_settle s r).booked h
  | «continue» ex => exact (seq_continueGame s ex).booked h
  | contReset => exact (seq_continueGame s true).booked h
  | tick ex => exact (seq_nextMove s ex).booked h

/-- **the seat bookkeeping holds in every state of every history** whose arrivals were given seats the table showed free -/
theorem run_booked (s : State) (evs : List Event) (h : Booked s) (ha : ArrivalsOK s evs) : Booked (run s evs) := by
  induction evs generalizing s with
  | nil => exact h
  | cons e t ih =>
    show Booked (run (step s e) t)
    exact ih (step s e) (step_booked s e h ha.1) ha.2

theorem create_booked (cfg : Meta) (b : Blind) : Booked (create cfg b) :=
  ⟨mapTight_default cfg.maxSeat, by simp [create, defaultSeatMap]⟩

end TB
