import PokerVerif.Lemmas.TBAgree
/-!
# Seat manager ↔ table agreement as an invariant of every history

`Inv s := Booked s ∧ Agree s`: the table's seat map and player list are tight and of the configured length (`Booked`), the
seat manager has the configured seat count, holds exactly the listed player's id on every seat of the table, and no id is
listed twice (`Agree`).  `step_inv`: every event of `TB.Event` keeps it, provided the event is *legal* (`EventLegal`): the
recorded random seats are a draw the seat manager could have made (`BatchLegal`, the only recorded randomness) and a
*departure* did not end in a Go panic (`Res.panic`: `calcLeavePlayers` indexing the player list with a hand-list entry
that is out of range — crashes are reported by the harness as `CRASH.*`).  Arrivals need no such guard: on a table whose
books agree `batchAddPlayers` cannot panic (`batchAdd_no_panic`).  `run_inv`: induction over the history.
-/
namespace TB

def Inv (s : State) : Prop := Booked s ∧ Agree s

/-- what the model needs of a recorded event to speak for the code -/
def EventLegal (s : State) : Event → Prop
  | .reserve j ch => findPlayerIdx s j.id = none → BatchLegal s [j] ch
  | .leave ids => (batchRemove s ids).2 ≠ .panic
  | .update js lv ch =>
    (lv.isEmpty = false → (batchRemove s lv).2 ≠ .panic) ∧
    BatchLegal (if lv.isEmpty then s else (batchRemove s lv).1) js ch
  | _ => True

instance (s : State) (e : Event) : Decidable (EventLegal s e) := by
  cases e <;> (unfold EventLegal; exact inferInstance)

def Legal : State → List Event → Prop
  | _, [] => True
  | s, e :: t => EventLegal s e ∧ Legal (step s e) t

theorem eventArrivalOK_of_inv (s : State) (e : Event) (h : Inv s) (hl : EventLegal s e) : EventArrivalOK s e := by
  cases e with
  | reserve j ch => intro hf; exact arrivalOK_of_agree s [j] ch h.1 h.2 (hl hf)
  | update js lv ch =>
    show ArrivalOK (if lv.isEmpty then s else (batchRemove s lv).1) js ch
    obtain ⟨hp, hb⟩ := hl
    by_cases he : lv.isEmpty = true
    · simp only [he, if_true] at hb ⊢
      exact arrivalOK_of_agree s js ch h.1 h.2 hb
    · simp only [he, Bool.false_eq_true, if_false] at hb ⊢
      have hp' := hp (by simpa using he)
      exact arrivalOK_of_agree _ js ch (batchRemove_booked s lv h.1) (batchRemove_agree s lv h.1 h.2 hp') hb
  | _ => trivial

theorem step_agree (s : State) (e : Event) (h : Inv s) (hl : EventLegal s e) : Agree (step s e) := by
  obtain ⟨hb, ha⟩ := h
  cases e with
  | reserve j ch =>
    show Agree (reserve s j ch).1
    cases hf : findPlayerIdx s j.id with
    | some i => exact Agree.of_quiet (q_reserve_known s j ch i hf) (seq_reserve_known s j ch i hf) ha
    | none =>
      have hbl := hl hf
      have hnp := batchAdd_no_panic s [j] ch hb ha hbl
      unfold reserve
      rw [hf]
      simp only
      split
      · exact ha
      · exact batchAdd_agree s [j] ch hb ha hbl hnp
  | join id => exact Agree.of_quiet (q_join s id) (seq_join s id) ha
  | redeem id c => exact Agree.of_quiet (q_redeem s id c) (seq_redeem s id c) ha
  | leave ids => exact batchRemove_agree s ids hb ha hl
  | update js lv ch =>
    show Agree (update s js lv ch).1
    obtain ⟨hp, hbl⟩ := hl
    unfold update
    simp only
    by_cases he : lv.isEmpty = true
    · simp only [he, if_true] at hbl ⊢
      split
      · exact ha
      · exact batchAdd_agree s js ch hb ha hbl (batchAdd_no_panic s js ch hb ha hbl)
    · simp only [he, Bool.false_eq_true, if_false] at hbl ⊢
      have hp' := hp (by simpa using he)
      have hb1 := batchRemove_booked s lv hb
      have ha1 := batchRemove_agree s lv hb ha hp'
      split
      · split
        · exact ha1
        · exact batchAdd_agree _ js ch hb1 ha1 hbl (batchAdd_no_panic _ js ch hb1 ha1 hbl)
      · exact ha1
  | blind b => exact ⟨ha.maxSeat, ha.seats, ha.ids⟩
  | pause => exact ⟨ha.maxSeat, ha.seats, ha.ids⟩
  | close => exact ⟨ha.maxSeat, ha.seats, ha.ids⟩
  | release => exact ⟨ha.maxSeat, ha.seats, ha.ids⟩
  | start => exact ⟨ha.maxSeat, ha.seats, ha.ids⟩
  | setup gc ps => exact ⟨ha.maxSeat, ha.seats, ha.ids⟩
  | finish id => exact Agree.of_quiet (q_finish s id) (seq_finish s id) ha
  | autojoin => exact Agree.of_quiet (q_autoJoinStale s) (seq_autoJoinStale s) ha
  | fire ch ok => exact Agree.of_quiet (q_gateFire s ch ok) (seq_gateFire s ch ok) ha
  | retry ch ok => exact Agree.of_quiet (q_retryOpen s ch ok) (seq_retryOpen s ch ok) ha
  | settle r => exact Agree.of_quiet (q_settle s r) (seq_settle s r) ha
  | «continue» ex => exact Agree.of_quiet (q_continueGame s ex) (seq_continueGame s ex) ha
  | contReset => exact Agree.of_quiet (q_continueGame s true) (seq_continueGame s true) ha
  | tick ex => exact Agree.of_quiet (q_nextMove s ex) (seq_nextMove s ex) ha

theorem step_inv (s : State) (e : Event) (h : Inv s) (hl : EventLegal s e) : Inv (step s e) :=
  ⟨step_booked s e h.1 (eventArrivalOK_of_inv s e h hl), step_agree s e h hl⟩

theorem run_inv (s : State) (evs : List Event) (h : Inv s) (hl : Legal s evs) : Inv (run s evs) := by
  induction evs generalizing s with
  | nil => exact h
  | cons e t ih =>
    show Inv (run (step s e) t)
    exact ih (step s e) (step_inv s e h hl.1) hl.2

theorem create_agree (cfg : Meta) (b : Blind) : Agree (create cfg b) := by
  refine ⟨rfl, ?_, by simp [create]⟩
  intro seat h0 hn
  have hn' : seat.toNat < cfg.maxSeat := by
    have : seat < (cfg.maxSeat : Int) := hn
    omega
  have hn2 : seat < (cfg.maxSeat : Int) := hn
  simp [create, SM.idAt, SM.State.new, SM.emptySeats, occId, seatMapGet, defaultSeatMap, h0, hn2, hn']

theorem create_inv (cfg : Meta) (b : Blind) : Inv (create cfg b) := ⟨create_booked cfg b, create_agree cfg b⟩

end TB
