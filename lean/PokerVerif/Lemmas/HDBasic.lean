import PokerVerif.HD
/-! Helper lemmas about the hand-level model: every outcome of a submission. -/
namespace HD

/-- every outcome of a submission: refused without a trace, or accepted after passing every guard -/
theorem act_cases' (s : State) (id : Nat) (kind : String) (arg : Int) (o : Oracle) (r : State × Res)
    (hr : act s id kind arg o = r) :
    (r.1 = s ∧ ∃ e, r.2 = .err e) ∨
    (∃ gi v isR emit, findIdx s.hand id = some gi ∧ gi < s.players.length ∧ s.view = some v ∧ s.playing = true ∧
       (v.player gi).isSome = true ∧ r = (accept s v id gi kind arg isR emit, .ok) ∧
       (((kind = "ready" ∨ kind = "pay") ∧ v.hasAction gi kind = true ∧ isR = false ∧ emit = false) ∨
        (¬(kind = "ready" ∨ kind = "pay") ∧ v.cur = (gi : Int) ∧ (kind = "pass" → v.hasAction gi "pass" = true) ∧ emit = true ∧
          ∃ nr, o = .ok nr ∧ isR = (nr == (gi : Int))))) := by
  unfold act at hr
  split at hr
  · subst hr; exact Or.inl ⟨rfl, _, rfl⟩
  · rename_i hp
    have hp' : s.playing = true := by simpa using hp
    split at hr
    · subst hr; exact Or.inl ⟨rfl, _, rfl⟩
    · rename_i gi hgi
      split at hr
      · subst hr; exact Or.inl ⟨rfl, _, rfl⟩
      · rename_i hlen
        split at hr
        · subst hr; exact Or.inl ⟨rfl, _, rfl⟩
        · rename_i v hv
          have hsome : ∀ (h : ¬ (v.player (gi : Int)).isNone = true), (v.player (gi : Int)).isSome = true := by
            intro h; cases hq : v.player (gi : Int) <;> simp_all
          split at hr
          · rename_i hk
            have hk' : kind = "ready" ∨ kind = "pay" := by simpa using hk
            split at hr
            · subst hr; exact Or.inl ⟨rfl, _, rfl⟩
            · rename_i hpl
              split at hr
              · subst hr; exact Or.inl ⟨rfl, _, rfl⟩
              · rename_i hha
                have hha' : v.hasAction (gi : Int) kind = true := by simpa using hha
                split at hr
                · subst hr
                  exact Or.inr ⟨gi, v, false, false, hgi, by omega, hv, hp', hsome hpl, rfl, Or.inl ⟨hk', hha', rfl, rfl⟩⟩
                · split at hr
                  · subst hr
                    exact Or.inr ⟨gi, v, false, false, hgi, by omega, hv, hp', hsome hpl, rfl, Or.inl ⟨hk', hha', rfl, rfl⟩⟩
                  · split at hr
                    · subst hr
                      exact Or.inr ⟨gi, v, false, false, hgi, by omega, hv, hp', hsome hpl, rfl, Or.inl ⟨hk', hha', rfl, rfl⟩⟩
                    · subst hr; exact Or.inl ⟨rfl, _, rfl⟩
          · rename_i hk
            have hk' : ¬ (kind = "ready" ∨ kind = "pay") := by simpa using hk
            split at hr
            · subst hr; exact Or.inl ⟨rfl, _, rfl⟩
            · rename_i hpl
              split at hr
              · subst hr; exact Or.inl ⟨rfl, _, rfl⟩
              · rename_i hcur
                split at hr
                · subst hr; exact Or.inl ⟨rfl, _, rfl⟩
                · rename_i hps
                  split at hr
                  · rename_i nr
                    subst hr
                    refine Or.inr ⟨gi, v, nr == (gi : Int), true, hgi, by omega, hv, hp', hsome hpl, rfl, Or.inr ⟨hk', by simpa using hcur, ?_, rfl, nr, rfl, rfl⟩⟩
                    intro hkp
                    simp [hkp] at hps
                    exact hps
                  · subst hr; exact Or.inl ⟨rfl, _, rfl⟩

theorem act_cases (s : State) (id : Nat) (kind : String) (arg : Int) (o : Oracle) :
    ((act s id kind arg o).1 = s ∧ ∃ e, (act s id kind arg o).2 = .err e) ∨
    (∃ gi v isR emit, findIdx s.hand id = some gi ∧ gi < s.players.length ∧ s.view = some v ∧ s.playing = true ∧
       (v.player gi).isSome = true ∧ act s id kind arg o = (accept s v id gi kind arg isR emit, .ok) ∧
       (((kind = "ready" ∨ kind = "pay") ∧ v.hasAction gi kind = true ∧ isR = false ∧ emit = false) ∨
        (¬(kind = "ready" ∨ kind = "pay") ∧ v.cur = (gi : Int) ∧ (kind = "pass" → v.hasAction gi "pass" = true) ∧ emit = true ∧
          ∃ nr, o = .ok nr ∧ isR = (nr == (gi : Int))))) :=
  act_cases' s id kind arg o _ rfl
end HD
