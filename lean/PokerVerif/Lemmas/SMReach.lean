import PokerVerif.Lemmas.SMRotate
import PokerVerif.Lemmas.SMAssign
/-!
# The seat manager as an operation system; what holds in every reachable state

`SM.Op` / `SM.stepOp` / `SM.runOps`: the public mutators of `seat_manager` as events.  `BBOk`: once positions are set
(default rule) the big-blind seat is a seat of the table — the hypothesis of the C04 theorems — holds in every state
reachable from `NewSeatManager` by any sequence of operations (the recorded random first seat being a legal draw).
-/
namespace SM

inductive Op
  | assign (b : List (Nat × Int))
  | randomAssign (ids : List Nat) (choice : List Int)
  | remove (ids : List Nat)
  | join (ids : List Nat)
  | setChips (id : Nat) (b : Bool)
  | init (choice : Option Int)
  | rotate

def stepOp (st : State) : Op → State
  | .assign b => (assign st b).1
  | .randomAssign ids ch => (randomAssign st ids ch).1
  | .remove ids => (remove st ids).1
  | .join ids => (join st ids).1
  | .setChips id b => (setChips st id b).1
  | .init c => (init st c).1
  | .rotate => (rotate st).1

def runOps (st : State) (ops : List Op) : State := ops.foldl stepOp st

/-- the only recorded randomness that matters here: the first big-blind seat drawn by `InitPositions(true)` is an active seat -/
def OpLegal (st : State) : Op → Prop
  | .init c => legalInitChoice st c = true
  | _ => True

def OpsLegal : State → List Op → Prop
  | _, [] => True
  | st, o :: t => OpLegal st o ∧ OpsLegal (stepOp st o) t

/-- the button fields an operation may not touch -/
structure SameButtons (a b : State) : Prop where
  maxSeat : a.maxSeat = b.maxSeat
  rule : a.rule = b.rule
  isInit : a.isInit = b.isInit
  bb : a.bb = b.bb

theorem placeAll_buttons (st : State) (b : List (Nat × Int)) : SameButtons (placeAll st b) st := by
  induction b generalizing st with
  | nil => exact ⟨rfl, rfl, rfl, rfl⟩
  | cons e t ih =>
    obtain ⟨id, seat⟩ := e
    simp only [placeAll]
    have h1 := ih (place st id seat)
    have h2 := place_meta st id seat
    exact ⟨h1.maxSeat.trans h2.1, h1.rule.trans h2.2.2.2.2.2, h1.isInit.trans h2.2.2.2.2.1, h1.bb.trans h2.2.2.2.1⟩

theorem assign_buttons (st : State) (b : List (Nat × Int)) : SameButtons (assign st b).1 st := by
  unfold assign
  split
  · exact ⟨rfl, rfl, rfl, rfl⟩
  · simp only
    split
    · exact ⟨rfl, rfl, rfl, rfl⟩
    · split
      · exact ⟨rfl, rfl, rfl, rfl⟩
      · exact placeAll_buttons st b

theorem randomAssign_buttons (st : State) (ids : List Nat) (ch : List Int) : SameButtons (randomAssign st ids ch).1 st := by
  unfold randomAssign
  split
  · exact ⟨rfl, rfl, rfl, rfl⟩
  · split
    · exact ⟨rfl, rfl, rfl, rfl⟩
    · exact placeAll_buttons st _

theorem remove_buttons (st : State) (ids : List Nat) : SameButtons (remove st ids).1 st := by
  unfold remove; split <;> exact ⟨rfl, rfl, rfl, rfl⟩

theorem join_buttons (st : State) (ids : List Nat) : SameButtons (join st ids).1 st := by
  unfold join; split <;> exact ⟨rfl, rfl, rfl, rfl⟩

theorem setChips_buttons (st : State) (id : Nat) (b : Bool) : SameButtons (setChips st id b).1 st := by
  unfold setChips; split <;> exact ⟨rfl, rfl, rfl, rfl⟩

/-- once positions are set under the default rule, the big-blind seat is a seat of the table -/
def BBOk (st : State) : Prop := st.rule = .default → st.isInit = true → 0 ≤ st.bb ∧ st.bb < st.maxSeat

theorem BBOk.of_buttons {a b : State} (h : SameButtons a b) (w : BBOk b) : BBOk a := by
  intro hr hi
  rw [h.rule] at hr; rw [h.isInit] at hi
  have := w hr hi
  rw [h.bb, h.maxSeat]; exact this

theorem firstSeat_in_range (p : Int → Bool) (n : Nat) (h : firstSeat p n ≠ -1) :
    0 ≤ firstSeat p n ∧ firstSeat p n < n := by
  obtain ⟨i, _, hi, hr, _, _⟩ := scan_found (fun i => (i : Int)) p n 0 (firstSeat p n) rfl h
  rw [hr]; constructor <;> omega

theorem firstSeat_of_count (p : Nat → Bool) (q : Int → Bool) (n : Nat) (hpq : ∀ i, p i = q (Int.ofNat i))
    (h : 1 ≤ countUpTo p n) : firstSeat q n ≠ -1 := by
  obtain ⟨i, hin, hpi⟩ := count_ge_one p n h
  unfold firstSeat
  apply scan_ne_of_hit _ _ _ _ ?_ i (by omega) (by omega)
  · have := hpq i; rw [this] at hpi; exact hpi
  · intro k _ _; simp

/-- the first big-blind seat of `InitPositions`: the recorded draw, or the lowest active seat -/
def firstOf (st : State) (c : Option Int) : Int :=
  match c with | some c => c | none => firstSeat (activeAt st.seats) st.maxSeat

theorem legal_first (st : State) (c : Option Int) (hl : legalInitChoice st c = true)
    (hac : ¬ activeCount st.maxSeat st.seats < 2) : 0 ≤ firstOf st c ∧ firstOf st c < (st.maxSeat : Int) := by
  cases c with
  | some x =>
    unfold legalInitChoice inRange at hl
    simp only [Bool.and_eq_true, decide_eq_true_eq] at hl
    exact hl.1
  | none =>
    show 0 ≤ firstSeat (activeAt st.seats) st.maxSeat ∧ firstSeat (activeAt st.seats) st.maxSeat < (st.maxSeat : Int)
    apply firstSeat_in_range
    apply firstSeat_of_count (fun i => activeAt st.seats (Int.ofNat i)) _ _ (fun _ => rfl)
    unfold activeCount at hac; omega

theorem init_bbok (st : State) (c : Option Int) (hl : legalInitChoice st c = true) (w : BBOk st) : BBOk (init st c).1 := by
  unfold init
  by_cases h1 : st.rule = .other
  · simp only [h1, if_true]; exact w
  · simp only [h1, if_false]
    by_cases h2 : st.isInit = true
    · simp only [h2, if_true]; exact w
    · simp only [h2, Bool.false_eq_true, if_false]
      by_cases h3 : activeCount st.maxSeat st.seats < 2
      · simp only [h3, if_true]; exact w
      · simp only [h3, if_false]
        have hf := legal_first st c hl h3
        unfold firstOf at hf
        intro hr hi
        repeat' split at hi
        all_goals (first
          | (simp at hi; exact absurd hi (by simpa using h2))
          | skip)
        all_goals (repeat' split)
        all_goals (first | exact hf | (simp_all) | skip)

theorem rotateDefault_bbok (st : State) (w : 0 ≤ st.bb ∧ st.bb < st.maxSeat) :
    0 ≤ (rotateDefault st).1.bb ∧ (rotateDefault st).1.bb < (rotateDefault st).1.maxSeat := by
  rcases Nat.lt_or_ge (activeCount st.maxSeat (seats1 st)) 2 with hlt | hge
  · rw [rotate_refused st hlt]; exact w
  · obtain ⟨_, h0, hn, _, _, _⟩ := newBB_of_two_active st w.1 w.2 hge
    rcases Nat.eq_or_lt_of_le hge with heq | hgt
    · rw [rotate_hu st heq.symm]; exact ⟨h0, hn⟩
    · cases hu : isHU st
      · rw [rotate_ring st hgt hu]; exact ⟨h0, hn⟩
      · rw [rotate_ring_hu st hgt hu]; exact ⟨h0, hn⟩

theorem rotateDefault_meta (st : State) :
    (rotateDefault st).1.rule = st.rule ∧ (rotateDefault st).1.isInit = st.isInit ∧ (rotateDefault st).1.maxSeat = st.maxSeat := by
  rcases Nat.lt_or_ge (activeCount st.maxSeat (seats1 st)) 2 with hlt | hge
  · rw [rotate_refused st hlt]; exact ⟨rfl, rfl, rfl⟩
  · rcases Nat.eq_or_lt_of_le hge with heq | hgt
    · rw [rotate_hu st heq.symm]; exact ⟨rfl, rfl, rfl⟩
    · cases hu : isHU st
      · rw [rotate_ring st hgt hu]; exact ⟨rfl, rfl, rfl⟩
      · rw [rotate_ring_hu st hgt hu]; exact ⟨rfl, rfl, rfl⟩

theorem rotate_bbok (st : State) (w : BBOk st) : BBOk (rotate st).1 := by
  unfold rotate
  by_cases h1 : st.isInit = true
  · simp only [h1, Bool.not_true, Bool.false_eq_true, if_false]
    by_cases h2 : st.rule = .default
    · simp only [h2, if_true]
      intro _ _
      exact rotateDefault_bbok st (w h2 h1)
    · simp only [h2, if_false]
      by_cases h3 : st.rule = .shortDeck
      · simp only [h3, if_true]
        intro hr _
        unfold rotateShort at hr
        split at hr <;> (simp at hr; rw [h3] at hr; cases hr)
      · simp only [h3, if_false]; exact w
  · have : st.isInit = false := by simpa using h1
    simp only [this, Bool.not_false, if_true]; exact w

theorem init_rule (st : State) (c : Option Int) : (init st c).1.rule = st.rule := by
  simp only [init]
  repeat' split
  all_goals rfl

theorem rotate_rule (st : State) : (rotate st).1.rule = st.rule := by
  unfold rotate
  split
  · rfl
  · split
    · exact (rotateDefault_meta st).1
    · split
      · unfold rotateShort; split <;> rfl
      · rfl

theorem stepOp_rule (st : State) (o : Op) : (stepOp st o).rule = st.rule := by
  cases o with
  | assign b => exact (assign_buttons st b).rule
  | randomAssign ids ch => exact (randomAssign_buttons st ids ch).rule
  | remove ids => exact (remove_buttons st ids).rule
  | join ids => exact (join_buttons st ids).rule
  | setChips id b => exact (setChips_buttons st id b).rule
  | init c => exact init_rule st c
  | rotate => exact rotate_rule st

theorem runOps_rule (st : State) (ops : List Op) : (runOps st ops).rule = st.rule := by
  induction ops generalizing st with
  | nil => rfl
  | cons o t ih =>
    show (runOps (stepOp st o) t).rule = st.rule
    rw [ih, stepOp_rule]

theorem stepOp_bbok (st : State) (o : Op) (w : BBOk st) (hl : OpLegal st o) : BBOk (stepOp st o) := by
  cases o with
  | assign b => exact BBOk.of_buttons (assign_buttons st b) w
  | randomAssign ids ch => exact BBOk.of_buttons (randomAssign_buttons st ids ch) w
  | remove ids => exact BBOk.of_buttons (remove_buttons st ids) w
  | join ids => exact BBOk.of_buttons (join_buttons st ids) w
  | setChips id b => exact BBOk.of_buttons (setChips_buttons st id b) w
  | init c => exact init_bbok st c hl w
  | rotate => exact rotate_bbok st w

/-- **in every state reachable from `NewSeatManager`, once positions are set the big-blind seat is a seat of the table** -/
theorem runOps_bbok (st : State) (ops : List Op) (w : BBOk st) (hl : OpsLegal st ops) : BBOk (runOps st ops) := by
  induction ops generalizing st with
  | nil => exact w
  | cons o t ih => exact ih (stepOp st o) (stepOp_bbok st o w hl.1) hl.2

theorem new_bbok (n : Nat) (r : Rule) : BBOk (State.new n r) := by
  intro _ hi; simp [State.new] at hi

end SM
