import PokerVerif.Lemmas.TBGameBlind
/-!
# A closed or released table is never dealt another hand

`rc s = (released, gameCount)`.  `rc_*`: every operation but close / release / an open leaves both alone; an open is refused
on a released table by the gate's callback (`openGuard`) and by the retry loop (`retryOpen`, D32).  `run_closed`: once a
table is released (CloseTable releases it too), no history of any length opens a hand: the game count stays where it was.
-/
namespace TB

def rc (s : State) : Bool × Nat := (s.released, s.gameCount)

theorem rc_joinCore (s : State) (id : Nat) : rc (joinCore s id).1 = rc s := by
  unfold joinCore
  split
  · rfl
  · split
    · rfl
    · split
      · rfl
      · split
        · rfl
        · simp only
          split <;> rfl

theorem rc_foldl_joinCore (ps : List Player) (s : State) :
    rc (ps.foldl (fun acc p => (joinCore acc p.id).1) s) = rc s := by
  induction ps generalizing s with
  | nil => rfl
  | cons p t ih => exact (ih _).trans (rc_joinCore s p.id)

theorem rc_autoJoinComplete (s : State) : rc (autoJoinComplete s) = rc s := by
  unfold autoJoinComplete
  simp only
  split
  · exact rc_foldl_joinCore s.players s
  · exact rc_foldl_joinCore s.players s

theorem rc_join (s : State) (id : Nat) : rc (join s id).1 = rc s := by
  unfold join
  have hj := rc_joinCore s id
  generalize joinCore s id = r at hj
  obtain ⟨s1, r1, fresh⟩ := r
  simp only at hj ⊢
  cases fresh with
  | none => exact hj
  | some i =>
    simp only
    split
    · split
      · exact (rc_autoJoinComplete _).trans hj
      · exact hj
    · exact hj

theorem rc_foldl_join (ps : List Player) (s : State) :
    rc (ps.foldl (fun acc p => (join acc p.id).1) s) = rc s := by
  induction ps generalizing s with
  | nil => rfl
  | cons p t ih => exact (ih _).trans (rc_join s p.id)

theorem rc_redeem (s : State) (id : Nat) (c : Int) : rc (redeem s id c).1 = rc s := by
  unfold redeem
  split
  · rfl
  · simp only
    split <;> rfl

theorem rc_finish (s : State) (id : Nat) : rc (finish s id).1 = rc s := by
  unfold finish
  repeat (first | split | rfl)

theorem rc_batchAdd (s : State) (js : List Join) (ch : List Int) : rc (batchAdd s js ch).1 = rc s := by
  unfold batchAdd
  split
  · rfl
  · simp only
    split
    · rfl
    · split
      · rfl
      · split <;> rfl

theorem rc_batchRemove (s : State) (ids : List Nat) : rc (batchRemove s ids).1 = rc s := by
  unfold batchRemove
  simp only
  split
  · rfl
  · split
    · rfl
    · split <;> rfl

theorem rc_reserve (s : State) (j : Join) (ch : List Int) : rc (reserve s j ch).1 = rc s := by
  unfold reserve
  split
  · split
    · rfl
    · exact rc_batchAdd s [j] ch
  · simp only
    split <;> rfl

theorem rc_update (s : State) (js : List Join) (lv : List Nat) (ch : List Int) :
    rc (update s js lv ch).1 = rc s := by
  unfold update
  simp only
  by_cases he : lv.isEmpty = true
  · simp only [he, if_true]
    split
    · rfl
    · exact rc_batchAdd s js ch
  · simp only [he, Bool.false_eq_true, if_false]
    split
    · split
      · exact rc_batchRemove s lv
      · exact (rc_batchAdd _ js ch).trans (rc_batchRemove s lv)
    · exact rc_batchRemove s lv

theorem rc_settle (s : State) (r : List (Nat × Int)) : rc (settle s r).1 = rc s := by
  unfold settle
  simp only
  split
  · rfl
  · split <;> rfl

theorem rc_nextMove (s2 : State) (e : Bool) : rc (nextMove s2 e).1 = rc s2 := by
  unfold nextMove
  repeat (first | split | rfl)

theorem rc_continueGame (s : State) (e : Bool) : rc (continueGame s e).1 = rc s := by
  rcases continueGame_cases s e with ⟨_, h⟩ | ⟨sm, ps, _, h⟩
  · rw [h]; rfl
  · rw [h, rc_nextMove]; rfl

theorem rc_gateFire_released (s : State) (ch : Option Int) (ok : Bool) (h : s.released = true) :
    rc (gateFire s ch ok).1 = rc s := by
  have hg : openGuard (gateReady s) = .nothing := by
    unfold openGuard gateReady
    simp [h]
  unfold gateFire
  simp only [hg]
  rfl

theorem rc_retryOpen_released (s : State) (ch : Option Int) (ok : Bool) (h : s.released = true) :
    rc (retryOpen s ch ok).1 = rc s := by
  unfold retryOpen
  simp [h]

/-- on a released table no event releases it less, and none raises the game count -/
theorem step_closed (s : State) (e : Event) (h : s.released = true) :
    (step s e).released = true ∧ (step s e).gameCount = s.gameCount := by
  have key : ∀ t : State, rc t = rc s → t.released = true ∧ t.gameCount = s.gameCount := by
    intro t ht
    have := Prod.mk.inj ht
    exact ⟨by rw [this.1]; exact h, this.2⟩
  cases e with
  | reserve j ch => exact key _ (rc_reserve s j ch)
  | join id => exact key _ (rc_join s id)
  | redeem id c => exact key _ (rc_redeem s id c)
  | leave ids => exact key _ (rc_batchRemove s ids)
  | update js lv ch => exact key _ (rc_update s js lv ch)
  | blind b => exact key _ rfl
  | pause => exact key _ rfl
  | close => exact ⟨rfl, rfl⟩
  | release => exact ⟨rfl, rfl⟩
  | start => exact key _ rfl
  | setup gc ps => exact key _ rfl
  | finish id => exact key _ (rc_finish s id)
  | autojoin => exact key _ (rc_foldl_join s.players s)
  | settle r => exact key _ (rc_settle s r)
  | «continue» ex => exact key _ (rc_continueGame s ex)
  | contReset => exact key _ (rc_continueGame s true)
  | tick ex => exact key _ (rc_nextMove s ex)
  | fire ch ok => exact key _ (rc_gateFire_released s ch ok h)
  | retry ch ok => exact key _ (rc_retryOpen_released s ch ok h)

theorem run_closed (s : State) (evs : List Event) (h : s.released = true) :
    (run s evs).released = true ∧ (run s evs).gameCount = s.gameCount := by
  induction evs generalizing s with
  | nil => exact ⟨h, rfl⟩
  | cons e t ih =>
    obtain ⟨h1, h2⟩ := step_closed s e h
    obtain ⟨h3, h4⟩ := ih (step s e) h1
    exact ⟨h3, h4.trans h2⟩

end TB
