import PokerVerif.Lemmas.TBClosed
/-!
# The table's status follows its life cycle

`lc s = (status, hand present)`.  `lc_*`: membership calls, top-ups, blind updates, the gate's bookkeeping and the
auto-join completion leave both alone.  The status is moved by six things only: the gate's callback / a turn of the retry
loop (`fire`, `retry`: to `opened`, then `playing` once the back end has the hand), the hand's end (`settle`), the continue
step (`continue`, or `contReset` + `tick`: to `standby`, then possibly `pausing`), and the two external requests
`pause` / `close`.  `LCInv`: a table whose status is `playing` or `settled` holds a hand.  `step_lifeCycle`: for every
event other than `pause` / `close` that comes when the engine produces it (`Timely`), the status after it is the status
before it or a successor in the cycle; `run_lifeCycle`: along every such history.
-/
namespace TB

def lc (s : State) : Status × Bool := (s.status, s.hasGame)

theorem lc_joinCore (s : State) (id : Nat) : lc (joinCore s id).1 = lc s := by
  unfold joinCore
  split
  · rfl
  · split
    · rfl
    · split
      · rfl
      · split
        · rfl
        · simp only
          split <;> rfl

theorem lc_foldl_joinCore (ps : List Player) (s : State) :
    lc (ps.foldl (fun acc p => (joinCore acc p.id).1) s) = lc s := by
  induction ps generalizing s with
  | nil => rfl
  | cons p t ih => exact (ih _).trans (lc_joinCore s p.id)

theorem lc_autoJoinComplete (s : State) : lc (autoJoinComplete s) = lc s := by
  unfold autoJoinComplete
  simp only
  split
  · exact lc_foldl_joinCore s.players s
  · exact lc_foldl_joinCore s.players s

theorem lc_join (s : State) (id : Nat) : lc (join s id).1 = lc s := by
  unfold join
  have hj := lc_joinCore s id
  generalize joinCore s id = r at hj
  obtain ⟨s1, r1, fresh⟩ := r
  simp only at hj ⊢
  cases fresh with
  | none => exact hj
  | some i =>
    simp only
    split
    · split
      · exact (lc_autoJoinComplete _).trans hj
      · exact hj
    · exact hj

theorem lc_foldl_join (ps : List Player) (s : State) :
    lc (ps.foldl (fun acc p => (join acc p.id).1) s) = lc s := by
  induction ps generalizing s with
  | nil => rfl
  | cons p t ih => exact (ih _).trans (lc_join s p.id)

theorem lc_redeem (s : State) (id : Nat) (c : Int) : lc (redeem s id c).1 = lc s := by
  unfold redeem
  split
  · rfl
  · simp only
    split <;> rfl

theorem lc_finish (s : State) (id : Nat) : lc (finish s id).1 = lc s := by
  unfold finish
  repeat (first | split | rfl)

theorem lc_batchAdd (s : State) (js : List Join) (ch : List Int) : lc (batchAdd s js ch).1 = lc s := by
  unfold batchAdd
  split
  · rfl
  · simp only
    split
    · rfl
    · split
      · rfl
      · split <;> rfl

theorem lc_batchRemove (s : State) (ids : List Nat) : lc (batchRemove s ids).1 = lc s := by
  unfold batchRemove
  simp only
  split
  · rfl
  · split
    · rfl
    · split <;> rfl

theorem lc_reserve (s : State) (j : Join) (ch : List Int) : lc (reserve s j ch).1 = lc s := by
  unfold reserve
  split
  · split
    · rfl
    · exact lc_batchAdd s [j] ch
  · simp only
    split <;> rfl

theorem lc_update (s : State) (js : List Join) (lv : List Nat) (ch : List Int) :
    lc (update s js lv ch).1 = lc s := by
  unfold update
  simp only
  by_cases he : lv.isEmpty = true
  · simp only [he, if_true]
    split
    · rfl
    · exact lc_batchAdd s js ch
  · simp only [he, Bool.false_eq_true, if_false]
    split
    · split
      · exact lc_batchRemove s lv
      · exact (lc_batchAdd _ js ch).trans (lc_batchRemove s lv)
    · exact lc_batchRemove s lv

theorem lc_settle (s : State) (r : List (Nat × Int)) :
    (settle s r).1.status = .settled ∧ (settle s r).1.hasGame = s.hasGame := by
  unfold settle
  simp only
  split
  · exact ⟨rfl, rfl⟩
  · split <;> exact ⟨rfl, rfl⟩

/-- the delayed handler leaves the status alone or pauses the table -/
theorem lc_nextMove (s2 : State) (e : Bool) :
    (nextMove s2 e).1.hasGame = s2.hasGame ∧
    ((nextMove s2 e).1.status = s2.status ∨ (nextMove s2 e).1.status = .pausing) := by
  unfold nextMove
  split
  · exact ⟨rfl, Or.inl rfl⟩
  · split
    · exact ⟨rfl, Or.inl rfl⟩
    · split
      · exact ⟨rfl, Or.inl rfl⟩
      · split
        · exact ⟨rfl, Or.inr rfl⟩
        · split
          · exact ⟨rfl, Or.inl rfl⟩
          · exact ⟨rfl, Or.inl rfl⟩

/-- the continue step leaves no hand behind and the table in `standby` or `pausing` -/
theorem lc_continueGame (s : State) (e : Bool) :
    (continueGame s e).1.hasGame = false ∧
    ((continueGame s e).1.status = .standby ∨ (continueGame s e).1.status = .pausing) := by
  rcases continueGame_cases s e with ⟨_, h⟩ | ⟨sm, ps, _, h⟩
  · rw [h]; exact ⟨rfl, Or.inl rfl⟩
  · rw [h]
    have := lc_nextMove { resetHand s with sm := sm, players := ps } e
    exact ⟨this.1.trans rfl, this.2.imp (fun h => h.trans rfl) id⟩

theorem lc_openTable (s : State) (sm : SM.State) :
    (openTable s sm).1.hasGame = s.hasGame ∧
    ((openTable s sm).1.status = s.status ∨ (openTable s sm).1.status = .opened) := by
  unfold openTable
  split
  · exact ⟨rfl, Or.inl rfl⟩
  · simp only
    split
    · exact ⟨rfl, Or.inl rfl⟩
    · split
      · exact ⟨rfl, Or.inl rfl⟩
      · exact ⟨rfl, Or.inr rfl⟩

theorem lc_startHand (s2 : State) (ok : Bool) :
    lc (startHand s2 ok).1 = lc s2 ∨ ((startHand s2 ok).1.status = .playing ∧ (startHand s2 ok).1.hasGame = true) := by
  unfold startHand
  split
  · exact Or.inl rfl
  · split
    · exact Or.inl rfl
    · exact Or.inr ⟨rfl, rfl⟩

/-- `openGame` + `startGame`: the status stays, becomes `opened` (the back end refused the hand, or the engine died), or
`playing` with a hand -/
theorem lc_openCore (s : State) (ch : Option Int) (ok : Bool) :
    ((openCore s ch ok).1.hasGame = s.hasGame ∧
      ((openCore s ch ok).1.status = s.status ∨ (openCore s ch ok).1.status = .opened)) ∨
    ((openCore s ch ok).1.status = .playing ∧ (openCore s ch ok).1.hasGame = true) := by
  unfold openCore
  simp only
  generalize (if !s.sm.isInit then SM.init s.sm ch else SM.rotate s.sm) = r
  obtain ⟨sm', res⟩ := r
  cases res with
  | err e => exact Or.inl ⟨rfl, Or.inl rfl⟩
  | ok =>
    simp only
    have hot := lc_openTable s sm'
    generalize openTable s sm' = t at hot ⊢
    obtain ⟨t1, t2⟩ := t
    cases t2 with
    | opened =>
      simp only at hot ⊢
      rcases lc_startHand t1 ok with h | h
      · left
        have h1 : (startHand t1 ok).1.status = t1.status := congrArg Prod.fst h
        have h2 : (startHand t1 ok).1.hasGame = t1.hasGame := congrArg Prod.snd h
        exact ⟨h2.trans hot.1, by rw [h1]; exact hot.2⟩
      · exact Or.inr h
    | refused => exact Or.inl hot
    | nothing => exact Or.inl hot
    | startFailed => exact Or.inl hot
    | panic => exact Or.inl hot

-- ---------------------------------------------------------------- the cycle

/-- a table whose status says a hand is being played or has just been settled holds that hand -/
def LCInv (s : State) : Prop := (s.status = .playing ∨ s.status = .settled) → s.hasGame = true

/-- "left to itself": no external pause / close; the hand's end, the continue step and its delayed handler come when the
engine produces them — the back end closes a hand that is being played, the continue step follows the settlement, the
handler finds the table where the continue step left it -/
def Timely (s : State) : Event → Prop
  | .pause => False
  | .close => False
  | .settle _ => s.status = .playing
  | .continue _ => s.status = .settled
  | .contReset => s.status = .settled
  | .tick _ => s.status = .standby ∨ s.status = .pausing
  | _ => True

instance (s : State) (e : Event) : Decidable (Timely s e) := by
  cases e <;> (unfold Timely; exact inferInstance)

def AllTimely : State → List Event → Prop
  | _, [] => True
  | s, e :: t => Timely s e ∧ AllTimely (step s e) t

instance allTimelyDec : (s : State) → (evs : List Event) → Decidable (AllTimely s evs)
  | _, [] => isTrue trivial
  | s, e :: t => by
    unfold AllTimely
    exact @instDecidableAnd _ _ _ (allTimelyDec (step s e) t)

instance (s : State) : Decidable (LCInv s) := by unfold LCInv; exact inferInstance

theorem lcNext_refl (a : Status) : lcNext a a = true := by cases a <;> rfl

theorem lcNext_of_eq {a b : Status} (h : b = a) : lcNext a b = true := by subst h; exact lcNext_refl _

theorem LCInv.of_lc {a b : State} (h : lc b = lc a) (w : LCInv a) : LCInv b := by
  have h1 : b.status = a.status := congrArg Prod.fst h
  have h2 : b.hasGame = a.hasGame := congrArg Prod.snd h
  intro hb; rw [h2]; exact w (by rw [← h1]; exact hb)

theorem gateReady_lc (s : State) : lc (gateReady s) = lc s := rfl

/-- what `openCore` does to status and invariant when started from a state that may open -/
theorem openCore_lifeCycle (s : State) (ch : Option Int) (ok : Bool) (hi : LCInv s)
    (hb : (beforeHand s.status || s.status == .opened) = true) :
    lcNext s.status (openCore s ch ok).1.status = true ∧ LCInv (openCore s ch ok).1 := by
  rcases lc_openCore s ch ok with ⟨hg, hs | hs⟩ | ⟨hs, hg⟩
  · exact ⟨lcNext_of_eq hs, fun hp => by rw [hg]; exact hi (by rw [← hs]; exact hp)⟩
  · refine ⟨by rw [hs]; unfold lcNext; simp [hb], fun hp => ?_⟩
    rw [hs] at hp; rcases hp with hp | hp <;> cases hp
  · exact ⟨by rw [hs]; unfold lcNext; simp [hb], fun _ => hg⟩

/-- **one event**: the status after it is the status before it or a successor in the life cycle, and the invariant holds on -/
theorem step_lifeCycle (s : State) (e : Event) (hi : LCInv s) (ht : Timely s e) :
    lcNext s.status (step s e).status = true ∧ LCInv (step s e) := by
  have quiet : ∀ t : State, lc t = lc s → lcNext s.status t.status = true ∧ LCInv t :=
    fun t h => ⟨lcNext_of_eq (congrArg Prod.fst h), LCInv.of_lc h hi⟩
  cases e with
  | reserve j ch => exact quiet _ (lc_reserve s j ch)
  | join id => exact quiet _ (lc_join s id)
  | redeem id c => exact quiet _ (lc_redeem s id c)
  | leave ids => exact quiet _ (lc_batchRemove s ids)
  | update js lv ch => exact quiet _ (lc_update s js lv ch)
  | blind b => exact quiet _ rfl
  | pause => exact absurd ht id
  | close => exact absurd ht id
  | release => exact quiet _ rfl
  | start => exact quiet _ rfl
  | setup gc ps => exact quiet _ rfl
  | finish id => exact quiet _ (lc_finish s id)
  | autojoin => exact quiet _ (lc_foldl_join s.players s)
  | settle r =>
    have h := lc_settle s r
    have hp : s.status = .playing := ht
    refine ⟨?_, fun _ => ?_⟩
    · show lcNext s.status (settle s r).1.status = true
      rw [h.1, hp]; rfl
    · show (settle s r).1.hasGame = true
      rw [h.2]; exact hi (Or.inl hp)
  | «continue» ex =>
    have h := lc_continueGame s ex
    have hp : s.status = .settled := ht
    refine ⟨?_, fun hq => ?_⟩
    · show lcNext s.status (continueGame s ex).1.status = true
      rcases h.2 with h2 | h2 <;> (rw [h2, hp]; rfl)
    · have hq' : (continueGame s ex).1.status = .playing ∨ (continueGame s ex).1.status = .settled := hq
      rcases h.2 with h2 | h2 <;> (rw [h2] at hq'; rcases hq' with c | c <;> cases c)
  | contReset =>
    have h := lc_continueGame s true
    have hp : s.status = .settled := ht
    refine ⟨?_, fun hq => ?_⟩
    · show lcNext s.status (continueGame s true).1.status = true
      rcases h.2 with h2 | h2 <;> (rw [h2, hp]; rfl)
    · have hq' : (continueGame s true).1.status = .playing ∨ (continueGame s true).1.status = .settled := hq
      rcases h.2 with h2 | h2 <;> (rw [h2] at hq'; rcases hq' with c | c <;> cases c)
  | tick ex =>
    have h := lc_nextMove s ex
    have hp : s.status = .standby ∨ s.status = .pausing := ht
    refine ⟨?_, fun hq => ?_⟩
    · show lcNext s.status (nextMove s ex).1.status = true
      rcases h.2 with h2 | h2
      · exact lcNext_of_eq h2
      · rw [h2]; rcases hp with hp | hp <;> (rw [hp]; rfl)
    · have hq' : (nextMove s ex).1.status = .playing ∨ (nextMove s ex).1.status = .settled := hq
      show (nextMove s ex).1.hasGame = true
      rw [h.1]
      rcases h.2 with h2 | h2
      · exact hi (by rw [← h2]; exact hq')
      · rw [h2] at hq'; rcases hq' with c | c <;> cases c
  | fire ch ok =>
    show lcNext s.status (gateFire s ch ok).1.status = true ∧ LCInv (gateFire s ch ok).1
    unfold gateFire
    split
    · exact quiet _ (gateReady_lc s)
    · exact quiet _ (gateReady_lc s)
    · rename_i hg
      have hgo := openGuard_go _ hg
      have hi' : LCInv (gateReady s) := LCInv.of_lc (gateReady_lc s) hi
      have hb : (beforeHand (gateReady s).status || (gateReady s).status == .opened) = true := by
        have hng : (gateReady s).hasGame = false := hgo.2.2.2.1
        have hnc : (gateReady s).status ≠ .closed := hgo.2.2.1
        have hnp : ¬ ((gateReady s).status = .playing ∨ (gateReady s).status = .settled) := by
          intro hp; have := hi' hp; rw [hng] at this; cases this
        revert hnc hnp
        cases (gateReady s).status <;> simp [beforeHand]
      exact openCore_lifeCycle (gateReady s) ch ok hi' hb
  | retry ch ok =>
    show lcNext s.status (retryOpen s ch ok).1.status = true ∧ LCInv (retryOpen s ch ok).1
    rcases retryOpen_cases s ch ok with h | h | ⟨_, hnc, hnh, _, _, h⟩
    · rw [h]; exact quiet _ rfl
    · rw [h]; exact quiet _ rfl
    · rw [h]
      have hb : (beforeHand s.status || s.status == .opened) = true := by
        revert hnc hnh
        cases s.status <;> simp [beforeHand, inHandStatus]
      exact openCore_lifeCycle s ch ok hi hb

/-- **every history**: the invariant holds at the end, and the statuses seen along the way form a chain of the cycle -/
theorem run_lifeCycle (s : State) (evs : List Event) (hi : LCInv s) (ht : AllTimely s evs) :
    LCInv (run s evs) ∧
    ∀ pre e post, evs = pre ++ e :: post → lcNext (run s pre).status (run s (pre ++ [e])).status = true := by
  induction evs generalizing s with
  | nil => exact ⟨hi, fun pre e post h => by cases pre <;> cases h⟩
  | cons a t ih =>
    have hs := step_lifeCycle s a hi ht.1
    have := ih (step s a) hs.2 ht.2
    refine ⟨this.1, fun pre e post h => ?_⟩
    cases pre with
    | nil =>
      simp only [List.nil_append, List.cons.injEq] at h
      obtain ⟨rfl, _⟩ := h
      exact hs.1
    | cons p pre' =>
      simp only [List.cons_append, List.cons.injEq] at h
      obtain ⟨rfl, h⟩ := h
      exact this.2 pre' e post h

theorem create_lcInv (cfg : Meta) (b : Blind) : LCInv (create cfg b) := by
  intro h
  unfold create at h
  simp only at h
  split at h <;> (rcases h with h | h <;> cases h)

end TB
