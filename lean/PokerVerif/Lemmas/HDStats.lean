import PokerVerif.Lemmas.HDBasic
/-! Helper lemmas for C14: the statistics invariants through every step of the hand-level model. -/
namespace HD

/-- per-player facts that relate the statistics to what was accepted -/
def isWager (k : String) : Bool := wagerKinds.contains k

theorem bump1_counters (kind : String) (r : Bool) (rd : String) (s : Stats) :
    (bump1 kind r rd s).actionTimes = s.actionTimes + (if isWager kind then 1 else 0) ∧
    (bump1 kind r rd s).callTimes = s.callTimes + (if kind == "call" then 1 else 0) ∧
    (bump1 kind r rd s).checkTimes = s.checkTimes + (if kind == "check" then 1 else 0) ∧
    (bump1 kind r rd s).raiseTimes ≤ s.raiseTimes + (if isWager kind then 1 else 0) ∧
    s.raiseTimes ≤ (bump1 kind r rd s).raiseTimes ∧
    ((bump1 kind r rd s).isFold = (s.isFold || kind == "fold")) := by
  unfold bump1 isWager wagerKinds
  by_cases h1 : kind = "bet"
  · subst h1; simp; split <;> omega
  · by_cases h2 : kind = "raise"
    · subst h2; simp
    · by_cases h3 : kind = "call"
      · subst h3; simp
      · by_cases h4 : kind = "allin"
        · subst h4; simp; split <;> simp
        · by_cases h5 : kind = "check"
          · subst h5; simp
          · by_cases h6 : kind = "fold"
            · subst h6; simp
            · simp [h1, h2, h3, h4, h5, h6]
end HD

namespace HD
/-- counters and fold flag: the part of the statistics that C14 relates to the accepted actions -/
def ctr (s : Stats) : Nat × Nat × Nat × Nat × Bool := (s.actionTimes, s.raiseTimes, s.callTimes, s.checkTimes, s.isFold)

/-- how many accepted actions of player `id` satisfy `f` -/
def cnt (log : List (Nat × String × String)) (id : Nat) (f : String → Bool) : Nat :=
  (log.filter (fun l => l.1 == id && f l.2.1)).length

theorem cnt_append (log : List (Nat × String × String)) (id pid : Nat) (k rd : String) (f : String → Bool) :
    cnt (log ++ [(id, k, rd)]) pid f = cnt log pid f + (if id == pid && f k then 1 else 0) := by
  unfold cnt
  rw [List.filter_append, List.length_append]
  by_cases h : (id == pid && f k) = true
  · simp [h]
  · simp [h]

theorem refreshThreeBet_ctr (ps : List HPlayer) (id : Nat) :
    (refreshThreeBet ps id).map (fun p => (p.id, p.seat, ctr p.stats)) = ps.map (fun p => (p.id, p.seat, ctr p.stats)) := by
  unfold refreshThreeBet
  simp only
  split <;> split <;> simp [List.map_map, Function.comp_def, ctr]

theorem updStats_view (ps : List HPlayer) (id : Nat) (f : Stats → Stats) :
    (updStats ps id f).map (fun p => (p.id, p.seat, ctr p.stats)) =
      ps.map (fun p => (p.id, p.seat, ctr (if p.id == id then f p.stats else p.stats))) := by
  unfold updStats
  rw [List.map_map]
  apply List.map_congr_left
  intro p _
  simp only [Function.comp]
  split <;> rfl

theorem bumpStats_view (ps : List HPlayer) (id : Nat) (k : String) (r : Bool) (rd : String) :
    (bumpStats ps id k r rd).map (fun p => (p.id, p.seat, ctr p.stats)) =
      ps.map (fun p => (p.id, p.seat, ctr (if p.id == id then bump1 k r rd p.stats else p.stats))) := by
  unfold bumpStats
  simp only
  split
  · rw [refreshThreeBet_ctr, updStats_view]
  · rw [updStats_view]

/-- the counters describe the accepted actions -/
def CtrOK (log : List (Nat × String × String)) (id : Nat) (c : Nat × Nat × Nat × Nat × Bool) : Prop :=
  c.1 = cnt log id isWager ∧ c.2.2.1 = cnt log id (· == "call") ∧ c.2.2.2.1 = cnt log id (· == "check") ∧
  c.2.1 ≤ c.1 ∧ (c.2.2.2.2 = true ↔ 0 < cnt log id (· == "fold"))

def Inv14 (s : State) : Prop := ∀ e ∈ s.players.map (fun p => (p.id, p.seat, ctr p.stats)), CtrOK s.log e.1 e.2.2

theorem ctrOK_bump (log : List (Nat × String × String)) (pid id : Nat) (k rd : String) (r : Bool) (st : Stats)
    (h : CtrOK log pid (ctr st)) :
    CtrOK (log ++ [(id, k, rd)]) pid (ctr (if pid == id then bump1 k r rd st else st)) := by
  obtain ⟨h1, h2, h3, h4, h5⟩ := h
  unfold CtrOK
  simp only [cnt_append]
  by_cases hid : pid = id
  · subst hid
    obtain ⟨b1, b2, b3, b4, b5, b6⟩ := bump1_counters k r rd st
    simp only [beq_self_eq_true, if_true, Bool.true_and, ctr] at *
    refine ⟨by rw [b1, h1], by rw [b2, h2], by rw [b3, h3], by omega, ?_⟩
    rw [b6]
    by_cases hf : (k == "fold") = true
    · simp [hf]
    · simp only [hf, Bool.or_false, Bool.false_eq_true, if_false, Nat.add_zero]; exact h5
  · have hne : (pid == id) = false := by simpa using hid
    have hne' : (id == pid) = false := by simp; omega
    simp only [hne, hne', Bool.false_and, Bool.false_eq_true, if_false, Nat.add_zero, ctr] at *
    exact ⟨h1, h2, h3, h4, h5⟩

theorem inv14_act (s : State) (id : Nat) (kind : String) (arg : Int) (o : Oracle) (h : Inv14 s) :
    Inv14 (act s id kind arg o).1 := by
  rcases act_cases s id kind arg o with ⟨hs, _⟩ | ⟨gi, v, isR, emit, _, _, _, _, _, h6, _⟩
  · rw [hs]; exact h
  · rw [h6]
    unfold Inv14 accept
    simp only
    rw [bumpStats_view]
    intro e he
    simp only [List.mem_map] at he
    obtain ⟨p, hp, rfl⟩ := he
    have := h (p.id, p.seat, ctr p.stats) (List.mem_map.mpr ⟨p, hp, rfl⟩)
    exact ctrOK_bump s.log p.id id kind v.round isR p.stats this
end HD

namespace HD
theorem chances_view (s : State) (v : View) :
    (chances s v).map (fun p => (p.id, p.seat, ctr p.stats)) = s.players.map (fun p => (p.id, p.seat, ctr p.stats)) := by
  unfold chances
  split
  · rfl
  · simp only
    split
    · rfl
    · split
      · rfl
      · rw [updStats_view]
        apply List.map_congr_left
        intro p _
        split <;> rfl

theorem deliver_log (s : State) (v : View) (pl : Bool) (now : Int) : (deliver s v pl now).log = s.log := rfl

theorem deliver_players_view (s : State) (v : View) (pl : Bool) (now : Int) :
    (deliver s v pl now).players.map (fun p => (p.id, p.seat, ctr p.stats)) = s.players.map (fun p => (p.id, p.seat, ctr p.stats)) := by
  unfold deliver
  cases pl
  · rfl
  · simp only [if_true]; rw [chances_view]

theorem inv14_deliver (s : State) (v : View) (pl : Bool) (now : Int) (h : Inv14 s) : Inv14 (deliver s v pl now) := by
  unfold Inv14 at *
  rw [deliver_players_view, deliver_log]
  exact h

theorem inv14_misc (s : State) (h : Inv14 s) :
    (∀ v, Inv14 (afterEmit s v)) ∧ (∀ d, Inv14 (extend s d).1) ∧ Inv14 (reset s) := by
  refine ⟨?_, ?_, ?_⟩
  · intro v; unfold afterEmit; split <;> exact h
  · intro d; exact h
  · unfold Inv14 reset
    simp only [List.map_map]
    intro e he
    simp only [List.mem_map, Function.comp] at he
    obtain ⟨p, _, rfl⟩ := he
    unfold CtrOK cnt ctr
    simp
end HD

namespace HD
/-- the "had the chance" flags that can only be raised by `validateGameStatisticGameState`, and their "did" flags -/
def flagsOff (st : Stats) : Prop :=
  st.vpipC = false ∧ st.vpip = false ∧ st.pfrC = false ∧ st.pfr = false ∧ st.atsC = false ∧ st.ats = false ∧
  st.ft3bC = false ∧ st.ft3b = false ∧ st.crC = false ∧ st.cr = false ∧ st.cbC = false ∧ st.cb = false ∧
  st.ftcbC = false ∧ st.ftcb = false

/-- every "did X" flag implies its "had the chance" flag -/
def didImpliesChance (st : Stats) : Prop :=
  (st.vpip = true → st.vpipC = true) ∧ (st.pfr = true → st.pfrC = true) ∧ (st.ats = true → st.atsC = true) ∧
  (st.b3 = true → st.b3C = true) ∧ (st.ft3b = true → st.ft3bC = true) ∧ (st.cr = true → st.crC = true) ∧
  (st.cb = true → st.cbC = true) ∧ (st.ftcb = true → st.ftcbC = true)

theorem flagsOff_did (st : Stats) (h : flagsOff st) (hb : st.b3 = true → st.b3C = true) : didImpliesChance st := by
  obtain ⟨_, h2, _, h4, _, h6, _, h8, _, h10, _, h12, _, h14⟩ := h
  refine ⟨?_, ?_, ?_, hb, ?_, ?_, ?_, ?_⟩ <;> intro hh <;> simp_all

/-- the event symbol the statistics code waits for never reaches the table (contract StableEvent) -/
def Stable (v : View) : Prop := (v.event == statEvent) = false

theorem bump1_flagsOff (k : String) (r : Bool) (rd : String) (st : Stats) (h : flagsOff st) : flagsOff (bump1 k r rd st) := by
  obtain ⟨h1, h2, h3, h4, h5, h6, h7, h8, h9, h10, h11, h12, h13, h14⟩ := h
  unfold bump1 flagsOff
  repeat' split
  all_goals simp_all

theorem bump1_b3 (k : String) (r : Bool) (rd : String) (st : Stats) :
    (bump1 k r rd st).b3 = st.b3 ∧ (bump1 k r rd st).b3C = st.b3C := by
  unfold bump1
  repeat' split
  all_goals exact ⟨rfl, rfl⟩
end HD

namespace HD
def B3OK (ps : List HPlayer) : Prop :=
  (∀ p ∈ ps, p.stats.b3 = true → p.stats.b3C = true) ∧
  (∀ p q, p ∈ ps → q ∈ ps → p.stats.b3 = true → q.stats.b3 = true → p.id = q.id)

theorem statsOf_eq (ps : List HPlayer) (hnd : (ps.map (·.id)).Nodup) (p : HPlayer) (hp : p ∈ ps) :
    statsOf ps p.id = p.stats := by
  unfold statsOf
  induction ps with
  | nil => simp at hp
  | cons h t ih =>
    simp only [List.map_cons, List.nodup_cons] at hnd
    simp only [List.find?_cons]
    rcases List.mem_cons.mp hp with h1 | h1
    · subst h1; simp
    · have hne : (h.id == p.id) = false := by
        have : h.id ≠ p.id := by
          intro he
          exact hnd.1 (List.mem_map.mpr ⟨p, h1, he.symm⟩)
        simpa using this
      simp only [hne]
      exact ih hnd.2 h1

theorem refreshThreeBet_ok (ps : List HPlayer) (id : Nat) (hnd : (ps.map (·.id)).Nodup) (h : B3OK ps) :
    B3OK (refreshThreeBet ps id) ∧ (refreshThreeBet ps id).map (·.id) = ps.map (·.id) ∧
    (∀ p' ∈ refreshThreeBet ps id, ∃ p ∈ ps, p'.id = p.id ∧ { p'.stats with b3 := p.stats.b3 } = p.stats) := by
  unfold refreshThreeBet
  simp only
  -- the list after the optional clearing pass
  have hclear : ∀ (ps1 : List HPlayer), (ps1 = ps ∨ ps1 = ps.map (fun p => { p with stats := { p.stats with b3 := false } })) →
      B3OK ps1 ∧ ps1.map (·.id) = ps.map (·.id) ∧ (∀ p' ∈ ps1, ∃ p ∈ ps, p'.id = p.id ∧ { p'.stats with b3 := p.stats.b3 } = p.stats) := by
    intro ps1 h1
    rcases h1 with rfl | rfl
    · exact ⟨h, rfl, fun p' hp' => ⟨p', hp', rfl, rfl⟩⟩
    · refine ⟨⟨?_, ?_⟩, by simp [List.map_map, Function.comp_def], ?_⟩
      · intro p hp hb; simp only [List.mem_map] at hp; obtain ⟨q, _, rfl⟩ := hp; simp at hb
      · intro p q hp _ hb; simp only [List.mem_map] at hp; obtain ⟨q', _, rfl⟩ := hp; simp at hb
      · intro p' hp'; simp only [List.mem_map] at hp'; obtain ⟨q, hq, rfl⟩ := hp'; exact ⟨q, hq, rfl, rfl⟩
  have key : ∀ (ps1 : List HPlayer), (ps1 = ps ∨ ps1 = ps.map (fun p => { p with stats := { p.stats with b3 := false } })) →
      let r := if (statsOf ps1 id).b3C = true then ps1.map (fun p => { p with stats := { p.stats with b3 := p.id == id } }) else ps1
      B3OK r ∧ r.map (·.id) = ps.map (·.id) ∧ (∀ p' ∈ r, ∃ p ∈ ps, p'.id = p.id ∧ { p'.stats with b3 := p.stats.b3 } = p.stats) := by
    intro ps1 h1
    obtain ⟨hb1, hid1, hrel1⟩ := hclear ps1 h1
    simp only
    split
    · rename_i hc
      have hnd1 : (ps1.map (·.id)).Nodup := by rw [hid1]; exact hnd
      refine ⟨⟨?_, ?_⟩, by simp [List.map_map, Function.comp_def, hid1], ?_⟩
      · intro p hp hb
        simp only [List.mem_map] at hp
        obtain ⟨q, hq, rfl⟩ := hp
        simp only at hb ⊢
        have hqid : q.id = id := by simpa using hb
        have := statsOf_eq ps1 hnd1 q hq
        rw [hqid] at this
        rw [this] at hc
        exact hc
      · intro p q hp hq hb1' hb2'
        simp only [List.mem_map] at hp hq
        obtain ⟨p0, _, rfl⟩ := hp
        obtain ⟨q0, _, rfl⟩ := hq
        simp only at hb1' hb2' ⊢
        have a : p0.id = id := by simpa using hb1'
        have b : q0.id = id := by simpa using hb2'
        rw [a, b]
      · intro p' hp'
        simp only [List.mem_map] at hp'
        obtain ⟨q, hq, rfl⟩ := hp'
        obtain ⟨p, hp, e1, e2⟩ := hrel1 q hq
        exact ⟨p, hp, e1, by simpa using e2⟩
    · exact ⟨hb1, hid1, hrel1⟩
  split
  · exact key _ (Or.inr rfl)
  · exact key _ (Or.inl rfl)
end HD

namespace HD
structure Inv14b (s : State) : Prop where
  nodup : (s.players.map (·.id)).Nodup
  off : ∀ p ∈ s.players, flagsOff p.stats
  b3 : B3OK s.players

theorem updStats_ids (ps : List HPlayer) (id : Nat) (f : Stats → Stats) : (updStats ps id f).map (·.id) = ps.map (·.id) := by
  unfold updStats
  rw [List.map_map]
  apply List.map_congr_left
  intro p _
  simp only [Function.comp]
  split <;> rfl

theorem updStats_mem (ps : List HPlayer) (id : Nat) (f : Stats → Stats) (p' : HPlayer) (h : p' ∈ updStats ps id f) :
    ∃ p ∈ ps, p'.id = p.id ∧ p'.stats = (if p.id == id then f p.stats else p.stats) := by
  unfold updStats at h
  simp only [List.mem_map] at h
  obtain ⟨p, hp, rfl⟩ := h
  refine ⟨p, hp, ?_, ?_⟩ <;> split <;> rfl

theorem flagsOff_of_b3eq (a b : Stats) (h : { a with b3 := b.b3 } = b) (hb : flagsOff b) : flagsOff a := by
  have e : ∀ (f : Stats → Bool), (∀ x y, f { x with b3 := y } = f x) → f a = f b := by
    intro f hf; rw [← h]; exact (hf a b.b3).symm
  unfold flagsOff at *
  obtain ⟨h1, h2, h3, h4, h5, h6, h7, h8, h9, h10, h11, h12, h13, h14⟩ := hb
  refine ⟨?_, ?_, ?_, ?_, ?_, ?_, ?_, ?_, ?_, ?_, ?_, ?_, ?_, ?_⟩
  · rw [e (·.vpipC) (fun _ _ => rfl)]; exact h1
  · rw [e (·.vpip) (fun _ _ => rfl)]; exact h2
  · rw [e (·.pfrC) (fun _ _ => rfl)]; exact h3
  · rw [e (·.pfr) (fun _ _ => rfl)]; exact h4
  · rw [e (·.atsC) (fun _ _ => rfl)]; exact h5
  · rw [e (·.ats) (fun _ _ => rfl)]; exact h6
  · rw [e (·.ft3bC) (fun _ _ => rfl)]; exact h7
  · rw [e (·.ft3b) (fun _ _ => rfl)]; exact h8
  · rw [e (·.crC) (fun _ _ => rfl)]; exact h9
  · rw [e (·.cr) (fun _ _ => rfl)]; exact h10
  · rw [e (·.cbC) (fun _ _ => rfl)]; exact h11
  · rw [e (·.cb) (fun _ _ => rfl)]; exact h12
  · rw [e (·.ftcbC) (fun _ _ => rfl)]; exact h13
  · rw [e (·.ftcb) (fun _ _ => rfl)]; exact h14

theorem inv14b_bump (ps : List HPlayer) (id : Nat) (k : String) (r : Bool) (rd : String)
    (hnd : (ps.map (·.id)).Nodup) (hoff : ∀ p ∈ ps, flagsOff p.stats) (hb : B3OK ps) :
    ((bumpStats ps id k r rd).map (·.id)).Nodup ∧ (∀ p ∈ bumpStats ps id k r rd, flagsOff p.stats) ∧ B3OK (bumpStats ps id k r rd) := by
  -- after the acting player's own update
  have h1id := updStats_ids ps id (bump1 k r rd)
  have h1nd : ((updStats ps id (bump1 k r rd)).map (·.id)).Nodup := by rw [h1id]; exact hnd
  have h1off : ∀ p ∈ updStats ps id (bump1 k r rd), flagsOff p.stats := by
    intro p' hp'
    obtain ⟨p, hp, _, hs⟩ := updStats_mem _ _ _ _ hp'
    rw [hs]
    split
    · exact bump1_flagsOff _ _ _ _ (hoff p hp)
    · exact hoff p hp
  have h1b : B3OK (updStats ps id (bump1 k r rd)) := by
    constructor
    · intro p' hp' hb3
      obtain ⟨p, hp, _, hs⟩ := updStats_mem _ _ _ _ hp'
      rw [hs] at hb3 ⊢
      split at hb3
      · rename_i hc
        simp only [hc, if_true]
        rw [(bump1_b3 k r rd p.stats).2]
        rw [(bump1_b3 k r rd p.stats).1] at hb3
        exact hb.1 p hp hb3
      · rename_i hc
        simp only [hc, if_false]
        exact hb.1 p hp hb3
    · intro p' q' hp' hq' hb1 hb2
      obtain ⟨p, hp, ep, hsp⟩ := updStats_mem _ _ _ _ hp'
      obtain ⟨q, hq, eq, hsq⟩ := updStats_mem _ _ _ _ hq'
      have b1 : p.stats.b3 = true := by
        rw [hsp] at hb1; split at hb1
        · rw [(bump1_b3 k r rd p.stats).1] at hb1; exact hb1
        · exact hb1
      have b2 : q.stats.b3 = true := by
        rw [hsq] at hb2; split at hb2
        · rw [(bump1_b3 k r rd q.stats).1] at hb2; exact hb2
        · exact hb2
      rw [ep, eq]; exact hb.2 p q hp hq b1 b2
  unfold bumpStats
  simp only
  split
  · obtain ⟨hb2, hid2, hrel⟩ := refreshThreeBet_ok _ id h1nd h1b
    refine ⟨by rw [hid2]; exact h1nd, ?_, hb2⟩
    intro p' hp'
    obtain ⟨p, hp, _, he⟩ := hrel p' hp'
    exact flagsOff_of_b3eq _ _ he (h1off p hp)
  · exact ⟨h1nd, h1off, h1b⟩

theorem inv14b_act (s : State) (id : Nat) (kind : String) (arg : Int) (o : Oracle) (h : Inv14b s) :
    Inv14b (act s id kind arg o).1 := by
  rcases act_cases s id kind arg o with ⟨hs, _⟩ | ⟨gi, v, isR, emit, _, _, _, _, _, h6, _⟩
  · rw [hs]; exact h
  · rw [h6]
    obtain ⟨a, b, c⟩ := inv14b_bump s.players id kind isR v.round h.nodup h.off h.b3
    exact ⟨a, b, c⟩
end HD

namespace HD
theorem chances_inv (s : State) (v : View) (hst : Stable v) (h : Inv14b s) :
    ((chances s v).map (·.id)).Nodup ∧ (∀ p ∈ chances s v, flagsOff p.stats) ∧ B3OK (chances s v) := by
  have hso : ∀ gi, statStateOK v gi = false := by
    intro gi; unfold statStateOK; unfold Stable at hst; simp [hst]
  unfold chances
  split
  · exact ⟨h.nodup, h.off, h.b3⟩
  · simp only
    split
    · exact ⟨h.nodup, h.off, h.b3⟩
    · split
      · exact ⟨h.nodup, h.off, h.b3⟩
      · rename_i id _
        refine ⟨by rw [updStats_ids]; exact h.nodup, ?_, ?_, ?_⟩
        · intro p' hp'
          obtain ⟨p, hp, _, hs⟩ := updStats_mem _ _ _ _ hp'
          rw [hs]
          have ho := h.off p hp
          split
          · obtain ⟨h1, h2, h3, h4, h5, h6, h7, h8, h9, h10, h11, h12, h13, h14⟩ := ho
            unfold flagsOff isPFRChance isATSChance
            simp [hso, h1, h2, h3, h4, h5, h6, h7, h8, h9, h10, h11, h12, h13, h14]
          · exact ho
        · intro p' hp' hb3
          obtain ⟨p, hp, _, hs⟩ := updStats_mem _ _ _ _ hp'
          rw [hs] at hb3 ⊢
          split at hb3
          · rename_i hc
            simp only [hc, if_true] at hb3 ⊢
            have := h.b3.1 p hp hb3
            simp [this]
          · rename_i hc
            simp only [hc, if_false]
            exact h.b3.1 p hp hb3
        · intro p' q' hp' hq' hb1 hb2
          obtain ⟨p, hp, ep, hsp⟩ := updStats_mem _ _ _ _ hp'
          obtain ⟨q, hq, eq, hsq⟩ := updStats_mem _ _ _ _ hq'
          have b1 : p.stats.b3 = true := by rw [hsp] at hb1; split at hb1 <;> exact hb1
          have b2 : q.stats.b3 = true := by rw [hsq] at hb2; split at hb2 <;> exact hb2
          rw [ep, eq]; exact h.b3.2 p q hp hq b1 b2

theorem inv14b_deliver (s : State) (v : View) (pl : Bool) (now : Int) (hst : Stable v) (h : Inv14b s) :
    Inv14b (deliver s v pl now) := by
  unfold deliver
  cases pl
  · exact ⟨h.nodup, h.off, h.b3⟩
  · obtain ⟨a, b, c⟩ := chances_inv s v hst h
    exact ⟨a, b, c⟩

theorem inv14b_reset (s : State) (h : Inv14b s) : Inv14b (reset s) := by
  refine ⟨?_, ?_, ?_, ?_⟩
  · simpa [reset, List.map_map, Function.comp_def] using h.nodup
  · intro p hp
    simp only [reset, List.mem_map] at hp
    obtain ⟨q, _, rfl⟩ := hp
    simp [flagsOff]
  · intro p hp hb
    simp only [reset, List.mem_map] at hp
    obtain ⟨q, _, rfl⟩ := hp
    simp at hb
  · intro p q hp _ hb
    simp only [reset, List.mem_map] at hp
    obtain ⟨q', _, rfl⟩ := hp
    simp at hb

/-- everything that happens to the hand-level state -/
inductive Ev
  | act (id : Nat) (kind : String) (arg : Int) (o : Oracle)
  | deliver (v : View) (playing : Bool) (now : Int)
  | emitted (v : View)
  | extend (d : Int)
  | reset

def step (s : State) : Ev → State
  | .act id k a o => (act s id k a o).1
  | .deliver v p n => deliver s v p n
  | .emitted v => afterEmit s v
  | .extend d => (extend s d).1
  | .reset => reset s

def runEv (s : State) (evs : List Ev) : State := evs.foldl step s

/-- contract StableEvent over a history: the statistics code's event symbol never reaches the table -/
def AllStable : List Ev → Prop
  | [] => True
  | .deliver v _ _ :: t => Stable v ∧ AllStable t
  | _ :: t => AllStable t

theorem inv14_run (s : State) (evs : List Ev) (h : Inv14 s) : Inv14 (runEv s evs) := by
  induction evs generalizing s with
  | nil => exact h
  | cons e t ih =>
    simp only [runEv, List.foldl_cons]
    apply ih
    cases e with
    | act id k a o => exact inv14_act s id k a o h
    | deliver v p n => exact inv14_deliver s v p n h
    | emitted v => exact (inv14_misc s h).1 v
    | extend d => exact (inv14_misc s h).2.1 d
    | reset => exact (inv14_misc s h).2.2

theorem inv14b_run (s : State) (evs : List Ev) (hs : AllStable evs) (h : Inv14b s) : Inv14b (runEv s evs) := by
  induction evs generalizing s with
  | nil => exact h
  | cons e t ih =>
    simp only [runEv, List.foldl_cons]
    cases e with
    | act id k a o => exact ih _ hs (inv14b_act s id k a o h)
    | deliver v p n => exact ih _ hs.2 (inv14b_deliver s v p n hs.1 h)
    | emitted v => exact ih _ hs (by show Inv14b (afterEmit s v); unfold afterEmit; split <;> exact ⟨h.nodup, h.off, h.b3⟩)
    | extend d => exact ih _ hs ⟨h.nodup, h.off, h.b3⟩
    | reset => exact ih _ hs (inv14b_reset s h)
end HD
