import PokerVerif.SM
import PokerVerif.SMSpec
/-! Helper lemmas about the seat-manager model (scans, counts, re-flagging, modular arithmetic). -/
namespace SM

-- ---------------------------------------------------------------- expectation lemmas on regenerated facts
-- They are `rfl` against what /verif/extract read from the source *now*; an edit of a scan operand breaks them.
theorem facts_nextAliveMod (m : Int) : Facts.nextAliveMod m = m := rfl
theorem facts_nextActiveMod (m : Int) : Facts.nextActiveMod m = m := rfl
theorem facts_prevAliveMod (m : Int) : Facts.prevAliveMod m = m := rfl
theorem facts_prevAliveAdd (m : Int) : Facts.prevAliveAdd m = m := rfl
theorem facts_prevOccMod (m : Int) : Facts.prevOccMod m = m := rfl
theorem facts_prevOccAdd (m : Int) : Facts.prevOccAdd m = m := rfl
theorem facts_scansRecognised : Facts.scansRecognised = true := rfl

-- ---------------------------------------------------------------- scan
theorem scan_found (f : Nat → Int) (p : Int → Bool) (k lo : Nat) (r : Int)
    (h : scan f p k lo = r) (hr : r ≠ -1) :
    ∃ i, lo ≤ i ∧ i < lo + k ∧ r = f i ∧ p r = true ∧ ∀ j, lo ≤ j → j < i → p (f j) = false := by
  induction k generalizing lo with
  | zero => simp [scan] at h; omega
  | succ k ih =>
    simp only [scan] at h
    split at h
    · rename_i hpf
      exact ⟨lo, by omega, by omega, h.symm, by rw [← h]; exact hpf, by intro j h1 h2; omega⟩
    · rename_i hpf
      obtain ⟨i, h1, h2, h3, h4, h5⟩ := ih (lo+1) h
      refine ⟨i, by omega, by omega, h3, h4, ?_⟩
      intro j hj1 hj2
      by_cases hj : j = lo
      · subst hj; simpa using hpf
      · exact h5 j (by omega) hj2

theorem scan_ne_of_hit (f : Nat → Int) (p : Int → Bool) (k lo : Nat)
    (hf : ∀ i, lo ≤ i → i < lo + k → f i ≠ -1) (j : Nat) (h1 : lo ≤ j) (h2 : j < lo + k) (hp : p (f j) = true) :
    scan f p k lo ≠ -1 := by
  induction k generalizing lo with
  | zero => omega
  | succ k ih =>
    simp only [scan]
    split
    · exact hf lo (by omega) (by omega)
    · rename_i hpf
      by_cases hj : j = lo
      · subst hj; exact absurd hp hpf
      · exact ih (lo+1) (fun i h1 h2 => hf i (by omega) (by omega)) (by omega) (by omega)

theorem scan_none (f : Nat → Int) (p : Int → Bool) (k lo : Nat)
    (h : ∀ j, lo ≤ j → j < lo + k → p (f j) = false) : scan f p k lo = -1 := by
  induction k generalizing lo with
  | zero => rfl
  | succ k ih =>
    simp only [scan]
    have := h lo (by omega) (by omega)
    simp [this]
    exact ih (lo+1) (fun j h1 h2 => h j (by omega) (by omega))

/-- the scan is the `find?` over `List.range'` of the same predicate — the formulation the spec uses -/
theorem scan_eq_find (f : Nat → Int) (p : Int → Bool) (k lo : Nat) :
    scan f p k lo = (match (List.range' lo k).find? (fun j => p (f j)) with | some j => f j | none => -1) := by
  induction k generalizing lo with
  | zero => simp [scan]
  | succ k ih =>
    simp only [scan, List.range'_succ, List.find?_cons]
    by_cases hp : p (f lo) = true
    · simp [hp]
    · simp [hp]; exact ih (lo+1)

-- ---------------------------------------------------------------- modular arithmetic
theorem tmod_small {x n : Int} (h0 : 0 ≤ x) (h1 : x < n) : Int.tmod x n = x := Int.tmod_eq_of_lt h0 h1

theorem tmod_wrap {x n : Int} (h0 : n ≤ x) (h1 : x < 2 * n) (hn : 0 < n) : Int.tmod x n = x - n := by
  rw [Int.tmod_eq_emod_of_nonneg (by omega)]
  have : (x - n) % n = x % n := Int.sub_emod_right x n
  rw [← this]
  exact Int.emod_eq_of_lt (by omega) (by omega)

theorem tmod_range {x n : Int} (h0 : 0 ≤ x) (hn : 0 < n) : 0 ≤ Int.tmod x n ∧ Int.tmod x n < n := by
  rw [Int.tmod_eq_emod_of_nonneg h0]
  exact ⟨Int.emod_nonneg _ (by omega), Int.emod_lt_of_pos _ hn⟩

/-- every seat other than `start` is visited by the forward scan -/
theorem fwd_cover (n : Nat) (start j : Int) (hs0 : 0 ≤ start) (hsn : start < n) (hj0 : 0 ≤ j) (hjn : j < n)
    (hne : j ≠ start) : ∃ i : Nat, 1 ≤ i ∧ i < 1 + (n - 1) ∧ Int.tmod (start + (i : Int)) n = j := by
  by_cases hgt : start < j
  · refine ⟨(j - start).toNat, by omega, by omega, ?_⟩
    have : start + ((j - start).toNat : Int) = j := by omega
    rw [this]; exact tmod_small hj0 hjn
  · refine ⟨(j + n - start).toNat, by omega, by omega, ?_⟩
    have : start + ((j + n - start).toNat : Int) = j + n := by omega
    rw [this, tmod_wrap (by omega) (by omega) (by omega)]; omega

/-- every seat other than `start` is visited by the backward scan -/
theorem bwd_cover (n : Nat) (start j : Int) (hs0 : 0 ≤ start) (hsn : start < n) (hj0 : 0 ≤ j) (hjn : j < n)
    (hne : j ≠ start) : ∃ i : Nat, 1 ≤ i ∧ i < 1 + (n - 1) ∧ Int.tmod (start + (n : Int) - (i : Int)) n = j := by
  by_cases hlt : j < start
  · refine ⟨(start - j).toNat, by omega, by omega, ?_⟩
    have : start + (n : Int) - ((start - j).toNat : Int) = j + n := by omega
    rw [this, tmod_wrap (by omega) (by omega) (by omega)]; omega
  · refine ⟨(start + n - j).toNat, by omega, by omega, ?_⟩
    have : start + (n : Int) - ((start + n - j).toNat : Int) = j := by omega
    rw [this]; exact tmod_small hj0 hjn

/-- the forward scan never returns its starting seat -/
theorem fwd_ne_start (n : Nat) (start : Int) (hs0 : 0 ≤ start) (hsn : start < n) (i : Nat)
    (h1 : 1 ≤ i) (h2 : i < 1 + (n - 1)) : Int.tmod (start + (i : Int)) n ≠ start := by
  by_cases hc : start + (i : Int) < n
  · rw [tmod_small (by omega) hc]; omega
  · rw [tmod_wrap (by omega) (by omega) (by omega)]; omega

theorem bwd_ne_start (n : Nat) (start : Int) (hs0 : 0 ≤ start) (hsn : start < n) (i : Nat)
    (h1 : 1 ≤ i) (h2 : i < 1 + (n - 1)) : Int.tmod (start + (n : Int) - (i : Int)) n ≠ start := by
  by_cases hc : start + (n : Int) - (i : Int) < n
  · rw [tmod_small (by omega) hc]; omega
  · rw [tmod_wrap (by omega) (by omega) (by omega)]; omega

-- ---------------------------------------------------------------- seats, flags
theorem active_imp_alive (s : Seats) (i : Int) (h : activeAt s i = true) : aliveAt s i = true := by
  unfold activeAt at h; unfold aliveAt
  cases hs : s i with
  | none => simp [hs] at h
  | some p =>
    simp [hs, SeatPlayer.active] at h
    simp [SeatPlayer.alive, h]

theorem reflag_alive (n : Nat) (d b : Int) (s : Seats) (i : Int) :
    aliveAt (reflag n d b s) i = aliveAt s i := by
  unfold aliveAt reflag
  cases hs : s i with
  | none => simp
  | some p =>
    by_cases hact : p.active = true
    · simp [hact]
    · simp [hact, SeatPlayer.alive]

theorem reflag_keeps_active (n : Nat) (d b : Int) (s : Seats) (i : Int) (h : activeAt s i = true) :
    activeAt (reflag n d b s) i = true := by
  unfold activeAt at h ⊢
  unfold reflag
  cases hs : s i with
  | none => simp [hs] at h
  | some p =>
    simp [hs] at h
    simp [h]

theorem reflag_at (n : Nat) (d b : Int) (s : Seats) (i : Int)
    (ha : aliveAt s i = true) (hb : isBetween n d b i = false) :
    activeAt (reflag n d b s) i = true := by
  unfold aliveAt at ha
  unfold activeAt reflag
  cases hs : s i with
  | none => simp [hs] at ha
  | some p =>
    simp [hs, SeatPlayer.alive] at ha
    by_cases hact : p.active = true
    · simp [hact]
    · simp only [if_neg hact]
      simp [SeatPlayer.active, ha, hb]

theorem wrapHit_false (n b : Int) (hn : 0 < n) (hb0 : 0 ≤ b) (hbn : b < n) (k : Nat) (lo : Int)
    (hlo : b < lo) (hhi : lo + k ≤ b + n) : wrapHit n b k lo = false := by
  induction k generalizing lo with
  | zero => simp [wrapHit]
  | succ k ih =>
    simp only [wrapHit]
    have hne : Int.tmod lo n ≠ b := by
      by_cases hc : lo < n
      · rw [tmod_small (by omega) hc]; omega
      · rw [tmod_wrap (by omega) (by omega) hn]; omega
    simp [hne]
    exact ih (lo + 1) (by omega) (by omega)

theorem isBetween_self (n : Nat) (d b : Int) (hb0 : 0 ≤ b) (hbn : b < n) : isBetween n d b b = false := by
  unfold isBetween
  split
  · rename_i hneg
    have hw : wrapHit (n : Int) b (b + n - (d + 1)).toNat (d + 1) = false := by
      by_cases hk : b + n - (d + 1) ≤ 0
      · have : (b + n - (d + 1)).toNat = 0 := by omega
        rw [this]; simp [wrapHit]
      · apply wrapHit_false n b (by omega) hb0 hbn
        · omega
        · omega
    simp [hw]
  · simp

-- ---------------------------------------------------------------- counts
theorem count_ge_one (p : Nat → Bool) (n : Nat) (h : 1 ≤ countUpTo p n) : ∃ i, i < n ∧ p i = true := by
  induction n with
  | zero => simp [countUpTo] at h
  | succ n ih =>
    simp only [countUpTo] at h
    by_cases hp : p n = true
    · exact ⟨n, by omega, hp⟩
    · simp [hp] at h
      obtain ⟨i, hi, hpi⟩ := ih h
      exact ⟨i, by omega, hpi⟩

theorem count_ge_two (p : Nat → Bool) (n : Nat) (h : 2 ≤ countUpTo p n) :
    ∃ i j, i < j ∧ j < n ∧ p i = true ∧ p j = true := by
  induction n with
  | zero => simp [countUpTo] at h
  | succ n ih =>
    simp only [countUpTo] at h
    by_cases hp : p n = true
    · simp [hp] at h
      obtain ⟨i, hi, hpi⟩ := count_ge_one p n (by omega)
      exact ⟨i, n, hi, by omega, hpi, hp⟩
    · simp [hp] at h
      obtain ⟨i, j, h1, h2, h3, h4⟩ := ih h
      exact ⟨i, j, h1, by omega, h3, h4⟩

theorem count_mono (p q : Nat → Bool) (n : Nat) (h : ∀ i, i < n → p i = true → q i = true) :
    countUpTo p n ≤ countUpTo q n := by
  induction n with
  | zero => simp [countUpTo]
  | succ n ih =>
    simp only [countUpTo]
    have := ih (fun i hi => h i (by omega))
    by_cases hp : p n = true
    · have hq := h n (by omega) hp
      simp [hp, hq]; omega
    · simp [hp]
      split <;> omega

theorem count_congr (p q : Nat → Bool) (n : Nat) (h : ∀ i, i < n → p i = q i) :
    countUpTo p n = countUpTo q n := by
  induction n with
  | zero => rfl
  | succ n ih =>
    simp only [countUpTo]
    rw [ih (fun i hi => h i (by omega)), h n (by omega)]

theorem activeCount_le_aliveCount (n : Nat) (s : Seats) : activeCount n s ≤ aliveCount n s :=
  count_mono _ _ n (fun _ _ h => active_imp_alive s _ h)

theorem aliveCount_reflag (n m : Nat) (d b : Int) (s : Seats) : aliveCount n (reflag m d b s) = aliveCount n s :=
  count_congr _ _ n (fun _ _ => reflag_alive m d b s _)

/-- the recursive count and the spec's filter-length count agree -/
theorem countUpTo_eq_filter (p : Nat → Bool) (n : Nat) :
    countUpTo p n = ((List.range n).filter p).length := by
  induction n with
  | zero => rfl
  | succ n ih =>
    simp only [countUpTo, List.range_succ, List.filter_append, List.length_append, ih]
    by_cases hp : p n = true <;> simp [hp]

theorem countSeats_eq (n : Nat) (p : Int → Bool) :
    SMSpec.countSeats n p = countUpTo (fun i => p (Int.ofNat i)) n := by
  unfold SMSpec.countSeats SMSpec.seatsList
  rw [countUpTo_eq_filter, List.filter_map, List.length_map]
  rfl

end SM

namespace SM

-- ---------------------------------------------------------------- generic circular scans
theorem fwdScan_props (n : Nat) (p : Int → Bool) (start : Int) (h0 : 0 ≤ start) (hn : start < n) (r : Int)
    (hr : scan (fun i => Int.tmod (start + (i : Int)) n) p (n - 1) 1 = r) (hne : r ≠ -1) :
    0 ≤ r ∧ r < n ∧ p r = true ∧ r ≠ start := by
  obtain ⟨k, hk1, hk2, hk3, hk4, _⟩ := scan_found _ _ _ _ _ hr hne
  have hpos : (0:Int) < n := by omega
  have hrg := tmod_range (x := start + (k:Int)) (n := n) (by omega) hpos
  refine ⟨by rw [hk3]; exact hrg.1, by rw [hk3]; exact hrg.2, hk4, ?_⟩
  rw [hk3]; exact fwd_ne_start n start h0 hn k hk1 hk2

theorem fwdScan_exists (n : Nat) (p : Int → Bool) (start : Int) (h0 : 0 ≤ start) (hn : start < n)
    (j : Int) (hj0 : 0 ≤ j) (hjn : j < n) (hne : j ≠ start) (hp : p j = true) :
    scan (fun i => Int.tmod (start + (i : Int)) n) p (n - 1) 1 ≠ -1 := by
  obtain ⟨k, hk1, hk2, hk3⟩ := fwd_cover n start j h0 hn hj0 hjn hne
  apply scan_ne_of_hit _ _ _ _ ?_ k hk1 hk2
  · show p (Int.tmod (start + (k:Int)) n) = true
    rw [hk3]; exact hp
  · intro x _ _
    have := (tmod_range (x := start + (x:Int)) (n := n) (by omega) (by omega)).1
    show Int.tmod (start + (x:Int)) n ≠ -1
    omega

theorem bwdScan_props (n : Nat) (p : Int → Bool) (start : Int) (h0 : 0 ≤ start) (hn : start < n) (r : Int)
    (hr : scan (fun i => Int.tmod (start + (n : Int) - (i : Int)) n) p (n - 1) 1 = r) (hne : r ≠ -1) :
    0 ≤ r ∧ r < n ∧ p r = true ∧ r ≠ start := by
  obtain ⟨k, hk1, hk2, hk3, hk4, _⟩ := scan_found _ _ _ _ _ hr hne
  have hpos : (0:Int) < n := by omega
  have hrg := tmod_range (x := start + (n:Int) - (k:Int)) (n := n) (by omega) hpos
  refine ⟨by rw [hk3]; exact hrg.1, by rw [hk3]; exact hrg.2, hk4, ?_⟩
  rw [hk3]; exact bwd_ne_start n start h0 hn k hk1 hk2

theorem bwdScan_exists (n : Nat) (p : Int → Bool) (start : Int) (h0 : 0 ≤ start) (hn : start < n)
    (j : Int) (hj0 : 0 ≤ j) (hjn : j < n) (hne : j ≠ start) (hp : p j = true) :
    scan (fun i => Int.tmod (start + (n : Int) - (i : Int)) n) p (n - 1) 1 ≠ -1 := by
  obtain ⟨k, hk1, hk2, hk3⟩ := bwd_cover n start j h0 hn hj0 hjn hne
  apply scan_ne_of_hit _ _ _ _ ?_ k hk1 hk2
  · show p (Int.tmod (start + (n:Int) - (k:Int)) n) = true
    rw [hk3]; exact hp
  · intro x hx1 hx2
    have := (tmod_range (x := start + (n:Int) - (x:Int)) (n := n) (by omega) (by omega)).1
    show Int.tmod (start + (n:Int) - (x:Int)) n ≠ -1
    omega

theorem find_congr (f g : Nat → Int) (p : Int → Bool) (k lo : Nat)
    (h : ∀ j, lo ≤ j → j < lo + k → f j = g j) :
    (match (List.range' lo k).find? (fun j => p (f j)) with | some j => f j | none => (-1 : Int)) =
    (match (List.range' lo k).find? (fun j => p (g j)) with | some j => g j | none => (-1 : Int)) := by
  induction k generalizing lo with
  | zero => simp
  | succ k ih =>
    have h0 := h lo (by omega) (by omega)
    have ih' := ih (lo+1) (fun j h1 h2 => h j (by omega) (by omega))
    simp only [List.range'_succ, List.find?_cons]
    by_cases hp : p (g lo) = true
    · have hp' : p (f lo) = true := by rw [h0]; exact hp
      simp only [hp, hp']; exact h0
    · have hp' : ¬ p (f lo) = true := by rw [h0]; exact hp
      simp only [hp, hp']; exact ih'

end SM
