import PokerVerif.Lemmas.TBAgreeRun
/-!
# The hand's player indexes stay inside the player list; departures cannot panic

`GidxOK s`: every entry of `GamePlayerIndexes` is an index into the player list.  It holds in every reachable state
(`step_gidx`): the list is built from valid indexes at every open (`gameIndexes_valid`), re-mapped through the ids at every
departure (D30: since the fix, whatever the table status), emptied by the continue step, and everything else leaves it and
the length of the player list alone.  With `Booked`, it is all `calcLeavePlayers` needs: **`PlayersLeave` cannot panic in
a reachable state** (`batchRemove_no_panic`).
-/
namespace TB

def GidxOK (s : State) : Prop := ∀ gi ∈ s.gidx, 0 ≤ gi ∧ gi.toNat < s.players.length

theorem Quiet.len {a b : State} (h : Quiet a b) : a.players.length = b.players.length := by
  have := congrArg List.length h.ids
  simpa using this

theorem GidxOK.keep {a b : State} (hl : a.players.length = b.players.length) (hg : a.gidx = b.gidx ∨ a.gidx = [])
    (w : GidxOK b) : GidxOK a := by
  intro gi hgi
  rcases hg with hg | hg
  · rw [hg] at hgi; rw [hl]; exact w gi hgi
  · rw [hg] at hgi; cases hgi

-- ------------------------------------------------------------------ operations that leave the list alone

theorem g_joinCore (s : State) (id : Nat) : (joinCore s id).1.gidx = s.gidx := by
  unfold joinCore
  split
  · rfl
  · split
    · rfl
    · split
      · rfl
      · split
        · rfl
        · simp only
          split <;> rfl

theorem g_foldl_joinCore (ps : List Player) (s : State) :
    (ps.foldl (fun acc p => (joinCore acc p.id).1) s).gidx = s.gidx := by
  induction ps generalizing s with
  | nil => rfl
  | cons p t ih => exact (ih _).trans (g_joinCore s p.id)

theorem g_autoJoinComplete (s : State) : (autoJoinComplete s).gidx = s.gidx := by
  unfold autoJoinComplete
  simp only
  split
  · exact g_foldl_joinCore s.players s
  · exact g_foldl_joinCore s.players s

theorem g_join (s : State) (id : Nat) : (join s id).1.gidx = s.gidx := by
  unfold join
  have hj := g_joinCore s id
  generalize joinCore s id = r at hj
  obtain ⟨s1, r1, fresh⟩ := r
  simp only at hj ⊢
  cases fresh with
  | none => exact hj
  | some i =>
    simp only
    split
    · split
      · exact (g_autoJoinComplete _).trans hj
      · exact hj
    · exact hj

theorem g_foldl_join (ps : List Player) (s : State) :
    (ps.foldl (fun acc p => (join acc p.id).1) s).gidx = s.gidx := by
  induction ps generalizing s with
  | nil => rfl
  | cons p t ih => exact (ih _).trans (g_join s p.id)

theorem g_autoJoinStale (s : State) : (autoJoinStale s).gidx = s.gidx := g_foldl_join s.players s

theorem g_redeem (s : State) (id : Nat) (c : Int) : (redeem s id c).1.gidx = s.gidx := by
  unfold redeem
  split
  · rfl
  · simp only
    split <;> rfl

theorem g_finish (s : State) (id : Nat) : (finish s id).1.gidx = s.gidx := by
  unfold finish
  repeat (first | split | rfl)

theorem g_reserve_known (s : State) (j : Join) (ch : List Int) (i : Nat) (h : findPlayerIdx s j.id = some i) :
    (reserve s j ch).1.gidx = s.gidx := by
  unfold reserve
  rw [h]
  simp only
  split <;> rfl

theorem g_settle (s : State) (r : List (Nat × Int)) : (settle s r).1.gidx = s.gidx := by
  unfold settle
  simp only
  split
  · rfl
  · split <;> rfl

theorem g_nextMove (s2 : State) (e : Bool) : (nextMove s2 e).1.gidx = s2.gidx := by
  unfold nextMove
  repeat (first | split | rfl)

theorem g_continueGame (s : State) (e : Bool) : (continueGame s e).1.gidx = [] := by
  rcases continueGame_cases s e with ⟨_, h⟩ | ⟨sm, ps, _, h⟩
  · rw [h]; rfl
  · rw [h, g_nextMove]; rfl

-- ------------------------------------------------------------------ a hand opens: the new list is made of valid indexes

theorem partOf_valid (ps : List Player) (pi : Int) (h : partOf ps pi = true) : 0 ≤ pi ∧ pi.toNat < ps.length := by
  unfold partOf at h
  by_cases h0 : 0 ≤ pi
  · simp only [h0, if_true] at h
    refine ⟨h0, ?_⟩
    cases hg : ps[pi.toNat]? with
    | none => simp [hg] at h
    | some p => exact (List.getElem?_eq_some_iff.mp hg).1
  · simp [h0] at h

theorem collectStep_none (seatMap : List Int) (part : Int → Bool) (seat : Int) : collectStep seatMap part none seat = none := rfl

theorem collect_fold_none (seatMap : List Int) (part : Int → Bool) (t : List Int) :
    t.foldl (collectStep seatMap part) none = none := by
  induction t with
  | nil => rfl
  | cons a t ih => rw [List.foldl_cons, collectStep_none]; exact ih

theorem collect_fold_valid (seatMap : List Int) (part : Int → Bool) (seats : List Int) (acc : List Int) (gi : List Int)
    (hacc : ∀ x ∈ acc, part x = true)
    (h : seats.foldl (collectStep seatMap part) (some acc) = some gi) : ∀ x ∈ gi, part x = true := by
  induction seats generalizing acc with
  | nil => simp at h; subst h; exact hacc
  | cons seat t ih =>
    rw [List.foldl_cons] at h
    cases hg : seatMapGet seatMap seat with
    | none =>
      have : collectStep seatMap part (some acc) seat = none := by simp [collectStep, hg]
      rw [this, collect_fold_none] at h; cases h
    | some pi =>
      by_cases hp : part pi = true
      · have : collectStep seatMap part (some acc) seat = some (acc ++ [pi]) := by simp [collectStep, hg, hp]
        rw [this] at h
        refine ih (acc ++ [pi]) ?_ h
        intro x hx
        rcases List.mem_append.mp hx with hx | hx
        · exact hacc x hx
        · simp at hx; subst hx; exact hp
      · have : collectStep seatMap part (some acc) seat = some acc := by simp [collectStep, hg, hp]
        rw [this] at h
        exact ih acc hacc h

theorem gameIndexes_valid (s : State) (ps : List Player) (gi : List Int) (h : gameIndexes s ps = some gi) :
    ∀ x ∈ gi, 0 ≤ x ∧ x.toNat < ps.length := by
  intro x hx
  apply partOf_valid
  unfold gameIndexes at h
  by_cases hr : s.cfg.rule = .shortDeck
  · simp only [hr, if_true] at h
    cases hd : seatMapGet s.seatMap s.sm.dealer with
    | none => simp [hd] at h
    | some d =>
      simp only [hd] at h
      by_cases hl : (ps.length == 0) = true
      · simp only [hl, if_true] at h
        have : gi = [] := (Option.some.inj h).symm
        subst this; cases hx
      · simp only [hl, Bool.false_eq_true, if_false] at h
        have := Option.some.inj h
        subst this
        exact (List.mem_filter.mp hx).2
  · simp only [hr, if_false] at h
    unfold collectFrom at h
    exact collect_fold_valid _ _ _ [] gi (by simp) h x hx

theorem openTable_gidx (s : State) (sm : SM.State) (w : GidxOK s) : GidxOK (openTable s sm).1 := by
  unfold openTable
  split
  · exact w
  · rename_i ps hm
    simp only
    split
    · exact w
    · rename_i gi hgi
      split
      · exact w
      · rename_i ps2 hap
        have h1 := assignPositions_map (·.id) (fun _ _ => rfl) _ _ _ hap
        have hl : ps2.length = ps.length := by
          have := congrArg List.length h1
          simpa using this
        intro x hx
        have := gameIndexes_valid _ ps gi hgi x hx
        simp only [openedState]
        rw [hl]; exact this

theorem startHand_gidx (s2 : State) (ok : Bool) (w : GidxOK s2) : GidxOK (startHand s2 ok).1 := by
  unfold startHand
  split
  · exact w
  · split
    · exact w
    · exact w

theorem openCore_gidx (s : State) (ch : Option Int) (ok : Bool) (w : GidxOK s) : GidxOK (openCore s ch ok).1 := by
  unfold openCore
  simp only
  split
  · exact w
  · split
    · exact startHand_gidx _ ok (openTable_gidx s _ w)
    · exact openTable_gidx s _ w

theorem gateFire_gidx (s : State) (ch : Option Int) (ok : Bool) (w : GidxOK s) : GidxOK (gateFire s ch ok).1 := by
  unfold gateFire
  have hg : GidxOK (gateReady s) := w
  split
  · exact hg
  · exact hg
  · exact openCore_gidx _ ch ok hg

theorem retryOpen_gidx (s : State) (ch : Option Int) (ok : Bool) (w : GidxOK s) : GidxOK (retryOpen s ch ok).1 := by
  rcases retryOpen_cases s ch ok with h | h | ⟨_, _, _, _, _, h⟩
  · rw [h]; exact w
  · rw [h]; exact w
  · rw [h]; exact openCore_gidx s ch ok w

-- ------------------------------------------------------------------ arrivals and departures

theorem batchAdd_gidx (s : State) (js : List Join) (ch : List Int) (w : GidxOK s) : GidxOK (batchAdd s js ch).1 := by
  have hg : (batchAdd s js ch).1.gidx = s.gidx ∧ s.players.length ≤ (batchAdd s js ch).1.players.length := by
    unfold batchAdd
    split
    · exact ⟨rfl, Nat.le_refl _⟩
    · simp only
      split
      · exact ⟨rfl, Nat.le_refl _⟩
      · split
        · exact ⟨rfl, Nat.le_refl _⟩
        · split
          · exact ⟨rfl, Nat.le_refl _⟩
          · rename_i ps m hap
            have := congrArg List.length (appendPlayers_ids _ _ _ _ _ _ hap)
            simp only [List.length_map, List.length_append] at this
            exact ⟨rfl, by simp only; omega⟩
  obtain ⟨h1, h2⟩ := hg
  intro gi hgi
  rw [h1] at hgi
  have := w gi hgi
  exact ⟨this.1, by omega⟩

theorem mapM_ne_none {α β : Type} (f : α → Option β) (l : List α) (h : ∀ x ∈ l, f x ≠ none) : l.mapM f ≠ none := by
  induction l with
  | nil => simp
  | cons a t ih =>
    rw [List.mapM_cons]
    cases ha : f a with
    | none => exact absurd ha (h a List.mem_cons_self)
    | some b =>
      cases ht : t.mapM f with
      | none => exact absurd ht (ih (fun x hx => h x (List.mem_cons_of_mem _ hx)))
      | some t' => simp

theorem rebuild_go_some (rest : List Player) (k : Nat) (m : List Int)
    (h : ∀ p ∈ rest, 0 ≤ p.seat ∧ p.seat < m.length) : rebuildSeatMap.go rest k m ≠ none := by
  induction rest generalizing k m with
  | nil => simp [rebuildSeatMap.go]
  | cons p t ih =>
    unfold rebuildSeatMap.go
    have hp := h p List.mem_cons_self
    simp only [hp, and_self, if_true]
    apply ih
    intro q hq
    have := h q (List.mem_cons_of_mem _ hq)
    simpa using this

/-- **`PlayersLeave` cannot panic** on a table whose seat bookkeeping is consistent and whose hand list points into the
player list: the seat map can be rebuilt for those who stay, and every hand-list entry names a listed player -/
theorem batchRemove_no_panic (s : State) (ids : List Nat) (hb : Booked s) (hg : GidxOK s) :
    (batchRemove s ids).2 ≠ .panic := by
  unfold batchRemove
  simp only
  cases hr : (SM.remove s.sm ids).2 with
  | err e => simp
  | ok =>
    simp only
    have hkeep : rebuildSeatMap s.cfg.maxSeat (s.players.filter (fun p => !(ids.contains p.id))) ≠ none := by
      unfold rebuildSeatMap
      apply rebuild_go_some
      intro p hp
      obtain ⟨i, hi⟩ := List.getElem?_of_mem (List.mem_filter.mp hp).1
      have := seatMapGet_range s.seatMap p.seat _ (hb.1.1.players i p hi)
      rw [hb.2] at this
      simpa [defaultSeatMap] using this
    cases hm : rebuildSeatMap s.cfg.maxSeat (s.players.filter (fun p => !(ids.contains p.id))) with
    | none => exact absurd hm hkeep
    | some m =>
      simp only
      have hmap : s.gidx.mapM (fun gi => if 0 ≤ gi then (s.players[gi.toNat]?).map (·.id) else none) ≠ none := by
        apply mapM_ne_none
        intro gi hgi
        obtain ⟨h0, hl⟩ := hg gi hgi
        simp [h0, List.getElem?_eq_getElem hl]
      cases ho : s.gidx.mapM (fun gi => if 0 ≤ gi then (s.players[gi.toNat]?).map (·.id) else none) with
      | none => exact absurd ho hmap
      | some oids => simp

theorem batchRemove_gidx (s : State) (ids : List Nat) (w : GidxOK s) : GidxOK (batchRemove s ids).1 := by
  unfold batchRemove
  simp only
  cases hr : (SM.remove s.sm ids).2 with
  | err e => exact w
  | ok =>
    simp only
    cases hm : rebuildSeatMap s.cfg.maxSeat (s.players.filter (fun p => !(ids.contains p.id))) with
    | none => exact w
    | some m =>
      simp only
      cases ho : s.gidx.mapM (fun gi => if 0 ≤ gi then (s.players[gi.toNat]?).map (·.id) else none) with
      | none => exact w
      | some oids =>
        simp only
        intro gi hgi
        obtain ⟨id, _, hid⟩ := List.mem_filterMap.mp hgi
        cases hf : findIdxAux id (s.players.filter (fun p => !(ids.contains p.id))) 0 with
        | none => rw [hf] at hid; cases hid
        | some k =>
          rw [hf] at hid
          have hk : (k : Int) = gi := Option.some.inj hid
          subst hk
          have := findIdxAux_lt id _ 0 k hf
          refine ⟨Int.natCast_nonneg k, ?_⟩
          show (k : Int).toNat < (s.players.filter (fun p => !(ids.contains p.id))).length
          simpa using this.2

-- ------------------------------------------------------------------ every event

theorem step_gidx (s : State) (e : Event) (w : GidxOK s) : GidxOK (step s e) := by
  cases e with
  | reserve j ch =>
    show GidxOK (reserve s j ch).1
    cases hf : findPlayerIdx s j.id with
    | some i => exact GidxOK.keep (q_reserve_known s j ch i hf).len (Or.inl (g_reserve_known s j ch i hf)) w
    | none =>
      unfold reserve
      rw [hf]
      simp only
      split
      · exact w
      · exact batchAdd_gidx s [j] ch w
  | join id => exact GidxOK.keep (q_join s id).len (Or.inl (g_join s id)) w
  | redeem id c => exact GidxOK.keep (q_redeem s id c).len (Or.inl (g_redeem s id c)) w
  | leave ids => exact batchRemove_gidx s ids w
  | update js lv ch =>
    show GidxOK (update s js lv ch).1
    unfold update
    simp only
    by_cases he : lv.isEmpty = true
    · simp only [he, if_true]
      split
      · exact w
      · exact batchAdd_gidx s js ch w
    · simp only [he, Bool.false_eq_true, if_false]
      have w1 := batchRemove_gidx s lv w
      split
      · split
        · exact w1
        · exact batchAdd_gidx _ js ch w1
      · exact w1
  | blind b => exact w
  | pause => exact w
  | close => exact w
  | release => exact w
  | start => exact w
  | setup gc ps => exact w
  | finish id => exact GidxOK.keep (q_finish s id).len (Or.inl (g_finish s id)) w
  | autojoin => exact GidxOK.keep (q_autoJoinStale s).len (Or.inl (g_autoJoinStale s)) w
  | fire ch ok => exact gateFire_gidx s ch ok w
  | retry ch ok => exact retryOpen_gidx s ch ok w
  | settle r => exact GidxOK.keep (q_settle s r).len (Or.inl (g_settle s r)) w
  | «continue» ex => exact GidxOK.keep (q_continueGame s ex).len (Or.inr (g_continueGame s ex)) w
  | contReset => exact GidxOK.keep (q_continueGame s true).len (Or.inr (g_continueGame s true)) w
  | tick ex => exact GidxOK.keep (q_nextMove s ex).len (Or.inl (g_nextMove s ex)) w

theorem create_gidx (cfg : Meta) (b : Blind) : GidxOK (create cfg b) := by
  intro gi hgi; simp [create] at hgi

-- ------------------------------------------------------------------ the whole invariant, over every history

def Inv3 (s : State) : Prop := Booked s ∧ Agree s ∧ GidxOK s

theorem eventLegal_of_draw (s : State) (e : Event) (h : Inv3 s) (hd : DrawLegal s e) : EventLegal s e := by
  cases e with
  | reserve j ch => exact hd
  | leave ids => exact batchRemove_no_panic s ids h.1 h.2.2
  | update js lv ch => exact ⟨fun _ => batchRemove_no_panic s lv h.1 h.2.2, hd⟩
  | _ => trivial

theorem step_inv3 (s : State) (e : Event) (h : Inv3 s) (hd : DrawLegal s e) : Inv3 (step s e) := by
  have := step_inv s e ⟨h.1, h.2.1⟩ (eventLegal_of_draw s e h hd)
  exact ⟨this.1, this.2, step_gidx s e h.2.2⟩

theorem run_inv3 (s : State) (evs : List Event) (h : Inv3 s) (hd : DrawsLegal s evs) : Inv3 (run s evs) := by
  induction evs generalizing s with
  | nil => exact h
  | cons e t ih =>
    show Inv3 (run (step s e) t)
    exact ih (step s e) (step_inv3 s e h hd.1) hd.2

theorem create_inv3 (cfg : Meta) (b : Blind) : Inv3 (create cfg b) :=
  ⟨create_booked cfg b, create_agree cfg b, create_gidx cfg b⟩

end TB
