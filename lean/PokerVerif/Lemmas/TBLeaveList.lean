import PokerVerif.Lemmas.TBGidx
/-!
# A departure keeps the hand's list denoting the same players

`entryId ps gi`: the id of the player entry `gi` of the hand's list denotes.  After a successful `PlayersLeave` the list,
read against the new player list, names exactly the players it named before minus those who left, in the same order
(`batchRemove_entries`) — whatever the table status (D30).
-/
namespace TB

def entryId (ps : List Player) (gi : Int) : Option Nat := if 0 ≤ gi then (ps[gi.toNat]?).map (·.id) else none

theorem findIdxAux_some (id : Nat) (ps : List Player) (n k : Nat) (h : findIdxAux id ps n = some k) :
    n ≤ k ∧ ∃ p, ps[k - n]? = some p ∧ p.id = id := by
  induction ps generalizing n with
  | nil => simp [findIdxAux] at h
  | cons q t ih =>
    unfold findIdxAux at h
    by_cases hq : (q.id == id) = true
    · simp only [hq, if_true] at h
      have : n = k := Option.some.inj h
      subst this
      exact ⟨Nat.le_refl _, q, by simp, by simpa using hq⟩
    · simp only [hq, Bool.false_eq_true, if_false] at h
      obtain ⟨h1, p, hp, hid⟩ := ih (n + 1) h
      refine ⟨by omega, p, ?_, hid⟩
      have : k - n = (k - (n + 1)) + 1 := by omega
      rw [this]; simpa using hp

theorem findIdxAux_none (id : Nat) (ps : List Player) (n : Nat) (h : findIdxAux id ps n = none) :
    ∀ p ∈ ps, p.id ≠ id := by
  induction ps generalizing n with
  | nil => intro p hp; cases hp
  | cons q t ih =>
    unfold findIdxAux at h
    by_cases hq : (q.id == id) = true
    · simp [hq] at h
    · simp only [hq, Bool.false_eq_true, if_false] at h
      intro p hp
      rcases List.mem_cons.mp hp with rfl | hp
      · simpa using hq
      · exact ih (n + 1) h p hp

theorem mapM_eq_filterMap {α β : Type} (f : α → Option β) (l : List α) (r : List β) (h : l.mapM f = some r) :
    r = l.filterMap f := by
  induction l generalizing r with
  | nil => simp at h; subst h; rfl
  | cons a t ih =>
    rw [List.mapM_cons] at h
    cases ha : f a with
    | none => simp [ha] at h
    | some b =>
      cases ht : t.mapM f with
      | none => simp [ha, ht] at h
      | some t' =>
        simp [ha, ht] at h
        subst h
        simp [List.filterMap_cons, ha, ih t' ht]

theorem filterMap_congr' {α β : Type} (l : List α) (f g : α → Option β) (h : ∀ x ∈ l, f x = g x) :
    l.filterMap f = l.filterMap g := by
  induction l with
  | nil => rfl
  | cons a t ih =>
    rw [List.filterMap_cons, List.filterMap_cons, h a List.mem_cons_self, ih (fun x hx => h x (List.mem_cons_of_mem _ hx))]

/-- the id a re-mapped entry denotes in the list of those who stay: the id itself if its player stays, nothing otherwise -/
theorem remap_entry (keep : List Player) (id : Nat) :
    ((findIdxAux id keep 0).map (fun k => (k : Int))).bind (entryId keep) =
      if keep.any (fun p => p.id == id) then some id else none := by
  cases hf : findIdxAux id keep 0 with
  | none =>
    have := findIdxAux_none id keep 0 hf
    have hany : keep.any (fun p => p.id == id) = false := by
      rw [List.any_eq_false]; intro p hp; simpa using this p hp
    simp [hany]
  | some k =>
    obtain ⟨_, p, hp, hid⟩ := findIdxAux_some id keep 0 k hf
    have hany : keep.any (fun p => p.id == id) = true := by
      rw [List.any_eq_true]; exact ⟨p, List.mem_of_getElem? hp, by simpa using hid⟩
    rw [Nat.sub_zero] at hp
    simp [hany, entryId, hp, hid]

/-- **after a successful departure the hand's list denotes the players it denoted before, minus the leavers, in order** -/
theorem batchRemove_entries (s : State) (ids : List Nat) (hg : GidxOK s) (hok : (batchRemove s ids).2 = .ok) :
    (batchRemove s ids).1.gidx.filterMap (entryId (batchRemove s ids).1.players) =
      (s.gidx.filterMap (entryId s.players)).filter (fun id => !(ids.contains id)) := by
  unfold batchRemove at hok ⊢
  simp only at hok ⊢
  cases hr : (SM.remove s.sm ids).2 with
  | err e => rw [hr] at hok; cases hok
  | ok =>
    rw [hr] at hok
    simp only at hok ⊢
    cases hm : rebuildSeatMap s.cfg.maxSeat (s.players.filter (fun p => !(ids.contains p.id))) with
    | none => rw [hm] at hok; cases hok
    | some m =>
      rw [hm] at hok
      simp only at hok ⊢
      cases ho : s.gidx.mapM (fun gi => if 0 ≤ gi then (s.players[gi.toNat]?).map (·.id) else none) with
      | none => rw [ho] at hok; cases hok
      | some oids =>
        simp only
        have hoids : oids = s.gidx.filterMap (entryId s.players) := mapM_eq_filterMap _ _ _ ho
        rw [List.filterMap_filterMap, ← hoids]
        -- every old entry denotes a listed player
        have hlisted : ∀ id ∈ oids, ∃ p ∈ s.players, p.id = id := by
          intro id hid
          rw [hoids] at hid
          obtain ⟨gi, hgi, he⟩ := List.mem_filterMap.mp hid
          unfold entryId at he
          obtain ⟨h0, _⟩ := hg gi hgi
          simp only [h0, if_true] at he
          cases hp : s.players[gi.toNat]? with
          | none => simp [hp] at he
          | some p => exact ⟨p, List.mem_of_getElem? hp, by simpa [hp] using he⟩
        have hrhs : List.filter (fun id => !(ids.contains id)) oids =
            List.filterMap (Option.guard fun id => !(ids.contains id)) oids := by rw [List.filterMap_eq_filter]
        rw [hrhs]
        apply filterMap_congr'
        intro id hid
        rw [remap_entry]
        obtain ⟨p, hp, hpid⟩ := hlisted id hid
        by_cases hc : ids.contains id = true
        · have : (s.players.filter (fun p => !(ids.contains p.id))).any (fun p => p.id == id) = false := by
            rw [List.any_eq_false]
            intro q hq
            have hq2 := (List.mem_filter.mp hq).2
            intro heq
            have : q.id = id := by simpa using heq
            rw [this, hc] at hq2; cases hq2
          rw [this]; simp [Option.guard]; simpa using hc
        · have hc' : ids.contains id = false := by simpa using hc
          have : (s.players.filter (fun p => !(ids.contains p.id))).any (fun p => p.id == id) = true := by
            rw [List.any_eq_true]
            exact ⟨p, List.mem_filter.mpr ⟨hp, by rw [hpid, hc']; rfl⟩, by simpa using hpid⟩
          rw [this]; simp [Option.guard]; simpa using hc'

end TB
