import PokerVerif.Lemmas.TBAgreeRun
import PokerVerif.Lemmas.TBLeaveList
import PokerVerif.Lemmas.TBGidx
/-!
# Table and seat manager show the same seated-in flag for every occupant

`FlagInv s`: for every listed player, whatever the seat manager holds on his seat under his id carries his seated-in flag.
Together with `Agree` (the seat manager holds exactly him there) this is the "same seated-in flag" clause of C03.
`QuietF a b`: an operation that changes no player's (id, seat, flag) and no seat's (id, flag) — everything but sit-ins,
arrivals and departures.  Sit-ins write both flags (the seat manager cannot refuse a listed player: `Agree`); arrivals come
not seated-in on both sides; departures only clear seats.
-/
namespace SM

def skey (p : SeatPlayer) : Nat × Bool := (p.id, p.isIn)
def keyAt (st : State) (i : Int) : Option (Nat × Bool) := (st.seats i).map skey

theorem updAt_key (s : Seats) (k : Int) (f : SeatPlayer → SeatPlayer) (hf : ∀ p, skey (f p) = skey p) (i : Int) :
    ((updAt s k f) i).map skey = (s i).map skey := by
  unfold updAt
  by_cases h : i = k
  · simp only [h, if_true]; cases s k <;> simp [hf]
  · simp [h]

theorem setChips_key (st : State) (id : Nat) (b : Bool) (i : Int) : keyAt (setChips st id b).1 i = keyAt st i := by
  unfold setChips keyAt; split
  · rfl
  · exact updAt_key st.seats (seatOf st id) (fun p => { p with hasChips := b }) (fun _ => rfl) i

theorem reflag_key (n : Nat) (d b : Int) (s : Seats) (i : Int) : ((reflag n d b s) i).map skey = (s i).map skey := by
  unfold reflag
  cases s i with
  | none => rfl
  | some p => simp only; split <;> rfl

theorem rotateDefault_key (st : State) (i : Int) : keyAt (rotateDefault st).1 i = keyAt st i := by
  unfold keyAt
  rcases Nat.lt_or_ge (activeCount st.maxSeat (seats1 st)) 2 with hlt | hge
  · rw [rotate_refused st hlt]; exact reflag_key _ _ _ _ i
  · rcases Nat.eq_or_lt_of_le hge with heq | hgt
    · rw [rotate_hu st heq.symm]; exact reflag_key _ _ _ _ i
    · cases hu : isHU st
      · rw [rotate_ring st hgt hu]; exact reflag_key _ _ _ _ i
      · rw [rotate_ring_hu st hgt hu]
        show ((reflag _ _ _ (seats1 st)) i).map skey = _
        rw [reflag_key]; exact reflag_key _ _ _ _ i

theorem rotate_key (st : State) (i : Int) : keyAt (rotate st).1 i = keyAt st i := by
  unfold rotate
  split
  · rfl
  · split
    · exact rotateDefault_key st i
    · split
      · unfold rotateShort; split <;> rfl
      · rfl

theorem init_key (st : State) (c : Option Int) (i : Int) : keyAt (init st c).1 i = keyAt st i := by
  simp only [init]
  repeat' split
  all_goals rfl
-- ------------------------------------------------------------------ what arrivals and departures do to a seat's content

/-- a seat after an operation: as it was, empty, or a newcomer who is not seated-in -/
def F3 (x y : Option SeatPlayer) : Prop := y = x ∨ y = none ∨ ∃ sp, y = some sp ∧ sp.isIn = false

theorem F3.refl (x : Option SeatPlayer) : F3 x x := Or.inl rfl
theorem F3.trans {x y z : Option SeatPlayer} (h1 : F3 x y) (h2 : F3 y z) : F3 x z := by
  rcases h2 with h | h | h
  · rw [h]; exact h1
  · exact Or.inr (Or.inl h)
  · exact Or.inr (Or.inr h)

theorem place_f3 (st : State) (id : Nat) (seat : Int) (i : Int) : F3 (st.seats i) ((place st id seat).seats i) := by
  unfold place setSeat
  by_cases h : i = seat
  · simp only [h, if_true]
    exact Or.inr (Or.inr ⟨_, rfl, rfl⟩)
  · simp only [h, if_false]; exact Or.inl rfl

theorem placeAll_f3 (st : State) (b : List (Nat × Int)) (i : Int) : F3 (st.seats i) ((placeAll st b).seats i) := by
  induction b generalizing st with
  | nil => exact F3.refl _
  | cons e t ih =>
    obtain ⟨id, seat⟩ := e
    simp only [placeAll]
    exact (place_f3 st id seat i).trans (ih (place st id seat))

theorem assign_f3 (st : State) (b : List (Nat × Int)) (i : Int) : F3 (st.seats i) ((assign st b).1.seats i) := by
  unfold assign
  dsimp only
  repeat' split
  all_goals first | exact F3.refl _ | exact placeAll_f3 st b i

theorem randomAssign_f3 (st : State) (ids : List Nat) (ch : List Int) (i : Int) :
    F3 (st.seats i) ((randomAssign st ids ch).1.seats i) := by
  unfold randomAssign
  repeat' split
  all_goals first | exact F3.refl _ | exact placeAll_f3 st _ i

theorem clearSeats_cases (s : Seats) (ks : List Int) (j : Int) : clearSeats s ks j = s j ∨ clearSeats s ks j = none := by
  induction ks generalizing s with
  | nil => exact Or.inl rfl
  | cons k t ih =>
    simp only [clearSeats]
    rcases ih (setSeat s k none) with h | h
    · rw [h]; unfold setSeat; by_cases hj : j = k
      · simp [hj]
      · simp [hj]
    · exact Or.inr h

theorem remove_f3 (st : State) (ids : List Nat) (i : Int) : F3 (st.seats i) ((remove st ids).1.seats i) := by
  unfold remove
  split
  · exact F3.refl _
  · rcases clearSeats_cases st.seats (ids.map (seatOf st)) i with h | h
    · exact Or.inl h
    · exact Or.inr (Or.inl h)

-- ------------------------------------------------------------------ occupied seats are left alone by arrivals

theorem assign_err_state (st : State) (b : List (Nat × Int)) (h : (assign st b).2 ≠ .ok) : (assign st b).1 = st := by
  unfold assign at h ⊢
  dsimp only at h ⊢
  repeat' split
  all_goals first | rfl | (simp_all)

theorem assign_oldKept (st : State) (b : List (Nat × Int)) (hids : b.Pairwise (fun a c => a.1 ≠ c.1))
    (i : Int) (hocc : idAt st i ≠ none) : (assign st b).1.seats i = st.seats i := by
  by_cases h : (assign st b).2 = .ok
  · obtain ⟨f0, f1, _, _⟩ := assign_ok_facts st b hids h
    rw [f0]
    exact placeAll_other st b i (fun e he hc => hocc (by rw [← hc]; exact (f1 e he).2.2))
  · rw [assign_err_state st b h]

theorem randomAssign_err_state (st : State) (ids : List Nat) (ch : List Int) (h : (randomAssign st ids ch).2 ≠ .ok) :
    (randomAssign st ids ch).1 = st := by
  unfold randomAssign at h ⊢
  repeat' split
  all_goals first | rfl | (simp_all)

theorem randomAssign_oldKept (st : State) (ids : List Nat) (ch : List Int) (hl : legalChoice st ids ch = true)
    (i : Int) (hocc : idAt st i ≠ none) : (randomAssign st ids ch).1.seats i = st.seats i := by
  by_cases h : (randomAssign st ids ch).2 = .ok
  · obtain ⟨g0, g1, _⟩ := randomAssign_ok_facts st ids ch hl h
    rw [g0]
    exact placeAll_other st _ i (fun e he hc => hocc (by rw [← hc]; exact (g1 e he).2.2))
  · rw [randomAssign_err_state st ids ch h]

/-- giving the just-placed fixed seats back leaves the seats that were occupied before as they were -/
theorem release_oldKept (st : State) (b : List (Nat × Int))
    (he : ∀ e ∈ b, 0 ≤ e.2 ∧ e.2 < st.maxSeat ∧ idAt st e.2 = none)
    (hf : ∀ e ∈ b, ∀ i : Int, 0 ≤ i → i < st.maxSeat → idAt st i ≠ some e.1)
    (i : Int) (h0 : 0 ≤ i) (hn : i < st.maxSeat) (hocc : idAt st i ≠ none) :
    (remove (placeAll st b) (b.map (·.1))).1.seats i = st.seats i := by
  have hpo : (placeAll st b).seats i = st.seats i :=
    placeAll_other st b i (fun e he' hc => hocc (by rw [← hc]; exact (he e he').2.2))
  unfold remove
  split
  · exact hpo
  · simp only
    by_cases hm : i ∈ (b.map (·.1)).map (seatOf (placeAll st b))
    · exfalso
      obtain ⟨x, hx, hxi⟩ := List.mem_map.mp hm
      obtain ⟨e, hem, hex⟩ := List.mem_map.mp hx
      rename_i hany
      have hhas : hasPlayer (placeAll st b) x = true := by
        have := hany
        simp only [List.any_eq_true, Bool.not_eq_true', not_exists, not_and, Bool.not_eq_false] at this
        exact this x hx
      have hne : seatOf (placeAll st b) x ≠ -1 := by simpa [hasPlayer] using hhas
      have hfound := (seatOf_found (placeAll st b) x hne).2.2
      rw [hxi] at hfound
      have : idAt st i = some x := by
        unfold idAt at hfound ⊢; rw [hpo] at hfound; exact hfound
      exact hf e hem i h0 hn (by rw [this, hex])
    · rw [clearSeats_other _ _ _ hm]; exact hpo

end SM

namespace TB

def pkey (p : Player) : Nat × Int × Bool := (p.id, p.seat, p.isIn)

def FlagInv (s : State) : Prop :=
  ∀ p ∈ s.players, ∀ sp, s.sm.seats p.seat = some sp → sp.id = p.id → sp.isIn = p.isIn

/-- nothing about anybody's seated-in flag has changed -/
structure QuietF (a b : State) : Prop where
  ids : a.players.map pkey = b.players.map pkey
  smIds : ∀ i, SM.keyAt a.sm i = SM.keyAt b.sm i
  smMax : a.sm.maxSeat = b.sm.maxSeat

theorem QuietF.refl (a : State) : QuietF a a := ⟨rfl, fun _ => rfl, rfl⟩
theorem QuietF.trans {a b c : State} (h1 : QuietF a b) (h2 : QuietF b c) : QuietF a c :=
  ⟨h1.ids.trans h2.ids, fun i => (h1.smIds i).trans (h2.smIds i), h1.smMax.trans h2.smMax⟩

theorem FlagInv.of_quiet {a b : State} (hq : QuietF a b) (w : FlagInv b) : FlagInv a := by
  intro p hp sp hsp hid
  -- the same player, as far as id / seat / flag go, is listed in b
  have hm : pkey p ∈ b.players.map pkey := by rw [← hq.ids]; exact List.mem_map_of_mem hp
  obtain ⟨q, hq', hk⟩ := List.mem_map.mp hm
  have hk1 : q.id = p.id := congrArg Prod.fst hk
  have hk2 : q.seat = p.seat := congrArg (fun x => x.2.1) hk
  have hk3 : q.isIn = p.isIn := congrArg (fun x => x.2.2) hk
  have hs := hq.smIds p.seat
  unfold SM.keyAt at hs
  rw [hsp] at hs
  cases hb : b.sm.seats p.seat with
  | none => rw [hb] at hs; cases hs
  | some sq =>
    rw [hb] at hs
    have he : SM.skey sp = SM.skey sq := Option.some.inj hs
    have h1 : sp.id = sq.id := congrArg Prod.fst he
    have h2 : sp.isIn = sq.isIn := congrArg Prod.snd he
    rw [h2, ← hk3]
    exact w q hq' sq (by rw [hk2]; exact hb) (by rw [← h1, hid, hk1])

theorem keys_modify (ps : List Player) (i : Nat) (f : Player → Player) (hf : ∀ p, pkey (f p) = pkey p) :
    (ps.modify i f).map pkey = ps.map pkey := modify_map ps i f pkey hf


theorem smQF_setChips (sm : SM.State) (id : Nat) (b : Bool) :
    (∀ i, SM.keyAt (SM.setChips sm id b).1 i = SM.keyAt sm i) ∧ (SM.setChips sm id b).1.maxSeat = sm.maxSeat :=
  ⟨SM.setChips_key sm id b, (SM.setChips_buttons sm id b).maxSeat⟩


theorem qf_started (s : State) : QuietF { s with started := true } s := ⟨rfl, fun _ => rfl, rfl⟩

theorem qf_auto (s : State) (rg : List (Nat × Bool)) (d : Bool) : QuietF { s with autoRg := rg, autoDone := d } s :=
  ⟨rfl, fun _ => rfl, rfl⟩
theorem qf_autoRg (s : State) (rg : List (Nat × Bool)) : QuietF { s with autoRg := rg } s := ⟨rfl, fun _ => rfl, rfl⟩


theorem qf_redeem (s : State) (id : Nat) (c : Int) : QuietF (redeem s id c).1 s := by
  unfold redeem
  split
  · exact QuietF.refl s
  · have hb := keys_modify s.players ‹Nat› (fun p => { p with bankroll := p.bankroll + c }) (fun _ => rfl)
    simp only
    split
    · exact ⟨by simpa [modAt] using hb, fun _ => rfl, rfl⟩
    · exact ⟨by simpa [modAt] using hb, (smQF_setChips _ _ _).1, (smQF_setChips _ _ _).2⟩

theorem qf_finish (s : State) (id : Nat) : QuietF (finish s id).1 s := by
  unfold finish
  repeat (first | split | exact QuietF.refl _ | exact ⟨rfl, fun _ => rfl, rfl⟩)

theorem qf_reserve_known (s : State) (j : Join) (ch : List Int) (i : Nat) (h : findPlayerIdx s j.id = some i) :
    QuietF (reserve s j ch).1 s := by
  unfold reserve
  rw [h]
  have hb := keys_modify s.players i (fun p => { p with bankroll := p.bankroll + j.chips }) (fun _ => rfl)
  simp only
  split
  · exact ⟨by simpa [modAt] using hb, fun _ => rfl, rfl⟩
  · exact ⟨by simpa [modAt] using hb, (smQF_setChips _ _ _).1, (smQF_setChips _ _ _).2⟩

theorem qf_settle (s : State) (r : List (Nat × Int)) : QuietF (settle s r).1 s := by
  unfold settle
  simp only
  have key : ∀ (res : List (Nat × Int)) (acc : List Player),
      acc.map pkey = s.players.map pkey →
      ∀ ps, res.foldl (fun (acc : Option (List Player)) (e : Nat × Int) =>
        match acc with
        | none => none
        | some ps =>
          match s.gidx[e.1]? with
          | none => none
          | some pi => if 0 ≤ pi ∧ pi.toNat < ps.length then
              some (modAt ps pi.toNat (fun p => { p with bankroll := p.bankroll + e.2 })) else none) (some acc) = some ps →
      ps.map pkey = s.players.map pkey := by
    intro res
    induction res with
    | nil => intro acc ha ps h; simp at h; subst h; exact ha
    | cons e t ih =>
      intro acc ha ps h
      simp only [List.foldl_cons] at h
      cases hg : s.gidx[e.1]? with
      | none =>
        simp only [hg] at h
        rw [foldl_none_gen _ (fun _ => rfl)] at h; cases h
      | some pi =>
        simp only [hg] at h
        by_cases hc : 0 ≤ pi ∧ pi.toNat < acc.length
        · simp only [hc, and_self, if_true] at h
          exact ih _ (by rw [← ha]; exact keys_modify acc pi.toNat _ (fun _ => rfl)) ps h
        · simp only [hc, if_false] at h
          rw [foldl_none_gen _ (fun _ => rfl)] at h; cases h
  split
  · exact ⟨rfl, fun _ => rfl, rfl⟩
  · rename_i ps hps
    have hs := key r s.players rfl ps hps
    split <;> exact ⟨hs, fun _ => rfl, rfl⟩

theorem refreshPlayers_qf_fold (ps : List Player) (sm0 : SM.State) (done0 : List Player) (r : SM.State × List Player)
    (h : ps.foldl (fun (acc : Option (SM.State × List Player)) (p : Player) =>
      match acc with
      | none => none
      | some (sm, done) =>
        let r := SM.setChips sm p.id (decide (p.bankroll > 0))
        match r.2 with
        | .err _ => none
        | .ok =>
          match SM.isActive r.1 p.id with
          | none => none
          | some a => some (r.1, done ++ [{ p with positions := [], participated := a }])) (some (sm0, done0)) = some r) :
    r.2.map pkey = done0.map pkey ++ ps.map pkey ∧ (∀ i, SM.keyAt r.1 i = SM.keyAt sm0 i) ∧ r.1.maxSeat = sm0.maxSeat := by
  induction ps generalizing sm0 done0 with
  | nil => simp at h; subst h; simp
  | cons p t ih =>
    simp only [List.foldl_cons] at h
    cases hr : (SM.setChips sm0 p.id (decide (p.bankroll > 0))).2 with
    | err e => simp only [hr] at h; rw [foldl_none_gen _ (fun _ => rfl)] at h; cases h
    | ok =>
      simp only [hr] at h
      cases ha : SM.isActive (SM.setChips sm0 p.id (decide (p.bankroll > 0))).1 p.id with
      | none => simp only [ha] at h; rw [foldl_none_gen _ (fun _ => rfl)] at h; cases h
      | some a =>
        simp only [ha] at h
        obtain ⟨h1, h2, h3⟩ := ih _ _ h
        have hq := smQF_setChips sm0 p.id (decide (p.bankroll > 0))
        refine ⟨by rw [h1]; simp [pkey], fun i => (h2 i).trans (hq.1 i), h3.trans hq.2⟩

theorem qf_nextMove (s2 : State) (e : Bool) : QuietF (nextMove s2 e).1 s2 := by
  unfold nextMove
  repeat (first | split | exact QuietF.refl _ | exact ⟨rfl, fun _ => rfl, rfl⟩)

theorem qf_continueGame (s : State) (e : Bool) : QuietF (continueGame s e).1 s := by
  rcases continueGame_cases s e with ⟨_, h⟩ | ⟨sm, ps, hrp, h⟩
  · rw [h]; exact ⟨rfl, fun _ => rfl, rfl⟩
  · rw [h]
    have := refreshPlayers_qf_fold s.players s.sm [] (sm, ps) hrp
    refine (qf_nextMove _ e).trans ⟨?_, this.2.1, this.2.2⟩
    simpa [resetHand] using this.1

/-- `openGame` on a seat manager whose occupants are those of the table's -/
theorem qf_openTable (s : State) (sm : SM.State) (hsm : ∀ i, SM.keyAt sm i = SM.keyAt s.sm i) (hmax : sm.maxSeat = s.sm.maxSeat) :
    QuietF (openTable s sm).1 s := by
  unfold openTable
  split
  · exact ⟨rfl, hsm, hmax⟩
  · rename_i ps hm
    simp only
    split
    · exact ⟨rfl, hsm, hmax⟩
    · split
      · exact ⟨rfl, hsm, hmax⟩
      · rename_i ps2 hap
        refine ⟨?_, hsm, hmax⟩
        have h1 := assignPositions_map pkey (fun _ _ => rfl) _ _ _ hap
        have h2 := mapM_keeps pkey (fun _ _ => rfl) sm _ _ hm
        simp only [openedState]
        rw [h1, h2]

theorem qf_startHand (s2 : State) (ok : Bool) : QuietF (startHand s2 ok).1 s2 := by
  unfold startHand
  split
  · exact QuietF.refl _
  · split
    · exact QuietF.refl _
    · exact ⟨rfl, fun _ => rfl, rfl⟩

theorem qf_openCore (s : State) (ch : Option Int) (ok : Bool) : QuietF (openCore s ch ok).1 s := by
  unfold openCore
  have hq : (∀ i, SM.keyAt (if !s.sm.isInit then SM.init s.sm ch else SM.rotate s.sm).1 i = SM.keyAt s.sm i) ∧
      (if !s.sm.isInit then SM.init s.sm ch else SM.rotate s.sm).1.maxSeat = s.sm.maxSeat := by
    split
    · exact ⟨SM.init_key s.sm ch, SM.init_maxSeat s.sm ch⟩
    · exact ⟨SM.rotate_key s.sm, SM.rotate_maxSeat s.sm⟩
  simp only
  split
  · exact ⟨rfl, hq.1, hq.2⟩
  · split
    · exact (qf_startHand _ ok).trans (qf_openTable _ _ hq.1 hq.2)
    · exact qf_openTable _ _ hq.1 hq.2

theorem qf_gateFire (s : State) (ch : Option Int) (ok : Bool) : QuietF (gateFire s ch ok).1 s := by
  unfold gateFire
  have hg : QuietF (gateReady s) s := ⟨rfl, fun _ => rfl, rfl⟩
  split
  · exact hg
  · exact hg
  · exact (qf_openCore _ ch ok).trans hg

theorem qf_retryOpen (s : State) (ch : Option Int) (ok : Bool) : QuietF (retryOpen s ch ok).1 s := by
  rcases retryOpen_cases s ch ok with h | h | ⟨_, _, _, _, _, h⟩
  · rw [h]; exact QuietF.refl _
  · rw [h]; exact QuietF.refl _
  · rw [h]; exact qf_openCore s ch ok

-- ------------------------------------------------------------------ consequences of bookkeeping + agreement
-- ------------------------------------------------------------------ sit-ins write both flags

/-- books agree, flags agree: the three invariants a sit-in needs and keeps -/
def FInv (s : State) : Prop := Booked s ∧ Agree s ∧ FlagInv s

theorem joinCore_inv (s : State) (id : Nat) (hb : Booked s) (ha : Agree s) :
    Booked (joinCore s id).1 ∧ Agree (joinCore s id).1 :=
  ⟨(seq_joinCore s id).booked hb, Agree.of_quiet (q_joinCore s id) (seq_joinCore s id) ha⟩

theorem joinCore_flags (s : State) (id : Nat) (hb : Booked s) (ha : Agree s) (hf : FlagInv s) :
    FlagInv (joinCore s id).1 := by
  unfold joinCore
  cases hfi : findPlayerIdx s id with
  | none => exact hf
  | some i =>
    simp only
    cases hp : s.players[i]? with
    | none => exact hf
    | some p =>
      simp only
      by_cases hseat : p.seat = -1
      · simp only [hseat, beq_self_eq_true, if_true]; exact hf
      · by_cases hin : p.isIn = true
        · simp only [beq_iff_eq, hseat, if_false, hin, if_true]; exact hf
        · simp only [beq_iff_eq, hseat, if_false, hin, Bool.false_eq_true]
          -- the player found is the player asked for; the seat manager holds him on his seat
          have hid : p.id = id := by
            obtain ⟨_, q, hq, hqid⟩ := findIdxAux_some id s.players 0 i hfi
            simp only [Nat.sub_zero] at hq
            rw [hp] at hq; cases hq; exact hqid
          have hg := hb.1.1.players i p hp
          have hr := seatMapGet_range s.seatMap p.seat _ hg
          rw [hb.2] at hr
          have hsm : SM.idAt s.sm p.seat = some p.id := by
            rw [ha.seats p.seat hr.1 hr.2]; exact occ_of_player s.seatMap s.players hb.1.1 i p hp
          have hu := sm_unique s hb ha
          have hms : (s.sm.maxSeat : Int) = s.cfg.maxSeat := by rw [ha.maxSeat]
          have hso : SM.seatOf s.sm id = p.seat := by
            rw [← hid]; exact SM.seatOf_eq s.sm hu p.id p.seat hr.1 (by rw [hms]; exact hr.2) hsm
          have hhas : SM.hasPlayer s.sm id = true := by
            rw [SM.hasPlayer_iff]; exact ⟨p.seat, hr.1, by rw [hms]; exact hr.2, by rw [← hid]; exact hsm⟩
          have hj : SM.join s.sm [id] =
              ({ s.sm with seats := SM.updAt s.sm.seats p.seat (fun q => { q with isIn := true }) }, .ok) := by
            unfold SM.join; simp [hhas, SM.joinSeats, hso]
          rw [hj]
          simp only
          intro q hq sq hsq hqid
          obtain ⟨j, hjq⟩ := List.mem_iff_getElem?.mp hq
          simp only [modAt, List.getElem?_modify] at hjq
          simp only [SM.updAt] at hsq
          by_cases hji : i = j
          · -- the player who sat in
            subst hji
            rw [hp] at hjq
            have hq' : q = { p with isIn := true } := by simpa using hjq.symm
            subst hq'
            simp only [if_true] at hsq
            cases hs0 : s.sm.seats p.seat with
            | none => rw [hs0] at hsq; cases hsq
            | some sp0 => rw [hs0] at hsq; cases hsq; rfl
          · -- somebody else: his seat is another seat
            simp only [hji, if_false] at hjq
            have hjq : s.players[j]? = some q := by simpa using hjq
            have hqm : q ∈ s.players := List.mem_of_getElem? hjq
            by_cases hqs : q.seat = p.seat
            · exfalso
              rw [hqs] at hsq
              simp only [if_true] at hsq
              cases hs0 : s.sm.seats p.seat with
              | none => rw [hs0] at hsq; cases hsq
              | some sp0 =>
                rw [hs0] at hsq
                have : sq.id = sp0.id := by cases hsq; rfl
                have h0 : sp0.id = p.id := by
                  unfold SM.idAt at hsm; rw [hs0] at hsm; exact Option.some.inj hsm
                have hqp : q.id = p.id := by rw [← hqid, this, h0]
                have e1 : (s.players.map (·.id))[j]? = some p.id := by simp [hjq, hqp]
                have e2 : (s.players.map (·.id))[i]? = some p.id := by simp [hp]
                exact hji (nodup_getElem?_inj _ ha.ids _ _ _ e2 e1)
            · simp only [hqs, if_false] at hsq
              exact hf q hqm sq hsq hqid

theorem joinCore_finv (s : State) (id : Nat) (h : FInv s) : FInv (joinCore s id).1 :=
  ⟨(joinCore_inv s id h.1 h.2.1).1, (joinCore_inv s id h.1 h.2.1).2, joinCore_flags s id h.1 h.2.1 h.2.2⟩

theorem foldl_joinCore_finv (ps : List Player) (s : State) (h : FInv s) :
    FInv (ps.foldl (fun acc p => (joinCore acc p.id).1) s) := by
  induction ps generalizing s with
  | nil => exact h
  | cons p t ih => exact ih _ (joinCore_finv s p.id h)

theorem FInv.of_fields {a b : State} (w : FInv b) (h1 : a.players = b.players) (h2 : a.sm = b.sm)
    (h3 : a.seatMap = b.seatMap) (h4 : a.cfg = b.cfg) : FInv a := by
  obtain ⟨wb, wa, wf⟩ := w
  refine ⟨?_, ?_, ?_⟩
  · unfold Booked at *; rw [h1, h3, h4]; exact wb
  · exact ⟨by rw [h2, h4]; exact wa.maxSeat, by rw [h2, h3, h1, h4]; exact wa.seats, by rw [h1]; exact wa.ids⟩
  · unfold FlagInv at *; rw [h1, h2]; exact wf

theorem autoJoinComplete_finv (s : State) (h : FInv s) : FInv (autoJoinComplete s) := by
  unfold autoJoinComplete
  simp only
  split
  · exact FInv.of_fields (foldl_joinCore_finv s.players s h) rfl rfl rfl rfl
  · exact foldl_joinCore_finv s.players s h

theorem join_finv (s : State) (id : Nat) (h : FInv s) : FInv (join s id).1 := by
  unfold join
  have hj := joinCore_finv s id h
  generalize joinCore s id = r at hj
  obtain ⟨s1, r1, fresh⟩ := r
  simp only at hj ⊢
  cases fresh with
  | none => exact hj
  | some i =>
    simp only
    split
    · split
      · exact autoJoinComplete_finv _ (FInv.of_fields hj rfl rfl rfl rfl)
      · exact FInv.of_fields hj rfl rfl rfl rfl
    · exact hj

theorem foldl_join_finv (ps : List Player) (s : State) (h : FInv s) :
    FInv (ps.foldl (fun acc p => (join acc p.id).1) s) := by
  induction ps generalizing s with
  | nil => exact h
  | cons p t ih => exact ih _ (join_finv s p.id h)

-- ------------------------------------------------------------------ departures only clear seats

theorem FlagInv.of_sub {ps ps' : List Player} {sm sm' : SM.State} (hsub : ∀ p ∈ ps', p ∈ ps)
    (h3 : ∀ i, sm'.seats i = sm.seats i ∨ sm'.seats i = none)
    (w : ∀ p ∈ ps, ∀ sp, sm.seats p.seat = some sp → sp.id = p.id → sp.isIn = p.isIn) :
    ∀ p ∈ ps', ∀ sp, sm'.seats p.seat = some sp → sp.id = p.id → sp.isIn = p.isIn := by
  intro p hp sp hsp hid
  rcases h3 p.seat with h | h
  · rw [h] at hsp; exact w p (hsub p hp) sp hsp hid
  · rw [h] at hsp; cases hsp

theorem remove_cases (st : SM.State) (ids : List Nat) (i : Int) :
    (SM.remove st ids).1.seats i = st.seats i ∨ (SM.remove st ids).1.seats i = none := by
  unfold SM.remove
  split
  · exact Or.inl rfl
  · exact SM.clearSeats_cases _ _ i

theorem batchRemove_flags (s : State) (ids : List Nat) (hf : FlagInv s) : FlagInv (batchRemove s ids).1 := by
  unfold batchRemove
  simp only
  split
  · exact hf
  · split
    · exact FlagInv.of_sub (fun p hp => hp) (remove_cases s.sm ids) hf
    · split
      · exact FlagInv.of_sub (fun p hp => hp) (remove_cases s.sm ids) hf
      · exact FlagInv.of_sub (fun p hp => (List.mem_filter.mp hp).1) (remove_cases s.sm ids) hf

-- ------------------------------------------------------------------ arrivals come not seated-in, on both sides

/-- whatever `batchAddPlayers` does to the seat manager — accepts, refuses and gives the fixed seats back, dies while
appending — a seat is afterwards as it was, empty, or holds a newcomer who is not seated-in -/
theorem batchAdd_f3 (s : State) (js : List Join) (ch : List Int) (i : Int) :
    SM.F3 (s.sm.seats i) ((batchAdd s js ch).1.sm.seats i) := by
  unfold batchAdd
  split
  · exact SM.F3.refl _
  · simp only
    have h1 : SM.F3 (s.sm.seats i)
        ((if (fixedMap js).isEmpty then (s.sm, SM.Res.ok) else SM.assign s.sm (fixedMap js)).1.seats i) := by
      split
      · exact SM.F3.refl _
      · exact SM.assign_f3 _ _ i
    generalize (if (fixedMap js).isEmpty then (s.sm, SM.Res.ok) else SM.assign s.sm (fixedMap js)) = r1 at h1 ⊢
    split
    · exact SM.F3.refl _
    · have h2 : SM.F3 (r1.1.seats i)
          ((if (randomIds js).isEmpty then (r1.1, SM.Res.ok) else SM.randomAssign r1.1 (randomIds js) ch).1.seats i) := by
        split
        · exact SM.F3.refl _
        · exact SM.randomAssign_f3 _ _ _ i
      generalize (if (randomIds js).isEmpty then (r1.1, SM.Res.ok) else SM.randomAssign r1.1 (randomIds js) ch) = r2 at h2 ⊢
      split
      · simp only
        split
        · exact h1
        · exact h1.trans (SM.remove_f3 _ _ i)
      · split
        · exact h1.trans h2
        · exact h1.trans h2

/-- a seat that was occupied is left exactly as it was — by the placements (they go to empty seats), and by the release of
the fixed seats when the random half is refused (it clears only what was just placed) -/
theorem batchAdd_oldKept (s : State) (js : List Join) (ch : List Int) (hl : BatchLegal s js ch)
    (i : Int) (h0 : 0 ≤ i) (hn : i < s.sm.maxSeat) (hocc : SM.idAt s.sm i ≠ none) :
    (batchAdd s js ch).1.sm.seats i = s.sm.seats i := by
  -- round 1
  have k1 : (if (fixedMap js).isEmpty then (s.sm, SM.Res.ok) else SM.assign s.sm (fixedMap js)).1.seats i = s.sm.seats i := by
    split
    · rfl
    · exact SM.assign_oldKept s.sm _ (fixedMap_pairwise_ids js) i hocc
  have hocc1 : SM.idAt (if (fixedMap js).isEmpty then (s.sm, SM.Res.ok) else SM.assign s.sm (fixedMap js)).1 i ≠ none := by
    unfold SM.idAt at hocc ⊢; rw [k1]; exact hocc
  -- round 2
  have k2 : (if (randomIds js).isEmpty then ((if (fixedMap js).isEmpty then (s.sm, SM.Res.ok) else SM.assign s.sm (fixedMap js)).1, SM.Res.ok)
      else SM.randomAssign (if (fixedMap js).isEmpty then (s.sm, SM.Res.ok) else SM.assign s.sm (fixedMap js)).1 (randomIds js) ch).1.seats i
      = s.sm.seats i := by
    split
    · exact k1
    · rename_i hne
      have hleg : SM.legalChoice (if (fixedMap js).isEmpty then (s.sm, SM.Res.ok) else SM.assign s.sm (fixedMap js)).1 (randomIds js) ch = true := by
        have := hl (by simpa using hne)
        split
        · rename_i he; simpa [he] using this
        · rename_i he; simpa [he] using this
      rw [SM.randomAssign_oldKept _ _ _ hleg i hocc1]; exact k1
  -- the release
  have k3 : (fixedMap js).isEmpty = false → (SM.assign s.sm (fixedMap js)).2 = .ok →
      (SM.remove (SM.assign s.sm (fixedMap js)).1 ((fixedMap js).map (·.1))).1.seats i = s.sm.seats i := by
    intro _ hok
    obtain ⟨f0, f1, f2, _⟩ := SM.assign_ok_facts s.sm (fixedMap js) (fixedMap_pairwise_ids js) hok
    rw [f0]
    exact SM.release_oldKept s.sm (fixedMap js) f1 f2 i h0 hn hocc
  unfold batchAdd
  split
  · rfl
  · simp only
    split
    · rfl
    · rename_i hr1
      split
      · simp only
        by_cases he : (fixedMap js).isEmpty = true
        · simp only [he, if_true]
        · simp only [he, Bool.false_eq_true, if_false] at hr1 ⊢
          exact k3 (by simpa using he) hr1
      · split
        · exact k2
        · exact k2

/-- the players `batchAddPlayers` appends: not seated-in, on a seat of the table -/
theorem appendPlayers_news (sm : SM.State) (js : List Join) (ps : List Player) (m : List Int) (ps' : List Player) (m' : List Int)
    (h : appendPlayers sm js ps m = some (ps', m')) :
    ∃ news, ps' = ps ++ news ∧ ∀ q ∈ news, q.isIn = false ∧ 0 ≤ q.seat ∧ q.seat < m.length := by
  induction js generalizing ps m with
  | nil =>
    simp only [appendPlayers, Option.some.injEq, Prod.mk.injEq] at h
    exact ⟨[], by simp [h.1], by simp⟩
  | cons j t ih =>
    simp only [appendPlayers] at h
    split at h
    · cases h
    · split at h
      · rename_i hr
        obtain ⟨news, hps, hall⟩ := ih _ _ h
        refine ⟨{ id := j.id, seat := SM.seatOf sm j.id, bankroll := j.chips } :: news, by rw [hps]; simp, ?_⟩
        intro q hq
        rcases List.mem_cons.mp hq with rfl | hq'
        · exact ⟨rfl, hr.1, hr.2⟩
        · have := hall q hq'
          simpa using this
      · cases h

theorem batchAdd_flags (s : State) (js : List Join) (ch : List Int) (hb : Booked s) (ha : Agree s) (hf : FlagInv s)
    (hl : BatchLegal s js ch) (hnp : (batchAdd s js ch).2 ≠ .panic) : FlagInv (batchAdd s js ch).1 := by
  have hms : (s.sm.maxSeat : Int) = s.cfg.maxSeat := by rw [ha.maxSeat]
  -- players listed before: their seats are untouched
  have old : ∀ p ∈ s.players, ∀ sp, (batchAdd s js ch).1.sm.seats p.seat = some sp → sp.id = p.id → sp.isIn = p.isIn := by
    intro p hp sp hsp hid
    obtain ⟨i, hi⟩ := List.mem_iff_getElem?.mp hp
    have hg := hb.1.1.players i p hi
    have hr := seatMapGet_range s.seatMap p.seat _ hg
    rw [hb.2] at hr
    have hsm : SM.idAt s.sm p.seat = some p.id := by
      rw [ha.seats p.seat hr.1 hr.2]; exact occ_of_player s.seatMap s.players hb.1.1 i p hi
    rw [batchAdd_oldKept s js ch hl p.seat hr.1 (by rw [hms]; exact hr.2) (by rw [hsm]; exact fun h => by cases h)] at hsp
    exact hf p hp sp hsp hid
  by_cases hok : (batchAdd s js ch).2 = .ok
  · -- accepted: the list is the old one followed by the newcomers
    have ha' := batchAdd_agree s js ch hb ha hl hnp
    have hnews : ∃ news, (batchAdd s js ch).1.players = s.players ++ news ∧
        ∀ q ∈ news, q.isIn = false ∧ 0 ≤ q.seat ∧ q.seat < s.seatMap.length := by
      rcases batchAdd_shape s js ch with ⟨_, _, hno⟩ | ⟨ps, m, hap, hps, _, _⟩
      · exact absurd hok hno
      · rw [hps]; exact appendPlayers_news _ js s.players s.seatMap ps m hap
    obtain ⟨news, hps, hall⟩ := hnews
    intro q hq sq hsq hqid
    rw [hps] at hq
    rcases List.mem_append.mp hq with hq | hq
    · exact old q hq sq hsq hqid
    · obtain ⟨hin, hq0, hqn⟩ := hall q hq
      rw [hin]
      rcases batchAdd_f3 s js ch q.seat with h | h | ⟨sp, h, hsp⟩
      · -- the seat as it was: then somebody listed before has this id, and the new list names it twice
        exfalso
        rw [h] at hsq
        rw [hb.2] at hqn
        have hocc : occId s.seatMap s.players q.seat = some q.id := by
          rw [← ha.seats q.seat hq0 hqn]; unfold SM.idAt; rw [hsq]; simp [hqid]
        obtain ⟨k, p0, hp0, _, hp0id⟩ := player_of_occ _ _ hb.1.1 q.seat q.id hocc
        have hnd := ha'.ids
        rw [hps, List.map_append, List.nodup_append] at hnd
        exact hnd.2.2 p0.id (List.mem_map_of_mem (List.mem_of_getElem? hp0)) q.id (List.mem_map_of_mem hq) hp0id
      · rw [h] at hsq; cases hsq
      · rw [h] at hsq; cases hsq; exact hsp
  · -- refused: the list is the old one
    have hu := sm_unique s hb ha
    have hpl : (batchAdd s js ch).1.players = s.players := (batchAdd_err_fields s js ch hu hok hnp).2.2.2.1
    intro q hq
    rw [hpl] at hq
    exact old q hq

-- ------------------------------------------------------------------ every event, every history

/-- **one event** keeps the seated-in flags of table and seat manager together -/
theorem step_flags (s : State) (e : Event) (h : Inv s) (hf : FlagInv s) (hl : EventLegal s e) : FlagInv (step s e) := by
  obtain ⟨hb, ha⟩ := h
  cases e with
  | reserve j ch =>
    show FlagInv (reserve s j ch).1
    cases hfi : findPlayerIdx s j.id with
    | some i => exact FlagInv.of_quiet (qf_reserve_known s j ch i hfi) hf
    | none =>
      have hbl := hl hfi
      have hnp := batchAdd_no_panic s [j] ch hb ha hbl
      unfold reserve
      rw [hfi]
      simp only
      split
      · exact hf
      · exact batchAdd_flags s [j] ch hb ha hf hbl hnp
  | join id => exact (join_finv s id ⟨hb, ha, hf⟩).2.2
  | redeem id c => exact FlagInv.of_quiet (qf_redeem s id c) hf
  | leave ids => exact batchRemove_flags s ids hf
  | update js lv ch =>
    show FlagInv (update s js lv ch).1
    obtain ⟨hp, hbl⟩ := hl
    unfold update
    simp only
    by_cases he : lv.isEmpty = true
    · simp only [he, if_true] at hbl ⊢
      split
      · exact hf
      · exact batchAdd_flags s js ch hb ha hf hbl (batchAdd_no_panic s js ch hb ha hbl)
    · simp only [he, Bool.false_eq_true, if_false] at hbl ⊢
      have hp' := hp (by simpa using he)
      have hb1 := batchRemove_booked s lv hb
      have ha1 := batchRemove_agree s lv hb ha hp'
      have hf1 := batchRemove_flags s lv hf
      split
      · split
        · exact hf1
        · exact batchAdd_flags _ js ch hb1 ha1 hf1 hbl (batchAdd_no_panic _ js ch hb1 ha1 hbl)
      · exact hf1
  | blind b => exact hf
  | pause => exact hf
  | close => exact hf
  | release => exact hf
  | start => exact hf
  | setup gc ps => exact hf
  | finish id => exact FlagInv.of_quiet (qf_finish s id) hf
  | autojoin => exact (foldl_join_finv s.players s ⟨hb, ha, hf⟩).2.2
  | fire ch ok => exact FlagInv.of_quiet (qf_gateFire s ch ok) hf
  | retry ch ok => exact FlagInv.of_quiet (qf_retryOpen s ch ok) hf
  | settle r => exact FlagInv.of_quiet (qf_settle s r) hf
  | «continue» ex => exact FlagInv.of_quiet (qf_continueGame s ex) hf
  | contReset => exact FlagInv.of_quiet (qf_continueGame s true) hf
  | tick ex => exact FlagInv.of_quiet (qf_nextMove s ex) hf

/-- the books of `C03_for_every_history` together with the flags -/
def Inv4 (s : State) : Prop := Inv3 s ∧ FlagInv s

theorem step_inv4 (s : State) (e : Event) (h : Inv4 s) (hd : DrawLegal s e) : Inv4 (step s e) :=
  ⟨step_inv3 s e h.1 hd, step_flags s e ⟨h.1.1, h.1.2.1⟩ h.2 (eventLegal_of_draw s e h.1 hd)⟩

theorem run_inv4 (s : State) (evs : List Event) (h : Inv4 s) (hd : DrawsLegal s evs) : Inv4 (run s evs) := by
  induction evs generalizing s with
  | nil => exact h
  | cons e t ih =>
    show Inv4 (run (step s e) t)
    exact ih (step s e) (step_inv4 s e h hd.1) hd.2

theorem create_flags (cfg : Meta) (b : Blind) : FlagInv (create cfg b) := by
  intro p hp
  simp [create] at hp

theorem create_inv4 (cfg : Meta) (b : Blind) : Inv4 (create cfg b) := ⟨create_inv3 cfg b, create_flags cfg b⟩

end TB
