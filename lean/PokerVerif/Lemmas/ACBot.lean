import PokerVerif.AC
/-! Helper lemmas for C18: what `GetAvailableActions` implies, and inversion of the bot's move set. -/
namespace AC
open HD

theorem raise_available (v : View) (p : PView) (h : "raise" ∈ PF.available v p) :
    p.stack ≠ 0 ∧ ((p.wager < v.wager ∧ p.init > v.wager ∧ p.init > v.wager + v.prev) ∨
                    (¬ p.wager < v.wager ∧ p.init ≥ v.mini ∧ v.wager ≠ 0)) := by
  unfold PF.available at h
  by_cases hf : p.fold = true
  · simp [hf] at h
  · by_cases hs : (p.stack == 0) = true
    · simp [hf, hs] at h
    · have hs' : p.stack ≠ 0 := by simpa using hs
      refine ⟨hs', ?_⟩
      simp only [hf, hs, Bool.false_eq_true, if_false] at h
      by_cases hw : p.wager < v.wager
      · simp only [hw, if_true] at h
        by_cases hc : p.init > v.wager
        · by_cases hr : p.init > v.wager + v.prev
          · exact Or.inl ⟨hw, hc, hr⟩
          · simp [hc, hr] at h
        · simp [hc] at h
      · simp only [hw, if_false] at h
        by_cases hm : p.init ≥ v.mini
        · by_cases h0 : (v.wager == 0) = true
          · simp [hm, h0] at h
          · exact Or.inr ⟨hw, hm, by simpa using h0⟩
        · simp [hm] at h

theorem bet_available (v : View) (p : PView) (h : "bet" ∈ PF.available v p) :
    p.stack ≠ 0 ∧ ¬ p.wager < v.wager ∧ p.init ≥ v.mini ∧ v.wager = 0 := by
  unfold PF.available at h
  by_cases hf : p.fold = true
  · simp [hf] at h
  · by_cases hs : (p.stack == 0) = true
    · simp [hf, hs] at h
    · have hs' : p.stack ≠ 0 := by simpa using hs
      simp only [hf, hs, Bool.false_eq_true, if_false] at h
      by_cases hw : p.wager < v.wager
      · simp only [hw, if_true] at h
        by_cases hc : p.init > v.wager
        · by_cases hr : p.init > v.wager + v.prev <;> simp [hc, hr] at h
        · simp [hc] at h
      · simp only [hw, if_false] at h
        by_cases hm : p.init ≥ v.mini
        · by_cases h0 : (v.wager == 0) = true
          · exact ⟨hs', hw, hm, by simpa using h0⟩
          · simp [hm, h0] at h
        · simp [hm] at h
end AC

namespace AC
open HD
theorem aiMoves_raise (v : View) (p : PView) (lo hi : Int) (h : Move.raise lo hi ∈ aiMoves v p) :
    "raise" ∈ p.allowed ∧ ((p.init ≤ v.wager + v.prev ∧ lo = p.init ∧ hi = p.init) ∨
                           (¬ p.init ≤ v.wager + v.prev ∧ lo = v.wager + v.prev ∧ hi = p.init - 1)) := by
  unfold aiMoves at h
  simp only [List.mem_map] at h
  obtain ⟨a, ha, hm⟩ := h
  by_cases h1 : (a == "bet") = true
  · simp only [h1, if_true] at hm; split at hm <;> simp at hm
  · simp only [h1, Bool.false_eq_true, if_false] at hm
    by_cases h2 : (a == "raise") = true
    · have : a = "raise" := by simpa using h2
      subst this
      simp only [beq_self_eq_true, if_true] at hm
      refine ⟨ha, ?_⟩
      by_cases hc : p.init ≤ v.wager + v.prev
      · simp only [hc, if_true] at hm
        injection hm with e1 e2
        exact Or.inl ⟨hc, e1.symm, e2.symm⟩
      · simp only [hc, if_false] at hm
        injection hm with e1 e2
        exact Or.inr ⟨hc, e1.symm, e2.symm⟩
    · simp only [h2, Bool.false_eq_true, if_false] at hm
      repeat (first | (split at hm) | (simp at hm))

theorem aiMoves_bet (v : View) (p : PView) (lo hi : Int) (h : Move.bet lo hi ∈ aiMoves v p) :
    "bet" ∈ p.allowed ∧ ((p.init ≤ v.mini ∧ lo = p.init ∧ hi = p.init) ∨ (¬ p.init ≤ v.mini ∧ lo = v.mini ∧ hi = p.init - 1)) := by
  unfold aiMoves at h
  simp only [List.mem_map] at h
  obtain ⟨a, ha, hm⟩ := h
  by_cases h1 : (a == "bet") = true
  · have : a = "bet" := by simpa using h1
    subst this
    simp only [beq_self_eq_true, if_true] at hm
    refine ⟨ha, ?_⟩
    by_cases hc : p.init ≤ v.mini
    · simp only [hc, if_true] at hm
      injection hm with e1 e2
      exact Or.inl ⟨hc, e1.symm, e2.symm⟩
    · simp only [hc, if_false] at hm
      injection hm with e1 e2
      exact Or.inr ⟨hc, e1.symm, e2.symm⟩
  · simp only [h1, Bool.false_eq_true, if_false] at hm
    repeat (first | (split at hm) | (simp at hm))

/-- every modelled move is of a kind the hand allows the player -/
theorem aiMoves_kind (v : View) (p : PView) (hk : ∀ a ∈ p.allowed, a ∈ wagerKinds) (m : Move) (h : m ∈ aiMoves v p) :
    m.kind ∈ p.allowed := by
  unfold aiMoves at h
  simp only [List.mem_map] at h
  obtain ⟨a, ha, hm⟩ := h
  have hw := hk a ha
  unfold wagerKinds at hw
  simp at hw
  rcases hw with rfl | rfl | rfl | rfl | rfl | rfl <;> simp at hm
  · rw [← hm]; exact ha
  · rw [← hm]; exact ha
  · rw [← hm]; exact ha
  · rw [← hm]; exact ha
  · split at hm <;> (rw [← hm]; exact ha)
  · split at hm <;> (rw [← hm]; exact ha)
end AC
