import PokerVerif.Lemmas.SMReach
/-!
# Who sits where in the seat manager: `seatOf`, uniqueness of ids, what each mutator does to the occupants

`idAt st i` is the id of the occupant of seat `i` (if any).  `IdsUnique st`: no id sits on two seats of the table.
Under it `seatOf st id` is *the* seat of `id`.  Arrivals on empty seats with fresh, pairwise different ids keep it;
so do departures; sit-ins, has-chips updates and the button operations do not change the occupants at all.
-/
namespace SM

def idAt (st : State) (i : Int) : Option Nat := (st.seats i).map (·.id)

/-- the predicate `seatOf` scans with, in terms of `idAt` -/
theorem seatOf_pred (st : State) (id : Nat) (i : Int) :
    (match st.seats i with | some p => p.id == id | none => false) = (idAt st i == some id) := by
  unfold idAt
  cases st.seats i with
  | none => rfl
  | some p => simp

/-- no id sits on two seats of the table -/
def IdsUnique (st : State) : Prop :=
  ∀ (i j : Int) (x : Nat), 0 ≤ i → i < st.maxSeat → 0 ≤ j → j < st.maxSeat → idAt st i = some x → idAt st j = some x → i = j

theorem seatOf_found (st : State) (id : Nat) (h : seatOf st id ≠ -1) :
    0 ≤ seatOf st id ∧ seatOf st id < st.maxSeat ∧ idAt st (seatOf st id) = some id := by
  obtain ⟨i, _, hi, hr, hp, _⟩ := scan_found (fun i => (i : Int))
    (fun i => match st.seats i with | some p => p.id == id | none => false) st.maxSeat 0 (seatOf st id) rfl h
  have hr' : seatOf st id = (i : Int) := hr
  have hp' : (idAt st (seatOf st id) == some id) = true := by rw [← seatOf_pred]; exact hp
  refine ⟨by omega, by omega, by simpa using hp'⟩

theorem seatOf_none (st : State) (id : Nat) (h : seatOf st id = -1) (i : Int) (h0 : 0 ≤ i) (hn : i < st.maxSeat) :
    idAt st i ≠ some id := by
  intro hid
  have : seatOf st id ≠ -1 := by
    unfold seatOf firstSeat
    apply scan_ne_of_hit _ _ _ _ (fun k _ _ => by simp) i.toNat (by omega) (by omega)
    have hc : ((i.toNat : Nat) : Int) = i := by omega
    show (match st.seats ((i.toNat : Nat) : Int) with | some p => p.id == id | none => false) = true
    rw [hc, seatOf_pred, hid]; simp
  exact this h

/-- under uniqueness `seatOf` is the seat of the id -/
theorem seatOf_eq (st : State) (hu : IdsUnique st) (id : Nat) (i : Int) (h0 : 0 ≤ i) (hn : i < st.maxSeat)
    (hid : idAt st i = some id) : seatOf st id = i := by
  have hne : seatOf st id ≠ -1 := fun h => seatOf_none st id h i h0 hn hid
  obtain ⟨r0, rn, rid⟩ := seatOf_found st id hne
  exact hu _ _ id r0 rn h0 hn rid hid

theorem hasPlayer_iff (st : State) (id : Nat) :
    hasPlayer st id = true ↔ ∃ i : Int, 0 ≤ i ∧ i < st.maxSeat ∧ idAt st i = some id := by
  unfold hasPlayer
  constructor
  · intro h
    have hne : seatOf st id ≠ -1 := by simpa using h
    exact ⟨seatOf st id, seatOf_found st id hne⟩
  · rintro ⟨i, h0, hn, hid⟩
    have : seatOf st id ≠ -1 := fun h => seatOf_none st id h i h0 hn hid
    simpa using this

theorem pairwise_inj {α β : Type} (f : α → β) (l : List α) (h : l.Pairwise (fun a c => f a ≠ f c)) :
    ∀ a ∈ l, ∀ c ∈ l, f a = f c → a = c := by
  induction l with
  | nil => intro a ha; cases ha
  | cons x t ih =>
    have hp := List.pairwise_cons.mp h
    intro a ha c hc hf
    rcases List.mem_cons.mp ha with rfl | ha'
    · rcases List.mem_cons.mp hc with rfl | hc'
      · rfl
      · exact absurd hf (hp.1 c hc')
    · rcases List.mem_cons.mp hc with rfl | hc'
      · exact absurd hf.symm (hp.1 a ha')
      · exact ih hp.2 a ha' c hc' hf

-- ------------------------------------------------------------------ placements

theorem place_self_id (st : State) (id : Nat) (seat : Int) : idAt (place st id seat) seat = some id := by
  unfold idAt place setSeat newSeatPlayer; simp

theorem place_other_id (st : State) (id : Nat) (seat i : Int) (h : i ≠ seat) : idAt (place st id seat) i = idAt st i := by
  unfold idAt; rw [place_other st id seat i h]

theorem place_maxSeat (st : State) (id : Nat) (seat : Int) : (place st id seat).maxSeat = st.maxSeat := (place_meta st id seat).1

theorem placeAll_maxSeat (st : State) (b : List (Nat × Int)) : (placeAll st b).maxSeat = st.maxSeat :=
  (placeAll_buttons st b).maxSeat

/-- what a batch of placements on pairwise different seats does to the occupants -/
theorem placeAll_id (st : State) (b : List (Nat × Int)) (hp : b.Pairwise (fun a c => a.2 ≠ c.2)) (i : Int) :
    idAt (placeAll st b) i = (match b.find? (fun e => e.2 == i) with | some e => some e.1 | none => idAt st i) := by
  induction b generalizing st with
  | nil => rfl
  | cons e t ih =>
    obtain ⟨id, seat⟩ := e
    have hp2 := List.pairwise_cons.mp hp
    simp only [placeAll, List.find?_cons]
    rw [ih (place st id seat) hp2.2]
    by_cases hs : seat = i
    · subst hs
      have hnone : t.find? (fun e => e.2 == seat) = none := by
        rw [List.find?_eq_none]
        intro x hx
        have := hp2.1 x hx
        simp only [beq_iff_eq]
        exact fun h => this h.symm
      simp [hnone, place_self_id]
    · have hb : ((seat == i) = false) := by simpa using hs
      simp only [hb]
      cases hf : t.find? (fun e => e.2 == i) with
      | some x => rfl
      | none => simp only; exact place_other_id st id seat i (fun h => hs h.symm)

/-- placements of fresh, pairwise different ids on pairwise different seats keep the ids unique -/
theorem placeAll_unique (st : State) (b : List (Nat × Int)) (hu : IdsUnique st)
    (hseats : b.Pairwise (fun a c => a.2 ≠ c.2)) (hids : b.Pairwise (fun a c => a.1 ≠ c.1))
    (hfresh : ∀ e ∈ b, ∀ i : Int, 0 ≤ i → i < st.maxSeat → idAt st i ≠ some e.1) : IdsUnique (placeAll st b) := by
  intro i j x hi0 hin hj0 hjn hxi hxj
  rw [placeAll_maxSeat] at hin hjn
  rw [placeAll_id st b hseats] at hxi hxj
  cases hfi : b.find? (fun e => e.2 == i) with
  | some ei =>
    rw [hfi] at hxi
    have hmi := List.mem_of_find?_eq_some hfi
    have hsi : ei.2 = i := by simpa using List.find?_some hfi
    have hxi' : ei.1 = x := Option.some.inj hxi
    cases hfj : b.find? (fun e => e.2 == j) with
    | some ej =>
      rw [hfj] at hxj
      have hmj := List.mem_of_find?_eq_some hfj
      have hsj : ej.2 = j := by simpa using List.find?_some hfj
      have hxj' : ej.1 = x := Option.some.inj hxj
      -- same id in the batch ⇒ same entry
      have he : ei = ej := pairwise_inj (·.1) b hids ei hmi ej hmj (hxi'.trans hxj'.symm)
      rw [← hsi, ← hsj, he]
    | none =>
      rw [hfj] at hxj
      exact absurd hxj (by rw [← hxi']; exact hfresh ei hmi j hj0 hjn)
  | none =>
    rw [hfi] at hxi
    cases hfj : b.find? (fun e => e.2 == j) with
    | some ej =>
      rw [hfj] at hxj
      have hmj := List.mem_of_find?_eq_some hfj
      have hxj' : ej.1 = x := Option.some.inj hxj
      exact absurd hxi (by rw [← hxj']; exact hfresh ej hmj i hi0 hin)
    | none =>
      rw [hfj] at hxj
      exact hu i j x hi0 hin hj0 hjn hxi hxj

theorem clearSeats_other (s : Seats) (ks : List Int) (j : Int) (h : j ∉ ks) : clearSeats s ks j = s j := by
  induction ks generalizing s with
  | nil => rfl
  | cons k t ih =>
    simp only [clearSeats]
    rw [ih _ (fun hm => h (List.mem_cons_of_mem _ hm))]
    unfold setSeat
    have : j ≠ k := fun e => h (by rw [e]; exact List.mem_cons_self)
    simp [this]

theorem clearSeats_mem (s : Seats) (ks : List Int) (j : Int) (h : j ∈ ks) : clearSeats s ks j = none := by
  induction ks generalizing s with
  | nil => simp at h
  | cons k t ih =>
    simp only [clearSeats]
    by_cases hj : j ∈ t
    · exact ih _ hj
    · have hk : j = k := by
        rcases List.mem_cons.mp h with h1 | h1
        · exact h1
        · exact absurd h1 hj
      rw [clearSeats_other _ _ _ hj]
      unfold setSeat; simp [hk]


-- ------------------------------------------------------------------ what the mutators do to the occupants

theorem updAt_id (s : Seats) (k : Int) (f : SeatPlayer → SeatPlayer) (hf : ∀ p, (f p).id = p.id) (i : Int) :
    ((updAt s k f) i).map (·.id) = (s i).map (·.id) := by
  unfold updAt
  by_cases h : i = k
  · simp only [h, if_true]; cases s k <;> simp [hf]
  · simp [h]

theorem joinSeats_id (s : Seats) (ks : List Int) (i : Int) : ((joinSeats s ks) i).map (·.id) = (s i).map (·.id) := by
  induction ks generalizing s with
  | nil => rfl
  | cons k t ih =>
    simp only [joinSeats]; rw [ih]
    exact updAt_id s k (fun p => { p with isIn := true }) (fun _ => rfl) i

theorem join_id (st : State) (ids : List Nat) (i : Int) : idAt (join st ids).1 i = idAt st i := by
  unfold join idAt; split
  · rfl
  · exact joinSeats_id _ _ i

theorem setChips_id (st : State) (id : Nat) (b : Bool) (i : Int) : idAt (setChips st id b).1 i = idAt st i := by
  unfold setChips idAt; split
  · rfl
  · exact updAt_id st.seats (seatOf st id) (fun p => { p with hasChips := b }) (fun _ => rfl) i

theorem reflag_id (n : Nat) (d b : Int) (s : Seats) (i : Int) : ((reflag n d b s) i).map (·.id) = (s i).map (·.id) := by
  unfold reflag
  cases s i with
  | none => rfl
  | some p => simp only; split <;> rfl

theorem rotateDefault_id (st : State) (i : Int) : idAt (rotateDefault st).1 i = idAt st i := by
  unfold idAt
  rcases Nat.lt_or_ge (activeCount st.maxSeat (seats1 st)) 2 with hlt | hge
  · rw [rotate_refused st hlt]; exact reflag_id _ _ _ _ i
  · rcases Nat.eq_or_lt_of_le hge with heq | hgt
    · rw [rotate_hu st heq.symm]; exact reflag_id _ _ _ _ i
    · cases hu : isHU st
      · rw [rotate_ring st hgt hu]; exact reflag_id _ _ _ _ i
      · rw [rotate_ring_hu st hgt hu]
        show ((reflag _ _ _ (seats1 st)) i).map (·.id) = _
        rw [reflag_id]; exact reflag_id _ _ _ _ i

theorem rotate_id (st : State) (i : Int) : idAt (rotate st).1 i = idAt st i := by
  unfold rotate
  split
  · rfl
  · split
    · exact rotateDefault_id st i
    · split
      · unfold rotateShort; split <;> rfl
      · rfl

theorem init_id (st : State) (c : Option Int) (i : Int) : idAt (init st c).1 i = idAt st i := by
  simp only [init]
  repeat' split
  all_goals rfl

theorem rotate_maxSeat (st : State) : (rotate st).1.maxSeat = st.maxSeat := by
  unfold rotate
  split
  · rfl
  · split
    · exact (rotateDefault_meta st).2.2
    · split
      · unfold rotateShort; split <;> rfl
      · rfl

theorem init_maxSeat (st : State) (c : Option Int) : (init st c).1.maxSeat = st.maxSeat := by
  simp only [init]
  repeat' split
  all_goals rfl

-- ------------------------------------------------------------------ departures

theorem remove_id (st : State) (ids : List Nat) (hok : (remove st ids).2 = .ok) (i : Int) :
    idAt (remove st ids).1 i = if i ∈ ids.map (seatOf st) then none else idAt st i := by
  unfold remove at hok ⊢
  split
  · rename_i h; simp [h] at hok
  · unfold idAt
    simp only
    by_cases hm : i ∈ ids.map (seatOf st)
    · simp only [hm, if_true]; rw [clearSeats_mem _ _ _ hm]; rfl
    · simp only [hm, if_false]; rw [clearSeats_other _ _ _ hm]

theorem remove_present (st : State) (ids : List Nat) (hok : (remove st ids).2 = .ok) : ∀ x ∈ ids, hasPlayer st x = true := by
  unfold remove at hok
  split at hok
  · cases hok
  · rename_i h
    intro x hx
    have : (ids.any fun id => !(hasPlayer st id)) = false := by simpa using h
    have := List.any_eq_false.mp this x hx
    simpa using this

/-- a cleared seat is exactly a seat of somebody who left -/
theorem remove_cleared_iff (st : State) (hu : IdsUnique st) (ids : List Nat) (hok : (remove st ids).2 = .ok)
    (i : Int) (h0 : 0 ≤ i) (hn : i < st.maxSeat) :
    i ∈ ids.map (seatOf st) ↔ ∃ x ∈ ids, idAt st i = some x := by
  constructor
  · intro hm
    obtain ⟨x, hx, hxe⟩ := List.mem_map.mp hm
    have hp := remove_present st ids hok x hx
    have hne : seatOf st x ≠ -1 := by unfold hasPlayer at hp; simpa using hp
    obtain ⟨_, _, hid⟩ := seatOf_found st x hne
    exact ⟨x, hx, by rw [← hxe]; exact hid⟩
  · rintro ⟨x, hx, hid⟩
    exact List.mem_map.mpr ⟨x, hx, seatOf_eq st hu x i h0 hn hid⟩

theorem remove_maxSeat (st : State) (ids : List Nat) : (remove st ids).1.maxSeat = st.maxSeat := (remove_buttons st ids).maxSeat

theorem remove_unique (st : State) (hu : IdsUnique st) (ids : List Nat) (hok : (remove st ids).2 = .ok) :
    IdsUnique (remove st ids).1 := by
  intro i j x hi0 hin hj0 hjn hxi hxj
  rw [remove_maxSeat] at hin hjn
  rw [remove_id st ids hok] at hxi hxj
  split at hxi
  · cases hxi
  · split at hxj
    · cases hxj
    · exact hu i j x hi0 hin hj0 hjn hxi hxj

-- ------------------------------------------------------------------ arrivals

/-- a fresh id is on no seat -/
theorem fresh_nowhere (st : State) (id : Nat) (h : hasPlayer st id = false) (i : Int) (h0 : 0 ≤ i) (hn : i < st.maxSeat) :
    idAt st i ≠ some id := by
  have : seatOf st id = -1 := by unfold hasPlayer at h; simpa using h
  exact seatOf_none st id this i h0 hn

theorem inRange_iff (st : State) (i : Int) : inRange st i = true ↔ 0 ≤ i ∧ i < st.maxSeat := by
  unfold inRange; simp

/-- an accepted fixed-seat batch (pairwise different ids): every target is a seat of the table that was empty, the
targets are pairwise different, nobody of the batch was at the table -/
theorem assign_ok_facts (st : State) (b : List (Nat × Int)) (hids : b.Pairwise (fun a c => a.1 ≠ c.1))
    (h : (assign st b).2 = .ok) :
    (assign st b).1 = placeAll st b ∧
    (∀ e ∈ b, 0 ≤ e.2 ∧ e.2 < st.maxSeat ∧ idAt st e.2 = none) ∧
    (∀ e ∈ b, ∀ i : Int, 0 ≤ i → i < st.maxSeat → idAt st i ≠ some e.1) ∧
    b.Pairwise (fun a c => a.2 ≠ c.2) := by
  obtain ⟨ht, hfresh, heq⟩ := assign_ok_targets st b h
  have hnow : ∀ e ∈ b, ∀ i : Int, 0 ≤ i → i < st.maxSeat → idAt st i ≠ some e.1 :=
    fun e he i h0 hn => fresh_nowhere st e.1 (hfresh e he) i h0 hn
  have hempty : ∀ e ∈ b, 0 ≤ e.2 ∧ e.2 < st.maxSeat ∧ idAt st e.2 = none := by
    intro e he
    obtain ⟨hin, hocc⟩ := ht e he
    have hr := (inRange_iff st e.2).mp hin
    refine ⟨hr.1, hr.2, ?_⟩
    unfold occupiedByOther seatAt at hocc
    simp only [hin, if_true] at hocc
    cases hs : st.seats e.2 with
    | none => unfold idAt; rw [hs]; rfl
    | some p =>
      rw [hs] at hocc
      have hid : p.id = e.1 := by simpa using hocc
      exact absurd (by unfold idAt; rw [hs]; simp [hid]) (hnow e he e.2 hr.1 hr.2)
  refine ⟨heq, hempty, hnow, ?_⟩
  -- no two entries share a seat: the `dupSeats` test of the batch was negative
  have hdup : (b.any fun e1 => b.any fun e2 =>
      e1.1 != e2.1 && e1.2 == e2.2 && inRange st e1.2 && !(occupiedByOther st e1.1 e1.2)) = false := by
    unfold assign at h
    by_cases c1 : emptyCount st.maxSeat st.seats < b.length
    · simp [c1] at h
    · by_cases c2 : (!(assignLoopErrs st b).isEmpty) = true
      · simp [c1, c2] at h
      · have hemp : assignLoopErrs st b = [] := by simpa using c2
        unfold assignLoopErrs at hemp
        simp only [List.append_eq_nil_iff] at hemp
        obtain ⟨_, h3⟩ := hemp
        by_cases hc : (b.any fun e1 => b.any fun e2 =>
            e1.1 != e2.1 && e1.2 == e2.2 && inRange st e1.2 && !(occupiedByOther st e1.1 e1.2)) = true
        · simp [hc] at h3
        · simpa using hc
  refine List.Pairwise.imp_of_mem ?_ hids
  intro a c ha hc hne heq2
  have h1 := List.any_eq_false.mp hdup a ha
  have h1' : (b.any fun e2 => a.1 != e2.1 && a.2 == e2.2 && inRange st a.2 && !(occupiedByOther st a.1 a.2)) = false := by
    simpa using h1
  have h2 := List.any_eq_false.mp h1' c hc
  obtain ⟨hin, hocc⟩ := ht a ha
  simp [hne, heq2, hocc] at h2
  rw [← heq2] at h2
  rw [hin] at h2
  have := h2 rfl
  rw [hocc] at this; cases this

theorem allDistinct_pairwise (l : List Nat) (h : allDistinct l = true) : l.Pairwise (· ≠ ·) := by
  induction l with
  | nil => exact List.Pairwise.nil
  | cons x t ih =>
    unfold allDistinct at h
    simp only [Bool.and_eq_true, Bool.not_eq_true'] at h
    refine List.pairwise_cons.mpr ⟨?_, ih h.2⟩
    intro y hy hxy
    have : t.contains x = true := by rw [hxy]; simpa using hy
    rw [this] at h; exact absurd h.1 (by simp)

theorem allDistinctI_pairwise (l : List Int) (h : allDistinctI l = true) : l.Pairwise (· ≠ ·) := by
  induction l with
  | nil => exact List.Pairwise.nil
  | cons x t ih =>
    unfold allDistinctI at h
    simp only [Bool.and_eq_true, Bool.not_eq_true'] at h
    refine List.pairwise_cons.mpr ⟨?_, ih h.2⟩
    intro y hy hxy
    have : t.contains x = true := by rw [hxy]; simpa using hy
    rw [this] at h; exact absurd h.1 (by simp)

theorem zip_pairwise_snd {α β : Type} (l1 : List α) (l2 : List β) (h : l2.Pairwise (· ≠ ·)) :
    (l1.zip l2).Pairwise (fun a c => a.2 ≠ c.2) := by
  induction l1 generalizing l2 with
  | nil => simp
  | cons x t ih =>
    cases l2 with
    | nil => simp
    | cons y u =>
      have hp := List.pairwise_cons.mp h
      simp only [List.zip_cons_cons]
      refine List.pairwise_cons.mpr ⟨?_, ih u hp.2⟩
      intro e he
      exact hp.1 e.2 (List.of_mem_zip he).2

theorem zip_pairwise_fst {α β : Type} (l1 : List α) (l2 : List β) (h : l1.Pairwise (· ≠ ·)) :
    (l1.zip l2).Pairwise (fun a c => a.1 ≠ c.1) := by
  induction l1 generalizing l2 with
  | nil => simp
  | cons x t ih =>
    cases l2 with
    | nil => simp
    | cons y u =>
      have hp := List.pairwise_cons.mp h
      simp only [List.zip_cons_cons]
      refine List.pairwise_cons.mpr ⟨?_, ih u hp.2⟩
      intro e he
      exact hp.1 e.1 (List.of_mem_zip he).1

/-- an accepted random-seat batch whose recorded draw is legal: the same four facts -/
theorem randomAssign_ok_facts (st : State) (ids : List Nat) (ch : List Int) (hl : legalChoice st ids ch = true)
    (h : (randomAssign st ids ch).2 = .ok) :
    (randomAssign st ids ch).1 = placeAll st (ids.zip ch) ∧
    (∀ e ∈ ids.zip ch, 0 ≤ e.2 ∧ e.2 < st.maxSeat ∧ idAt st e.2 = none) ∧
    (∀ e ∈ ids.zip ch, ∀ i : Int, 0 ≤ i → i < st.maxSeat → idAt st i ≠ some e.1) ∧
    (ids.zip ch).Pairwise (fun a c => a.2 ≠ c.2) ∧ (ids.zip ch).Pairwise (fun a c => a.1 ≠ c.1) ∧
    ch.length = ids.length := by
  unfold legalChoice at hl
  simp only [Bool.and_eq_true, beq_iff_eq] at hl
  obtain ⟨⟨hlen, hdist⟩, hall⟩ := hl
  unfold randomAssign at h ⊢
  by_cases c1 : (ids.any (fun id => hasPlayer st id) || !(allDistinct ids)) = true
  · simp [c1] at h
  · simp only [c1, Bool.false_eq_true, if_false] at h ⊢
    by_cases c2 : emptyCount st.maxSeat st.seats < ids.length
    · simp [c2] at h
    · simp only [c2, if_false]
      have c1' : ids.any (fun id => hasPlayer st id) = false ∧ allDistinct ids = true := by
        simp only [Bool.or_eq_true, Bool.not_eq_true', not_or, Bool.not_eq_true, Bool.not_eq_false] at c1
        exact c1
      refine ⟨trivial, ?_, ?_, zip_pairwise_snd ids ch (allDistinctI_pairwise ch hdist),
        zip_pairwise_fst ids ch (allDistinct_pairwise ids c1'.2), hlen⟩
      · intro e he
        have hm := (List.of_mem_zip he).2
        have := List.all_eq_true.mp hall e.2 hm
        simp only [Bool.and_eq_true, Bool.not_eq_true'] at this
        have hr := (inRange_iff st e.2).mp this.1
        refine ⟨hr.1, hr.2, ?_⟩
        unfold occupiedAt at this
        unfold idAt
        cases hs : st.seats e.2 with
        | none => rfl
        | some p => rw [hs] at this; simp at this
      · intro e he i h0 hn
        have hm := (List.of_mem_zip he).1
        have := List.any_eq_false.mp c1'.1 e.1 hm
        exact fresh_nowhere st e.1 (by simpa using this) i h0 hn

/-- after placements on pairwise different seats every entry's seat holds its id -/
theorem placeAll_at (st : State) (b : List (Nat × Int)) (hs : b.Pairwise (fun a c => a.2 ≠ c.2)) :
    ∀ e ∈ b, idAt (placeAll st b) e.2 = some e.1 := by
  intro e he
  rw [placeAll_id st b hs]
  have : b.find? (fun x => x.2 == e.2) = some e := by
    cases hf : b.find? (fun x => x.2 == e.2) with
    | none =>
      rw [List.find?_eq_none] at hf
      exact absurd (by simp) (hf e he)
    | some x =>
      have hx := List.mem_of_find?_eq_some hf
      have hxs : x.2 = e.2 := by simpa using List.find?_some hf
      rw [pairwise_inj (·.2) b hs x hx e he hxs]
  rw [this]

/-- taking a just-placed batch out again (the release of the fixed seats of a refused `batchAddPlayers`) gives back the
occupants there were -/
theorem release_restores (st : State) (hu : IdsUnique st) (b : List (Nat × Int))
    (he : ∀ e ∈ b, 0 ≤ e.2 ∧ e.2 < st.maxSeat ∧ idAt st e.2 = none)
    (hf : ∀ e ∈ b, ∀ i : Int, 0 ≤ i → i < st.maxSeat → idAt st i ≠ some e.1)
    (hs : b.Pairwise (fun a c => a.2 ≠ c.2)) (hi : b.Pairwise (fun a c => a.1 ≠ c.1)) :
    (∀ i : Int, 0 ≤ i → i < st.maxSeat → idAt (remove (placeAll st b) (b.map (·.1))).1 i = idAt st i) ∧
    (remove (placeAll st b) (b.map (·.1))).1.maxSeat = st.maxSeat := by
  have hat := placeAll_at st b hs
  have hm := placeAll_maxSeat st b
  have hu1 := placeAll_unique st b hu hs hi hf
  have hok : (remove (placeAll st b) (b.map (·.1))).2 = .ok := by
    unfold remove
    have : ((b.map (·.1)).any fun id => !(hasPlayer (placeAll st b) id)) = false := by
      rw [List.any_eq_false]
      intro x hx
      obtain ⟨e, hem, hex⟩ := List.mem_map.mp hx
      have hp : hasPlayer (placeAll st b) x = true := by
        rw [hasPlayer_iff]
        exact ⟨e.2, (he e hem).1, by rw [hm]; exact (he e hem).2.1, by rw [hat e hem, hex]⟩
      simp [hp]
    simp [this]
  refine ⟨?_, by rw [remove_maxSeat, hm]⟩
  intro i h0 hn
  rw [remove_id _ _ hok]
  have hiff := remove_cleared_iff (placeAll st b) hu1 (b.map (·.1)) hok i h0 (by rw [hm]; exact hn)
  by_cases hc : i ∈ (b.map (·.1)).map (seatOf (placeAll st b))
  · simp only [hc, if_true]
    obtain ⟨x, hx, hidx⟩ := hiff.mp hc
    obtain ⟨e, hem, hex⟩ := List.mem_map.mp hx
    -- i is e's seat
    have : i = e.2 := hu1 i e.2 x h0 (by rw [hm]; exact hn) (he e hem).1 (by rw [hm]; exact (he e hem).2.1) hidx
      (by rw [hat e hem, hex])
    rw [this]; exact ((he e hem).2.2).symm
  · simp only [hc, if_false]
    rw [placeAll_id st b hs]
    cases hfind : b.find? (fun x => x.2 == i) with
    | none => rfl
    | some e =>
      exfalso
      have hem := List.mem_of_find?_eq_some hfind
      have hes : e.2 = i := by simpa using List.find?_some hfind
      apply hc
      apply hiff.mpr
      exact ⟨e.1, List.mem_map.mpr ⟨e, hem, rfl⟩, by rw [← hes]; exact hat e hem⟩

end SM
