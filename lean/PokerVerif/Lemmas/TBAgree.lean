import PokerVerif.Lemmas.TBSeatsRun
import PokerVerif.Lemmas.SMSeats
/-!
# Seat manager and table name the same occupant for every seat

`Agree s`: for every seat of the table the id the seat manager holds there is the id the table shows there (seat map →
player list), the two agree on the seat count, and no id is listed twice.  `Quiet a b`: an operation that changes neither
the listed ids nor the seat manager's occupants.  Everything but arrivals and departures is quiet.
-/
namespace TB

/-- the id the table shows on a seat -/
def occId (m : List Int) (ps : List Player) (seat : Int) : Option Nat :=
  match seatMapGet m seat with
  | some pi => if 0 ≤ pi then (ps[pi.toNat]?).map (·.id) else none
  | none => none

structure Agree (s : State) : Prop where
  maxSeat : s.sm.maxSeat = s.cfg.maxSeat
  seats : ∀ seat : Int, 0 ≤ seat → seat < s.cfg.maxSeat → SM.idAt s.sm seat = occId s.seatMap s.players seat
  ids : (s.players.map (·.id)).Nodup

/-- nothing about who is listed and who the seat manager holds where has changed -/
structure Quiet (a b : State) : Prop where
  ids : a.players.map (·.id) = b.players.map (·.id)
  smIds : ∀ i, SM.idAt a.sm i = SM.idAt b.sm i
  smMax : a.sm.maxSeat = b.sm.maxSeat

theorem Quiet.refl (a : State) : Quiet a a := ⟨rfl, fun _ => rfl, rfl⟩
theorem Quiet.trans {a b c : State} (h1 : Quiet a b) (h2 : Quiet b c) : Quiet a c :=
  ⟨h1.ids.trans h2.ids, fun i => (h1.smIds i).trans (h2.smIds i), h1.smMax.trans h2.smMax⟩

theorem occId_congr (m : List Int) (ps ps' : List Player) (h : ps'.map (·.id) = ps.map (·.id)) (seat : Int) :
    occId m ps' seat = occId m ps seat := by
  unfold occId
  cases seatMapGet m seat with
  | none => rfl
  | some pi =>
    simp only
    split
    · exact getElem?_of_map_eq (·.id) ps ps' h pi.toNat
    · rfl

theorem Agree.of_quiet {a b : State} (hq : Quiet a b) (hs : SeatsEq a b) (w : Agree b) : Agree a := by
  refine ⟨by rw [hq.smMax, hs.2.2]; exact w.maxSeat, ?_, by rw [hq.ids]; exact w.ids⟩
  intro seat h0 hn
  rw [hq.smIds, hs.1, occId_congr _ _ _ hq.ids, hs.2.2] at *
  exact w.seats seat h0 hn

theorem ids_modify (ps : List Player) (i : Nat) (f : Player → Player) (hf : ∀ p, (f p).id = p.id) :
    (ps.modify i f).map (·.id) = ps.map (·.id) := modify_map ps i f (·.id) hf

theorem smQuiet_join (sm : SM.State) (ids : List Nat) :
    (∀ i, SM.idAt (SM.join sm ids).1 i = SM.idAt sm i) ∧ (SM.join sm ids).1.maxSeat = sm.maxSeat :=
  ⟨SM.join_id sm ids, (SM.join_buttons sm ids).maxSeat⟩

theorem smQuiet_setChips (sm : SM.State) (id : Nat) (b : Bool) :
    (∀ i, SM.idAt (SM.setChips sm id b).1 i = SM.idAt sm i) ∧ (SM.setChips sm id b).1.maxSeat = sm.maxSeat :=
  ⟨SM.setChips_id sm id b, (SM.setChips_buttons sm id b).maxSeat⟩

theorem q_joinCore (s : State) (id : Nat) : Quiet (joinCore s id).1 s := by
  unfold joinCore
  split
  · exact Quiet.refl s
  · split
    · exact Quiet.refl s
    · split
      · exact Quiet.refl s
      · split
        · exact Quiet.refl s
        · have hb := ids_modify s.players ‹Nat› (fun p => { p with isIn := true }) (fun _ => rfl)
          have hj := smQuiet_join s.sm [id]
          simp only
          split
          · exact ⟨by simpa [modAt] using hb, fun _ => rfl, rfl⟩
          · exact ⟨by simpa [modAt] using hb, hj.1, hj.2⟩

theorem q_foldl_joinCore (ps : List Player) (s : State) :
    Quiet (ps.foldl (fun acc p => (joinCore acc p.id).1) s) s := by
  induction ps generalizing s with
  | nil => exact Quiet.refl s
  | cons p t ih => exact (ih _).trans (q_joinCore s p.id)

theorem q_started (s : State) : Quiet { s with started := true } s := ⟨rfl, fun _ => rfl, rfl⟩

theorem q_auto (s : State) (rg : List (Nat × Bool)) (d : Bool) : Quiet { s with autoRg := rg, autoDone := d } s :=
  ⟨rfl, fun _ => rfl, rfl⟩
theorem q_autoRg (s : State) (rg : List (Nat × Bool)) : Quiet { s with autoRg := rg } s := ⟨rfl, fun _ => rfl, rfl⟩

theorem q_autoJoinComplete (s : State) : Quiet (autoJoinComplete s) s := by
  unfold autoJoinComplete
  simp only
  split
  · exact (q_started _).trans (q_foldl_joinCore s.players s)
  · exact q_foldl_joinCore s.players s

theorem q_join (s : State) (id : Nat) : Quiet (join s id).1 s := by
  unfold join
  have hj := q_joinCore s id
  generalize joinCore s id = r at hj
  obtain ⟨s1, r1, fresh⟩ := r
  simp only at hj ⊢
  cases fresh with
  | none => exact hj
  | some i =>
    simp only
    split
    · split
      · exact (q_autoJoinComplete _).trans ((q_auto s1 _ true).trans hj)
      · exact (q_autoRg s1 _).trans hj
    · exact hj

theorem q_foldl_join (ps : List Player) (s : State) :
    Quiet (ps.foldl (fun acc p => (join acc p.id).1) s) s := by
  induction ps generalizing s with
  | nil => exact Quiet.refl s
  | cons p t ih => exact (ih _).trans (q_join s p.id)

theorem q_autoJoinStale (s : State) : Quiet (autoJoinStale s) s := q_foldl_join s.players s

theorem q_redeem (s : State) (id : Nat) (c : Int) : Quiet (redeem s id c).1 s := by
  unfold redeem
  split
  · exact Quiet.refl s
  · have hb := ids_modify s.players ‹Nat› (fun p => { p with bankroll := p.bankroll + c }) (fun _ => rfl)
    simp only
    split
    · exact ⟨by simpa [modAt] using hb, fun _ => rfl, rfl⟩
    · exact ⟨by simpa [modAt] using hb, (smQuiet_setChips _ _ _).1, (smQuiet_setChips _ _ _).2⟩

theorem q_finish (s : State) (id : Nat) : Quiet (finish s id).1 s := by
  unfold finish
  repeat (first | split | exact Quiet.refl _ | exact ⟨rfl, fun _ => rfl, rfl⟩)

theorem q_reserve_known (s : State) (j : Join) (ch : List Int) (i : Nat) (h : findPlayerIdx s j.id = some i) :
    Quiet (reserve s j ch).1 s := by
  unfold reserve
  rw [h]
  have hb := ids_modify s.players i (fun p => { p with bankroll := p.bankroll + j.chips }) (fun _ => rfl)
  simp only
  split
  · exact ⟨by simpa [modAt] using hb, fun _ => rfl, rfl⟩
  · exact ⟨by simpa [modAt] using hb, (smQuiet_setChips _ _ _).1, (smQuiet_setChips _ _ _).2⟩

theorem q_settle (s : State) (r : List (Nat × Int)) : Quiet (settle s r).1 s := by
  unfold settle
  simp only
  have key : ∀ (res : List (Nat × Int)) (acc : List Player),
      acc.map (·.id) = s.players.map (·.id) →
      ∀ ps, res.foldl (fun (acc : Option (List Player)) (e : Nat × Int) =>
        match acc with
        | none => none
        | some ps =>
          match s.gidx[e.1]? with
          | none => none
          | some pi => if 0 ≤ pi ∧ pi.toNat < ps.length then
              some (modAt ps pi.toNat (fun p => { p with bankroll := p.bankroll + e.2 })) else none) (some acc) = some ps →
      ps.map (·.id) = s.players.map (·.id) := by
    intro res
    induction res with
    | nil => intro acc ha ps h; simp at h; subst h; exact ha
    | cons e t ih =>
      intro acc ha ps h
      simp only [List.foldl_cons] at h
      cases hg : s.gidx[e.1]? with
      | none =>
        simp only [hg] at h
        rw [foldl_none_gen _ (fun _ => rfl)] at h; cases h
      | some pi =>
        simp only [hg] at h
        by_cases hc : 0 ≤ pi ∧ pi.toNat < acc.length
        · simp only [hc, and_self, if_true] at h
          exact ih _ (by rw [← ha]; exact ids_modify acc pi.toNat _ (fun _ => rfl)) ps h
        · simp only [hc, if_false] at h
          rw [foldl_none_gen _ (fun _ => rfl)] at h; cases h
  split
  · exact ⟨rfl, fun _ => rfl, rfl⟩
  · rename_i ps hps
    have hs := key r s.players rfl ps hps
    split <;> exact ⟨hs, fun _ => rfl, rfl⟩

theorem refreshPlayers_quiet_fold (ps : List Player) (sm0 : SM.State) (done0 : List Player) (r : SM.State × List Player)
    (h : ps.foldl (fun (acc : Option (SM.State × List Player)) (p : Player) =>
      match acc with
      | none => none
      | some (sm, done) =>
        let r := SM.setChips sm p.id (decide (p.bankroll > 0))
        match r.2 with
        | .err _ => none
        | .ok =>
          match SM.isActive r.1 p.id with
          | none => none
          | some a => some (r.1, done ++ [{ p with positions := [], participated := a }])) (some (sm0, done0)) = some r) :
    r.2.map (·.id) = done0.map (·.id) ++ ps.map (·.id) ∧ (∀ i, SM.idAt r.1 i = SM.idAt sm0 i) ∧ r.1.maxSeat = sm0.maxSeat := by
  induction ps generalizing sm0 done0 with
  | nil => simp at h; subst h; simp
  | cons p t ih =>
    simp only [List.foldl_cons] at h
    cases hr : (SM.setChips sm0 p.id (decide (p.bankroll > 0))).2 with
    | err e => simp only [hr] at h; rw [foldl_none_gen _ (fun _ => rfl)] at h; cases h
    | ok =>
      simp only [hr] at h
      cases ha : SM.isActive (SM.setChips sm0 p.id (decide (p.bankroll > 0))).1 p.id with
      | none => simp only [ha] at h; rw [foldl_none_gen _ (fun _ => rfl)] at h; cases h
      | some a =>
        simp only [ha] at h
        obtain ⟨h1, h2, h3⟩ := ih _ _ h
        have hq := smQuiet_setChips sm0 p.id (decide (p.bankroll > 0))
        refine ⟨by rw [h1]; simp, fun i => (h2 i).trans (hq.1 i), h3.trans hq.2⟩

theorem q_nextMove (s2 : State) (e : Bool) : Quiet (nextMove s2 e).1 s2 := by
  unfold nextMove
  repeat (first | split | exact Quiet.refl _ | exact ⟨rfl, fun _ => rfl, rfl⟩)

theorem q_continueGame (s : State) (e : Bool) : Quiet (continueGame s e).1 s := by
  rcases continueGame_cases s e with ⟨_, h⟩ | ⟨sm, ps, hrp, h⟩
  · rw [h]; exact ⟨rfl, fun _ => rfl, rfl⟩
  · rw [h]
    have := refreshPlayers_quiet_fold s.players s.sm [] (sm, ps) hrp
    refine (q_nextMove _ e).trans ⟨?_, this.2.1, this.2.2⟩
    simpa [resetHand] using this.1

/-- `openGame` on a seat manager whose occupants are those of the table's -/
theorem q_openTable (s : State) (sm : SM.State) (hsm : ∀ i, SM.idAt sm i = SM.idAt s.sm i) (hmax : sm.maxSeat = s.sm.maxSeat) :
    Quiet (openTable s sm).1 s := by
  unfold openTable
  split
  · exact ⟨rfl, hsm, hmax⟩
  · rename_i ps hm
    simp only
    split
    · exact ⟨rfl, hsm, hmax⟩
    · split
      · exact ⟨rfl, hsm, hmax⟩
      · rename_i ps2 hap
        refine ⟨?_, hsm, hmax⟩
        have h1 := assignPositions_map (·.id) (fun _ _ => rfl) _ _ _ hap
        have h2 := mapM_keeps (·.id) (fun _ _ => rfl) sm _ _ hm
        simp only [openedState]
        rw [h1, h2]

theorem q_startHand (s2 : State) (ok : Bool) : Quiet (startHand s2 ok).1 s2 := by
  unfold startHand
  split
  · exact Quiet.refl _
  · split
    · exact Quiet.refl _
    · exact ⟨rfl, fun _ => rfl, rfl⟩

theorem q_openCore (s : State) (ch : Option Int) (ok : Bool) : Quiet (openCore s ch ok).1 s := by
  unfold openCore
  have hq : (∀ i, SM.idAt (if !s.sm.isInit then SM.init s.sm ch else SM.rotate s.sm).1 i = SM.idAt s.sm i) ∧
      (if !s.sm.isInit then SM.init s.sm ch else SM.rotate s.sm).1.maxSeat = s.sm.maxSeat := by
    split
    · exact ⟨SM.init_id s.sm ch, SM.init_maxSeat s.sm ch⟩
    · exact ⟨SM.rotate_id s.sm, SM.rotate_maxSeat s.sm⟩
  simp only
  split
  · exact ⟨rfl, hq.1, hq.2⟩
  · split
    · exact (q_startHand _ ok).trans (q_openTable _ _ hq.1 hq.2)
    · exact q_openTable _ _ hq.1 hq.2

theorem q_gateFire (s : State) (ch : Option Int) (ok : Bool) : Quiet (gateFire s ch ok).1 s := by
  unfold gateFire
  have hg : Quiet (gateReady s) s := ⟨rfl, fun _ => rfl, rfl⟩
  split
  · exact hg
  · exact hg
  · exact (q_openCore _ ch ok).trans hg

-- ------------------------------------------------------------------ consequences of bookkeeping + agreement

theorem occId_some (m : List Int) (ps : List Player) (seat : Int) (x : Nat) (h : occId m ps seat = some x) :
    ∃ pi p, seatMapGet m seat = some pi ∧ 0 ≤ pi ∧ ps[pi.toNat]? = some p ∧ p.id = x := by
  unfold occId at h
  cases hg : seatMapGet m seat with
  | none => rw [hg] at h; cases h
  | some pi =>
    rw [hg] at h
    simp only at h
    by_cases hp : 0 ≤ pi
    · simp only [hp, if_true] at h
      cases hq : ps[pi.toNat]? with
      | none => rw [hq] at h; cases h
      | some p => rw [hq] at h; exact ⟨pi, p, rfl, hp, hq, Option.some.inj h⟩
    · simp [hp] at h

theorem nodup_getElem?_inj (l : List Nat) (h : l.Nodup) (i j : Nat) (x : Nat) (hi : l[i]? = some x) (hj : l[j]? = some x) :
    i = j := by
  have li : i < l.length := by
    rcases Nat.lt_or_ge i l.length with h1 | h1
    · exact h1
    · rw [List.getElem?_eq_none h1] at hi; cases hi
  have lj : j < l.length := by
    rcases Nat.lt_or_ge j l.length with h1 | h1
    · exact h1
    · rw [List.getElem?_eq_none h1] at hj; cases hj
  have ei : l[i] = x := by rw [List.getElem?_eq_getElem li] at hi; exact Option.some.inj hi
  have ej : l[j] = x := by rw [List.getElem?_eq_getElem lj] at hj; exact Option.some.inj hj
  have hp := List.pairwise_iff_getElem.mp h
  rcases Nat.lt_trichotomy i j with hlt | heq | hgt
  · exact absurd (ei.trans ej.symm) (hp i j li lj hlt)
  · exact heq
  · exact absurd (ej.trans ei.symm) (hp j i lj li hgt)

/-- the seat manager holds no id on two seats -/
theorem sm_unique (s : State) (hb : Booked s) (ha : Agree s) : SM.IdsUnique s.sm := by
  intro i j x hi0 hin hj0 hjn hxi hxj
  rw [ha.maxSeat] at hin hjn
  rw [ha.seats i hi0 hin] at hxi
  rw [ha.seats j hj0 hjn] at hxj
  obtain ⟨pi, p, hgi, hpi0, hp, hpx⟩ := occId_some _ _ _ _ hxi
  obtain ⟨pj, q, hgj, hpj0, hq, hqx⟩ := occId_some _ _ _ _ hxj
  obtain ⟨p', hp', hps⟩ := hb.1.1.entries i pi hgi hpi0
  obtain ⟨q', hq', hqs⟩ := hb.1.1.entries j pj hgj hpj0
  rw [hp] at hp'; rw [hq] at hq'
  have e1 : p = p' := Option.some.inj hp'
  have e2 : q = q' := Option.some.inj hq'
  -- same id ⇒ same index (ids are listed once)
  have hidx : pi.toNat = pj.toNat := by
    have a1 : (s.players.map (·.id))[pi.toNat]? = some x := by rw [List.getElem?_map, hp]; simp [hpx]
    have a2 : (s.players.map (·.id))[pj.toNat]? = some x := by rw [List.getElem?_map, hq]; simp [hqx]
    exact nodup_getElem?_inj _ ha.ids _ _ x a1 a2
  rw [← hps, ← hqs, ← e1, ← e2]
  rw [hidx] at hp
  rw [hp] at hq
  rw [Option.some.inj hq]

/-- a seat the seat manager holds empty is shown free by the table -/
theorem free_of_sm_none (s : State) (hb : Booked s) (ha : Agree s) (seat : Int) (h0 : 0 ≤ seat) (hn : seat < s.cfg.maxSeat)
    (he : SM.idAt s.sm seat = none) : seatMapGet s.seatMap seat = some (-1) := by
  apply MapTight.free _ _ hb.1 seat h0 (by rw [hb.2]; exact hn)
  intro i p hp hs
  have hg := hb.1.1.players i p hp
  rw [hs] at hg
  have : occId s.seatMap s.players seat = some p.id := by
    unfold occId; rw [hg]; simp [hp]
  rw [← ha.seats seat h0 hn, he] at this
  cases this

-- ------------------------------------------------------------------ departures keep the agreement

theorem occ_of_player (m : List Int) (ps : List Player) (w : MapWF m ps) (i : Nat) (p : Player) (hp : ps[i]? = some p) :
    occId m ps p.seat = some p.id := by
  unfold occId
  rw [w.players i p hp]
  simp [hp]

theorem player_of_occ (m : List Int) (ps : List Player) (w : MapWF m ps) (seat : Int) (x : Nat)
    (h : occId m ps seat = some x) : ∃ (i : Nat) (p : Player), ps[i]? = some p ∧ p.seat = seat ∧ p.id = x := by
  obtain ⟨pi, p, hg, hp0, hp, hpx⟩ := occId_some m ps seat x h
  obtain ⟨p', hp', hs⟩ := w.entries seat pi hg hp0
  rw [hp] at hp'
  have : p = p' := Option.some.inj hp'
  exact ⟨pi.toNat, p, hp, by rw [this]; exact hs, hpx⟩

theorem occ_none_of_no_player (m : List Int) (ps : List Player) (w : MapWF m ps) (seat : Int)
    (h : ∀ (i : Nat) (p : Player), ps[i]? = some p → p.seat ≠ seat) : occId m ps seat = none := by
  cases ho : occId m ps seat with
  | none => rfl
  | some x =>
    obtain ⟨i, p, hp, hs, _⟩ := player_of_occ m ps w seat x ho
    exact absurd hs (h i p hp)

/-- **`PlayersLeave` keeps seat manager and table in agreement** -/
theorem batchRemove_agree (s : State) (ids : List Nat) (hb : Booked s) (ha : Agree s)
    (hnp : (batchRemove s ids).2 ≠ .panic) : Agree (batchRemove s ids).1 := by
  by_cases hok : (batchRemove s ids).2 = .ok
  · obtain ⟨w1, w2, hkeep⟩ := batchRemove_tight s ids hb.1 hok
    -- the seat manager after the call, and that it accepted
    have hsm : (batchRemove s ids).1.sm = (SM.remove s.sm ids).1 ∧ (SM.remove s.sm ids).2 = .ok := by
      unfold batchRemove at hok ⊢
      simp only at hok ⊢
      cases hr : (SM.remove s.sm ids).2 with
      | err e => rw [hr] at hok; cases hok
      | ok =>
        rw [hr] at hok
        simp only at hok ⊢
        cases hm : rebuildSeatMap s.cfg.maxSeat (s.players.filter (fun p => !(ids.contains p.id))) with
        | none => rw [hm] at hok; cases hok
        | some m =>
          rw [hm] at hok
          simp only at hok ⊢
          cases ho : s.gidx.mapM (fun gi => if 0 ≤ gi then (s.players[gi.toNat]?).map (·.id) else none) with
          | none => rw [ho] at hok; cases hok
          | some oids => exact ⟨rfl, trivial⟩
    have hcfg := batchRemove_cfg s ids
    have hu := sm_unique s hb ha
    refine ⟨by rw [hsm.1, SM.remove_maxSeat, hcfg]; exact ha.maxSeat, ?_, ?_⟩
    · intro seat h0 hn
      rw [hcfg] at hn
      rw [hsm.1, SM.remove_id s.sm ids hsm.2]
      have hn' : seat < s.sm.maxSeat := by rw [ha.maxSeat]; exact hn
      have hiff := SM.remove_cleared_iff s.sm hu ids hsm.2 seat h0 hn'
      have hold := ha.seats seat h0 hn
      -- players of the new list are players of the old one who did not leave
      have keep_old : ∀ (k : Nat) (q : Player), (batchRemove s ids).1.players[k]? = some q →
          (∃ i : Nat, s.players[i]? = some q) ∧ ids.contains q.id = false := by
        intro k q hq
        rw [hkeep] at hq
        have hm := List.mem_of_getElem? hq
        rw [List.mem_filter] at hm
        exact ⟨List.mem_iff_getElem?.mp hm.1, by simpa using hm.2⟩
      by_cases hc : seat ∈ ids.map (SM.seatOf s.sm)
      · -- somebody who left sat here: nobody of the new list does
        simp only [hc, if_true]
        obtain ⟨x, hx, hidx⟩ := hiff.mp hc
        symm
        apply occ_none_of_no_player _ _ w1.1 seat
        intro k q hq hqs
        obtain ⟨⟨i, hi⟩, hnot⟩ := keep_old k q hq
        have := occ_of_player _ _ hb.1.1 i q hi
        rw [hqs, ← hold, hidx] at this
        have : x = q.id := Option.some.inj this
        rw [← this] at hnot
        have : ids.contains x = true := by simpa using hx
        rw [this] at hnot; cases hnot
      · simp only [hc, if_false]
        cases hidx : SM.idAt s.sm seat with
        | none =>
          symm
          apply occ_none_of_no_player _ _ w1.1 seat
          intro k q hq hqs
          obtain ⟨⟨i, hi⟩, _⟩ := keep_old k q hq
          have := occ_of_player _ _ hb.1.1 i q hi
          rw [hqs, ← hold, hidx] at this
          cases this
        | some x =>
          -- the occupant stays: he is in the new list, and the rebuilt map names him
          rw [hidx] at hold
          obtain ⟨i, p, hp, hps, hpx⟩ := player_of_occ _ _ hb.1.1 seat x hold.symm
          have hnotin : ids.contains p.id = false := by
            cases hcn : ids.contains p.id with
            | false => rfl
            | true =>
              exfalso
              apply hc
              apply hiff.mpr
              exact ⟨p.id, by simpa using hcn, by rw [hidx, hpx]⟩
          have hmem : p ∈ (batchRemove s ids).1.players := by
            rw [hkeep, List.mem_filter]
            exact ⟨List.mem_of_getElem? hp, by simpa using hnotin⟩
          obtain ⟨k, hk⟩ := List.mem_iff_getElem?.mp hmem
          have := occ_of_player _ _ w1.1 k p hk
          rw [hps, hpx] at this
          exact this.symm
    · rw [hkeep]
      exact (List.Nodup.sublist ((List.filter_sublist).map _) ha.ids)
  · -- refused by the seat manager: nothing has changed (the panic branches are excluded by hypothesis)
    have : (batchRemove s ids).1 = s := by
      unfold batchRemove at hok hnp ⊢
      simp only at hok hnp ⊢
      split
      · rfl
      · rename_i hr
        simp only [hr] at hok hnp
        split
        · rename_i hm; simp only [hm] at hnp; exact absurd rfl hnp
        · rename_i m hm
          simp only [hm] at hok hnp
          split
          · rename_i ho; simp only [ho] at hnp; exact absurd rfl hnp
          · rename_i oids ho
            simp only [ho] at hok
            exact absurd trivial hok
    rw [this]; exact ha

end TB
