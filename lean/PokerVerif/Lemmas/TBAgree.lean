import PokerVerif.Lemmas.TBSeatsRun
import PokerVerif.Lemmas.SMSeats
/-!
# Seat manager and table name the same occupant for every seat

`Agree s`: for every seat of the table the id the seat manager holds there is the id the table shows there (seat map →
player list), the two agree on the seat count, and no id is listed twice.  `Quiet a b`: an operation that changes neither
the listed ids nor the seat manager's occupants.  Everything but arrivals and departures is quiet.
-/
namespace TB

/-- the id the table shows on a seat -/
def occId (m : List Int) (ps : List Player) (seat : Int) : Option Nat :=
  match seatMapGet m seat with
  | some pi => if 0 ≤ pi then (ps[pi.toNat]?).map (·.id) else none
  | none => none

structure Agree (s : State) : Prop where
  maxSeat : s.sm.maxSeat = s.cfg.maxSeat
  seats : ∀ seat : Int, 0 ≤ seat → seat < s.cfg.maxSeat → SM.idAt s.sm seat = occId s.seatMap s.players seat
  ids : (s.players.map (·.id)).Nodup

/-- nothing about who is listed and who the seat manager holds where has changed -/
structure Quiet (a b : State) : Prop where
  ids : a.players.map (·.id) = b.players.map (·.id)
  smIds : ∀ i, SM.idAt a.sm i = SM.idAt b.sm i
  smMax : a.sm.maxSeat = b.sm.maxSeat

theorem Quiet.refl (a : State) : Quiet a a := ⟨rfl, fun _ => rfl, rfl⟩
theorem Quiet.trans {a b c : State} (h1 : Quiet a b) (h2 : Quiet b c) : Quiet a c :=
  ⟨h1.ids.trans h2.ids, fun i => (h1.smIds i).trans (h2.smIds i), h1.smMax.trans h2.smMax⟩

theorem occId_congr (m : List Int) (ps ps' : List Player) (h : ps'.map (·.id) = ps.map (·.id)) (seat : Int) :
    occId m ps' seat = occId m ps seat := by
  unfold occId
  cases seatMapGet m seat with
  | none => rfl
  | some pi =>
    simp only
    split
    · exact getElem?_of_map_eq (·.id) ps ps' h pi.toNat
    · rfl

theorem Agree.of_quiet {a b : State} (hq : Quiet a b) (hs : SeatsEq a b) (w : Agree b) : Agree a := by
  refine ⟨by rw [hq.smMax, hs.2.2]; exact w.maxSeat, ?_, by rw [hq.ids]; exact w.ids⟩
  intro seat h0 hn
  rw [hq.smIds, hs.1, occId_congr _ _ _ hq.ids, hs.2.2] at *
  exact w.seats seat h0 hn

theorem ids_modify (ps : List Player) (i : Nat) (f : Player → Player) (hf : ∀ p, (f p).id = p.id) :
    (ps.modify i f).map (·.id) = ps.map (·.id) := modify_map ps i f (·.id) hf

theorem smQuiet_join (sm : SM.State) (ids : List Nat) :
    (∀ i, SM.idAt (SM.join sm ids).1 i = SM.idAt sm i) ∧ (SM.join sm ids).1.maxSeat = sm.maxSeat :=
  ⟨SM.join_id sm ids, (SM.join_buttons sm ids).maxSeat⟩

theorem smQuiet_setChips (sm : SM.State) (id : Nat) (b : Bool) :
    (∀ i, SM.idAt (SM.setChips sm id b).1 i = SM.idAt sm i) ∧ (SM.setChips sm id b).1.maxSeat = sm.maxSeat :=
  ⟨SM.setChips_id sm id b, (SM.setChips_buttons sm id b).maxSeat⟩

theorem q_joinCore (s : State) (id : Nat) : Quiet (joinCore s id).1 s := by
  unfold joinCore
  split
  · exact Quiet.refl s
  · split
    · exact Quiet.refl s
    · split
      · exact Quiet.refl s
      · split
        · exact Quiet.refl s
        · have hb := ids_modify s.players ‹Nat› (fun p => { p with isIn := true }) (fun _ => rfl)
          have hj := smQuiet_join s.sm [id]
          simp only
          split
          · exact ⟨by simpa [modAt] using hb, fun _ => rfl, rfl⟩
          · exact ⟨by simpa [modAt] using hb, hj.1, hj.2⟩

theorem q_foldl_joinCore (ps : List Player) (s : State) :
    Quiet (ps.foldl (fun acc p => (joinCore acc p.id).1) s) s := by
  induction ps generalizing s with
  | nil => exact Quiet.refl s
  | cons p t ih => exact (ih _).trans (q_joinCore s p.id)

theorem q_started (s : State) : Quiet { s with started := true } s := ⟨rfl, fun _ => rfl, rfl⟩

theorem q_auto (s : State) (rg : List (Nat × Bool)) (d : Bool) : Quiet { s with autoRg := rg, autoDone := d } s :=
  ⟨rfl, fun _ => rfl, rfl⟩
theorem q_autoRg (s : State) (rg : List (Nat × Bool)) : Quiet { s with autoRg := rg } s := ⟨rfl, fun _ => rfl, rfl⟩

theorem q_autoJoinComplete (s : State) : Quiet (autoJoinComplete s) s := by
  unfold autoJoinComplete
  simp only
  split
  · exact (q_started _).trans (q_foldl_joinCore s.players s)
  · exact q_foldl_joinCore s.players s

theorem q_join (s : State) (id : Nat) : Quiet (join s id).1 s := by
  unfold join
  have hj := q_joinCore s id
  generalize joinCore s id = r at hj
  obtain ⟨s1, r1, fresh⟩ := r
  simp only at hj ⊢
  cases fresh with
  | none => exact hj
  | some i =>
    simp only
    split
    · split
      · exact (q_autoJoinComplete _).trans ((q_auto s1 _ true).trans hj)
      · exact (q_autoRg s1 _).trans hj
    · exact hj

theorem q_foldl_join (ps : List Player) (s : State) :
    Quiet (ps.foldl (fun acc p => (join acc p.id).1) s) s := by
  induction ps generalizing s with
  | nil => exact Quiet.refl s
  | cons p t ih => exact (ih _).trans (q_join s p.id)

theorem q_autoJoinStale (s : State) : Quiet (autoJoinStale s) s := q_foldl_join s.players s

theorem q_redeem (s : State) (id : Nat) (c : Int) : Quiet (redeem s id c).1 s := by
  unfold redeem
  split
  · exact Quiet.refl s
  · have hb := ids_modify s.players ‹Nat› (fun p => { p with bankroll := p.bankroll + c }) (fun _ => rfl)
    simp only
    split
    · exact ⟨by simpa [modAt] using hb, fun _ => rfl, rfl⟩
    · exact ⟨by simpa [modAt] using hb, (smQuiet_setChips _ _ _).1, (smQuiet_setChips _ _ _).2⟩

theorem q_finish (s : State) (id : Nat) : Quiet (finish s id).1 s := by
  unfold finish
  repeat (first | split | exact Quiet.refl _ | exact ⟨rfl, fun _ => rfl, rfl⟩)

theorem q_reserve_known (s : State) (j : Join) (ch : List Int) (i : Nat) (h : findPlayerIdx s j.id = some i) :
    Quiet (reserve s j ch).1 s := by
  unfold reserve
  rw [h]
  have hb := ids_modify s.players i (fun p => { p with bankroll := p.bankroll + j.chips }) (fun _ => rfl)
  simp only
  split
  · exact ⟨by simpa [modAt] using hb, fun _ => rfl, rfl⟩
  · exact ⟨by simpa [modAt] using hb, (smQuiet_setChips _ _ _).1, (smQuiet_setChips _ _ _).2⟩

theorem q_settle (s : State) (r : List (Nat × Int)) : Quiet (settle s r).1 s := by
  unfold settle
  simp only
  have key : ∀ (res : List (Nat × Int)) (acc : List Player),
      acc.map (·.id) = s.players.map (·.id) →
      ∀ ps, res.foldl (fun (acc : Option (List Player)) (e : Nat × Int) =>
        match acc with
        | none => none
        | some ps =>
          match s.gidx[e.1]? with
          | none => none
          | some pi => if 0 ≤ pi ∧ pi.toNat < ps.length then
              some (modAt ps pi.toNat (fun p => { p with bankroll := p.bankroll + e.2 })) else none) (some acc) = some ps →
      ps.map (·.id) = s.players.map (·.id) := by
    intro res
    induction res with
    | nil => intro acc ha ps h; simp at h; subst h; exact ha
    | cons e t ih =>
      intro acc ha ps h
      simp only [List.foldl_cons] at h
      cases hg : s.gidx[e.1]? with
      | none =>
        simp only [hg] at h
        rw [foldl_none_gen _ (fun _ => rfl)] at h; cases h
      | some pi =>
        simp only [hg] at h
        by_cases hc : 0 ≤ pi ∧ pi.toNat < acc.length
        · simp only [hc, and_self, if_true] at h
          exact ih _ (by rw [← ha]; exact ids_modify acc pi.toNat _ (fun _ => rfl)) ps h
        · simp only [hc, if_false] at h
          rw [foldl_none_gen _ (fun _ => rfl)] at h; cases h
  split
  · exact ⟨rfl, fun _ => rfl, rfl⟩
  · rename_i ps hps
    have hs := key r s.players rfl ps hps
    split <;> exact ⟨hs, fun _ => rfl, rfl⟩

theorem refreshPlayers_quiet_fold (ps : List Player) (sm0 : SM.State) (done0 : List Player) (r : SM.State × List Player)
    (h : ps.foldl (fun (acc : Option (SM.State × List Player)) (p : Player) =>
      match acc with
      | none => none
      | some (sm, done) =>
        let r := SM.setChips sm p.id (decide (p.bankroll > 0))
        match r.2 with
        | .err _ => none
        | .ok =>
          match SM.isActive r.1 p.id with
          | none => none
          | some a => some (r.1, done ++ [{ p with positions := [], participated := a }])) (some (sm0, done0)) = some r) :
    r.2.map (·.id) = done0.map (·.id) ++ ps.map (·.id) ∧ (∀ i, SM.idAt r.1 i = SM.idAt sm0 i) ∧ r.1.maxSeat = sm0.maxSeat := by
  induction ps generalizing sm0 done0 with
  | nil => simp at h; subst h; simp
  | cons p t ih =>
    simp only [List.foldl_cons] at h
    cases hr : (SM.setChips sm0 p.id (decide (p.bankroll > 0))).2 with
    | err e => simp only [hr] at h; rw [foldl_none_gen _ (fun _ => rfl)] at h; cases h
    | ok =>
      simp only [hr] at h
      cases ha : SM.isActive (SM.setChips sm0 p.id (decide (p.bankroll > 0))).1 p.id with
      | none => simp only [ha] at h; rw [foldl_none_gen _ (fun _ => rfl)] at h; cases h
      | some a =>
        simp only [ha] at h
        obtain ⟨h1, h2, h3⟩ := ih _ _ h
        have hq := smQuiet_setChips sm0 p.id (decide (p.bankroll > 0))
        refine ⟨by rw [h1]; simp, fun i => (h2 i).trans (hq.1 i), h3.trans hq.2⟩

theorem q_nextMove (s2 : State) (e : Bool) : Quiet (nextMove s2 e).1 s2 := by
  unfold nextMove
  repeat (first | split | exact Quiet.refl _ | exact ⟨rfl, fun _ => rfl, rfl⟩)

theorem q_continueGame (s : State) (e : Bool) : Quiet (continueGame s e).1 s := by
  rcases continueGame_cases s e with ⟨_, h⟩ | ⟨sm, ps, hrp, h⟩
  · rw [h]; exact ⟨rfl, fun _ => rfl, rfl⟩
  · rw [h]
    have := refreshPlayers_quiet_fold s.players s.sm [] (sm, ps) hrp
    refine (q_nextMove _ e).trans ⟨?_, this.2.1, this.2.2⟩
    simpa [resetHand] using this.1

/-- `openGame` on a seat manager whose occupants are those of the table's -/
theorem q_openTable (s : State) (sm : SM.State) (hsm : ∀ i, SM.idAt sm i = SM.idAt s.sm i) (hmax : sm.maxSeat = s.sm.maxSeat) :
    Quiet (openTable s sm).1 s := by
  unfold openTable
  split
  · exact ⟨rfl, hsm, hmax⟩
  · rename_i ps hm
    simp only
    split
    · exact ⟨rfl, hsm, hmax⟩
    · split
      · exact ⟨rfl, hsm, hmax⟩
      · rename_i ps2 hap
        refine ⟨?_, hsm, hmax⟩
        have h1 := assignPositions_map (·.id) (fun _ _ => rfl) _ _ _ hap
        have h2 := mapM_keeps (·.id) (fun _ _ => rfl) sm _ _ hm
        simp only [openedState]
        rw [h1, h2]

theorem q_startHand (s2 : State) (ok : Bool) : Quiet (startHand s2 ok).1 s2 := by
  unfold startHand
  split
  · exact Quiet.refl _
  · split
    · exact Quiet.refl _
    · exact ⟨rfl, fun _ => rfl, rfl⟩

theorem q_openCore (s : State) (ch : Option Int) (ok : Bool) : Quiet (openCore s ch ok).1 s := by
  unfold openCore
  have hq : (∀ i, SM.idAt (if !s.sm.isInit then SM.init s.sm ch else SM.rotate s.sm).1 i = SM.idAt s.sm i) ∧
      (if !s.sm.isInit then SM.init s.sm ch else SM.rotate s.sm).1.maxSeat = s.sm.maxSeat := by
    split
    · exact ⟨SM.init_id s.sm ch, SM.init_maxSeat s.sm ch⟩
    · exact ⟨SM.rotate_id s.sm, SM.rotate_maxSeat s.sm⟩
  simp only
  split
  · exact ⟨rfl, hq.1, hq.2⟩
  · split
    · exact (q_startHand _ ok).trans (q_openTable _ _ hq.1 hq.2)
    · exact q_openTable _ _ hq.1 hq.2

theorem q_gateFire (s : State) (ch : Option Int) (ok : Bool) : Quiet (gateFire s ch ok).1 s := by
  unfold gateFire
  have hg : Quiet (gateReady s) s := ⟨rfl, fun _ => rfl, rfl⟩
  split
  · exact hg
  · exact hg
  · exact (q_openCore _ ch ok).trans hg

theorem q_retryOpen (s : State) (ch : Option Int) (ok : Bool) : Quiet (retryOpen s ch ok).1 s := by
  rcases retryOpen_cases s ch ok with h | h | ⟨_, _, _, _, _, h⟩
  · rw [h]; exact Quiet.refl _
  · rw [h]; exact Quiet.refl _
  · rw [h]; exact q_openCore s ch ok

-- ------------------------------------------------------------------ consequences of bookkeeping + agreement

theorem occId_some (m : List Int) (ps : List Player) (seat : Int) (x : Nat) (h : occId m ps seat = some x) :
    ∃ pi p, seatMapGet m seat = some pi ∧ 0 ≤ pi ∧ ps[pi.toNat]? = some p ∧ p.id = x := by
  unfold occId at h
  cases hg : seatMapGet m seat with
  | none => rw [hg] at h; cases h
  | some pi =>
    rw [hg] at h
    simp only at h
    by_cases hp : 0 ≤ pi
    · simp only [hp, if_true] at h
      cases hq : ps[pi.toNat]? with
      | none => rw [hq] at h; cases h
      | some p => rw [hq] at h; exact ⟨pi, p, rfl, hp, hq, Option.some.inj h⟩
    · simp [hp] at h

theorem nodup_getElem?_inj (l : List Nat) (h : l.Nodup) (i j : Nat) (x : Nat) (hi : l[i]? = some x) (hj : l[j]? = some x) :
    i = j := by
  have li : i < l.length := by
    rcases Nat.lt_or_ge i l.length with h1 | h1
    · exact h1
    · rw [List.getElem?_eq_none h1] at hi; cases hi
  have lj : j < l.length := by
    rcases Nat.lt_or_ge j l.length with h1 | h1
    · exact h1
    · rw [List.getElem?_eq_none h1] at hj; cases hj
  have ei : l[i] = x := by rw [List.getElem?_eq_getElem li] at hi; exact Option.some.inj hi
  have ej : l[j] = x := by rw [List.getElem?_eq_getElem lj] at hj; exact Option.some.inj hj
  have hp := List.pairwise_iff_getElem.mp h
  rcases Nat.lt_trichotomy i j with hlt | heq | hgt
  · exact absurd (ei.trans ej.symm) (hp i j li lj hlt)
  · exact heq
  · exact absurd (ej.trans ei.symm) (hp j i lj li hgt)

/-- the seat manager holds no id on two seats -/
theorem sm_unique (s : State) (hb : Booked s) (ha : Agree s) : SM.IdsUnique s.sm := by
  intro i j x hi0 hin hj0 hjn hxi hxj
  rw [ha.maxSeat] at hin hjn
  rw [ha.seats i hi0 hin] at hxi
  rw [ha.seats j hj0 hjn] at hxj
  obtain ⟨pi, p, hgi, hpi0, hp, hpx⟩ := occId_some _ _ _ _ hxi
  obtain ⟨pj, q, hgj, hpj0, hq, hqx⟩ := occId_some _ _ _ _ hxj
  obtain ⟨p', hp', hps⟩ := hb.1.1.entries i pi hgi hpi0
  obtain ⟨q', hq', hqs⟩ := hb.1.1.entries j pj hgj hpj0
  rw [hp] at hp'; rw [hq] at hq'
  have e1 : p = p' := Option.some.inj hp'
  have e2 : q = q' := Option.some.inj hq'
  -- same id ⇒ same index (ids are listed once)
  have hidx : pi.toNat = pj.toNat := by
    have a1 : (s.players.map (·.id))[pi.toNat]? = some x := by rw [List.getElem?_map, hp]; simp [hpx]
    have a2 : (s.players.map (·.id))[pj.toNat]? = some x := by rw [List.getElem?_map, hq]; simp [hqx]
    exact nodup_getElem?_inj _ ha.ids _ _ x a1 a2
  rw [← hps, ← hqs, ← e1, ← e2]
  rw [hidx] at hp
  rw [hp] at hq
  rw [Option.some.inj hq]

/-- a seat the seat manager holds empty is shown free by the table -/
theorem free_of_sm_none (s : State) (hb : Booked s) (ha : Agree s) (seat : Int) (h0 : 0 ≤ seat) (hn : seat < s.cfg.maxSeat)
    (he : SM.idAt s.sm seat = none) : seatMapGet s.seatMap seat = some (-1) := by
  apply MapTight.free _ _ hb.1 seat h0 (by rw [hb.2]; exact hn)
  intro i p hp hs
  have hg := hb.1.1.players i p hp
  rw [hs] at hg
  have : occId s.seatMap s.players seat = some p.id := by
    unfold occId; rw [hg]; simp [hp]
  rw [← ha.seats seat h0 hn, he] at this
  cases this

-- ------------------------------------------------------------------ departures keep the agreement

theorem occ_of_player (m : List Int) (ps : List Player) (w : MapWF m ps) (i : Nat) (p : Player) (hp : ps[i]? = some p) :
    occId m ps p.seat = some p.id := by
  unfold occId
  rw [w.players i p hp]
  simp [hp]

theorem player_of_occ (m : List Int) (ps : List Player) (w : MapWF m ps) (seat : Int) (x : Nat)
    (h : occId m ps seat = some x) : ∃ (i : Nat) (p : Player), ps[i]? = some p ∧ p.seat = seat ∧ p.id = x := by
  obtain ⟨pi, p, hg, hp0, hp, hpx⟩ := occId_some m ps seat x h
  obtain ⟨p', hp', hs⟩ := w.entries seat pi hg hp0
  rw [hp] at hp'
  have : p = p' := Option.some.inj hp'
  exact ⟨pi.toNat, p, hp, by rw [this]; exact hs, hpx⟩

theorem occ_none_of_no_player (m : List Int) (ps : List Player) (w : MapWF m ps) (seat : Int)
    (h : ∀ (i : Nat) (p : Player), ps[i]? = some p → p.seat ≠ seat) : occId m ps seat = none := by
  cases ho : occId m ps seat with
  | none => rfl
  | some x =>
    obtain ⟨i, p, hp, hs, _⟩ := player_of_occ m ps w seat x ho
    exact absurd hs (h i p hp)

/-- **`PlayersLeave` keeps seat manager and table in agreement** -/
theorem batchRemove_agree (s : State) (ids : List Nat) (hb : Booked s) (ha : Agree s)
    (hnp : (batchRemove s ids).2 ≠ .panic) : Agree (batchRemove s ids).1 := by
  by_cases hok : (batchRemove s ids).2 = .ok
  · obtain ⟨w1, w2, hkeep⟩ := batchRemove_tight s ids hb.1 hok
    -- the seat manager after the call, and that it accepted
    have hsm : (batchRemove s ids).1.sm = (SM.remove s.sm ids).1 ∧ (SM.remove s.sm ids).2 = .ok := by
      unfold batchRemove at hok ⊢
      simp only at hok ⊢
      cases hr : (SM.remove s.sm ids).2 with
      | err e => rw [hr] at hok; cases hok
      | ok =>
        rw [hr] at hok
        simp only at hok ⊢
        cases hm : rebuildSeatMap s.cfg.maxSeat (s.players.filter (fun p => !(ids.contains p.id))) with
        | none => rw [hm] at hok; cases hok
        | some m =>
          rw [hm] at hok
          simp only at hok ⊢
          cases ho : s.gidx.mapM (fun gi => if 0 ≤ gi then (s.players[gi.toNat]?).map (·.id) else none) with
          | none => rw [ho] at hok; cases hok
          | some oids => exact ⟨rfl, trivial⟩
    have hcfg := batchRemove_cfg s ids
    have hu := sm_unique s hb ha
    refine ⟨by rw [hsm.1, SM.remove_maxSeat, hcfg]; exact ha.maxSeat, ?_, ?_⟩
    · intro seat h0 hn
      rw [hcfg] at hn
      rw [hsm.1, SM.remove_id s.sm ids hsm.2]
      have hn' : seat < s.sm.maxSeat := by rw [ha.maxSeat]; exact hn
      have hiff := SM.remove_cleared_iff s.sm hu ids hsm.2 seat h0 hn'
      have hold := ha.seats seat h0 hn
      -- players of the new list are players of the old one who did not leave
      have keep_old : ∀ (k : Nat) (q : Player), (batchRemove s ids).1.players[k]? = some q →
          (∃ i : Nat, s.players[i]? = some q) ∧ ids.contains q.id = false := by
        intro k q hq
        rw [hkeep] at hq
        have hm := List.mem_of_getElem? hq
        rw [List.mem_filter] at hm
        exact ⟨List.mem_iff_getElem?.mp hm.1, by simpa using hm.2⟩
      by_cases hc : seat ∈ ids.map (SM.seatOf s.sm)
      · -- somebody who left sat here: nobody of the new list does
        simp only [hc, if_true]
        obtain ⟨x, hx, hidx⟩ := hiff.mp hc
        symm
        apply occ_none_of_no_player _ _ w1.1 seat
        intro k q hq hqs
        obtain ⟨⟨i, hi⟩, hnot⟩ := keep_old k q hq
        have := occ_of_player _ _ hb.1.1 i q hi
        rw [hqs, ← hold, hidx] at this
        have : x = q.id := Option.some.inj this
        rw [← this] at hnot
        have : ids.contains x = true := by simpa using hx
        rw [this] at hnot; cases hnot
      · simp only [hc, if_false]
        cases hidx : SM.idAt s.sm seat with
        | none =>
          symm
          apply occ_none_of_no_player _ _ w1.1 seat
          intro k q hq hqs
          obtain ⟨⟨i, hi⟩, _⟩ := keep_old k q hq
          have := occ_of_player _ _ hb.1.1 i q hi
          rw [hqs, ← hold, hidx] at this
          cases this
        | some x =>
          -- the occupant stays: he is in the new list, and the rebuilt map names him
          rw [hidx] at hold
          obtain ⟨i, p, hp, hps, hpx⟩ := player_of_occ _ _ hb.1.1 seat x hold.symm
          have hnotin : ids.contains p.id = false := by
            cases hcn : ids.contains p.id with
            | false => rfl
            | true =>
              exfalso
              apply hc
              apply hiff.mpr
              exact ⟨p.id, by simpa using hcn, by rw [hidx, hpx]⟩
          have hmem : p ∈ (batchRemove s ids).1.players := by
            rw [hkeep, List.mem_filter]
            exact ⟨List.mem_of_getElem? hp, by simpa using hnotin⟩
          obtain ⟨k, hk⟩ := List.mem_iff_getElem?.mp hmem
          have := occ_of_player _ _ w1.1 k p hk
          rw [hps, hpx] at this
          exact this.symm
    · rw [hkeep]
      exact (List.Nodup.sublist ((List.filter_sublist).map _) ha.ids)
  · -- refused by the seat manager: nothing has changed (the panic branches are excluded by hypothesis)
    have : (batchRemove s ids).1 = s := by
      unfold batchRemove at hok hnp ⊢
      simp only at hok hnp ⊢
      split
      · rfl
      · rename_i hr
        simp only [hr] at hok hnp
        split
        · rename_i hm; simp only [hm] at hnp; exact absurd rfl hnp
        · rename_i m hm
          simp only [hm] at hok hnp
          split
          · rename_i ho; simp only [ho] at hnp; exact absurd rfl hnp
          · rename_i oids ho
            simp only [ho] at hok
            exact absurd trivial hok
    rw [this]; exact ha

-- ------------------------------------------------------------------ arrivals: what the seat manager did with the batch

theorem fixedMap_ids_sub (js : List Join) : ∀ e ∈ fixedMap js, ∃ j ∈ js, j.id = e.1 ∧ j.seat = e.2 ∧ j.seat ≠ -1 := by
  induction js with
  | nil => intro e he; simp [fixedMap] at he
  | cons j t ih =>
    intro e he
    unfold fixedMap at he
    simp only at he
    by_cases h1 : (j.seat == -1) = true
    · simp only [h1, if_true] at he
      obtain ⟨k, hk, hke⟩ := ih e he
      exact ⟨k, List.mem_cons_of_mem _ hk, hke⟩
    · simp only [h1, Bool.false_eq_true, if_false] at he
      by_cases h2 : ((fixedMap t).any fun e => e.1 == j.id) = true
      · simp only [h2, if_true] at he
        obtain ⟨k, hk, hke⟩ := ih e he
        exact ⟨k, List.mem_cons_of_mem _ hk, hke⟩
      · simp only [h2, Bool.false_eq_true, if_false] at he
        rcases List.mem_cons.mp he with rfl | he'
        · exact ⟨j, List.mem_cons_self, rfl, rfl, by simpa using h1⟩
        · obtain ⟨k, hk, hke⟩ := ih e he'
          exact ⟨k, List.mem_cons_of_mem _ hk, hke⟩

/-- with pairwise different ids nobody overrides anybody: every fixed-seat entry of the batch is in the map -/
theorem fixedMap_complete (js : List Join) (hd : js.Pairwise (fun a c => a.id ≠ c.id)) :
    ∀ j ∈ js, j.seat ≠ -1 → (j.id, j.seat) ∈ fixedMap js := by
  induction js with
  | nil => intro j hj; cases hj
  | cons k t ih =>
    have hp := List.pairwise_cons.mp hd
    intro j hj hs
    unfold fixedMap
    simp only
    rcases List.mem_cons.mp hj with rfl | hj'
    · have h1 : (j.seat == -1) = false := by simpa using hs
      simp only [h1, Bool.false_eq_true, if_false]
      have h2 : ((fixedMap t).any fun e => e.1 == j.id) = false := by
        rw [List.any_eq_false]
        intro e he
        obtain ⟨q, hq, hqe, _, _⟩ := fixedMap_ids_sub t e he
        have := hp.1 q hq
        simp only [beq_iff_eq]
        rw [← hqe]; exact fun h => this h.symm
      simp only [h2, Bool.false_eq_true, if_false]
      exact List.mem_cons_self
    · have := ih hp.2 j hj' hs
      by_cases h1 : (k.seat == -1) = true
      · simp only [h1, if_true]; exact this
      · simp only [h1, Bool.false_eq_true, if_false]
        split
        · exact this
        · exact List.mem_cons_of_mem _ this

theorem fixedMap_pairwise_ids (js : List Join) : (fixedMap js).Pairwise (fun a c => a.1 ≠ c.1) := by
  induction js with
  | nil => simp [fixedMap]
  | cons j t ih =>
    unfold fixedMap
    simp only
    split
    · exact ih
    · split
      · exact ih
      · rename_i _ h2
        refine List.pairwise_cons.mpr ⟨?_, ih⟩
        intro e he heq
        apply h2
        rw [List.any_eq_true]
        exact ⟨e, he, by simp only [beq_iff_eq]; exact heq.symm⟩

theorem randomIds_complete (js : List Join) : ∀ j ∈ js, j.seat = -1 → j.id ∈ randomIds js := by
  intro j hj hs
  unfold randomIds
  rw [List.mem_map]
  exact ⟨j, List.mem_filter.mpr ⟨hj, by simp [hs]⟩, rfl⟩

theorem mem_zip_of_mem_left {α β : Type} (l1 : List α) (l2 : List β) (h : l2.length = l1.length) (a : α) (ha : a ∈ l1) :
    ∃ b, (a, b) ∈ l1.zip l2 := by
  induction l1 generalizing l2 with
  | nil => cases ha
  | cons x t ih =>
    cases l2 with
    | nil => simp at h
    | cons y u =>
      simp only [List.zip_cons_cons]
      rcases List.mem_cons.mp ha with rfl | ha'
      · exact ⟨y, List.mem_cons_self⟩
      · obtain ⟨b, hb⟩ := ih u (by simpa using h) ha'
        exact ⟨b, List.mem_cons_of_mem _ hb⟩

/-- what the seat manager holds after an accepted `batchAddPlayers`, seat by seat, and where it put each newcomer -/
structure Placed (s : State) (js : List Join) (sm' : SM.State) : Prop where
  maxSeat : sm'.maxSeat = s.sm.maxSeat
  unique : SM.IdsUnique s.sm → SM.IdsUnique sm'
  each : ∀ j ∈ js, ∃ seat : Int, 0 ≤ seat ∧ seat < s.sm.maxSeat ∧ SM.idAt sm' seat = some j.id ∧ SM.idAt s.sm seat = none
  others : ∀ seat : Int, (∀ j ∈ js, SM.idAt sm' seat ≠ some j.id) → SM.idAt sm' seat = SM.idAt s.sm seat
  fresh : ∀ j ∈ js, ∀ i : Int, 0 ≤ i → i < s.sm.maxSeat → SM.idAt s.sm i ≠ some j.id

theorem find_none_of_not_mem {α : Type} (l : List α) (p : α → Bool) (h : ∀ a ∈ l, p a = false) : l.find? p = none := by
  rw [List.find?_eq_none]; intro a ha; rw [h a ha]; simp

/-- two rounds of placements (fixed seats, then drawn seats) that satisfy the facts of `assign_ok_facts` /
`randomAssign_ok_facts` and together cover the batch -/
theorem placed_of_facts (s : State) (js : List Join) (b1 b2 : List (Nat × Int))
    (f1e : ∀ e ∈ b1, 0 ≤ e.2 ∧ e.2 < s.sm.maxSeat ∧ SM.idAt s.sm e.2 = none)
    (f1f : ∀ e ∈ b1, ∀ i : Int, 0 ≤ i → i < s.sm.maxSeat → SM.idAt s.sm i ≠ some e.1)
    (f1s : b1.Pairwise (fun a c => a.2 ≠ c.2)) (f1i : b1.Pairwise (fun a c => a.1 ≠ c.1))
    (f2e : ∀ e ∈ b2, 0 ≤ e.2 ∧ e.2 < s.sm.maxSeat ∧ SM.idAt (SM.placeAll s.sm b1) e.2 = none)
    (f2f : ∀ e ∈ b2, ∀ i : Int, 0 ≤ i → i < s.sm.maxSeat → SM.idAt (SM.placeAll s.sm b1) i ≠ some e.1)
    (f2s : b2.Pairwise (fun a c => a.2 ≠ c.2)) (f2i : b2.Pairwise (fun a c => a.1 ≠ c.1))
    (cover : ∀ j ∈ js, (∃ c, (j.id, c) ∈ b1) ∨ (∃ c, (j.id, c) ∈ b2))
    (only : ∀ e, e ∈ b1 ∨ e ∈ b2 → ∃ j ∈ js, j.id = e.1) :
    Placed s js (SM.placeAll (SM.placeAll s.sm b1) b2) := by
  have hm1 := SM.placeAll_maxSeat s.sm b1
  have id2 := SM.placeAll_id (SM.placeAll s.sm b1) b2 f2s
  have id1 := SM.placeAll_id s.sm b1 f1s
  -- an entry's seat holds its id afterwards
  have at1 : ∀ e ∈ b1, SM.idAt (SM.placeAll s.sm b1) e.2 = some e.1 := by
    intro e he
    rw [id1]
    have : b1.find? (fun x => x.2 == e.2) = some e := by
      cases hf : b1.find? (fun x => x.2 == e.2) with
      | none =>
        rw [List.find?_eq_none] at hf
        exact absurd (by simp) (hf e he)
      | some x =>
        have hx := List.mem_of_find?_eq_some hf
        have hxs : x.2 = e.2 := by simpa using List.find?_some hf
        by_cases hxe : x = e
        · rw [hxe]
        · exfalso
          have hsym : ∀ a ∈ b1, ∀ c ∈ b1, a.2 = c.2 → a = c := SM.pairwise_inj (·.2) b1 f1s
          exact hxe (hsym x hx e he hxs)
    rw [this]
  have at2 : ∀ e ∈ b2, SM.idAt (SM.placeAll (SM.placeAll s.sm b1) b2) e.2 = some e.1 := by
    intro e he
    rw [id2]
    have : b2.find? (fun x => x.2 == e.2) = some e := by
      cases hf : b2.find? (fun x => x.2 == e.2) with
      | none =>
        rw [List.find?_eq_none] at hf
        exact absurd (by simp) (hf e he)
      | some x =>
        have hx := List.mem_of_find?_eq_some hf
        have hxs : x.2 = e.2 := by simpa using List.find?_some hf
        by_cases hxe : x = e
        · rw [hxe]
        · exfalso
          exact hxe (SM.pairwise_inj (·.2) b2 f2s x hx e he hxs)
    rw [this]
  refine ⟨by rw [SM.placeAll_maxSeat, hm1], ?_, ?_, ?_, ?_⟩
  · intro hu
    apply SM.placeAll_unique _ b2 (SM.placeAll_unique s.sm b1 hu f1s f1i f1f) f2s f2i
    intro e he i h0 hn
    rw [hm1] at hn
    exact f2f e he i h0 hn
  · intro j hj
    rcases cover j hj with ⟨c, hc⟩ | ⟨c, hc⟩
    · obtain ⟨h0, hn, hnone⟩ := f1e _ hc
      refine ⟨c, h0, hn, ?_, hnone⟩
      -- the second round does not touch seat c: it was taken after the first
      rw [id2]
      have : b2.find? (fun x => x.2 == c) = none := by
        apply find_none_of_not_mem
        intro e he
        have := (f2e e he).2.2
        by_cases hec : e.2 = c
        · rw [hec, at1 _ hc] at this; cases this
        · simpa using hec
      rw [this]; exact at1 _ hc
    · obtain ⟨h0, hn, hnone⟩ := f2e _ hc
      refine ⟨c, h0, hn, at2 _ hc, ?_⟩
      rw [id1] at hnone
      cases hf : b1.find? (fun x => x.2 == c) with
      | none => rw [hf] at hnone; exact hnone
      | some x => rw [hf] at hnone; cases hnone
  · intro seat hno
    rw [id2]
    cases hf2 : b2.find? (fun x => x.2 == seat) with
    | some x =>
      exfalso
      have hx := List.mem_of_find?_eq_some hf2
      have hxs : x.2 = seat := by simpa using List.find?_some hf2
      obtain ⟨j, hj, hje⟩ := only x (Or.inr hx)
      apply hno j hj
      rw [← hxs, at2 x hx, hje]
    | none =>
      simp only
      rw [id1]
      cases hf1 : b1.find? (fun x => x.2 == seat) with
      | some x =>
        exfalso
        have hx := List.mem_of_find?_eq_some hf1
        have hxs : x.2 = seat := by simpa using List.find?_some hf1
        obtain ⟨j, hj, hje⟩ := only x (Or.inl hx)
        apply hno j hj
        rw [id2, hf2]
        simp only
        rw [← hxs, at1 x hx, hje]
      | none => rfl
  · intro j hj i h0 hn
    rcases cover j hj with ⟨c, hc⟩ | ⟨c, hc⟩
    · exact f1f _ hc i h0 hn
    · have := f2f _ hc i h0 hn
      rw [id1] at this
      cases hf : b1.find? (fun x => x.2 == i) with
      | none => rw [hf] at this; exact this
      | some x =>
        -- seat i got somebody of the first round; before, it was empty
        have hx := List.mem_of_find?_eq_some hf
        have hxs : x.2 = i := by simpa using List.find?_some hf
        have := (f1e x hx).2.2
        rw [hxs] at this
        rw [this]; exact fun h => by cases h

theorem joins_pairwise (js : List Join) (h : SM.allDistinct (js.map (·.id)) = true) : js.Pairwise (fun a c => a.id ≠ c.id) := by
  have := SM.allDistinct_pairwise _ h
  rw [List.pairwise_map] at this
  exact this

/-- the seat manager after a `batchAddPlayers` that the seat manager did not refuse (accepted, or panicked while appending) -/
theorem batchAdd_noerr_placed (s : State) (js : List Join) (ch : List Int) (hl : BatchLegal s js ch)
    (hok : ∀ e, (batchAdd s js ch).2 ≠ .err e) :
    Placed s js (batchAdd s js ch).1.sm ∧ js.Pairwise (fun a c => a.id ≠ c.id) := by
  unfold batchAdd at hok ⊢
  by_cases hd : SM.allDistinct (js.map (·.id)) = true
  · simp only [hd, Bool.not_true, Bool.false_eq_true, if_false] at hok ⊢
    have hpw := joins_pairwise js hd
    refine ⟨?_, hpw⟩
    -- first round
    have r1 : ∃ sm1, (if (fixedMap js).isEmpty then (s.sm, SM.Res.ok) else SM.assign s.sm (fixedMap js)) = (sm1, SM.Res.ok) ∧
        sm1 = SM.placeAll s.sm (fixedMap js) ∧
        (∀ e ∈ fixedMap js, 0 ≤ e.2 ∧ e.2 < s.sm.maxSeat ∧ SM.idAt s.sm e.2 = none) ∧
        (∀ e ∈ fixedMap js, ∀ i : Int, 0 ≤ i → i < s.sm.maxSeat → SM.idAt s.sm i ≠ some e.1) ∧
        (fixedMap js).Pairwise (fun a c => a.2 ≠ c.2) := by
      by_cases he : (fixedMap js).isEmpty = true
      · have hnil : fixedMap js = [] := by simpa using he
        refine ⟨s.sm, by simp [he], by rw [hnil]; rfl, by rw [hnil]; simp, by rw [hnil]; simp, by rw [hnil]; simp⟩
      · simp only [he, Bool.false_eq_true, if_false] at hok ⊢
        cases ha : (SM.assign s.sm (fixedMap js)).2 with
        | err e => rw [ha] at hok; exact absurd rfl (hok _)
        | ok =>
          obtain ⟨f0, f1, f2, f3⟩ := SM.assign_ok_facts s.sm (fixedMap js) (fixedMap_pairwise_ids js) ha
          exact ⟨(SM.assign s.sm (fixedMap js)).1, by rw [← ha], f0, f1, f2, f3⟩
    obtain ⟨sm1, hr1, hsm1, f1e, f1f, f1s⟩ := r1
    rw [hr1] at hok ⊢
    simp only at hok ⊢
    have hl' : (randomIds js).isEmpty = false → SM.legalChoice sm1 (randomIds js) ch = true := by
      intro hne
      have := hl hne
      by_cases he : (fixedMap js).isEmpty = true
      · simp only [he, if_true] at this hr1
        have : sm1 = s.sm := by simpa using (Prod.mk.inj hr1).1.symm
        rw [this]; assumption
      · simp only [he, Bool.false_eq_true, if_false] at this hr1
        have : sm1 = (SM.assign s.sm (fixedMap js)).1 := by rw [hr1]
        rw [this]; assumption
    -- second round
    have r2 : ∃ sm2, (if (randomIds js).isEmpty then (sm1, SM.Res.ok) else SM.randomAssign sm1 (randomIds js) ch) = (sm2, SM.Res.ok) ∧
        ∃ b2, sm2 = SM.placeAll sm1 b2 ∧
        (∀ e ∈ b2, 0 ≤ e.2 ∧ e.2 < sm1.maxSeat ∧ SM.idAt sm1 e.2 = none) ∧
        (∀ e ∈ b2, ∀ i : Int, 0 ≤ i → i < sm1.maxSeat → SM.idAt sm1 i ≠ some e.1) ∧
        b2.Pairwise (fun a c => a.2 ≠ c.2) ∧ b2.Pairwise (fun a c => a.1 ≠ c.1) ∧
        (∀ x ∈ randomIds js, ∃ c, (x, c) ∈ b2) ∧ (∀ e ∈ b2, e.1 ∈ randomIds js) := by
      by_cases he : (randomIds js).isEmpty = true
      · have hnil : randomIds js = [] := by simpa using he
        refine ⟨sm1, by simp [he], [], rfl, by simp, by simp, by simp, by simp, by rw [hnil]; simp, by simp⟩
      · simp only [he, Bool.false_eq_true, if_false] at hok ⊢
        cases ha : (SM.randomAssign sm1 (randomIds js) ch).2 with
        | err e => rw [ha] at hok; exact absurd rfl (hok _)
        | ok =>
          obtain ⟨g0, g1, g2, g3, g4, g5⟩ := SM.randomAssign_ok_facts sm1 (randomIds js) ch (hl' (by simpa using he)) ha
          refine ⟨(SM.randomAssign sm1 (randomIds js) ch).1, by rw [← ha], (randomIds js).zip ch, g0, g1, g2, g3, g4, ?_, ?_⟩
          · intro x hx; exact mem_zip_of_mem_left _ _ g5 x hx
          · intro e he2; exact (List.of_mem_zip he2).1
    obtain ⟨sm2, hr2, b2, hsm2, f2e, f2f, f2s, f2i, hcov2, honly2⟩ := r2
    rw [hr2] at hok ⊢
    simp only at hok ⊢
    have hm1 : sm1.maxSeat = s.sm.maxSeat := by rw [hsm1]; exact SM.placeAll_maxSeat _ _
    suffices key : Placed s js sm2 by
      split
      · exact key
      · exact key
    rw [hsm2, hsm1]
    apply placed_of_facts s js (fixedMap js) b2 f1e f1f f1s (fixedMap_pairwise_ids js)
    · intro e he; have := f2e e he; rw [hm1, hsm1] at this; exact this
    · intro e he i h0 hn; have := f2f e he i h0 (by rw [hm1]; exact hn); rw [hsm1] at this; exact this
    · exact f2s
    · exact f2i
    · intro j hj
      by_cases hs : j.seat = -1
      · right; exact hcov2 j.id (randomIds_complete js j hj hs)
      · left; exact ⟨j.seat, fixedMap_complete js hpw j hj hs⟩
    · intro e he
      rcases he with he | he
      · obtain ⟨j, hj, hje, _, _⟩ := fixedMap_ids_sub js e he
        exact ⟨j, hj, hje⟩
      · have := honly2 e he
        unfold randomIds at this
        rw [List.mem_map] at this
        obtain ⟨j, hj, hje⟩ := this
        exact ⟨j, (List.mem_filter.mp hj).1, hje⟩
  · simp only [hd, Bool.not_false, if_true] at hok; exact absurd rfl (hok _)

/-- the seat manager after an accepted `batchAddPlayers` -/
theorem batchAdd_ok_placed (s : State) (js : List Join) (ch : List Int) (hl : BatchLegal s js ch)
    (hok : (batchAdd s js ch).2 = .ok) :
    Placed s js (batchAdd s js ch).1.sm ∧ js.Pairwise (fun a c => a.id ≠ c.id) :=
  batchAdd_noerr_placed s js ch hl (fun e h => by rw [hok] at h; cases h)

/-- where the seat manager put a newcomer is where `GetSeatID` finds him -/
theorem placed_seatOf (s : State) (js : List Join) (sm' : SM.State) (hp : Placed s js sm') (hu : SM.IdsUnique s.sm)
    (j : Join) (hj : j ∈ js) :
    0 ≤ SM.seatOf sm' j.id ∧ SM.seatOf sm' j.id < s.sm.maxSeat ∧ SM.idAt sm' (SM.seatOf sm' j.id) = some j.id ∧
    SM.idAt s.sm (SM.seatOf sm' j.id) = none := by
  obtain ⟨seat, h0, hn, hid, hnone⟩ := hp.each j hj
  have := SM.seatOf_eq sm' (hp.unique hu) j.id seat h0 (by rw [hp.maxSeat]; exact hn) hid
  rw [this]; exact ⟨h0, hn, hid, hnone⟩

/-- **the arrival condition follows from the agreement**: in a table whose seat map, player list and seat manager agree,
an accepted `batchAddPlayers` (its recorded draw being legal) is given seats the table shows free, one each -/
theorem arrivalOK_of_agree (s : State) (js : List Join) (ch : List Int) (hb : Booked s) (ha : Agree s)
    (hl : BatchLegal s js ch) : ArrivalOK s js ch := by
  intro hok
  obtain ⟨hp, hpw⟩ := batchAdd_ok_placed s js ch hl hok
  have hu := sm_unique s hb ha
  refine ⟨?_, ?_⟩
  · intro j hj
    obtain ⟨h0, hn, _, hnone⟩ := placed_seatOf s js _ hp hu j hj
    exact free_of_sm_none s hb ha _ h0 (by rw [← ha.maxSeat]; exact hn) hnone
  · refine List.Pairwise.imp_of_mem ?_ hpw
    intro a c hma hmc hne heq
    obtain ⟨_, _, hida, _⟩ := placed_seatOf s js _ hp hu a hma
    obtain ⟨_, _, hidc, _⟩ := placed_seatOf s js _ hp hu c hmc
    rw [heq, hidc] at hida
    exact hne (Option.some.inj hida).symm

theorem appendPlayers_ids (sm : SM.State) (js : List Join) (ps : List Player) (m : List Int) (ps' : List Player) (m' : List Int)
    (hap : appendPlayers sm js ps m = some (ps', m')) : ps'.map (·.id) = ps.map (·.id) ++ js.map (·.id) := by
  induction js generalizing ps m with
  | nil =>
    unfold appendPlayers at hap
    have := Option.some.inj hap
    simp only [Prod.mk.injEq] at this
    rw [← this.1]; simp
  | cons j t ih =>
    unfold appendPlayers at hap
    simp only at hap
    by_cases h1 : SM.seatOf sm j.id = -1
    · simp [h1] at hap
    · simp only [h1, if_false] at hap
      by_cases hc : 0 ≤ SM.seatOf sm j.id ∧ SM.seatOf sm j.id < m.length
      · simp only [hc, and_self, if_true] at hap
        rw [ih _ _ hap]; simp
      · simp [hc] at hap

theorem occId_set_self (m : List Int) (ps : List Player) (p : Player) (seat : Int) (h0 : 0 ≤ seat) (hl : seat < m.length) :
    occId (m.set seat.toNat ps.length) (ps ++ [p]) seat = some p.id := by
  unfold occId
  rw [seatMapGet_set_self m seat _ h0 hl]
  simp

theorem occId_set_other (m : List Int) (ps : List Player) (w : MapWF m ps) (p : Player) (seat other : Int) (h0 : 0 ≤ seat)
    (hne : other ≠ seat) : occId (m.set seat.toNat ps.length) (ps ++ [p]) other = occId m ps other := by
  unfold occId
  rw [seatMapGet_set_other m seat other _ h0 hne]
  cases hg : seatMapGet m other with
  | none => rfl
  | some pi =>
    simp only
    by_cases hp : 0 ≤ pi
    · simp only [hp, if_true]
      obtain ⟨q, hq, _⟩ := w.entries other pi hg hp
      have hlt : pi.toNat < ps.length := by
        rcases Nat.lt_or_ge pi.toNat ps.length with h | h
        · exact h
        · rw [List.getElem?_eq_none h] at hq; cases hq
      rw [List.getElem?_append_left hlt]
    · simp [hp]

/-- the appending loop keeps the agreement: once all newcomers are listed, every seat of the table shows the id the seat
manager holds there -/
theorem appendPlayers_agree (sm : SM.State) (js : List Join) (ps : List Player) (m : List Int) (ht : MapTight m ps)
    (hfree : ∀ j ∈ js, seatMapGet m (SM.seatOf sm j.id) = some (-1))
    (hpair : js.Pairwise (fun a b => SM.seatOf sm a.id ≠ SM.seatOf sm b.id))
    (hown : ∀ j ∈ js, SM.idAt sm (SM.seatOf sm j.id) = some j.id)
    (hrest : ∀ seat : Int, 0 ≤ seat → seat < m.length → (∀ j ∈ js, SM.seatOf sm j.id ≠ seat) → SM.idAt sm seat = occId m ps seat)
    (ps' : List Player) (m' : List Int) (hap : appendPlayers sm js ps m = some (ps', m')) :
    ∀ seat : Int, 0 ≤ seat → seat < m.length → SM.idAt sm seat = occId m' ps' seat := by
  induction js generalizing ps m with
  | nil =>
    unfold appendPlayers at hap
    have := Option.some.inj hap
    simp only [Prod.mk.injEq] at this
    obtain ⟨rfl, rfl⟩ := this
    intro seat h0 hn
    exact hrest seat h0 hn (fun j hj => by cases hj)
  | cons j t ih =>
    unfold appendPlayers at hap
    simp only at hap
    by_cases h1 : SM.seatOf sm j.id = -1
    · simp [h1] at hap
    · simp only [h1, if_false] at hap
      by_cases hc : 0 ≤ SM.seatOf sm j.id ∧ SM.seatOf sm j.id < m.length
      · simp only [hc, and_self, if_true] at hap
        have hf := hfree j List.mem_cons_self
        have hp2 := List.pairwise_cons.mp hpair
        let pj : Player := { id := j.id, seat := SM.seatOf sm j.id, bankroll := j.chips }
        have hstep := MapTight.append m ps ht pj hc.1 hc.2 hf
        have hlen : (m.set (SM.seatOf sm j.id).toNat ps.length).length = m.length := by simp
        intro seat h0 hn
        have := ih (ps ++ [pj]) (m.set (SM.seatOf sm j.id).toNat ps.length) hstep
          (by
            intro k hk
            have hne : SM.seatOf sm k.id ≠ SM.seatOf sm j.id := fun e => hp2.1 k hk e.symm
            rw [seatMapGet_set_other m _ _ _ hc.1 hne]
            exact hfree k (List.mem_cons_of_mem _ hk))
          hp2.2 (fun k hk => hown k (List.mem_cons_of_mem _ hk))
          (by
            intro st s0 sn hno
            rw [hlen] at sn
            by_cases hs : st = SM.seatOf sm j.id
            · rw [hs, hown j List.mem_cons_self]
              exact (occId_set_self m ps pj _ hc.1 hc.2).symm
            · rw [occId_set_other m ps ht.1 pj _ st hc.1 hs]
              apply hrest st s0 sn
              intro k hk
              rcases List.mem_cons.mp hk with rfl | hk'
              · exact fun e => hs e.symm
              · exact hno k hk')
          hap seat h0 (by rw [hlen]; exact hn)
        exact this
      · simp [hc] at hap

theorem Agree.of_fields {a b : State} (h1 : a.sm.maxSeat = b.sm.maxSeat) (h2 : a.cfg = b.cfg) (h3 : a.seatMap = b.seatMap)
    (h4 : a.players = b.players) (h5 : ∀ i : Int, 0 ≤ i → i < b.cfg.maxSeat → SM.idAt a.sm i = SM.idAt b.sm i)
    (w : Agree b) : Agree a := by
  refine ⟨by rw [h1, h2]; exact w.maxSeat, ?_, by rw [h4]; exact w.ids⟩
  intro seat h0 hn
  rw [h2] at hn
  rw [h5 seat h0 hn, h3, h4]
  exact w.seats seat h0 hn

/-- a refused `batchAddPlayers` (not a panic) leaves the table's lists alone and the seat manager with the occupants it had -/
theorem batchAdd_err_fields (s : State) (js : List Join) (ch : List Int) (hu : SM.IdsUnique s.sm)
    (hne : (batchAdd s js ch).2 ≠ .ok) (hnp : (batchAdd s js ch).2 ≠ .panic) :
    (batchAdd s js ch).1.sm.maxSeat = s.sm.maxSeat ∧ (batchAdd s js ch).1.cfg = s.cfg ∧
    (batchAdd s js ch).1.seatMap = s.seatMap ∧ (batchAdd s js ch).1.players = s.players ∧
    (∀ i : Int, 0 ≤ i → i < s.sm.maxSeat → SM.idAt (batchAdd s js ch).1.sm i = SM.idAt s.sm i) := by
  unfold batchAdd at hne hnp ⊢
  by_cases hd : SM.allDistinct (js.map (·.id)) = true
  · simp only [hd, Bool.not_true, Bool.false_eq_true, if_false] at hne hnp ⊢
    cases h1 : (if (fixedMap js).isEmpty then (s.sm, SM.Res.ok) else SM.assign s.sm (fixedMap js)).2 with
    | err e => simp [h1]
    | ok =>
      simp only [h1] at hne hnp ⊢
      cases h2 : (if (randomIds js).isEmpty then ((if (fixedMap js).isEmpty then (s.sm, SM.Res.ok) else SM.assign s.sm (fixedMap js)).1, SM.Res.ok)
          else SM.randomAssign (if (fixedMap js).isEmpty then (s.sm, SM.Res.ok) else SM.assign s.sm (fixedMap js)).1 (randomIds js) ch).2 with
      | err e =>
        simp only [h2, true_and]
        refine ⟨?_, ?_⟩
        · by_cases he : (fixedMap js).isEmpty = true
          · simp [he]
          · simp only [he, Bool.false_eq_true, if_false] at h1 ⊢
            obtain ⟨f0, f1, f2, f3⟩ := SM.assign_ok_facts s.sm (fixedMap js) (fixedMap_pairwise_ids js) h1
            rw [f0]
            exact (SM.release_restores s.sm hu (fixedMap js) f1 f2 f3 (fixedMap_pairwise_ids js)).2
        · intro i h0 hn
          by_cases he : (fixedMap js).isEmpty = true
          · simp [he]
          · simp only [he, Bool.false_eq_true, if_false] at h1 ⊢
            obtain ⟨f0, f1, f2, f3⟩ := SM.assign_ok_facts s.sm (fixedMap js) (fixedMap_pairwise_ids js) h1
            rw [f0]
            exact (SM.release_restores s.sm hu (fixedMap js) f1 f2 f3 (fixedMap_pairwise_ids js)).1 i h0 hn
      | ok =>
        simp only [h2] at hne hnp ⊢
        split at hne
        · rename_i hap; simp only [hap] at hnp; exact absurd rfl hnp
        · exact absurd rfl hne
  · simp [hd]

/-- a panic of `batchAddPlayers` is the appending loop running off the seat map -/
theorem batchAdd_panic_shape (s : State) (js : List Join) (ch : List Int) (hp : (batchAdd s js ch).2 = .panic) :
    appendPlayers (batchAdd s js ch).1.sm js s.players s.seatMap = none := by
  unfold batchAdd at hp ⊢
  by_cases hd : SM.allDistinct (js.map (·.id)) = true
  · simp only [hd, Bool.not_true, Bool.false_eq_true, if_false] at hp ⊢
    cases h1 : (if (fixedMap js).isEmpty then (s.sm, SM.Res.ok) else SM.assign s.sm (fixedMap js)).2 with
    | err e => simp only [h1] at hp; exact absurd hp (by simp)
    | ok =>
      simp only [h1] at hp ⊢
      cases h2 : (if (randomIds js).isEmpty then ((if (fixedMap js).isEmpty then (s.sm, SM.Res.ok) else SM.assign s.sm (fixedMap js)).1, SM.Res.ok)
          else SM.randomAssign (if (fixedMap js).isEmpty then (s.sm, SM.Res.ok) else SM.assign s.sm (fixedMap js)).1 (randomIds js) ch).2 with
      | err e => simp only [h2] at hp; exact absurd hp (by simp)
      | ok =>
        simp only [h2] at hp ⊢
        split at hp
        · rename_i hap; simp only [hap]
        · exact absurd hp (by simp)
  · simp only [hd, Bool.not_false, if_true] at hp; exact absurd hp (by simp)

theorem appendPlayers_some (sm : SM.State) (js : List Join) (ps : List Player) (m : List Int)
    (h : ∀ j ∈ js, 0 ≤ SM.seatOf sm j.id ∧ SM.seatOf sm j.id < m.length) : appendPlayers sm js ps m ≠ none := by
  induction js generalizing ps m with
  | nil => simp [appendPlayers]
  | cons j t ih =>
    obtain ⟨h0, hn⟩ := h j (List.mem_cons_self)
    unfold appendPlayers
    simp only
    have hne : ¬ SM.seatOf sm j.id = -1 := by omega
    simp only [hne, if_false, h0, hn, and_self, if_true]
    apply ih
    intro j' hj'
    have := h j' (List.mem_cons_of_mem _ hj')
    simpa using this

/-- **`batchAddPlayers` does not panic on a table whose books agree**: the seat manager found every newcomer a seat of the
table, so the appending loop stays inside the seat map -/
theorem batchAdd_no_panic (s : State) (js : List Join) (ch : List Int) (hb : Booked s) (ha : Agree s)
    (hl : BatchLegal s js ch) : (batchAdd s js ch).2 ≠ .panic := by
  intro hp
  have hu := sm_unique s hb ha
  obtain ⟨hpl, _⟩ := batchAdd_noerr_placed s js ch hl (fun e h => by rw [hp] at h; cases h)
  refine appendPlayers_some _ js s.players s.seatMap ?_ (batchAdd_panic_shape s js ch hp)
  intro j hj
  obtain ⟨h0, hn, _, _⟩ := placed_seatOf s js _ hpl hu j hj
  refine ⟨h0, ?_⟩
  rw [hb.2, ← ha.maxSeat]; exact hn

/-- **`UpdateTablePlayers` / `PlayerReserve` arrivals keep seat manager and table in agreement** (the recorded draw being
legal and the call not having panicked) -/
theorem batchAdd_agree (s : State) (js : List Join) (ch : List Int) (hb : Booked s) (ha : Agree s)
    (hl : BatchLegal s js ch) (hnp : (batchAdd s js ch).2 ≠ .panic) : Agree (batchAdd s js ch).1 := by
  have hu := sm_unique s hb ha
  have hcfg := batchAdd_cfg s js ch
  by_cases hok : (batchAdd s js ch).2 = .ok
  · obtain ⟨hp, hpw⟩ := batchAdd_ok_placed s js ch hl hok
    have harr := arrivalOK_of_agree s js ch hb ha hl hok
    rcases batchAdd_shape s js ch with ⟨_, _, hno⟩ | ⟨ps, m, hap, hps, hm, _⟩
    · exact absurd hok hno
    · have hu' := hp.unique hu
      refine ⟨by rw [hp.maxSeat, hcfg]; exact ha.maxSeat, ?_, ?_⟩
      · intro seat h0 hn
        rw [hcfg] at hn
        rw [hps, hm]
        refine appendPlayers_agree _ js s.players s.seatMap hb.1 harr.1 harr.2
          (fun j hj => (placed_seatOf s js _ hp hu j hj).2.2.1) ?_ ps m hap seat h0 (by rw [hb.2]; exact hn)
        intro seat' h0' hn' hnot
        rw [hb.2] at hn'
        rw [← ha.seats seat' h0' hn']
        apply hp.others
        intro j hj hid
        exact hnot j hj (SM.seatOf_eq _ hu' j.id seat' h0' (by rw [hp.maxSeat, ha.maxSeat]; exact hn') hid)
      · rw [hps, appendPlayers_ids _ js s.players s.seatMap ps m hap]
        rw [List.nodup_append]
        refine ⟨ha.ids, ?_, ?_⟩
        · exact List.Pairwise.map _ (fun _ _ h => h) hpw
        · intro a hma b hmb heq
          obtain ⟨p, hpm, hpa⟩ := List.mem_map.mp hma
          obtain ⟨j, hjm, hjb⟩ := List.mem_map.mp hmb
          obtain ⟨i, hi⟩ := List.getElem?_of_mem hpm
          have hocc := occ_of_player s.seatMap s.players hb.1.1 i p hi
          have hr := seatMapGet_range s.seatMap p.seat _ (hb.1.1.players i p hi)
          rw [hb.2] at hr
          have := ha.seats p.seat hr.1 hr.2
          rw [hocc] at this
          refine hp.fresh j hjm p.seat hr.1 (by rw [ha.maxSeat]; exact hr.2) ?_
          rw [this, hpa, heq, hjb]
  · obtain ⟨e1, e2, e3, e4, e5⟩ := batchAdd_err_fields s js ch hu hok hnp
    exact Agree.of_fields e1 e2 e3 e4 (fun i h0 hn => e5 i h0 (by rw [ha.maxSeat]; exact hn)) ha

end TB
