import PokerVerif.Lemmas.SMBasic
/-! Helper lemmas about `SM.rotateDefault` / `SM.init`: model scans = spec searches, the new BB seat, the shape of the result branch by branch. -/
namespace SM
open SMSpec

/-- the model's next-BB scan is the spec's "first live seat clockwise" -/
theorem nextAlive_eq_spec (st : State) (start : Int) (h0 : 0 ≤ start) :
    nextAlive st start = firstCw st.maxSeat start (aliveAt st.seats) := by
  unfold nextAlive firstCw firstCwOffset
  rw [scan_eq_find, facts_nextAliveMod]
  have hf : ∀ j : Nat, Int.tmod (start + (j:Int)) (st.maxSeat : Int) = cw st.maxSeat start j := by
    intro j; unfold cw; exact Int.tmod_eq_emod_of_nonneg (by omega)
  simp only [hf]
  generalize List.find? _ _ = o
  cases o <;> rfl

theorem nextActive_eq_spec (st : State) (start : Int) (h0 : 0 ≤ start) :
    nextActive st start = firstCw st.maxSeat start (activeAt st.seats) := by
  unfold nextActive firstCw firstCwOffset
  rw [scan_eq_find, facts_nextActiveMod]
  have hf : ∀ j : Nat, Int.tmod (start + (j:Int)) (st.maxSeat : Int) = cw st.maxSeat start j := by
    intro j; unfold cw; exact Int.tmod_eq_emod_of_nonneg (by omega)
  simp only [hf]
  generalize List.find? _ _ = o
  cases o <;> rfl

theorem prevAlive_eq_spec (st : State) (start : Int) (h0 : 0 ≤ start) :
    prevAlive st start = firstCcw st.maxSeat start (aliveAt st.seats) := by
  unfold prevAlive firstCcw firstCcwOffset
  rw [scan_eq_find, facts_prevAliveMod, facts_prevAliveAdd]
  have key := find_congr (fun j : Nat => Int.tmod (start + (st.maxSeat : Int) - (j : Int)) (st.maxSeat : Int))
    (fun j : Nat => ccw st.maxSeat start j) (aliveAt st.seats) (st.maxSeat - 1) 1 (by
      intro j h1 h2
      show Int.tmod (start + (st.maxSeat : Int) - (j : Int)) (st.maxSeat : Int) = ccw st.maxSeat start j
      unfold ccw
      rw [Int.tmod_eq_emod_of_nonneg (by omega)]
      have : start + (st.maxSeat : Int) - (j : Int) = (start - (j : Int)) + (st.maxSeat : Int) := by omega
      rw [this, Int.add_emod_right])
  rw [key]
  generalize List.find? _ _ = o
  cases o <;> rfl

-- ------------------------------------------------------------------------------------------------
-- the new big-blind seat
-- ------------------------------------------------------------------------------------------------

/-- the seats after the first re-flagging pass of `rotatePositions` -/
def seats1 (st : State) : Seats := reflag st.maxSeat st.sb (nextAlive st st.bb) st.seats

theorem nextAlive_props (st : State) (start : Int) (h0 : 0 ≤ start) (hn : start < st.maxSeat)
    (hne : nextAlive st start ≠ -1) :
    0 ≤ nextAlive st start ∧ nextAlive st start < st.maxSeat ∧ aliveAt st.seats (nextAlive st start) = true ∧
    nextAlive st start ≠ start := by
  have := fwdScan_props st.maxSeat (aliveAt st.seats) start h0 hn (nextAlive st start)
    (by unfold nextAlive; rw [facts_nextAliveMod]) hne
  exact this

theorem nextActive_props (st : State) (start : Int) (h0 : 0 ≤ start) (hn : start < st.maxSeat)
    (hne : nextActive st start ≠ -1) :
    0 ≤ nextActive st start ∧ nextActive st start < st.maxSeat ∧ activeAt st.seats (nextActive st start) = true ∧
    nextActive st start ≠ start := by
  have := fwdScan_props st.maxSeat (activeAt st.seats) start h0 hn (nextActive st start)
    (by unfold nextActive; rw [facts_nextActiveMod]) hne
  exact this

theorem prevAlive_props (st : State) (start : Int) (h0 : 0 ≤ start) (hn : start < st.maxSeat)
    (hne : prevAlive st start ≠ -1) :
    0 ≤ prevAlive st start ∧ prevAlive st start < st.maxSeat ∧ aliveAt st.seats (prevAlive st start) = true ∧
    prevAlive st start ≠ start := by
  have := bwdScan_props st.maxSeat (aliveAt st.seats) start h0 hn (prevAlive st start)
    (by unfold prevAlive; rw [facts_prevAliveMod, facts_prevAliveAdd]) hne
  exact this

/-- two dealt-in players after re-flagging ⇒ a new BB seat exists, is in range, live, not the old BB seat and
dealt in -/
theorem newBB_of_two_active (st : State) (hbb0 : 0 ≤ st.bb) (hbbn : st.bb < st.maxSeat)
    (hac : 2 ≤ activeCount st.maxSeat (seats1 st)) :
    nextAlive st st.bb ≠ -1 ∧ 0 ≤ nextAlive st st.bb ∧ nextAlive st st.bb < st.maxSeat ∧
    aliveAt st.seats (nextAlive st st.bb) = true ∧ nextAlive st st.bb ≠ st.bb ∧
    activeAt (seats1 st) (nextAlive st st.bb) = true := by
  obtain ⟨i, j, hij, hjn, hpi, hpj⟩ := count_ge_two _ _ hac
  have hai : aliveAt st.seats (Int.ofNat i) = true := by
    have := active_imp_alive _ _ hpi; unfold seats1 at this; rwa [reflag_alive] at this
  have haj : aliveAt st.seats (Int.ofNat j) = true := by
    have := active_imp_alive _ _ hpj; unfold seats1 at this; rwa [reflag_alive] at this
  have hne1 : nextAlive st st.bb ≠ -1 := by
    unfold nextAlive; rw [facts_nextAliveMod]
    by_cases hib : (Int.ofNat i) = st.bb
    · exact fwdScan_exists st.maxSeat _ st.bb hbb0 hbbn (Int.ofNat j) (by simp) (by simp; omega)
        (by intro h; have : (Int.ofNat i) = (Int.ofNat j) := by rw [hib, h]
            simp at this; omega) haj
    · exact fwdScan_exists st.maxSeat _ st.bb hbb0 hbbn (Int.ofNat i) (by simp) (by simp; omega) hib hai
  obtain ⟨h1, h2, h3, h4⟩ := nextAlive_props st st.bb hbb0 hbbn hne1
  exact ⟨hne1, h1, h2, h3, h4, reflag_at _ _ _ _ _ h3 (isBetween_self _ _ _ h1 h2)⟩

-- ------------------------------------------------------------------------------------------------
-- shape of the result, branch by branch (so that the property theorems need not unfold `rotateDefault`)
-- ------------------------------------------------------------------------------------------------

theorem rotate_refused (st : State) (h : activeCount st.maxSeat (seats1 st) < 2) :
    rotateDefault st = ({ st with seats := seats1 st }, .err [.unableRotate]) := by
  unfold rotateDefault; unfold seats1 at h; simp [h, seats1]

theorem rotate_hu (st : State) (h : activeCount st.maxSeat (seats1 st) = 2) :
    rotateDefault st =
      ({ st with seats := seats1 st, bb := nextAlive st st.bb,
                 dealer := nextActive { st with seats := seats1 st, bb := nextAlive st st.bb } (nextAlive st st.bb),
                 sb := nextActive { st with seats := seats1 st, bb := nextAlive st st.bb } (nextAlive st st.bb) }, .ok) := by
  unfold rotateDefault; unfold seats1 at h; simp [h, seats1]

theorem rotate_ring (st : State) (h : 3 ≤ activeCount st.maxSeat (seats1 st)) (hu : isHU st = false) :
    rotateDefault st =
      ({ st with seats := seats1 st, bb := nextAlive st st.bb, sb := st.bb, dealer := st.sb }, .ok) := by
  unfold rotateDefault; unfold seats1 at h
  have h1 : ¬ activeCount st.maxSeat (reflag st.maxSeat st.sb (nextAlive st st.bb) st.seats) < 2 := by omega
  have h2 : (activeCount st.maxSeat (reflag st.maxSeat st.sb (nextAlive st st.bb) st.seats) == 2) = false := by
    simp; omega
  simp [h1, h2, hu, seats1]

/-- the nearest live seat before the (new) small-blind seat, used as dealer when coming from heads-up -/
def huDealer (st : State) : Int :=
  prevAlive { st with seats := seats1 st, bb := nextAlive st st.bb, sb := st.bb } st.bb

theorem rotate_ring_hu (st : State) (h : 3 ≤ activeCount st.maxSeat (seats1 st)) (hu : isHU st = true) :
    rotateDefault st =
      ({ st with seats := reflag st.maxSeat (huDealer st) (nextAlive st st.bb) (seats1 st),
                 bb := nextAlive st st.bb, sb := st.bb, dealer := huDealer st }, .ok) := by
  unfold rotateDefault; unfold seats1 at h
  have h1 : ¬ activeCount st.maxSeat (reflag st.maxSeat st.sb (nextAlive st st.bb) st.seats) < 2 := by omega
  have h2 : (activeCount st.maxSeat (reflag st.maxSeat st.sb (nextAlive st st.bb) st.seats) == 2) = false := by
    simp; omega
  simp [h1, h2, hu, seats1, huDealer]

theorem dealtIn_eq (st : State) : dealtIn st = activeCount st.maxSeat st.seats := by
  unfold dealtIn activeCount; exact countSeats_eq _ _

theorem aliveN_eq (st : State) : aliveN st = aliveCount st.maxSeat st.seats := by
  unfold aliveN aliveCount; exact countSeats_eq _ _

theorem nextActive_exists (s : State) (start : Int) (h0 : 0 ≤ start) (hn : start < s.maxSeat)
    (j : Int) (hj0 : 0 ≤ j) (hjn : j < s.maxSeat) (hne : j ≠ start) (hp : activeAt s.seats j = true) :
    nextActive s start ≠ -1 := by
  unfold nextActive; rw [facts_nextActiveMod]
  exact fwdScan_exists s.maxSeat _ start h0 hn j hj0 hjn hne hp

theorem prevAlive_exists (s : State) (start : Int) (h0 : 0 ≤ start) (hn : start < s.maxSeat)
    (j : Int) (hj0 : 0 ≤ j) (hjn : j < s.maxSeat) (hne : j ≠ start) (hp : aliveAt s.seats j = true) :
    prevAlive s start ≠ -1 := by
  unfold prevAlive; rw [facts_prevAliveMod, facts_prevAliveAdd]
  exact bwdScan_exists s.maxSeat _ start h0 hn j hj0 hjn hne hp

/-- among two distinct seats one differs from any given seat -/
theorem other_of_two {p : Nat → Bool} {n : Nat} (h : 2 ≤ countUpTo p n) (x : Int) :
    ∃ j : Nat, j < n ∧ p j = true ∧ (Int.ofNat j) ≠ x := by
  obtain ⟨i, j, hij, hjn, hpi, hpj⟩ := count_ge_two p n h
  by_cases hi : (Int.ofNat i) = x
  · refine ⟨j, hjn, hpj, ?_⟩
    intro hj
    have : (Int.ofNat i) = (Int.ofNat j) := by rw [hi, hj]
    simp at this; omega
  · exact ⟨i, by omega, hpi, hi⟩

theorem reflag_count_ge (n m : Nat) (d b : Int) (s : Seats) : activeCount n s ≤ activeCount n (reflag m d b s) :=
  count_mono _ _ n (fun _ _ h => reflag_keeps_active m d b s _ h)

theorem rotateDefault_ok_two (st : State) (h : (rotateDefault st).2 = .ok) :
    2 ≤ activeCount (rotateDefault st).1.maxSeat (rotateDefault st).1.seats := by
  rcases Nat.lt_or_ge (activeCount st.maxSeat (seats1 st)) 2 with hlt | hge
  · rw [rotate_refused st hlt] at h; simp at h
  · rcases Nat.eq_or_lt_of_le hge with heq | hgt
    · rw [rotate_hu st heq.symm]; simp; omega
    · cases hu : isHU st
      · rw [rotate_ring st hgt hu]; simp; omega
      · rw [rotate_ring_hu st hgt hu]; simp
        have := reflag_count_ge st.maxSeat st.maxSeat (huDealer st) (nextAlive st st.bb) (seats1 st)
        omega

theorem rotate_ok_two (st : State) : (rotate st).2 = .ok →
    2 ≤ activeCount (rotate st).1.maxSeat (rotate st).1.seats := by
  unfold rotate
  split
  · simp
  · split
    · exact rotateDefault_ok_two st
    · split
      · unfold rotateShort
        split
        · simp
        · intro _; simp; omega
      · simp

theorem init_seats (st : State) (ch : Option Int) :
    (init st ch).1.seats = st.seats ∧ (init st ch).1.maxSeat = st.maxSeat := by
  unfold init
  simp only
  repeat' (first | exact ⟨rfl, rfl⟩ | split)

theorem init_ok_count (st : State) (ch : Option Int) (h : (init st ch).2 = .ok) : 2 ≤ activeCount st.maxSeat st.seats := by
  rcases Nat.lt_or_ge (activeCount st.maxSeat st.seats) 2 with hlt | hge
  · exfalso
    unfold init at h
    simp only [hlt, if_true] at h
    split at h
    · simp at h
    · split at h <;> simp at h
  · exact hge

theorem init_ok_two (st : State) (ch : Option Int) (h : (init st ch).2 = .ok) :
    2 ≤ activeCount (init st ch).1.maxSeat (init st ch).1.seats := by
  rw [(init_seats st ch).1, (init_seats st ch).2]; exact init_ok_count st ch h
end SM
