import PokerVerif.OGM
namespace OGM

def Quiet (s : St) : Prop := s.queue = [] ∧ s.pending = 0

def EvOK (s : St) : Ev → Prop
  | .setup _ ps => Quiet s ∧ (ps.map (·.2)).Nodup
  | .fromState _ ps => (ps.map (·.2.1)).Nodup
  | _ => True

def Adm : St → List Ev → Prop
  | _, [] => True
  | s, e :: es => EvOK s e ∧ Adm (step s e) es

/-- what a participant must have done for its index to count as ready -/
def Justified (s : St) (k : Int) : Prop :=
  s.timedOut = true ∨ ∃ p ∈ s.parts, p.idx = k ∧ p.id ∈ s.signalled

structure Inv (s : St) : Prop where
  rgTrue   : ∀ k, (k, true) ∈ s.rg → Justified s k
  queueOK  : ∀ k ∈ s.queue, Justified s k
  doneOK   : (0 < s.pending ∨ s.completed = true) → (s.timedOut = true ∨ ∀ p ∈ s.parts, p.id ∈ s.signalled)
  keys     : ∀ p ∈ s.parts, ∃ v, (p.idx, v) ∈ s.rg
  distinct : (s.parts.map (·.idx)).Nodup
  onceOK   : s.pending + s.firedNow.length ≤ (if s.completed then 1 else 0)
  reportOK : ∀ e ∈ s.firedNow, e.1 = s.gameCount ∧ e.2.map (·.id) = s.parts.map (·.id) ∧ e.2.all (·.ready) = true

-- ---------- list lemmas
theorem upsert_mem_key (k : Int) (v : Bool) (l : List (Int × Bool)) : (k, v) ∈ upsert k v l := by
  induction l with
  | nil => simp [upsert]
  | cons h t ih =>
    obtain ⟨k', v'⟩ := h
    simp only [upsert]
    split
    · simp
    · simp [ih]

theorem upsert_mem_old (k : Int) (v : Bool) (l : List (Int × Bool)) (k' : Int) (v' : Bool)
    (h : (k', v') ∈ l) : ∃ w, (k', w) ∈ upsert k v l := by
  induction l with
  | nil => simp at h
  | cons hd t ih =>
    obtain ⟨a, b⟩ := hd
    simp only [upsert]
    rcases List.mem_cons.mp h with heq | hin
    · injection heq with h1 h2
      subst h1; subst h2
      split
      · rename_i hk; subst hk; exact ⟨v, by simp⟩
      · exact ⟨v', by simp⟩
    · split
      · exact ⟨v', by simp [hin]⟩
      · obtain ⟨w, hw⟩ := ih hin
        exact ⟨w, by simp [hw]⟩

theorem upsert_false_vals (k : Int) (l : List (Int × Bool)) (h : ∀ e ∈ l, e.2 = false) :
    ∀ e ∈ upsert k false l, e.2 = false := by
  induction l with
  | nil => intro e he; simp [upsert] at he; simp [he]
  | cons hd t ih =>
    obtain ⟨a, b⟩ := hd
    intro e he
    simp only [upsert] at he
    split at he
    · rcases List.mem_cons.mp he with h1 | h1
      · simp [h1]
      · exact h e (by simp [h1])
    · rcases List.mem_cons.mp he with h1 | h1
      · rw [h1]; exact h (a, b) (by simp)
      · exact ih (fun e he => h e (by simp [he])) e h1

theorem foldl_upsert_false (ps : List (Nat × Int)) (acc : List (Int × Bool)) (h : ∀ e ∈ acc, e.2 = false) :
    ∀ e ∈ ps.foldl (fun acc (q : Nat × Int) => upsert q.2 false acc) acc, e.2 = false := by
  induction ps generalizing acc with
  | nil => simpa using h
  | cons q t ih => exact ih _ (upsert_false_vals q.2 acc h)

theorem foldl_upsert_keeps (ps : List (Nat × Int)) (acc : List (Int × Bool)) (k : Int) (v : Bool)
    (h : (k, v) ∈ acc) : ∃ w, (k, w) ∈ ps.foldl (fun acc (q : Nat × Int) => upsert q.2 false acc) acc := by
  induction ps generalizing acc v with
  | nil => exact ⟨v, by simpa using h⟩
  | cons q t ih =>
    obtain ⟨w, hw⟩ := upsert_mem_old q.2 false acc k v h
    exact ih _ w hw

theorem foldl_upsert_keys (ps : List (Nat × Int)) (acc : List (Int × Bool)) (q : Nat × Int) (hq : q ∈ ps) :
    ∃ w, (q.2, w) ∈ ps.foldl (fun acc (q : Nat × Int) => upsert q.2 false acc) acc := by
  induction ps generalizing acc with
  | nil => simp at hq
  | cons hd t ih =>
    rcases List.mem_cons.mp hq with h1 | h1
    · subst h1
      exact foldl_upsert_keeps t _ q.2 false (upsert_mem_key q.2 false acc)
    · exact ih _ h1

-- the same facts for the triples of `fromState` (key = second component), value false / true
theorem foldl_upsertF_false (ps : List (Nat × Int × Bool)) (acc : List (Int × Bool)) (h : ∀ e ∈ acc, e.2 = false) :
    ∀ e ∈ ps.foldl (fun acc (q : Nat × Int × Bool) => upsert q.2.1 false acc) acc, e.2 = false := by
  induction ps generalizing acc with
  | nil => simpa using h
  | cons q t ih => exact ih _ (upsert_false_vals q.2.1 acc h)

theorem foldl_upsertF_keeps (ps : List (Nat × Int × Bool)) (acc : List (Int × Bool)) (k : Int) (v : Bool)
    (h : (k, v) ∈ acc) : ∃ w, (k, w) ∈ ps.foldl (fun acc (q : Nat × Int × Bool) => upsert q.2.1 false acc) acc := by
  induction ps generalizing acc v with
  | nil => exact ⟨v, by simpa using h⟩
  | cons q t ih =>
    obtain ⟨w, hw⟩ := upsert_mem_old q.2.1 false acc k v h
    exact ih _ w hw

theorem foldl_upsertF_keys (ps : List (Nat × Int × Bool)) (acc : List (Int × Bool)) (q : Nat × Int × Bool) (hq : q ∈ ps) :
    ∃ w, (q.2.1, w) ∈ ps.foldl (fun acc (q : Nat × Int × Bool) => upsert q.2.1 false acc) acc := by
  induction ps generalizing acc with
  | nil => simp at hq
  | cons hd t ih =>
    rcases List.mem_cons.mp hq with h1 | h1
    · subst h1
      exact foldl_upsertF_keeps t _ q.2.1 false (upsert_mem_key q.2.1 false acc)
    · exact ih _ h1

theorem foldl_upsertT_keeps (ps : List (Nat × Int × Bool)) (acc : List (Int × Bool)) (k : Int) (v : Bool)
    (h : (k, v) ∈ acc) : ∃ w, (k, w) ∈ ps.foldl (fun acc (q : Nat × Int × Bool) => upsert q.2.1 true acc) acc := by
  induction ps generalizing acc v with
  | nil => exact ⟨v, by simpa using h⟩
  | cons q t ih =>
    obtain ⟨w, hw⟩ := upsert_mem_old q.2.1 true acc k v h
    exact ih _ w hw

theorem upsert_true_origin (k : Int) (l : List (Int × Bool)) (k' : Int) (h : (k', true) ∈ upsert k true l) :
    (k', true) ∈ l ∨ k' = k := by
  induction l with
  | nil => simp [upsert] at h; exact Or.inr h
  | cons hd t ih =>
    obtain ⟨a, b⟩ := hd
    simp only [upsert] at h
    split at h
    · rcases List.mem_cons.mp h with h1 | h1
      · injection h1 with h2 _; exact Or.inr h2
      · exact Or.inl (by simp [h1])
    · rcases List.mem_cons.mp h with h1 | h1
      · exact Or.inl (by rw [h1]; simp)
      · rcases ih h1 with h2 | h2
        · exact Or.inl (by simp [h2])
        · exact Or.inr h2

theorem foldl_upsertT_origin (ps : List (Nat × Int × Bool)) (acc : List (Int × Bool)) (k : Int)
    (h : (k, true) ∈ ps.foldl (fun acc (q : Nat × Int × Bool) => upsert q.2.1 true acc) acc) :
    (k, true) ∈ acc ∨ ∃ q ∈ ps, q.2.1 = k := by
  induction ps generalizing acc with
  | nil => exact Or.inl (by simpa using h)
  | cons q t ih =>
    rcases ih _ h with h1 | ⟨q', hq', hk⟩
    · rcases upsert_true_origin q.2.1 acc k h1 with h2 | h2
      · exact Or.inl h2
      · exact Or.inr ⟨q, by simp, h2.symm⟩
    · exact Or.inr ⟨q', by simp [hq'], hk⟩

theorem setIfPresent_true (k : Int) (l : List (Int × Bool)) (k' : Int) (h : (k', true) ∈ setIfPresent k l) :
    (k', true) ∈ l ∨ k' = k := by
  induction l with
  | nil => simp [setIfPresent] at h
  | cons hd t ih =>
    obtain ⟨a, b⟩ := hd
    simp only [setIfPresent] at h
    split at h
    · rcases List.mem_cons.mp h with h1 | h1
      · injection h1 with h2 _; exact Or.inr h2
      · exact Or.inl (by simp [h1])
    · rcases List.mem_cons.mp h with h1 | h1
      · exact Or.inl (by rw [h1]; simp)
      · rcases ih h1 with h2 | h2
        · exact Or.inl (by simp [h2])
        · exact Or.inr h2

theorem setIfPresent_keys (k : Int) (l : List (Int × Bool)) (k' : Int) (v : Bool) (h : (k', v) ∈ l) :
    ∃ w, (k', w) ∈ setIfPresent k l := by
  induction l with
  | nil => simp at h
  | cons hd t ih =>
    obtain ⟨a, b⟩ := hd
    simp only [setIfPresent]
    rcases List.mem_cons.mp h with heq | hin
    · injection heq with h1 h2
      subst h1; subst h2
      split
      · rename_i hk; subst hk; exact ⟨true, by simp⟩
      · exact ⟨v, by simp⟩
    · split
      · exact ⟨v, by simp [hin]⟩
      · obtain ⟨w, hw⟩ := ih hin
        exact ⟨w, by simp [hw]⟩

theorem allReady_mem (rg : List (Int × Bool)) (h : allReady rg = true) (k : Int) (v : Bool) (hm : (k, v) ∈ rg) :
    v = true := by
  unfold allReady at h
  rw [List.all_eq_true] at h
  exact h (k, v) hm

end OGM

namespace OGM

theorem map_idx_preserved (l : List Part) (f : Part → Part) (h : ∀ q, (f q).idx = q.idx) :
    (l.map f).map (·.idx) = l.map (·.idx) := by
  induction l with
  | nil => rfl
  | cons a t ih => simp [h a, ih]

theorem nodup_map_inj {l : List Part} (hnd : (l.map (·.idx)).Nodup) {a b : Part}
    (ha : a ∈ l) (hb : b ∈ l) (hab : a.idx = b.idx) : a = b := by
  induction l with
  | nil => simp at ha
  | cons h t ih =>
    simp only [List.map_cons, List.nodup_cons, List.mem_map, not_exists, not_and] at hnd
    rcases List.mem_cons.mp ha with h1 | h1 <;> rcases List.mem_cons.mp hb with h2 | h2
    · rw [h1, h2]
    · subst h1; exact absurd hab.symm (hnd.1 b h2)
    · subst h2; exact absurd hab (hnd.1 a h1)
    · exact ih hnd.2 h1 h2

theorem inv_init : Inv {} := by
  constructor <;> simp [Justified]

theorem justified_mono {s s' : St} (k : Int)
    (ht : s.timedOut = true → s'.timedOut = true)
    (hp : ∀ p ∈ s.parts, p.id ∈ s.signalled → ∃ p' ∈ s'.parts, p'.idx = p.idx ∧ p'.id ∈ s'.signalled)
    (h : Justified s k) : Justified s' k := by
  rcases h with h | ⟨p, hp1, hp2, hp3⟩
  · exact Or.inl (ht h)
  · obtain ⟨p', h1, h2, h3⟩ := hp p hp1 hp3
    exact Or.inr ⟨p', h1, by rw [h2, hp2], h3⟩

theorem inv_step (s : St) (e : Ev) (hi : Inv s) (hok : EvOK s e) : Inv (step s e) := by
  cases e with
  | setup gc ps =>
    obtain ⟨⟨hq, hpend⟩, hnd⟩ := hok
    simp only [step]
    constructor
    · intro k hk
      have := foldl_upsert_false ps [] (by simp) (k, true) hk
      simp at this
    · intro k hk; simp [hq] at hk
    · intro h; simp [hpend] at h
    · intro p hp
      simp only [List.mem_map] at hp
      obtain ⟨q, hq1, hq2⟩ := hp
      subst hq2
      exact foldl_upsert_keys ps [] q hq1
    · simpa [List.map_map, Function.comp_def] using hnd
    · simp [hpend]
    · intro e he; simp at he
  | fromState gc ps =>
    simp only [step]
    have hnd : (ps.map (·.2.1)).Nodup := hok
    refine { rgTrue := ?_, queueOK := ?_, doneOK := ?_, keys := ?_, distinct := ?_, onceOK := ?_, reportOK := ?_ }
    · intro k hk
      rcases foldl_upsertT_origin (ps.filter (·.2.2)) _ k hk with h1 | ⟨q, hq, hqk⟩
      · have := foldl_upsertF_false ps [] (by simp) (k, true) h1
        simp at this
      · have hq' := List.mem_filter.mp hq
        refine Or.inr ⟨{ id := q.1, idx := q.2.1, ready := q.2.2 }, List.mem_map.mpr ⟨q, hq'.1, rfl⟩, hqk, ?_⟩
        exact List.mem_map.mpr ⟨q, hq, rfl⟩
    · intro k hk; simp at hk
    · intro h; simp at h
    · intro p hp
      simp only [List.mem_map] at hp
      obtain ⟨q, hq1, hq2⟩ := hp
      subst hq2
      obtain ⟨w, hw⟩ := foldl_upsertF_keys ps [] q hq1
      exact foldl_upsertT_keeps (ps.filter (·.2.2)) _ q.2.1 w hw
    · simpa [List.map_map, Function.comp_def] using hnd
    · simp
    · intro e he; simp at he
  | ready id =>
    simp only [step]
    cases hf : s.parts.find? (fun p => p.id == id) with
    | none => simpa using hi
    | some p =>
      simp only
      have hpmem : p ∈ s.parts := List.mem_of_find?_eq_some hf
      have hpid : p.id = id := by
        have := List.find?_some hf; simpa using this
      -- parts' keeps ids and indexes
      have hmap : ∀ q ∈ s.parts, ∃ q' ∈ s.parts.map (fun q => if (q.id == id) = true then { q with ready := true } else q),
          q'.idx = q.idx ∧ q'.id = q.id := by
        intro q hq
        refine ⟨if (q.id == id) = true then { q with ready := true } else q, List.mem_map.mpr ⟨q, hq, rfl⟩, ?_, ?_⟩ <;> split <;> rfl
      have hmono : ∀ k, Justified s k → Justified
          { s with queue := if s.started = true then s.queue ++ [p.idx] else s.queue,
                   parts := s.parts.map (fun q => if (q.id == id) = true then { q with ready := true } else q),
                   signalled := id :: s.signalled } k := by
        intro k hk
        apply justified_mono k (by simp) ?_ hk
        intro q hq hqs
        obtain ⟨q', h1, h2, h3⟩ := hmap q hq
        exact ⟨q', h1, h2, by simp [h3, hqs]⟩
      constructor
      · intro k hk; exact hmono k (hi.rgTrue k hk)
      · intro k hk
        simp only at hk
        split at hk
        · rcases List.mem_append.mp hk with h1 | h1
          · exact hmono k (hi.queueOK k h1)
          · simp at h1; subst h1
            obtain ⟨q', h1, h2, h3⟩ := hmap p hpmem
            exact Or.inr ⟨q', h1, h2, by simp [h3, hpid]⟩
        · exact hmono k (hi.queueOK k hk)
      · intro h
        rcases hi.doneOK h with h1 | h1
        · exact Or.inl h1
        · refine Or.inr ?_
          intro q' hq'
          simp only [List.mem_map] at hq'
          obtain ⟨q, hq1, hq2⟩ := hq'
          have : q'.id = q.id := by rw [← hq2]; split <;> rfl
          simp [this, h1 q hq1]
      · intro q' hq'
        simp only [List.mem_map] at hq'
        obtain ⟨q, hq1, hq2⟩ := hq'
        have : q'.idx = q.idx := by rw [← hq2]; split <;> rfl
        rw [this]; exact hi.keys q hq1
      · show ((s.parts.map (fun q => if (q.id == id) = true then { q with ready := true } else q)).map (·.idx)).Nodup
        rw [map_idx_preserved _ _ (fun q => by split <;> rfl)]
        exact hi.distinct
      · exact hi.onceOK
      · intro e he
        obtain ⟨a, b, c⟩ := hi.reportOK e he
        refine ⟨a, ?_, c⟩
        rw [b]
        show s.parts.map (·.id) = (s.parts.map (fun q => if (q.id == id) = true then { q with ready := true } else q)).map (·.id)
        rw [List.map_map]
        apply List.map_congr_left
        intro q _
        simp only [Function.comp]
        split <;> rfl
  | consume =>
    simp only [step]
    cases hqv : s.queue with
    | nil => simpa using hi
    | cons k rest =>
      simp only
      have hkJ : Justified s k := hi.queueOK k (by simp [hqv])
      have hrg : ∀ k', (k', true) ∈ setIfPresent k s.rg → Justified s k' := by
        intro k' hk'
        rcases setIfPresent_true k s.rg k' hk' with h1 | h1
        · exact hi.rgTrue k' h1
        · subst h1; exact hkJ
      by_cases hc : (allReady (setIfPresent k s.rg) && !s.completed) = true
      · rw [if_pos hc]
        have hall : allReady (setIfPresent k s.rg) = true := by simp at hc; exact hc.1
        constructor
        · intro k' hk'; exact hrg k' hk'
        · intro k' hk'; exact hi.queueOK k' (by simp [hqv, hk'])
        · intro _
          by_cases ht : s.timedOut = true
          · exact Or.inl ht
          · refine Or.inr ?_
            intro p hp
            obtain ⟨v, hv⟩ := hi.keys p hp
            obtain ⟨w, hw⟩ := setIfPresent_keys k s.rg p.idx v hv
            have hwt : w = true := allReady_mem _ hall _ _ hw
            subst hwt
            rcases hrg p.idx hw with h1 | ⟨p', hp1, hp2, hp3⟩
            · exact absurd h1 ht
            · -- distinct indexes: p' = p
              have hinj := nodup_map_inj hi.distinct hp1 hp hp2
              rw [← hinj]; exact hp3
        · intro p hp
          obtain ⟨v, hv⟩ := hi.keys p hp
          exact setIfPresent_keys k s.rg p.idx v hv
        · exact hi.distinct
        · have h0 := hi.onceOK
          have hnc : s.completed = false := by simp at hc; exact hc.2
          rw [hnc] at h0
          have h1 : s.pending + s.firedNow.length ≤ 0 := by simpa using h0
          show s.pending + 1 + s.firedNow.length ≤ (if (true : Bool) = true then 1 else 0)
          simp only [if_true]; omega
        · exact hi.reportOK
      · rw [if_neg hc]
        constructor
        · intro k' hk'; exact hrg k' hk'
        · intro k' hk'; exact hi.queueOK k' (by simp [hqv, hk'])
        · exact hi.doneOK
        · intro p hp
          obtain ⟨v, hv⟩ := hi.keys p hp
          exact setIfPresent_keys k s.rg p.idx v hv
        · exact hi.distinct
        · exact hi.onceOK
        · exact hi.reportOK
  | complete =>
    simp only [step]
    by_cases hp0 : s.pending = 0
    · simpa [hp0] using hi
    · simp only [hp0, if_false]
      have hmap : ∀ q ∈ s.parts, ∃ q' ∈ s.parts.map (fun q => { q with ready := true }),
          q'.idx = q.idx ∧ q'.id = q.id := fun q hq => ⟨_, List.mem_map.mpr ⟨q, hq, rfl⟩, rfl, rfl⟩
      have hmono : ∀ k, Justified s k → Justified
          { s with pending := s.pending - 1, parts := s.parts.map (fun q => { q with ready := true }),
                   fired := s.fired ++ [(s.gameCount, s.parts.map (fun q => { q with ready := true }))] } k := by
        intro k hk
        apply justified_mono k (by simp) ?_ hk
        intro q hq hqs
        obtain ⟨q', h1, h2, h3⟩ := hmap q hq
        exact ⟨q', h1, h2, by simpa [h3] using hqs⟩
      constructor
      · intro k hk; exact hmono k (hi.rgTrue k hk)
      · intro k hk; exact hmono k (hi.queueOK k hk)
      · intro _
        rcases hi.doneOK (Or.inl (by omega)) with h1 | h1
        · exact Or.inl h1
        · refine Or.inr ?_
          intro q' hq'
          simp only [List.mem_map] at hq'
          obtain ⟨q, hq1, hq2⟩ := hq'
          subst hq2; exact h1 q hq1
      · intro q' hq'
        simp only [List.mem_map] at hq'
        obtain ⟨q, hq1, hq2⟩ := hq'
        subst hq2; exact hi.keys q hq1
      · show ((s.parts.map (fun q => { q with ready := true })).map (·.idx)).Nodup
        rw [map_idx_preserved s.parts (fun q => { q with ready := true }) (fun q => rfl)]
        exact hi.distinct
      · have h0 := hi.onceOK
        show s.pending - 1 + (s.firedNow ++ [(s.gameCount, s.parts.map (fun (q : Part) => { q with ready := true }))]).length ≤
          (if s.completed = true then 1 else 0)
        simp only [List.length_append, List.length_singleton]
        split at h0 <;> rename_i hcpl <;> simp only [hcpl, if_true, if_false] <;> omega
      · intro e he
        rcases List.mem_append.mp he with h1 | h1
        · obtain ⟨a, b, c⟩ := hi.reportOK e h1
          refine ⟨a, ?_, c⟩
          rw [b]; simp [List.map_map, Function.comp_def]
        · simp at h1; subst h1
          refine ⟨rfl, rfl, ?_⟩
          simp [List.all_map, Function.comp_def]
  | timeout =>
    simp only [step]
    by_cases ht : s.timer = true
    · simp only [ht, Bool.not_true, if_false]
      refine { rgTrue := fun _ _ => Or.inl rfl, queueOK := fun _ _ => Or.inl rfl, doneOK := fun _ => Or.inl rfl,
               keys := fun p hp => hi.keys p hp, distinct := hi.distinct, onceOK := hi.onceOK, reportOK := hi.reportOK }
    · simpa [ht] using hi

theorem inv_run (s : St) (evs : List Ev) (hi : Inv s) (ha : Adm s evs) : Inv (run s evs) := by
  induction evs generalizing s with
  | nil => simpa [run] using hi
  | cons e es ih =>
    obtain ⟨h1, h2⟩ := ha
    simp only [run, List.foldl_cons]
    exact ih (step s e) (inv_step s e hi h1) h2

end OGM
