import PokerVerif.Lemmas.TBIndex
/-!
# Seat bookkeeping of the table (`SeatMap` ↔ `PlayerStates`) under arrivals and departures

`MapTight m ps`: the seat map and the player list describe the same seating (`MapWF`) and every entry that names
nobody is `-1`.  Appending a player on a free seat (`batchAddPlayers`) and rebuilding the map for the players that
stay (`calcLeavePlayers` / `batchRemovePlayers`) both keep it.
-/
namespace TB

def MapTight (m : List Int) (ps : List Player) : Prop :=
  MapWF m ps ∧ ∀ seat pi, seatMapGet m seat = some pi → pi < 0 → pi = -1

theorem seatMapGet_set_self (m : List Int) (seat : Int) (v : Int) (h0 : 0 ≤ seat) (hl : seat < m.length) :
    seatMapGet (m.set seat.toNat v) seat = some v := by
  unfold seatMapGet
  have : seat.toNat < m.length := by omega
  simp [h0, hl, this]

theorem seatMapGet_set_other (m : List Int) (seat other : Int) (v : Int) (h0 : 0 ≤ seat) (hne : other ≠ seat) :
    seatMapGet (m.set seat.toNat v) other = seatMapGet m other := by
  unfold seatMapGet
  simp only [List.length_set]
  by_cases hc : 0 ≤ other ∧ other < m.length
  · simp only [hc, and_self, if_true]
    have : seat.toNat ≠ other.toNat := by omega
    rw [List.getElem?_set_ne this]
  · simp [hc]

/-- a seat nobody sits on holds `-1` -/
theorem MapTight.free (m : List Int) (ps : List Player) (h : MapTight m ps) (seat : Int) (h0 : 0 ≤ seat)
    (hl : seat < m.length) (hno : ∀ (i : Nat) p, ps[i]? = some p → p.seat ≠ seat) : seatMapGet m seat = some (-1) := by
  have hs := seatMapGet_isSome m seat h0 hl
  cases hg : seatMapGet m seat with
  | none => rw [hg] at hs; cases hs
  | some pi =>
    by_cases hp : 0 ≤ pi
    · obtain ⟨p, hp1, hp2⟩ := h.1.entries seat pi hg hp
      exact absurd hp2 (hno pi.toNat p hp1)
    · rw [h.2 seat pi hg (by omega)]

/-- **an arrival on a free seat keeps the bookkeeping**: the new player is appended, his seat names his index -/
theorem MapTight.append (m : List Int) (ps : List Player) (h : MapTight m ps) (p : Player) (h0 : 0 ≤ p.seat)
    (hl : p.seat < m.length) (hfree : seatMapGet m p.seat = some (-1)) :
    MapTight (m.set p.seat.toNat ps.length) (ps ++ [p]) := by
  refine ⟨⟨?_, ?_⟩, ?_⟩
  · intro seat pi hg hpi
    by_cases hs : seat = p.seat
    · subst hs
      rw [seatMapGet_set_self m p.seat _ h0 hl] at hg
      have : pi = (ps.length : Int) := (Option.some.inj hg).symm
      subst this
      refine ⟨p, ?_, rfl⟩
      simp
    · rw [seatMapGet_set_other m p.seat seat _ h0 hs] at hg
      obtain ⟨q, hq1, hq2⟩ := h.1.entries seat pi hg hpi
      refine ⟨q, ?_, hq2⟩
      have hlt : pi.toNat < ps.length := by
        rcases Nat.lt_or_ge pi.toNat ps.length with hlt | hge
        · exact hlt
        · rw [List.getElem?_eq_none hge] at hq1; cases hq1
      rw [List.getElem?_append_left hlt]; exact hq1
  · intro i q hq
    rcases Nat.lt_or_ge i ps.length with hlt | hge
    · rw [List.getElem?_append_left hlt] at hq
      have hold := h.1.players i q hq
      have hne : q.seat ≠ p.seat := by
        intro heq
        rw [heq, hfree] at hold
        have : (-1 : Int) = (i : Int) := Option.some.inj hold
        omega
      rw [seatMapGet_set_other m p.seat q.seat _ h0 hne]; exact hold
    · have hi : i = ps.length := by
        rcases Nat.eq_or_lt_of_le hge with he | hgt
        · exact he.symm
        · have : (ps ++ [p])[i]? = none := by
            apply List.getElem?_eq_none; simp; omega
          rw [this] at hq; cases hq
      subst hi
      have : (ps ++ [p])[ps.length]? = some p := by simp
      rw [this] at hq
      have : q = p := (Option.some.inj hq).symm
      subst this
      exact seatMapGet_set_self m q.seat _ h0 hl
  · intro seat pi hg hneg
    by_cases hs : seat = p.seat
    · subst hs
      rw [seatMapGet_set_self m p.seat _ h0 hl] at hg
      have : pi = (ps.length : Int) := (Option.some.inj hg).symm
      omega
    · rw [seatMapGet_set_other m p.seat seat _ h0 hs] at hg
      exact h.2 seat pi hg hneg

theorem mapTight_default (n : Nat) : MapTight (defaultSeatMap n) [] := by
  refine ⟨⟨?_, ?_⟩, ?_⟩
  · intro seat pi hg hpi
    unfold seatMapGet defaultSeatMap at hg
    by_cases hc : 0 ≤ seat ∧ seat < (List.replicate n (-1 : Int)).length
    · simp only [hc, and_self, if_true] at hg
      rw [List.getElem?_replicate] at hg
      split at hg
      · have : pi = -1 := (Option.some.inj hg).symm
        omega
      · cases hg
    · simp at hg; exact absurd hg.1 (by simpa using hc)
  · intro i p hp; simp at hp
  · intro seat pi hg _
    unfold seatMapGet defaultSeatMap at hg
    by_cases hc : 0 ≤ seat ∧ seat < (List.replicate n (-1 : Int)).length
    · simp only [hc, and_self, if_true] at hg
      rw [List.getElem?_replicate] at hg
      split at hg
      · exact (Option.some.inj hg).symm
      · cases hg
    · simp at hg; exact absurd hg.1 (by simpa using hc)

/-- the rebuilding loop of `calcLeavePlayers`: after the players `done` (in order) the map is tight for them -/
theorem rebuild_go (rest done : List Player) (m : List Int) (hm : MapTight m done)
    (hdistinct : ∀ p ∈ rest, ∀ (i : Nat) q, done[i]? = some q → q.seat ≠ p.seat)
    (hpair : rest.Pairwise (fun a b => a.seat ≠ b.seat)) (m' : List Int)
    (h : rebuildSeatMap.go rest done.length m = some m') :
    MapTight m' (done ++ rest) ∧ m'.length = m.length := by
  induction rest generalizing done m with
  | nil =>
    unfold rebuildSeatMap.go at h
    have : m' = m := (Option.some.inj h).symm
    subst this
    simp [hm]
  | cons p t ih =>
    unfold rebuildSeatMap.go at h
    by_cases hc : 0 ≤ p.seat ∧ p.seat < m.length
    · simp only [hc, and_self, if_true] at h
      have hfree := MapTight.free m done hm p.seat hc.1 hc.2
        (fun i q hq => hdistinct p List.mem_cons_self i q hq)
      have hstep := MapTight.append m done hm p hc.1 hc.2 hfree
      have hlen : (done ++ [p]).length = done.length + 1 := by simp
      rw [← hlen] at h
      have hp2 := List.pairwise_cons.mp hpair
      have := ih (done ++ [p]) (m.set p.seat.toNat done.length) hstep
        (by
          intro r hr i q hq
          rcases Nat.lt_or_ge i done.length with hlt | hge
          · rw [List.getElem?_append_left hlt] at hq
            exact hdistinct r (List.mem_cons_of_mem _ hr) i q hq
          · have hi : i = done.length := by
              rcases Nat.eq_or_lt_of_le hge with he | hgt
              · exact he.symm
              · have : (done ++ [p])[i]? = none := by
                  apply List.getElem?_eq_none; simp; omega
                rw [this] at hq; cases hq
            subst hi
            have : (done ++ [p])[done.length]? = some p := by simp
            rw [this] at hq
            have : q = p := (Option.some.inj hq).symm
            subst this
            exact hp2.1 r hr)
        hp2.2 h
      obtain ⟨w1, w2⟩ := this
      refine ⟨?_, ?_⟩
      · simpa using w1
      · rw [w2]; simp
    · simp [hc] at h

/-- **a departure keeps the bookkeeping**: the seat map rebuilt for the players that stay is tight for them -/
theorem rebuild_tight (n : Nat) (keep : List Player) (hpair : keep.Pairwise (fun a b => a.seat ≠ b.seat))
    (m' : List Int) (h : rebuildSeatMap n keep = some m') : MapTight m' keep ∧ m'.length = n := by
  unfold rebuildSeatMap at h
  have := rebuild_go keep [] (defaultSeatMap n) (mapTight_default n)
    (by intro p _ i q hq; simp at hq) hpair m' (by simpa using h)
  obtain ⟨w1, w2⟩ := this
  refine ⟨by simpa using w1, ?_⟩
  rw [w2]; simp [defaultSeatMap]

/-- players of a tight table sit on pairwise different seats -/
theorem MapTight.seats_distinct (m : List Int) (ps : List Player) (h : MapTight m ps) :
    ps.Pairwise (fun a b => a.seat ≠ b.seat) := by
  rw [List.pairwise_iff_getElem]
  intro i j hi hj hij heq
  have h1 := h.1.players i ps[i] (by simp [hi])
  have h2 := h.1.players j ps[j] (by simp [hj])
  rw [heq, h2] at h1
  have : (j : Int) = (i : Int) := Option.some.inj h1
  omega

/-- **`PlayersLeave` keeps the seat bookkeeping**: after a successful departure the seat map (rebuilt) and the player
list (filtered) are tight again and the map still has one entry per seat -/
theorem batchRemove_tight (s : State) (ids : List Nat) (h : MapTight s.seatMap s.players)
    (hok : (batchRemove s ids).2 = .ok) :
    MapTight (batchRemove s ids).1.seatMap (batchRemove s ids).1.players ∧
    (batchRemove s ids).1.seatMap.length = s.cfg.maxSeat ∧
    (batchRemove s ids).1.players = s.players.filter (fun p => !(ids.contains p.id)) := by
  unfold batchRemove at hok ⊢
  simp only at hok ⊢
  cases hr : (SM.remove s.sm ids).2 with
  | err e => rw [hr] at hok; cases hok
  | ok =>
    rw [hr] at hok
    simp only at hok ⊢
    cases hm : rebuildSeatMap s.cfg.maxSeat (s.players.filter (fun p => !(ids.contains p.id))) with
    | none => rw [hm] at hok; cases hok
    | some m =>
      rw [hm] at hok
      simp only at hok ⊢
      cases ho : s.gidx.mapM (fun gi => if 0 ≤ gi then (s.players[gi.toNat]?).map (·.id) else none) with
      | none => rw [ho] at hok; cases hok
      | some oids =>
        simp only
        have hpair := (MapTight.seats_distinct _ _ h).filter (fun p => !(ids.contains p.id))
        obtain ⟨w1, w2⟩ := rebuild_tight s.cfg.maxSeat _ hpair m hm
        exact ⟨w1, w2, trivial⟩

/-- the appending loop of `batchAddPlayers`: every new player's seat (as the seat manager reports it) is shown free by
the table and the new seats are pairwise different ⇒ the result is tight -/
theorem appendPlayers_tight (sm : SM.State) (js : List Join) (ps : List Player) (m : List Int) (h : MapTight m ps)
    (hfree : ∀ j ∈ js, seatMapGet m (SM.seatOf sm j.id) = some (-1))
    (hpair : js.Pairwise (fun a b => SM.seatOf sm a.id ≠ SM.seatOf sm b.id))
    (ps' : List Player) (m' : List Int) (hap : appendPlayers sm js ps m = some (ps', m')) :
    MapTight m' ps' ∧ m'.length = m.length := by
  induction js generalizing ps m with
  | nil =>
    unfold appendPlayers at hap
    have := Option.some.inj hap
    simp only [Prod.mk.injEq] at this
    obtain ⟨rfl, rfl⟩ := this
    exact ⟨h, rfl⟩
  | cons j t ih =>
    unfold appendPlayers at hap
    simp only at hap
    by_cases h1 : SM.seatOf sm j.id = -1
    · simp [h1] at hap
    · simp only [h1, if_false] at hap
      by_cases hc : 0 ≤ SM.seatOf sm j.id ∧ SM.seatOf sm j.id < m.length
      · simp only [hc, and_self, if_true] at hap
        have hf := hfree j List.mem_cons_self
        have hstep := MapTight.append m ps h { id := j.id, seat := SM.seatOf sm j.id, bankroll := j.chips } hc.1 hc.2 hf
        have hp2 := List.pairwise_cons.mp hpair
        have := ih (ps ++ [{ id := j.id, seat := SM.seatOf sm j.id, bankroll := j.chips }])
          (m.set (SM.seatOf sm j.id).toNat ps.length) hstep
          (by
            intro k hk
            have hne : SM.seatOf sm k.id ≠ SM.seatOf sm j.id := fun e => hp2.1 k hk e.symm
            rw [seatMapGet_set_other m _ _ _ hc.1 hne]
            exact hfree k (List.mem_cons_of_mem _ hk))
          hp2.2 hap
        obtain ⟨w1, w2⟩ := this
        exact ⟨w1, by rw [w2]; simp⟩
      · simp [hc] at hap

end TB
