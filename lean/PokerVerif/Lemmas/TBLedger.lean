import PokerVerif.Lemmas.TBBasic
/-! Helper lemmas for C01/C02: bankroll totals through every step of the table model; settlement locality. -/
namespace TB

def bankrolls (ps : List Player) : Int := (ps.map (·.bankroll)).sum
def total (s : State) : Int := bankrolls s.players

theorem bankrolls_nil : bankrolls [] = 0 := rfl
theorem bankrolls_cons (p : Player) (t : List Player) : bankrolls (p :: t) = p.bankroll + bankrolls t := by
  simp [bankrolls]
theorem bankrolls_append (a b : List Player) : bankrolls (a ++ b) = bankrolls a + bankrolls b := by
  simp [bankrolls, List.sum_append]

theorem bankrolls_modify (ps : List Player) (i : Nat) (f : Player → Player) (c : Int)
    (hf : ∀ p, (f p).bankroll = p.bankroll + c) (hi : i < ps.length) :
    bankrolls (ps.modify i f) = bankrolls ps + c := by
  induction ps generalizing i with
  | nil => simp at hi
  | cons p t ih =>
    cases i with
    | zero => simp [bankrolls_cons, hf]; omega
    | succ k =>
      simp only [List.modify_succ_cons, bankrolls_cons]
      rw [ih k (by simpa using hi)]; omega

theorem bankrolls_modify_same (ps : List Player) (i : Nat) (f : Player → Player)
    (hf : ∀ p, (f p).bankroll = p.bankroll) : bankrolls (ps.modify i f) = bankrolls ps := by
  induction ps generalizing i with
  | nil => simp
  | cons p t ih =>
    cases i with
    | zero => simp [bankrolls_cons, hf]
    | succ k => simp only [List.modify_succ_cons, bankrolls_cons]; rw [ih k]

theorem findIdxAux_lt (id : Nat) (ps : List Player) (k i : Nat) (h : findIdxAux id ps k = some i) :
    k ≤ i ∧ i < k + ps.length := by
  induction ps generalizing k with
  | nil => simp [findIdxAux] at h
  | cons p t ih =>
    simp only [findIdxAux] at h
    split at h
    · simp at h; subst h; simp
    · have := ih (k+1) h; simp; omega

theorem findPlayerIdx_lt (s : State) (id i : Nat) (h : findPlayerIdx s id = some i) : i < s.players.length := by
  have := findIdxAux_lt id s.players 0 i h; omega

theorem bankrolls_filter (ps : List Player) (q : Player → Bool) :
    bankrolls (ps.filter q) + bankrolls (ps.filter (fun p => !(q p))) = bankrolls ps := by
  induction ps with
  | nil => rfl
  | cons p t ih =>
    by_cases hq : q p = true
    · simp [List.filter_cons, hq, bankrolls_cons]; omega
    · simp [List.filter_cons, hq, bankrolls_cons]; omega

theorem appendPlayers_bankrolls (sm : SM.State) (js : List Join) (ps : List Player) (m : List Int)
    (ps' : List Player) (m' : List Int) (h : appendPlayers sm js ps m = some (ps', m')) :
    bankrolls ps' = bankrolls ps + (js.map (·.chips)).sum := by
  induction js generalizing ps m with
  | nil => simp [appendPlayers] at h; simp [h.1]
  | cons j t ih =>
    simp only [appendPlayers] at h
    split at h
    · simp at h
    · split at h
      · have := ih _ _ h
        rw [this, bankrolls_append]
        simp [bankrolls]; omega
      · simp at h
end TB

namespace TB
def Ledger (s : State) : Prop := total s = s.broughtIn - s.takenOut

theorem ledger_batchAdd (s : State) (js : List Join) (ch : List Int) (h : Ledger s) : Ledger (batchAdd s js ch).1 := by
  unfold batchAdd
  split
  · exact h
  · simp only
    split
    · exact h
    · split
      · exact h
      · split
        · exact h
        · rename_i ps m hap
          have := appendPlayers_bankrolls _ _ _ _ _ _ hap
          unfold Ledger total at h ⊢
          simp only
          rw [this]; omega

theorem ledger_reserve (s : State) (j : Join) (ch : List Int) (h : Ledger s) : Ledger (reserve s j ch).1 := by
  unfold reserve
  split
  · split
    · exact h
    · exact ledger_batchAdd s [j] ch h
  · rename_i i hi
    have hlt := findPlayerIdx_lt s j.id i hi
    have hb := bankrolls_modify s.players i (fun p => { p with bankroll := p.bankroll + j.chips }) j.chips (fun _ => rfl) hlt
    simp only
    split <;> (unfold Ledger total at h ⊢; simp only [modAt]; rw [hb]; omega)

theorem ledger_redeem (s : State) (id : Nat) (c : Int) (h : Ledger s) : Ledger (redeem s id c).1 := by
  unfold redeem
  split
  · exact h
  · rename_i i hi
    have hlt := findPlayerIdx_lt s id i hi
    have hb := bankrolls_modify s.players i (fun p => { p with bankroll := p.bankroll + c }) c (fun _ => rfl) hlt
    simp only
    split <;> (unfold Ledger total at h ⊢; simp only [modAt]; rw [hb]; omega)
end TB

namespace TB
/-- same bankroll total and same ghost ledgers -/
def Same (a b : State) : Prop := total a = total b ∧ a.broughtIn = b.broughtIn ∧ a.takenOut = b.takenOut

theorem Same.refl (a : State) : Same a a := ⟨rfl, rfl, rfl⟩
theorem Same.trans {a b c : State} (h1 : Same a b) (h2 : Same b c) : Same a c :=
  ⟨h1.1.trans h2.1, h1.2.1.trans h2.2.1, h1.2.2.trans h2.2.2⟩
theorem Same.ledger {a b : State} (h : Same a b) (hl : Ledger b) : Ledger a := by
  unfold Ledger at hl ⊢; rw [h.1, h.2.1, h.2.2]; exact hl

theorem same_joinCore (s : State) (id : Nat) : Same (joinCore s id).1 s := by
  unfold joinCore
  split
  · exact Same.refl s
  · split
    · exact Same.refl s
    · split
      · exact Same.refl s
      · split
        · exact Same.refl s
        · have hb := bankrolls_modify_same s.players ‹Nat› (fun p => { p with isIn := true }) (fun _ => rfl)
          simp only
          split <;> exact ⟨by simp [total, modAt, hb], rfl, rfl⟩

theorem same_foldl_joinCore (ps : List Player) (s : State) :
    Same (ps.foldl (fun acc p => (joinCore acc p.id).1) s) s := by
  induction ps generalizing s with
  | nil => exact Same.refl s
  | cons p t ih => exact (ih _).trans (same_joinCore s p.id)

theorem same_autoJoinComplete (s : State) : Same (autoJoinComplete s) s := by
  unfold autoJoinComplete
  simp only
  split
  · exact (show Same { (s.players.foldl (fun acc p => (joinCore acc p.id).1) s) with started := true } _ from
      ⟨rfl, rfl, rfl⟩).trans (same_foldl_joinCore s.players s)
  · exact same_foldl_joinCore s.players s

theorem same_join (s : State) (id : Nat) : Same (join s id).1 s := by
  unfold join
  have hj := same_joinCore s id
  generalize joinCore s id = r at hj
  obtain ⟨s1, r1, fresh⟩ := r
  simp only at hj ⊢
  cases fresh with
  | none => exact hj
  | some i =>
    simp only
    split
    · split
      · exact (same_autoJoinComplete _).trans ((show Same { { s1 with autoRg := _ } with autoDone := true } s1 from ⟨rfl, rfl, rfl⟩).trans hj)
      · exact (show Same { s1 with autoRg := _ } s1 from ⟨rfl, rfl, rfl⟩).trans hj
    · exact hj
end TB

namespace TB
theorem ledger_batchRemove (s : State) (ids : List Nat) (h : Ledger s) : Ledger (batchRemove s ids).1 := by
  unfold batchRemove
  simp only
  split
  · exact h
  · split
    · exact h
    · split
      · exact h
      · have hf := bankrolls_filter s.players (fun p => ids.contains p.id)
        unfold Ledger total at h ⊢
        simp only
        unfold bankrolls at hf h ⊢
        omega

theorem ledger_update (s : State) (js : List Join) (lv : List Nat) (ch : List Int) (h : Ledger s) :
    Ledger (update s js lv ch).1 := by
  unfold update
  simp only
  have h1 : Ledger (if lv.isEmpty then (s, Res.ok) else batchRemove s lv).1 := by
    split
    · exact h
    · exact ledger_batchRemove s lv h
  generalize (if lv.isEmpty then (s, Res.ok) else batchRemove s lv) = r1 at h1
  split
  · split
    · exact h1
    · exact ledger_batchAdd _ _ _ h1
  · exact h1

theorem ledger_finish (s : State) (id : Nat) (h : Ledger s) : Ledger (finish s id).1 := by
  unfold finish
  split
  · exact h
  · split
    · exact h
    · split
      · exact h
      · exact h

theorem settle_fold_none (gidx : List Int) (res : List (Nat × Int)) :
    res.foldl (fun (acc : Option (List Player)) (e : Nat × Int) =>
      match acc with
      | none => none
      | some ps =>
        match gidx[e.1]? with
        | none => none
        | some pi => if 0 ≤ pi ∧ pi.toNat < ps.length then some (modAt ps pi.toNat (fun p => { p with bankroll := p.bankroll + e.2 })) else none) none = none := by
  induction res with
  | nil => rfl
  | cons _ _ ih => simpa using ih

theorem settle_fold (gidx : List Int) (res : List (Nat × Int)) (ps ps' : List Player)
    (h : res.foldl (fun (acc : Option (List Player)) (e : Nat × Int) =>
      match acc with
      | none => none
      | some ps =>
        match gidx[e.1]? with
        | none => none
        | some pi => if 0 ≤ pi ∧ pi.toNat < ps.length then some (modAt ps pi.toNat (fun p => { p with bankroll := p.bankroll + e.2 })) else none) (some ps) = some ps') :
    bankrolls ps' = bankrolls ps + (res.map (·.2)).sum := by
  induction res generalizing ps with
  | nil => simp at h; subst h; simp
  | cons e t ih =>
    simp only [List.foldl_cons] at h
    cases hg : gidx[e.1]? with
    | none => simp only [hg] at h; rw [settle_fold_none] at h; simp at h
    | some pi =>
      simp only [hg] at h
      by_cases hc : 0 ≤ pi ∧ pi.toNat < ps.length
      · simp only [hc, and_self, if_true] at h
        have := ih _ h
        rw [this]
        have hb := bankrolls_modify ps pi.toNat (fun p => { p with bankroll := p.bankroll + e.2 }) e.2 (fun _ => rfl) hc.2
        simp only [modAt]
        rw [hb]; simp; omega
      · simp only [hc, if_false] at h; rw [settle_fold_none] at h; simp at h

/-- a hand only moves chips between its players: the total is unchanged when the backend's result is zero-sum -/
theorem ledger_settle (s : State) (res : List (Nat × Int)) (hz : (res.map (·.2)).sum = 0) (h : Ledger s) :
    Ledger (settle s res).1 := by
  unfold settle
  simp only
  split
  · exact h
  · rename_i ps hfold
    have := settle_fold s.gidx res s.players ps hfold
    have hl : Ledger { { s with status := .settled } with players := ps } := by
      unfold Ledger total at h ⊢; simp only; rw [this, hz]; omega
    split
    · exact hl
    · exact hl
end TB

namespace TB
theorem refreshPlayers_fold_none (ps : List Player) :
    ps.foldl (fun (acc : Option (SM.State × List Player)) (p : Player) =>
      match acc with
      | none => none
      | some (sm, done) =>
        let r := SM.setChips sm p.id (decide (p.bankroll > 0))
        match r.2 with
        | .err _ => none
        | .ok =>
          match SM.isActive r.1 p.id with
          | none => none
          | some a => some (r.1, done ++ [{ p with positions := [], participated := a }])) none = none := by
  induction ps with
  | nil => rfl
  | cons _ _ ih => simpa using ih

theorem refreshPlayers_fold (ps : List Player) (sm0 : SM.State) (done0 : List Player) (r : SM.State × List Player)
    (h : ps.foldl (fun (acc : Option (SM.State × List Player)) (p : Player) =>
      match acc with
      | none => none
      | some (sm, done) =>
        let r := SM.setChips sm p.id (decide (p.bankroll > 0))
        match r.2 with
        | .err _ => none
        | .ok =>
          match SM.isActive r.1 p.id with
          | none => none
          | some a => some (r.1, done ++ [{ p with positions := [], participated := a }])) (some (sm0, done0)) = some r) :
    bankrolls r.2 = bankrolls done0 + bankrolls ps ∧ r.2.map (·.id) = done0.map (·.id) ++ ps.map (·.id) ∧
    (∀ q ∈ r.2, q ∈ done0 ∨ q.positions = []) := by
  induction ps generalizing sm0 done0 with
  | nil => simp at h; subst h; simp [bankrolls_nil]; intro q hq; exact Or.inl hq
  | cons p t ih =>
    simp only [List.foldl_cons] at h
    cases hr : (SM.setChips sm0 p.id (decide (p.bankroll > 0))).2 with
    | err e => simp only [hr] at h; rw [refreshPlayers_fold_none] at h; simp at h
    | ok =>
      simp only [hr] at h
      cases ha : SM.isActive (SM.setChips sm0 p.id (decide (p.bankroll > 0))).1 p.id with
      | none => simp only [ha] at h; rw [refreshPlayers_fold_none] at h; simp at h
      | some a =>
        simp only [ha] at h
        obtain ⟨h1, h2, h3⟩ := ih _ _ h
        refine ⟨?_, ?_, ?_⟩
        · rw [h1, bankrolls_append, bankrolls_cons]; simp [bankrolls]; omega
        · rw [h2]; simp
        · intro q hq
          rcases h3 q hq with h4 | h4
          · rcases List.mem_append.mp h4 with h5 | h5
            · exact Or.inl h5
            · simp at h5; subst h5; exact Or.inr rfl
          · exact Or.inr h4

theorem refreshPlayers_bankrolls (sm : SM.State) (ps : List Player) (r : SM.State × List Player)
    (h : refreshPlayers sm ps = some r) : bankrolls r.2 = bankrolls ps := by
  have := (refreshPlayers_fold ps sm [] r h).1
  simpa [bankrolls_nil] using this

theorem same_nextMove (s2 : State) (e : Bool) : Same (nextMove s2 e).1 s2 := by
  unfold nextMove
  repeat (first | split | exact Same.refl _ | exact ⟨rfl, rfl, rfl⟩)

theorem same_continueGame (s : State) (e : Bool) : Same (continueGame s e).1 s := by
  rcases continueGame_cases s e with ⟨_, h⟩ | ⟨sm, ps, hrp, h⟩
  · rw [h]; exact ⟨rfl, rfl, rfl⟩
  · rw [h]
    refine (same_nextMove _ e).trans ⟨?_, rfl, rfl⟩
    have := refreshPlayers_bankrolls _ _ _ hrp
    simpa [total, resetHand] using this
end TB

namespace TB
theorem mapM_bankrolls (f : Player → Option Player) (hf : ∀ p q, f p = some q → q.bankroll = p.bankroll)
    (ps ps' : List Player) (h : ps.mapM f = some ps') : bankrolls ps' = bankrolls ps := by
  induction ps generalizing ps' with
  | nil => simp at h; subst h; rfl
  | cons p t ih =>
    rw [List.mapM_cons] at h
    cases hp : f p with
    | none => simp [hp] at h
    | some q =>
      cases ht : t.mapM f with
      | none => simp [hp, ht] at h
      | some t' =>
        simp [hp, ht] at h
        subst h
        rw [bankrolls_cons, bankrolls_cons, ih t' ht, hf p q hp]

theorem setPositions_bankrolls (ps : List Player) (id : Nat) (pos : List String) :
    bankrolls (setPositions ps id pos) = bankrolls ps := by
  unfold setPositions
  split
  · exact bankrolls_modify_same _ _ _ (fun _ => rfl)
  · rfl

theorem assignPositions_bankrolls (sm : SM.State) (ps ps' : List Player) (h : assignPositions sm ps = some ps') :
    bankrolls ps' = bankrolls ps := by
  unfold assignPositions at h
  simp only at h
  -- invariant of the fold: whatever player list the accumulator carries has the same bankroll total
  have key : ∀ (seats : List Int) (acc : Option (List Player × List (List String) × Bool)),
      (∀ x, acc = some x → bankrolls x.1 = bankrolls ps) →
      ∀ x, seats.foldl (fun (acc : Option (List Player × List (List String) × Bool)) (seat : Int) =>
        match acc with
        | none => none
        | some (ps, q, stop) =>
          if stop then some (ps, q, stop)
          else if !(SM.inRange sm seat) then some (ps, q, q.isEmpty)
          else
            match q with
            | [] => none
            | h :: rest =>
              match sm.seats seat with
              | some sp =>
                if sp.active then
                  let ps' := setPositions ps sp.id h
                  some (ps', rest, rest.isEmpty)
                else
                  let tp := h.contains "dealer" || h.contains "sb"
                  let ts := seat == sm.dealer || seat == sm.sb
                  if tp && ts then some (ps, rest, rest.isEmpty) else some (ps, q, false)
              | none =>
                let tp := h.contains "dealer" || h.contains "sb"
                let ts := seat == sm.dealer || seat == sm.sb
                if tp && ts then some (ps, rest, rest.isEmpty) else some (ps, q, false)) acc = some x →
        bankrolls x.1 = bankrolls ps := by
    intro seats
    induction seats with
    | nil => intro acc hacc x hx; simp at hx; exact hacc x hx
    | cons seat t ih =>
      intro acc hacc x hx
      simp only [List.foldl_cons] at hx
      refine ih _ ?_ x hx
      intro y hy
      cases acc with
      | none => simp at hy
      | some a =>
        obtain ⟨aps, q, stop⟩ := a
        have ha := hacc _ rfl
        simp only at hy ha
        split at hy
        · simp at hy; rw [← hy]; exact ha
        · split at hy
          · simp at hy; rw [← hy]; exact ha
          · split at hy
            · simp at hy
            · split at hy
              · split at hy
                · simp at hy; rw [← hy]; simp only; rw [setPositions_bankrolls]; exact ha
                · split at hy <;> (simp at hy; rw [← hy]; exact ha)
              · split at hy <;> (simp at hy; rw [← hy]; exact ha)
  split at h
  · simp at h
  · rename_i r hr
    simp at h
    subst h
    exact key _ _ (by intro x hx; simp at hx; subst hx; rfl) _ hr
end TB

namespace TB
theorem same_openTable (s : State) (sm : SM.State) : Same (openTable s sm).1 s := by
  unfold openTable
  split
  · exact ⟨rfl, rfl, rfl⟩
  · rename_i ps hm
    simp only
    split
    · exact ⟨rfl, rfl, rfl⟩
    · split
      · exact ⟨rfl, rfl, rfl⟩
      · rename_i ps2 hap
        refine ⟨?_, rfl, rfl⟩
        have h1 := assignPositions_bankrolls _ _ _ hap
        have h2 := mapM_bankrolls _ (by
          intro p q hpq
          cases ha : SM.isActive sm p.id with
          | none => simp [ha] at hpq
          | some a => simp [ha] at hpq; rw [← hpq]) _ _ hm
        simp only [total, openedState]
        rw [h1, h2]

theorem same_startHand (s2 : State) (ok : Bool) : Same (startHand s2 ok).1 s2 := by
  unfold startHand
  split
  · exact Same.refl _
  · split
    · exact Same.refl _
    · exact ⟨rfl, rfl, rfl⟩

theorem same_openCore (s : State) (ch : Option Int) (ok : Bool) : Same (openCore s ch ok).1 s := by
  unfold openCore
  simp only
  split
  · exact ⟨rfl, rfl, rfl⟩
  · split
    · exact (same_startHand _ ok).trans (same_openTable _ _)
    · exact same_openTable _ _

theorem same_gateFire (s : State) (ch : Option Int) (ok : Bool) : Same (gateFire s ch ok).1 s := by
  unfold gateFire
  have hg : Same (gateReady s) s := ⟨rfl, rfl, rfl⟩
  split
  · exact hg
  · exact hg
  · exact (same_openCore _ ch ok).trans hg

theorem same_retryOpen (s : State) (ch : Option Int) (ok : Bool) : Same (retryOpen s ch ok).1 s := by
  rcases retryOpen_cases s ch ok with h | h | ⟨_, _, _, _, _, h⟩
  · rw [h]; exact ⟨rfl, rfl, rfl⟩
  · rw [h]; exact ⟨rfl, rfl, rfl⟩
  · rw [h]; exact same_openCore s ch ok

theorem same_foldl_join (ps : List Player) (s : State) :
    Same (ps.foldl (fun acc p => (join acc p.id).1) s) s := by
  induction ps generalizing s with
  | nil => exact Same.refl s
  | cons p t ih => exact (ih _).trans (same_join s p.id)

theorem same_autoJoinStale (s : State) : Same (autoJoinStale s) s := same_foldl_join s.players s

/-- the backend's results in an event list are zero-sum (contract `ResultConserves`, monitored on every real result) -/
def ResultsConserve : List Event → Prop
  | [] => True
  | .settle r :: t => (r.map (·.2)).sum = 0 ∧ ResultsConserve t
  | _ :: t => ResultsConserve t

theorem ledger_step (s : State) (e : Event) (h : Ledger s)
    (hz : match e with | .settle r => (r.map (·.2)).sum = 0 | _ => True) : Ledger (step s e) := by
  cases e with
  | reserve j ch => exact ledger_reserve s j ch h
  | join id => exact (same_join s id).ledger h
  | redeem id c => exact ledger_redeem s id c h
  | leave ids => exact ledger_batchRemove s ids h
  | update js lv ch => exact ledger_update s js lv ch h
  | blind b => exact h
  | pause => exact h
  | close => exact h
  | release => exact h
  | start => exact h
  | setup gc ps => exact h
  | finish id => exact ledger_finish s id h
  | autojoin => exact (same_autoJoinStale s).ledger h
  | fire ch ok => exact (same_gateFire s ch ok).ledger h
  | retry ch ok => exact (same_retryOpen s ch ok).ledger h
  | settle r => exact ledger_settle s r hz h
  | «continue» ex => exact (same_continueGame s ex).ledger h
  | contReset => exact (same_continueGame s true).ledger h
  | tick ex => exact (same_nextMove s ex).ledger h

theorem ledger_run (s : State) (evs : List Event) (h : Ledger s) (hz : ResultsConserve evs) : Ledger (run s evs) := by
  induction evs generalizing s with
  | nil => exact h
  | cons e t ih =>
    simp only [run, List.foldl_cons]
    cases e <;> first
      | exact ih _ (ledger_step s _ h hz.1) hz.2
      | exact ih _ (ledger_step s _ h trivial) hz

theorem ledger_create (cfg : Meta) (b : Blind) : Ledger (create cfg b) := by
  unfold Ledger total create bankrolls; simp
end TB

namespace TB

/-- what the result credits to player index `k` through the hand's list -/
def credit (gidx : List Int) (res : List (Nat × Int)) (k : Nat) : Int :=
  ((res.filter (fun e => gidx[e.1]? == some (k : Int))).map (·.2)).sum

def bankAt (ps : List Player) (k : Nat) : Int := match ps[k]? with | some p => p.bankroll | none => 0

theorem bankAt_modify (ps : List Player) (i k : Nat) (c : Int) :
    bankAt (ps.modify i (fun p => { p with bankroll := p.bankroll + c })) k =
      if i = k ∧ k < ps.length then bankAt ps k + c else bankAt ps k := by
  unfold bankAt
  rw [List.getElem?_modify]
  by_cases hik : i = k
  · subst hik
    cases h : ps[i]? with
    | none =>
      have : ¬ i < ps.length := by
        intro hl; rw [List.getElem?_eq_getElem hl] at h; simp at h
      simp [this]
    | some p =>
      have : i < ps.length := by
        rcases Nat.lt_or_ge i ps.length with hl | hl
        · exact hl
        · rw [List.getElem?_eq_none hl] at h; simp at h
      simp [this]
  · simp [hik]

theorem settle_fold_local (gidx : List Int) (res : List (Nat × Int)) (ps ps' : List Player)
    (h : res.foldl (fun (acc : Option (List Player)) (e : Nat × Int) =>
      match acc with
      | none => none
      | some ps =>
        match gidx[e.1]? with
        | none => none
        | some pi => if 0 ≤ pi ∧ pi.toNat < ps.length then some (modAt ps pi.toNat (fun p => { p with bankroll := p.bankroll + e.2 })) else none) (some ps) = some ps') :
    ps'.length = ps.length ∧ ∀ k, k < ps.length → bankAt ps' k = bankAt ps k + credit gidx res k := by
  induction res generalizing ps with
  | nil => simp at h; subst h; simp [credit]
  | cons e t ih =>
    simp only [List.foldl_cons] at h
    cases hg : gidx[e.1]? with
    | none =>
      simp only [hg] at h
      have : ∀ l : List (Nat × Int), l.foldl (fun (acc : Option (List Player)) (e : Nat × Int) =>
        match acc with
        | none => none
        | some ps =>
          match gidx[e.1]? with
          | none => none
          | some pi => if 0 ≤ pi ∧ pi.toNat < ps.length then some (modAt ps pi.toNat (fun p => { p with bankroll := p.bankroll + e.2 })) else none) none = none := by
        intro l; induction l with
        | nil => rfl
        | cons _ _ ih2 => simpa using ih2
      rw [this] at h; simp at h
    | some pi =>
      simp only [hg] at h
      by_cases hc : 0 ≤ pi ∧ pi.toNat < ps.length
      · simp only [hc, and_self, if_true] at h
        obtain ⟨hl, hk⟩ := ih _ h
        simp only [modAt, List.length_modify] at hl hk
        refine ⟨hl, ?_⟩
        intro k hkl
        rw [hk k hkl, bankAt_modify]
        unfold credit
        simp only [List.filter_cons, hg]
        by_cases hpk : pi.toNat = k
        · have : (some pi == some (k : Int)) = true := by
            simp; omega
          simp [hpk, hkl, this]; omega
        · have : (some pi == some (k : Int)) = false := by
            simp; omega
          simp [hpk, this]
      · simp only [hc, if_false] at h
        have : ∀ l : List (Nat × Int), l.foldl (fun (acc : Option (List Player)) (e : Nat × Int) =>
          match acc with
          | none => none
          | some ps =>
            match gidx[e.1]? with
            | none => none
            | some pi => if 0 ≤ pi ∧ pi.toNat < ps.length then some (modAt ps pi.toNat (fun p => { p with bankroll := p.bankroll + e.2 })) else none) none = none := by
          intro l; induction l with
          | nil => rfl
          | cons _ _ ih2 => simpa using ih2
        rw [this] at h; simp at h
end TB
