import PokerVerif.TB
import PokerVerif.TBSpec
/-! Helper lemmas about the table-engine model: the open path (`gateFire`), branch by branch. -/
namespace TB

theorem openGuard_go (s : State) (h : openGuard s = .go) :
    1 < s.gate.length ∧ s.released = false ∧ s.status ≠ .closed ∧ s.hasGame = false ∧ s.blind.isSet = true ∧
    s.blind.isBreaking = false := by
  unfold openGuard at h
  by_cases h1 : s.gate.length ≤ 1
  · simp [h1] at h
  · by_cases h2 : (s.released || s.status == .closed) = true
    · simp [h1, h2] at h
    · by_cases h3 : s.hasGame = true
      · simp [h1, h2, h3] at h
      · by_cases h4 : s.blind.isSet = true
        · by_cases h5 : s.blind.isBreaking = true
          · simp [h1, h2, h3, h4, h5] at h
          · simp at h2 h3 h5
            exact ⟨by omega, h2.1, h2.2, h3, h4, h5⟩
        · simp [h1, h2, h3, h4] at h

theorem startHand_opened (s2 : State) (ok : Bool) :
    (startHand s2 ok).2 = .opened →
    (startHand s2 ok).1 = { s2 with status := .playing, gameBlind := some s2.blind, hasGame := true } := by
  unfold startHand
  split
  · simp
  · split
    · simp
    · intro _; rfl
theorem startHand_not_quiet (s2 : State) (ok : Bool) :
    (startHand s2 ok).2 ≠ .nothing ∧ (startHand s2 ok).2 ≠ .refused := by
  unfold startHand
  split
  · simp
  · split <;> simp
theorem openTable_opened (s : State) (sm : SM.State) :
    (openTable s sm).2 = .opened → ∃ ps gi, (openTable s sm).1 = openedState s sm ps gi := by
  unfold openTable
  split
  · simp
  · simp only
    split
    · simp
    · split
      · simp
      · intro _
        exact ⟨_, _, rfl⟩
theorem openTable_gameCount (s : State) (sm : SM.State) :
    (openTable s sm).2 ≠ .opened → (openTable s sm).1.gameCount = s.gameCount := by
  unfold openTable
  split
  · intro _; rfl
  · simp only
    split
    · intro _; rfl
    · split
      · intro _; rfl
      · simp

theorem openCore_opened (s : State) (ch : Option Int) (ok : Bool) :
    (openCore s ch ok).2 = .opened →
    (openCore s ch ok).1.gameCount = s.gameCount + 1 ∧ (openCore s ch ok).1.status = .playing ∧
    (openCore s ch ok).1.hasGame = true ∧ (openCore s ch ok).1.gameBlind = some s.blind ∧
    (openCore s ch ok).1.blind = s.blind := by
  unfold openCore
  simp only
  split
  · simp
  · split
    · rename_i ht
      intro h
      obtain ⟨ps, gi, hst⟩ := openTable_opened _ _ ht
      rw [startHand_opened _ _ h, hst]
      simp [openedState]
    · rename_i hne
      intro h; exact absurd h hne

theorem openCore_quiet (s : State) (ch : Option Int) (ok : Bool) :
    ((openCore s ch ok).2 = .nothing ∨ (openCore s ch ok).2 = .refused) → (openCore s ch ok).1.gameCount = s.gameCount := by
  unfold openCore
  simp only
  split
  · intro _; rfl
  · split
    · intro h
      have := startHand_not_quiet (openTable s (if (!s.sm.isInit) = true then SM.init s.sm ch else SM.rotate s.sm).1).1 ok
      rcases h with h | h
      · exact absurd h this.1
      · exact absurd h this.2
    · rename_i hne
      intro _
      exact openTable_gameCount _ _ hne

theorem gateFire_opened (s : State) (ch : Option Int) (ok : Bool) (h : (gateFire s ch ok).2 = .opened) :
    openGuard (gateReady s) = .go ∧ (gateFire s ch ok) = openCore (gateReady s) ch ok := by
  unfold gateFire at h ⊢
  cases hg : openGuard (gateReady s) with
  | nothing => simp [hg] at h
  | refused => simp [hg] at h
  | go => simp

/-- the delayed handler on a table that is in `standby` and was not released: pause iff `ShouldPause`, otherwise set the
next hand up -/
theorem nextMove_spec (s2 : State) (hst : s2.status = .standby) (hr : s2.released = false) :
    (shouldPause s2 = true → nextMove s2 false = ({ s2 with status := .pausing }, .paused)) ∧
    (shouldPause s2 = false → nextMove s2 false = (setup s2 (s2.gameCount + 1) (gateParticipants s2), .setUp)) := by
  constructor
  · intro hp
    unfold nextMove
    simp [hst, hr, hp]
  · intro hp
    have hao : shouldAutoOpen s2 = true := by
      unfold shouldPause at hp
      unfold shouldAutoOpen
      simp at hp
      simp [hst]
      omega
    unfold nextMove
    simp [hst, hr, hp, hao]

theorem continueGame_cases (s : State) (e : Bool) :
    (refreshPlayers s.sm s.players = none ∧ continueGame s e = (resetHand s, .failed)) ∨
    (∃ sm ps, refreshPlayers s.sm s.players = some (sm, ps) ∧
      continueGame s e = nextMove { resetHand s with sm := sm, players := ps } e) := by
  unfold continueGame
  cases h : refreshPlayers s.sm s.players with
  | none => exact Or.inl ⟨rfl, rfl⟩
  | some r => exact Or.inr ⟨r.1, r.2, rfl, rfl⟩

/-- a turn of the retry loop: it gives up (nothing changes), is refused again (nothing changes), or — the table neither
closed nor released, no hand status, blinds set and not a break — is `openGame` + `startGame` again -/
theorem retryOpen_cases (s : State) (ch : Option Int) (ok : Bool) :
    retryOpen s ch ok = (s, .nothing) ∨ retryOpen s ch ok = (s, .refused) ∨
    (s.released = false ∧ s.status ≠ .closed ∧ inHandStatus s.status = false ∧ s.blind.isSet = true ∧
      s.blind.isBreaking = false ∧ retryOpen s ch ok = openCore s ch ok) := by
  unfold retryOpen
  by_cases h0 : (s.released || s.status == .closed) = true
  · simp [h0]
  · by_cases h1 : inHandStatus s.status = true
    · simp [h0, h1]
    · by_cases h2 : s.blind.isSet = true
      · by_cases h3 : s.blind.isBreaking = true
        · simp [h0, h1, h2, h3]
        · right; right
          have hr : s.released = false ∧ s.status ≠ .closed := by
            simp only [Bool.or_eq_true, beq_iff_eq, not_or] at h0
            exact ⟨by simpa using h0.1, h0.2⟩
          refine ⟨hr.1, hr.2, by simpa using h1, h2, by simpa using h3, ?_⟩
          simp [h0, h1, h2, h3]
      · simp [h0, h1, h2]

end TB
