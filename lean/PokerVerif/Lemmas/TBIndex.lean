import PokerVerif.Lemmas.TBOpen
/-!
# The hand's player list (`calcGamePlayerIndexes`): every dealt-in player once, clockwise

`collectFrom` walks all seats once, clockwise from the start seat, and collects the player index found on each seat
whose player is dealt in.  Under the seat-map consistency of the table (`MapWF`: the seat map and the player list
describe the same seating) the result lists exactly the dealt-in players, each once, in the order of the walk.
-/
namespace TB

/-- what the walk takes from one seat -/
def pickAt (m : List Int) (part : Int → Bool) (seat : Int) : Option Int :=
  match seatMapGet m seat with
  | some pi => if part pi then some pi else none
  | none => none

theorem pickAt_some (m : List Int) (part : Int → Bool) (seat pi : Int) (hg : seatMapGet m seat = some pi) :
    pickAt m part seat = if part pi then some pi else none := by
  unfold pickAt; rw [hg]

theorem foldl_collect (m : List Int) (part : Int → Bool) (seats : List Int)
    (hin : ∀ seat ∈ seats, (seatMapGet m seat).isSome = true) (acc : List Int) :
    seats.foldl (collectStep m part) (some acc) = some (acc ++ seats.filterMap (pickAt m part)) := by
  induction seats generalizing acc with
  | nil => simp
  | cons seat t ih =>
    have h1 := hin seat List.mem_cons_self
    have ht : ∀ x ∈ t, (seatMapGet m x).isSome = true := fun x hx => hin x (List.mem_cons_of_mem _ hx)
    simp only [List.foldl_cons, List.filterMap_cons]
    cases hg : seatMapGet m seat with
    | none => rw [hg] at h1; cases h1
    | some pi =>
      rw [pickAt_some m part seat pi hg]
      have hstep : collectStep m part (some acc) seat = if part pi then some (acc ++ [pi]) else some acc := by
        unfold collectStep; simp only [hg]
      rw [hstep]
      by_cases hp : part pi = true
      · simp only [hp, if_true]
        rw [ih ht]
        simp
      · have hp' : part pi = false := by simpa using hp
        simp only [hp', Bool.false_eq_true, if_false]
        rw [ih ht]

theorem walk_in_range (n : Nat) (start : Int) (hs : 0 ≤ start) (hn : 0 < n) :
    ∀ seat ∈ walkSeats n start, 0 ≤ seat ∧ seat < n := by
  intro seat h
  unfold walkSeats at h
  rw [List.mem_map] at h
  obtain ⟨k, _, rfl⟩ := h
  constructor
  · exact Int.tmod_nonneg _ (by omega)
  · exact Int.tmod_lt_of_pos _ (by omega)

theorem seatMapGet_isSome (m : List Int) (seat : Int) (h0 : 0 ≤ seat) (hl : seat < m.length) :
    (seatMapGet m seat).isSome = true := by
  unfold seatMapGet
  have : seat.toNat < m.length := by omega
  simp [h0, hl, this]

/-- the walk, spelled out: a `filterMap` over the seats in clockwise order -/
theorem collectFrom_eq (m : List Int) (part : Int → Bool) (start : Int) (hs : 0 ≤ start) (hn : 0 < m.length) :
    collectFrom m part start = some ((walkSeats m.length start).filterMap (pickAt m part)) := by
  unfold collectFrom
  have h := foldl_collect m part (walkSeats m.length start)
    (fun seat hm => by
      obtain ⟨h0, h1⟩ := walk_in_range m.length start hs hn seat hm
      exact seatMapGet_isSome m seat h0 h1) []
  simpa using h

-- ------------------------------------------------------------------ the walk visits every seat exactly once

theorem tmod_eq_natMod (start : Int) (k n : Nat) (hs : 0 ≤ start) :
    Int.tmod (start + (k : Int)) (n : Int) = (((start.toNat + k) % n : Nat) : Int) := by
  have h1 : start + (k : Int) = ((start.toNat + k : Nat) : Int) := by omega
  rw [h1, Int.tmod_eq_emod_of_nonneg (by omega)]
  exact (Int.natCast_emod _ _).symm

theorem mod_inj_on_range (s n k1 k2 : Nat) (h1 : k1 < n) (h2 : k2 < n) (h : (s + k1) % n = (s + k2) % n) : k1 = k2 := by
  -- wlog k1 ≤ k2
  rcases Nat.le_total k1 k2 with hle | hle
  · have hd : (s + k2 - (s + k1)) % n = 0 := Nat.sub_mod_eq_zero_of_mod_eq h.symm
    have : s + k2 - (s + k1) = k2 - k1 := by omega
    rw [this] at hd
    have hlt : k2 - k1 < n := by omega
    have := Nat.eq_zero_of_dvd_of_lt (Nat.dvd_of_mod_eq_zero hd) hlt
    omega
  · have hd : (s + k1 - (s + k2)) % n = 0 := Nat.sub_mod_eq_zero_of_mod_eq h
    have : s + k1 - (s + k2) = k1 - k2 := by omega
    rw [this] at hd
    have hlt : k1 - k2 < n := by omega
    have := Nat.eq_zero_of_dvd_of_lt (Nat.dvd_of_mod_eq_zero hd) hlt
    omega

theorem walk_nodup (n : Nat) (start : Int) (hs : 0 ≤ start) : (walkSeats n start).Nodup := by
  unfold walkSeats
  rw [List.Nodup, List.pairwise_map]
  have hlt : List.Pairwise (· < ·) (List.range n) := List.pairwise_lt_range
  refine List.Pairwise.imp_of_mem ?_ hlt
  intro a b ha hb hab
  rw [List.mem_range] at ha hb
  rw [tmod_eq_natMod start a n hs, tmod_eq_natMod start b n hs]
  intro heq
  have : (start.toNat + a) % n = (start.toNat + b) % n := by exact_mod_cast heq
  have := mod_inj_on_range start.toNat n a b ha hb this
  omega

theorem walk_covers (n : Nat) (start : Int) (hs : 0 ≤ start) (t : Int) (h0 : 0 ≤ t) (hn : t < n) :
    t ∈ walkSeats n start := by
  unfold walkSeats
  rw [List.mem_map]
  have npos : 0 < n := by omega
  -- the step count that reaches seat t
  let s' := start.toNat % n
  have hs' : s' < n := Nat.mod_lt _ npos
  let k : Nat := if s' ≤ t.toNat then t.toNat - s' else t.toNat + n - s'
  have hk : k < n := by
    show (if s' ≤ t.toNat then t.toNat - s' else t.toNat + n - s') < n
    split <;> omega
  refine ⟨k, List.mem_range.mpr hk, ?_⟩
  rw [tmod_eq_natMod start k n hs]
  have hmod : (start.toNat + k) % n = t.toNat := by
    rw [Nat.add_mod]
    show (s' + k % n) % n = t.toNat
    rw [Nat.mod_eq_of_lt hk]
    show (s' + (if s' ≤ t.toNat then t.toNat - s' else t.toNat + n - s')) % n = t.toNat
    split
    · rename_i hle
      have : s' + (t.toNat - s') = t.toNat := by omega
      rw [this]; exact Nat.mod_eq_of_lt (by omega)
    · rename_i hgt
      have : s' + (t.toNat + n - s') = t.toNat + n := by omega
      rw [this, Nat.add_mod_right]; exact Nat.mod_eq_of_lt (by omega)
  rw [hmod]; omega

-- ------------------------------------------------------------------ seat map and player list describe the same seating

/-- the table's seating is consistent: an occupied seat-map entry names a listed player sitting on that seat, and every
listed player's seat names him -/
structure MapWF (m : List Int) (ps : List Player) : Prop where
  entries : ∀ seat pi, seatMapGet m seat = some pi → 0 ≤ pi → ∃ p, ps[pi.toNat]? = some p ∧ p.seat = seat
  players : ∀ (i : Nat) p, ps[i]? = some p → seatMapGet m p.seat = some (i : Int)

theorem seatMapGet_range (m : List Int) (seat pi : Int) (h : seatMapGet m seat = some pi) : 0 ≤ seat ∧ seat < m.length := by
  unfold seatMapGet at h
  by_cases hc : 0 ≤ seat ∧ seat < m.length
  · exact hc
  · simp [hc] at h

theorem partOf_true (ps : List Player) (pi : Int) (h : partOf ps pi = true) :
    0 ≤ pi ∧ ∃ p, ps[pi.toNat]? = some p ∧ p.participated = true := by
  unfold partOf at h
  by_cases h0 : 0 ≤ pi
  · simp only [h0, if_true] at h
    cases hp : ps[pi.toNat]? with
    | none => rw [hp] at h; cases h
    | some p => rw [hp] at h; exact ⟨h0, p, rfl, h⟩
  · simp [h0] at h

/-- **the hand's list is exactly the dealt-in players, each once, in clockwise order from the start seat** -/
theorem collectFrom_exact (m : List Int) (ps : List Player) (start : Int) (hs : 0 ≤ start) (hn : 0 < m.length)
    (wf : MapWF m ps) (l : List Int) (h : collectFrom m (partOf ps) start = some l) :
    -- exactly the dealt-in players
    (∀ pi, pi ∈ l ↔ (0 ≤ pi ∧ ∃ p, ps[pi.toNat]? = some p ∧ p.participated = true)) ∧
    -- each once
    l.Nodup ∧
    -- in the order of the clockwise walk
    l = (walkSeats m.length start).filterMap (pickAt m (partOf ps)) := by
  rw [collectFrom_eq m (partOf ps) start hs hn] at h
  have hl : l = (walkSeats m.length start).filterMap (pickAt m (partOf ps)) := (Option.some.inj h).symm
  refine ⟨?_, ?_, hl⟩
  · intro pi
    rw [hl, List.mem_filterMap]
    constructor
    · rintro ⟨seat, _, hpick⟩
      unfold pickAt at hpick
      cases hg : seatMapGet m seat with
      | none => rw [hg] at hpick; cases hpick
      | some q =>
        rw [hg] at hpick
        by_cases hq : partOf ps q = true
        · simp only [hq, if_true] at hpick
          have : q = pi := Option.some.inj hpick
          subst this
          exact partOf_true ps q hq
        · have : partOf ps q = false := by simpa using hq
          simp [this] at hpick
    · rintro ⟨h0, p, hp, hpart⟩
      have hseat := wf.players pi.toNat p hp
      have hcast : ((pi.toNat : Nat) : Int) = pi := by omega
      rw [hcast] at hseat
      obtain ⟨r0, r1⟩ := seatMapGet_range m p.seat pi hseat
      refine ⟨p.seat, walk_covers m.length start hs p.seat r0 r1, ?_⟩
      unfold pickAt
      rw [hseat]
      have : partOf ps pi = true := by
        unfold partOf; simp [h0, hp, hpart]
      simp [this]
  · rw [hl, List.Nodup, List.pairwise_filterMap]
    refine List.Pairwise.imp_of_mem ?_ (walk_nodup m.length start hs)
    intro s1 s2 _ _ hne b1 hb1 b2 hb2 heq
    apply hne
    -- both seats carry the same dealt-in player index ⇒ the same seat
    have seatOf : ∀ seat b, pickAt m (partOf ps) seat = some b → ∃ p, ps[b.toNat]? = some p ∧ p.seat = seat := by
      intro seat b hb
      unfold pickAt at hb
      cases hg : seatMapGet m seat with
      | none => rw [hg] at hb; cases hb
      | some q =>
        rw [hg] at hb
        by_cases hq : partOf ps q = true
        · simp only [hq, if_true] at hb
          have : q = b := Option.some.inj hb
          subst this
          exact wf.entries seat q hg (partOf_true ps q hq).1
        · have : partOf ps q = false := by simpa using hq
          simp [this] at hb
    obtain ⟨p1, hp1, hs1⟩ := seatOf s1 b1 hb1
    obtain ⟨p2, hp2, hs2⟩ := seatOf s2 b2 hb2
    rw [heq] at hp1
    rw [hp1] at hp2
    have : p1 = p2 := Option.some.inj hp2
    rw [← hs1, ← hs2, this]

/-- decidable form of `MapWF` (what the C03 monitor evaluates on every observed table) -/
def mapWFb (m : List Int) (ps : List Player) : Bool :=
  (List.range m.length).all (fun (seat : Nat) => match m[seat]? with
    | some pi => decide (pi < 0) || (match ps[pi.toNat]? with | some p => p.seat == (seat : Int) | none => false)
    | none => true) &&
  (List.range ps.length).all (fun (i : Nat) => match ps[i]? with
    | some p => seatMapGet m p.seat == some (i : Int)
    | none => true)

theorem mapWF_of_b (m : List Int) (ps : List Player) (h : mapWFb m ps = true) : MapWF m ps := by
  unfold mapWFb at h
  rw [Bool.and_eq_true, List.all_eq_true, List.all_eq_true] at h
  obtain ⟨h1, h2⟩ := h
  constructor
  · intro seat pi hg h0
    obtain ⟨r0, r1⟩ := seatMapGet_range m seat pi hg
    have hmem : seat.toNat ∈ List.range m.length := List.mem_range.mpr (by omega)
    have := h1 seat.toNat hmem
    unfold seatMapGet at hg
    simp only [r0, r1, and_self, if_true] at hg
    rw [hg] at this
    have hneg : decide (pi < 0) = false := by simp; omega
    simp only [hneg, Bool.false_or] at this
    cases hp : ps[pi.toNat]? with
    | none => rw [hp] at this; cases this
    | some p =>
      rw [hp] at this
      have hs : p.seat = (seat.toNat : Int) := by simpa using this
      exact ⟨p, rfl, by omega⟩
  · intro i p hp
    have hi : i < ps.length := by
      rcases Nat.lt_or_ge i ps.length with hlt | hge
      · exact hlt
      · rw [List.getElem?_eq_none hge] at hp; cases hp
    have := h2 i (List.mem_range.mpr hi)
    rw [hp] at this
    simpa using this

-- ------------------------------------------------------------------ lifting to `calcGamePlayerIndexes`

theorem getElem?_of_map_eq {β : Type} (f : Player → β) (ps ps' : List Player) (h : ps'.map f = ps.map f) (i : Nat) :
    (ps'[i]?).map f = (ps[i]?).map f := by
  rw [← List.getElem?_map, ← List.getElem?_map, h]

/-- seating consistency only looks at the seats -/
theorem MapWF.of_seats (m : List Int) (ps ps' : List Player) (h : ps'.map (·.seat) = ps.map (·.seat))
    (wf : MapWF m ps) : MapWF m ps' := by
  constructor
  · intro seat pi hg h0
    obtain ⟨p, hp, hs⟩ := wf.entries seat pi hg h0
    have := getElem?_of_map_eq (·.seat) ps ps' h pi.toNat
    rw [hp] at this
    cases hp' : ps'[pi.toNat]? with
    | none => rw [hp'] at this; cases this
    | some p' =>
      rw [hp'] at this
      simp only [Option.map_some] at this
      exact ⟨p', rfl, (Option.some.inj this).trans hs⟩
  · intro i p' hp'
    have := getElem?_of_map_eq (·.seat) ps ps' h i
    rw [hp'] at this
    cases hp : ps[i]? with
    | none => rw [hp] at this; cases this
    | some p =>
      rw [hp] at this
      simp only [Option.map_some] at this
      rw [Option.some.inj this]
      exact wf.players i p hp

theorem partOf_congr (ps ps' : List Player) (h : ps'.map (·.participated) = ps.map (·.participated)) (pi : Int) :
    partOf ps' pi = partOf ps pi := by
  unfold partOf
  by_cases h0 : 0 ≤ pi
  · simp only [h0, if_true]
    have := getElem?_of_map_eq (·.participated) ps ps' h pi.toNat
    cases hp : ps[pi.toNat]? <;> cases hp' : ps'[pi.toNat]? <;> rw [hp, hp'] at this <;> simp_all
  · simp [h0]

theorem handStart_nonneg (s : State) (ps : List Player) (wf : MapWF s.seatMap ps) :
    handStart s ps = -1 ∨ 0 ≤ handStart s ps := by
  unfold handStart
  simp only
  split
  · rename_i hd
    right
    rw [List.any_eq_true] at hd
    obtain ⟨p, hp, hpp⟩ := hd
    obtain ⟨i, hi⟩ := List.mem_iff_getElem?.mp hp
    have hseat := wf.players i p hi
    have hsd : p.seat = s.sm.dealer := by
      simp only [Bool.and_eq_true, beq_iff_eq] at hpp; exact hpp.2
    rw [hsd] at hseat
    exact (seatMapGet_range _ _ _ hseat).1
  · split
    · rename_i x hx
      right
      have := List.find?_some hx
      simp only [Bool.and_eq_true] at this
      have hin := this.1
      unfold SM.inRange at hin
      simp only [Bool.and_eq_true, decide_eq_true_eq] at hin
      exact hin.1
    · left; rfl

/-- **`calcGamePlayerIndexes`, default rule: exactly the dealt-in players, each once, clockwise from the start seat** -/
theorem gameIndexes_exact (s : State) (ps : List Player) (gi : List Int) (hrule : s.cfg.rule ≠ .shortDeck)
    (wf : MapWF s.seatMap ps) (hn : 0 < s.seatMap.length) (hstart : handStart s ps ≠ -1)
    (h : gameIndexes s ps = some gi) :
    (∀ pi, pi ∈ gi ↔ (0 ≤ pi ∧ ∃ p, ps[pi.toNat]? = some p ∧ p.participated = true)) ∧ gi.Nodup ∧
    gi = (walkSeats s.seatMap.length (handStart s ps)).filterMap (pickAt s.seatMap (partOf ps)) := by
  unfold gameIndexes at h
  simp only [hrule, if_false] at h
  have h0 : 0 ≤ handStart s ps := by
    rcases handStart_nonneg s ps wf with hm | hp
    · exact absurd hm hstart
    · exact hp
  exact collectFrom_exact s.seatMap ps (handStart s ps) h0 hn wf gi h

/-- marking who is dealt in changes nothing else about the players -/
theorem mapM_keeps {β : Type} (g : Player → β) (hg : ∀ p a, g { p with participated := a } = g p)
    (sm : SM.State) (ps ps' : List Player)
    (h : ps.mapM (fun p => (SM.isActive sm p.id).map (fun a => { p with participated := a })) = some ps') :
    ps'.map g = ps.map g := by
  induction ps generalizing ps' with
  | nil => simp at h; subst h; simp
  | cons p t ih =>
    rw [List.mapM_cons] at h
    cases ha : SM.isActive sm p.id with
    | none => simp [ha] at h
    | some a =>
      cases ht : t.mapM (fun p => (SM.isActive sm p.id).map (fun a => { p with participated := a })) with
      | none => simp [ha, ht] at h
      | some t' =>
        simp [ha, ht] at h
        subst h
        simp [hg, ih t' ht]

/-- an `openGame` that succeeds: the three stages and their results -/
theorem openTable_opened_shape (s : State) (sm : SM.State) (h : (openTable s sm).2 = .opened) :
    ∃ ps gi ps2,
      s.players.mapM (fun p => (SM.isActive sm p.id).map (fun a => { p with participated := a })) = some ps ∧
      gameIndexes { s with sm := sm } ps = some gi ∧ assignPositions sm ps = some ps2 ∧
      openTable s sm = (openedState s sm ps2 gi, .opened) := by
  unfold openTable at h ⊢
  cases hm : s.players.mapM (fun p => (SM.isActive sm p.id).map (fun a => { p with participated := a })) with
  | none => simp [hm] at h
  | some ps =>
    simp only [hm] at h ⊢
    cases hgi : gameIndexes { s with sm := sm } ps with
    | none => simp [hgi] at h
    | some gi =>
      simp only [hgi] at h ⊢
      cases hap : assignPositions sm ps with
      | none => simp [hap] at h
      | some ps2 => exact ⟨ps, gi, ps2, rfl, hgi, hap, by simp [hgi, hap]⟩

theorem handStart_congr (s : State) (ps ps' : List Player)
    (h : ps'.map (fun p => (p.participated, p.seat)) = ps.map (fun p => (p.participated, p.seat))) :
    handStart s ps' = handStart s ps := by
  have key : ∀ x : Int, ps'.any (fun p => p.participated && p.seat == x) = ps.any (fun p => p.participated && p.seat == x) := by
    intro x
    have e1 : ps'.any (fun p => p.participated && p.seat == x) =
        (ps'.map (fun p => (p.participated, p.seat))).any (fun q => q.1 && q.2 == x) := by
      rw [List.any_map]; rfl
    have e2 : ps.any (fun p => p.participated && p.seat == x) =
        (ps.map (fun p => (p.participated, p.seat))).any (fun q => q.1 && q.2 == x) := by
      rw [List.any_map]; rfl
    rw [e1, e2, h]
  unfold handStart
  simp only [key]

end TB
