import PokerVerif.MG
import PokerVerif.Drv.Parse
/-! Replay of manager traces (`mg` lines of the harness's mgr mode): the registry model `MG.call` vs. the real
`pokertable.Manager`; monitors of C17.  The engine behind each registered table is an oracle here (its answer is the
observed result class); what the *engine* must answer is decided by the TB / HD replays of the same run. -/
namespace Drv
open MG

structure MGDrv where
  reg : Reg Unit := { tables := [] }
  names : List String := []          -- table-id strings, interned: position = numeric id
  cnt : Counter := {}
  classes : Counter := {}
  mismatches : Nat := 0
  active : Bool := false

def MGDrv.intern (d : MGDrv) (id : String) : MGDrv × Nat :=
  match d.names.findIdx? (· == id) with
  | some i => (d, i)
  | none => ({ d with names := d.names ++ [id] }, d.names.length)

/-- the engine as an oracle: the operation carries the answer the real engine gave -/
def oracleStep (_e : Unit) (op : String × String) : Unit × String := ((), op.2)

def mgLine (d : MGDrv) (lineNo : Nat) (ts : List String) : MGDrv × List String :=
  let viol (d : MGDrv) (vs : List String) : MGDrv × List String :=
    ({ d with classes := vs.foldl (fun c v => c.bump v) d.classes }, vs.map (fun c => s!"MONITOR {c} layer=mg hist=0 line={lineNo}"))
  let (pre, post) := splitBar ts
  match pre with
  | "new" :: _ => ({ d with reg := { tables := [] }, names := [], active := true, cnt := d.cnt.bump "runs" }, [])
  | "end" :: _ => ({ d with active := false }, [])
  | "reset" :: _ => ({ d with reg := { tables := [] }, cnt := d.cnt.bump "reset" }, [])
  | "store" :: rest =>
    match kv rest "t" with
    | some id =>
      let (d, n) := d.intern id
      ({ d with reg := store d.reg n (), cnt := d.cnt.bump "store" }, [])
    | none => (d, [s!"BADLINE {lineNo} mg-store"])
  | "call" :: rest =>
    match kv rest "t", kv rest "name", kv post "res", (kv post "twin").bind boolOf with
    | some id, some name, some res, some twinSame =>
      let (d, n) := d.intern id
      let wasKnown := (lookup d.reg n).isSome
      let (reg', out) := call oracleStep (fun op => op.1) (fun r => r != "ok") d.reg n (name, res)
      let d := { d with reg := reg', cnt := ((d.cnt.bump "calls").bump ("m." ++ name)).bump (if wasKnown then "to-registered" else "to-unknown") }
      let vTwin := if twinSame then [] else ["C17.other-table-changed"]
      let vName := if known name then [] else ["C17.method-not-in-the-regenerated-forwarding-table"]
      match out with
      | .notFound =>
        if res == "notfound" then
          let (d, o) := viol d (vTwin ++ vName)
          ({ d with cnt := d.cnt.bump "notfound" }, o)
        else
          let (d, o) := viol d (["C17.unknown-or-forgotten-table-not-refused"] ++ vTwin ++ vName)
          ({ d with mismatches := d.mismatches + 1 },
           [s!"MISMATCH mg hist=0 line={lineNo} table {id} is not registered (never created, closed or released): model=table-not-found impl={res}"] ++ o)
      | .result _ =>
        if res == "notfound" then
          let (d, o) := viol d (["C17.registered-table-not-served"] ++ vTwin ++ vName)
          ({ d with mismatches := d.mismatches + 1 },
           [s!"MISMATCH mg hist=0 line={lineNo} table {id} is registered: model=forwarded impl=table-not-found"] ++ o)
        else
          let (d, o) := viol d (vTwin ++ vName)
          ({ d with cnt := d.cnt.bump (if deletes name && res == "ok" then "forgotten" else "forwarded") }, o)
    | _, _, _, _ => (d, [s!"BADLINE {lineNo} mg-call"])
  | _ => (d, [s!"BADLINE {lineNo} unknown-mg-op"])

def MGDrv.summary (d : MGDrv) : List String :=
  [s!"SUMMARY mg mismatches={d.mismatches} {d.cnt.render}", s!"CLASSES mg {d.classes.render}"]

end Drv
