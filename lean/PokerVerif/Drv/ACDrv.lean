import PokerVerif.AC
import PokerVerif.Drv.HDDrv
/-! Replay of actor traces: `AC` model vs. the real bot / player / observer runners and adapter; monitors of C18 C19 C20. -/
namespace Drv
open HD AC

/-- does an observed call `kind:arg` fall into a modelled move? -/
def moveMatches (m : Move) (kind : String) (arg : Int) : Bool :=
  match m with
  | .pay c => kind == "pay" && arg == c
  | .bet lo hi => kind == "bet" && decide (lo ≤ arg) && decide (arg ≤ hi)
  | .raise lo hi => kind == "raise" && decide (lo ≤ arg) && decide (arg ≤ hi)
  | m => m.kind == kind

def parseCall (s : String) : Option (String × Int) :=
  match s.splitOn ":" with
  | [k, a] => (a.toInt?).map (fun a => (k, a))
  | _ => none

def parsePriv (ts : List String) : Option Priv := do
  let ev ← kv ts "ev"
  let deck ← kvNat ts "deck"
  let burned ← kvNat ts "burned"
  let holes ← (dashList ((kv ts "holes").getD "-") ",").mapM (fun c => match c.splitOn ":" with
    | [_, n, f, cb] => do pure ((← boolOf f), List.replicate (← n.toNat?) "c", (← boolOf cb))
    | _ => none)
  pure { event := ev, deck := List.replicate deck "d", burned := List.replicate burned "b", holes := holes }

def privCounts (p : Priv) : Nat × Nat × List (Bool × Nat × Bool) :=
  (p.deck.length, p.burned.length, p.holes.map (fun h => (h.1, h.2.1.length, h.2.2)))

structure ACDrv where
  hist : Nat := 0
  kind : String := ""
  botMem : List (Nat × BotMem) := []
  cnt : Counter := {}
  classes : Counter := {}
  mismatches : Nat := 0

def getMem (l : List (Nat × BotMem)) (id : Nat) : BotMem := match l.find? (·.1 == id) with | some e => e.2 | none => {}
def setMem (l : List (Nat × BotMem)) (id : Nat) (m : BotMem) : List (Nat × BotMem) :=
  if l.any (·.1 == id) then l.map (fun e => if e.1 == id then (id, m) else e) else l ++ [(id, m)]

def acLine (d : ACDrv) (lineNo : Nat) (ts : List String) : ACDrv × List String :=
  let viol (d : ACDrv) (vs : List String) : ACDrv × List String :=
    ({ d with classes := vs.foldl (fun c v => c.bump v) d.classes }, vs.map (fun c => s!"MONITOR {c} layer=ac hist={d.hist} line={lineNo}"))
  let mism (d : ACDrv) (msg : String) : List String := [s!"MISMATCH ac hist={d.hist} line={lineNo} {msg}"]
  let (pre, post) := splitBar ts
  match pre with
  | "new" :: rest =>
    ({ d with hist := (kvNat rest "h").getD (d.hist + 1), kind := (kv rest "kind").getD "", botMem := [], cnt := d.cnt.bump "histories" }, [])
  | "end" :: _ => (d, [])
  | "bothand" :: rest =>
    let ok := (kv rest "settled").getD "0" == "1"
    let (d, out) := viol d (if ok then [] else ["C18.all-bot-hand-did-not-reach-settlement"])
    ({ d with cnt := d.cnt.bump (if ok then "bothands.settled" else "bothands.stuck") }, out)
  | "bot" :: rest =>
    match kvNat rest "id", (kv rest "seated").bind boolOf, (kv rest "in").bind boolOf, kv rest "st", kvInt rest "gi", kv post "move", kv post "res" with
    | some id, some atTable, some isIn, some st, some gi, some mv, some res =>
      let v : Option View := if rest.contains "-" && (kv rest "ev").isNone then none else parseView rest
      let g : Option Nat := if gi < 0 then none else some gi.toNat
      let (reacts, mem') := botReacts (getMem d.botMem id) atTable isIn (st == "playing") v g
      let d := { d with botMem := setMem d.botMem id mem', cnt := d.cnt.bump "bot.updates" }
      let d := if v.isNone && st == "playing" then { d with cnt := d.cnt.bump "bot.playing-table-without-a-hand-state" } else d
      if mv.startsWith "panic" then
        -- the runner died on this view (D34: a table that says playing and carries no hand state yet)
        let (d, o) := viol d [if reacts then "C18.bot-crashed-instead-of-acting" else "C18.bot-crashed-on-a-view-it-is-not-asked-in"]
        ({ d with mismatches := d.mismatches + 1 }, mism d s!"bot model-reacts={reacts} impl=panic" ++ o)
      else
      if mv == "none" then
        if reacts then
          let (d, o) := viol d ["C18.bot-silent-although-asked"]
          ({ d with mismatches := d.mismatches + 1 }, mism d "bot model=acts impl=silent" ++ o)
        else (d, [])
      else
        let multi := (mv.splitOn "+").length > 1
        let first := (mv.splitOn "+").head!
        match parseCall first, v, g with
        | some (k, a), some vv, some gg =>
          let allowedMoves := botMoves vv gg
          let inSet := allowedMoves.any (fun m => moveMatches m k a)
          let accepted := res == "ok"
          -- the contract side: would pokerface accept this?
          let pfOK := match vv.players[gg]? with
            | some p => if wagerKinds.contains k then PF.accepts vv p k a else true
            | none => false
          let vs :=
            (if !reacts then ["C18.bot-acted-although-not-asked-or-on-a-stale-view"] else []) ++
            (if multi then ["C18.bot-made-more-than-one-move"] else []) ++
            (if !accepted then ["C18.bot-move-rejected-by-the-engine"] else []) ++
            (if !inSet then ["C18.bot-move-outside-the-modelled-set"] else []) ++
            (if reacts && inSet && !pfOK then ["CONTRACT.modelled-bot-move-not-accepted-by-PF.accepts"] else [])
          let (d, o) := viol d vs
          let d := { d with cnt := (d.cnt.bump "bot.moves").bump ("bot." ++ k) }
          if reacts && inSet then (d, o)
          else ({ d with mismatches := d.mismatches + 1 }, mism d s!"bot move={mv} reacts={reacts} model-moves={repr allowedMoves}" ++ o)
        | _, _, _ =>
          let (d, o) := viol d ["C18.bot-acted-although-not-asked-or-on-a-stale-view"]
          ({ d with mismatches := d.mismatches + 1 }, mism d s!"bot move={mv} without a hand view" ++ o)
    | _, _, _, _, _, _, _ => (d, [s!"BADLINE {lineNo} ac-bot"])
  | "botcase" :: rest =>
    -- a fresh bot shown one state in which it is asked (stack on an edge of its amount logic): exactly one modelled, legal move
    match kvInt rest "gi", parseView rest, kv post "move" with
    | some gi, some v, some mv =>
      let g := gi.toNat
      let moves := botMoves v g
      let d := { d with cnt := (d.cnt.bump "botcases").bump ("botcase." ++ (kv rest "edge").getD "?") }
      if mv.startsWith "panic" then
        let (d, o) := viol d ["C18.bot-crashed-instead-of-acting"]
        ({ d with mismatches := d.mismatches + 1 }, mism d s!"botcase model-moves={repr moves} impl={mv}" ++ o)
      else if mv == "none" then
        if moves.isEmpty then (d, [])
        else
          let (d, o) := viol d ["C18.bot-silent-although-asked"]
          ({ d with mismatches := d.mismatches + 1 }, mism d s!"botcase model-moves={repr moves} impl=silent" ++ o)
      else
        let multi := (mv.splitOn "+").length > 1
        match parseCall ((mv.splitOn "+").head!) with
        | some (k, a) =>
          let inSet := moves.any (fun m => moveMatches m k a)
          let legal := match v.players[g]? with
            | some p => if wagerKinds.contains k then PF.accepts v p k a else p.allowed.contains k
            | none => false
          let vs := (if multi then ["C18.bot-made-more-than-one-move"] else []) ++
                    (if inSet then [] else ["C18.bot-move-outside-the-modelled-set"]) ++
                    (if legal then [] else ["C18.bot-move-not-acceptable-to-the-hand-engine"])
          let (d, o) := viol d vs
          let d := { d with cnt := d.cnt.bump ("botcase.move." ++ k) }
          if inSet then (d, o) else ({ d with mismatches := d.mismatches + 1 }, mism d s!"botcase move={mv} model-moves={repr moves}" ++ o)
        | none => (d, [s!"BADLINE {lineNo} ac-botcase-move"])
    | _, _, _ => (d, [s!"BADLINE {lineNo} ac-botcase"])
  | "player" :: rest =>
    match kv rest "status", kvInt rest "atime", (kv rest "waited").bind boolOf, kv rest "st", kvInt rest "gi", parseView rest, kv post "call", kvInt post "delay_ms" with
    | some status, some atime, some waited, some st, some gi, some v, some call, some delay =>
      -- a path of idle reports / suspensions / come-backs before the request: where it leaves the player is the model's
      -- status machine's to say
      let pst : PStatus := match kv rest "pre" with
        | some path => (pRun {} path.toList).status
        | none => if status == "suspend" then .suspend else if status == "idle" then .idle else .running
      let asked := st == "playing" && gi ≥ 0 && (match v.players[gi.toNat]? with | some p => !p.allowed.isEmpty | none => false)
      let plan : Plan := if asked then requestMove pst atime v gi.toNat else .nothing
      -- what the runner should have done, as a string comparable with the observation
      let expect : String × Bool :=    -- (call, delayed)
        match plan with
        | .now m => (match m with | .pay c => s!"pay:{c}" | m => s!"{m.kind}:0", false)
        | .after secs m =>
          if secs == 0 then (match m with | some (.pay c) => s!"pay:{c}" | some m => s!"{m.kind}:0" | none => "none", false)
          else if !waited then ("none", false)     -- the time bank is armed; nothing may happen at once
          else (match m with | some (.pay c) => s!"pay:{c}" | some m => s!"{m.kind}:0" | none => "none", true)
        | .nothing => ("none", false)
      let callKind := (call.splitOn ":").head!
      let vs :=
        (if ["call", "bet", "raise", "allin"].contains callKind || (callKind == "early" && ["call", "bet", "raise", "allin"].contains ((call.splitOn ":").getD 1 "")) then ["C19.auto-play-volunteered-chips"] else []) ++
        (if callKind == "early" then ["C19.auto-play-acted-before-the-thinking-time-elapsed"] else []) ++
        -- pass when that is the option: at once, whatever the player's status
        (if asked && gi ≥ 0 && v.hasAction gi.toNat "pass" && call != "pass:0" then ["C19.pass-not-made-although-it-is-the-option"] else []) ++
        -- a payment is the posted size of the running hand (ante / this position's blind), whatever the table's level is now
        (let payArg : Option Int := match call.splitOn ":" with
            | ["pay", a] => a.toInt?
            | ["early", "pay", a] => a.toInt?
            | _ => none
         match payArg with
         | some a => if gi ≥ 0 && posted v gi.toNat == some a then [] else ["C19.auto-play-paid-other-than-the-posted-size"]
         | none => []) ++
        (if expect.2 && call != "none" && callKind != "early" && delay < atime * 1000 - 50 then ["C19.auto-play-acted-before-the-thinking-time-elapsed"] else [])
      let (d, o) := viol d vs
      let d := { d with cnt := (((d.cnt.bump "player.cases").bump (if (kv rest "pre").isSome then "player.status-path" else "player.status-direct")).bump (if (kv rest "lvlup").getD "0" == "1" then "player.level-changed-mid-hand" else "player.level-unchanged")).bump ("player." ++ (if expect.1 == "none" then "none" else if expect.1 == "armed" then "armed" else (expect.1.splitOn ":").head!)) }
      if call == expect.1 then (d, o)
      else ({ d with mismatches := d.mismatches + 1 }, mism d s!"player-runner status={status} at={atime} model={expect.1} impl={call}" ++ o)
    | _, _, _, _, _, _, _, _ => (d, [s!"BADLINE {lineNo} ac-player"])
  | "player-nostate" :: _ =>
    -- a table that says playing, lists the player among the hand's players and carries no hand state yet (D34): nothing to
    -- act on — `requestMove` is called only with a hand state in which the player has allowed actions
    let d := { d with cnt := d.cnt.bump "player.playing-table-without-a-hand-state" }
    match kv post "call" with
    | some "none" => (d, [])
    | some "panic" => viol d ["C19.runner-crashed-on-a-playing-table-without-a-hand-state"]
    | some _ => viol d ["C19.auto-play-acted-without-a-hand-state"]
    | none => (d, [s!"BADLINE {lineNo} ac-player-nostate"])
  | "observe" :: rest =>
    match (kv rest "sys").bind boolOf, parsePriv rest with
    | some sys, some inP =>
      let d := { d with cnt := (d.cnt.bump "observer.cases").bump ("observer.st." ++ (kv rest "st").getD "?") }
      let same := (kv post "engine_same").getD "0" == "1"
      let others := (kv post "others_same").getD "0" == "1"
      let distinct := (kv post "distinct").getD "0" == "1"
      let vIso := (if same then [] else ["C20.engine-table-changed-through-an-actor"]) ++
                  (if others && distinct then [] else ["C20.actors-share-table-state"])
      match parsePriv post with
      | some outP =>
        let model := observerView sys (some inP)
        let corr := (model.map privCounts) == some (privCounts outP)
        -- the property itself, on what the observer was shown
        let hidden := sys ||
          (outP.deck.isEmpty && outP.burned.isEmpty &&
           (if outP.event == "GameClosed" then outP.holes.all (fun h => !h.1 || (h.2.1.isEmpty && !h.2.2))
            else outP.holes.all (fun h => h.2.1.isEmpty && !h.2.2)))
        let (d, o) := viol d ((if hidden then [] else ["C20.observer-shown-hidden-cards"]) ++ vIso)
        if corr then (d, o) else ({ d with mismatches := d.mismatches + 1 }, mism d s!"observer sys={sys} model={repr (model.map privCounts)} impl={repr (privCounts outP)}" ++ o)
      | none =>
        let (d, o) := viol d vIso
        ({ d with mismatches := d.mismatches + 1 }, mism d "observer callback not invoked or no hand state shown" ++ o)
    | _, _ => (d, [s!"BADLINE {lineNo} ac-observe"])
  | "deliver" :: rest =>
    -- k goroutines hand one actor a table at the same moment: its runner sees every one of them, one at a time
    let k := (kvNat rest "k").getD 0
    let handled := (kvNat post "handled").getD 0
    let overlap := (kvNat post "overlap").getD 0
    let d := { d with cnt := d.cnt.bump "actor.simultaneous-deliveries" }
    viol d ((if handled == k then [] else ["C18.delivery-to-a-busy-actor-dropped"]) ++
            (if overlap ≤ 1 then [] else ["C18.deliveries-to-one-actor-overlap"]))
  | "observe-overlap" :: _ =>
    -- several table events reach one adapter at once while the non-system observer's listener dwells: every snapshot the
    -- listener is handed must be a filtered one
    let d := { d with cnt := d.cnt.bump "observer.overlapping-deliveries" }
    match parsePriv post with
    | some outP =>
      let hidden := outP.deck.isEmpty && outP.burned.isEmpty &&
        (if outP.event == "GameClosed" then outP.holes.all (fun h => !h.1 || (h.2.1.isEmpty && !h.2.2))
         else outP.holes.all (fun h => h.2.1.isEmpty && !h.2.2))
      viol d (if hidden then [] else ["C20.observer-shown-hidden-cards"])
    | none => (d, [])
  | "observe-late" :: _ =>
    -- a listener registered on an observer that has just been taken out of system mode: what it is handed (if anything)
    let d := { d with cnt := d.cnt.bump "observer.late-listener" }
    match parsePriv post with
    | some outP =>
      let hidden := outP.deck.isEmpty && outP.burned.isEmpty &&
        (if outP.event == "GameClosed" then outP.holes.all (fun h => !h.1 || (h.2.1.isEmpty && !h.2.2))
         else outP.holes.all (fun h => h.2.1.isEmpty && !h.2.2))
      viol d (if hidden then [] else ["C20.observer-shown-hidden-cards"])
    | none => (d, [])
  | _ => (d, [s!"BADLINE {lineNo} unknown-ac-op"])

def ACDrv.summary (d : ACDrv) : List String :=
  [s!"SUMMARY ac mismatches={d.mismatches} {d.cnt.render}", s!"CLASSES ac {d.classes.render}"]

end Drv
